#!/bin/bash
# ./benigncheck.sh <patch.diff> [label]  — apply a behaviour-preserving patch to a scratch copy of /repo, confirm it builds and the
# existing suite passes, then run all 20 quick checks on the patched copy: every check must stay silent (exit 0).
# SUITE=0 skips the suite run.
set -uo pipefail
cd "$(dirname "$0")"; . ./env.sh
./trimcache.sh
exec 9>/tmp/kmipsa-gocache.lock; flock -s 9   # compiling: the build cache must not be dropped meanwhile
P=$(readlink -f "$1"); L=${2:-$(basename "$(dirname "$P")")}
WT=/tmp/benignchk/$L-$$
rm -rf "$WT"; mkdir -p /tmp/benignchk; rsync -a --exclude .git /repo/ "$WT/"
trap 'rm -rf "$WT" /tmp/benignchk/out-$L-$$' EXIT
( cd "$WT" && git init -q . && { git apply --whitespace=nowarn "$P" || patch -p1 -s -F3 --no-backup-if-mismatch < "$P"; } ) 2>/tmp/benignchk/$L.apply.err || { echo "$L: APPLY FAILED $(head -c 200 /tmp/benignchk/$L.apply.err)"; exit 3; }
rm -rf "$WT/.git"
(cd "$WT" && go build ./... 2>&1 | tail -3) | grep -q . && { echo "$L: BUILD FAILED"; exit 3; }
if [ "${SUITE:-1}" = 1 ]; then
  (cd "$WT" && go test -vet=off -count=1 ./... >/tmp/benignchk/$L.suite.log 2>&1) || { echo "$L: SUITE FAILED: $(grep -m3 -- '--- FAIL' /tmp/benignchk/$L.suite.log | tr '\n' ' ')"; }
fi
alarms=""
run1() { local c=$1; VERIF_REPO="$WT" ${KMIPSA:-bin/kmipsa} -repo "$WT" -verif "$PWD" -outdir /tmp/benignchk/out-$L-$$/$c -prop "$c" -tier quick -evidence /tmp/benignchk/out-$L-$$/$c.json > /tmp/benignchk/$L.$c.log 2>&1; echo "$c $?" ; }
export -f run1; export WT L PWD
res=$(for c in C01 C02 C03 C04 C05 C06 C07 C08 C09 C10 C11 C12 C13 C14 C15 C16 C17 C18 C19 C20; do echo $c; done | xargs -P ${JOBS:-6} -I{} bash -c 'run1 {}')
bad=$(echo "$res" | awk '$2!=0{print $1}' | sort | tr '\n' ' ')
if [ -z "$bad" ]; then echo "$L: silent (20/20)"; else
  echo "$L: ALARM in $bad"
  for c in $bad; do grep -m4 'kind=' /tmp/benignchk/$L.$c.log | cut -c1-400 | sed "s/^/    /"; grep -q 'kind=' /tmp/benignchk/$L.$c.log || tail -3 /tmp/benignchk/$L.$c.log | cut -c1-300 | sed "s/^/    /"; done
fi
