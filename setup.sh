#!/bin/bash
# Builds the analyser from /verif/sa only, offline.
set -euo pipefail
cd "$(dirname "$0")"
. ./env.sh
mkdir -p bin out evidence
(cd sa && go build -o ../bin/kmipsa .)
echo "kmipsa built: $(./bin/kmipsa -h 2>&1 | head -1 || true)"
