#!/bin/bash
# ./mutants.sh <ID> [jobs]  — applies every sa/mutants/<ID>/*.patch to a scratch copy of /repo (outside /repo and
# /verif), runs the quick check on the copy in a separate process and records whether the rule named in the patch
# header ("# expect: <text>") fired. Evidence only: never changes the verdict on /repo. Writes out/<ID>.mutants.json.
set -uo pipefail
cd "$(dirname "$0")"
./trimcache.sh
exec 9>/tmp/kmipsa-gocache.lock; flock -s 9   # compiling: the build cache must not be dropped meanwhile
. ./env.sh
ID=${1:?property id}; JOBS=${2:-8}
REPO=${VERIF_REPO:-/repo}
DIR=sa/mutants/$ID
mkdir -p out
OUT=$PWD/out/$ID.mutants.json
shopt -s nullglob
PATCHES=($DIR/*.patch)
if [ ${#PATCHES[@]} -eq 0 ]; then echo '{"total":0,"killed":0,"results":[]}' > "$OUT"; exit 0; fi
SCRATCH=$(mktemp -d /tmp/kmipsa-mut.XXXXXX)
trap 'rm -rf "$SCRATCH"' EXIT
run_one() {
  local patch=$1 name; name=$(basename "$patch" .patch)
  local work=$SCRATCH/$name
  mkdir -p "$work"
  rsync -a --exclude .git --exclude 'kmiptest/testdata' "$REPO"/ "$work/repo/"
  local expect; expect=$(grep -m1 '^# expect:' "$patch" | sed 's/^# expect: *//')
  local status detail
  if ! (cd "$work/repo" && patch -p1 -s --no-backup-if-mismatch < "$OLDPWD/$patch" >/dev/null 2>&1); then
    status=skipped; detail="patch does not apply to the current tree"
  elif ! (cd "$work/repo" && go build ./... >/dev/null 2>"$work/build.err"); then
    status=skipped; detail="mutant does not compile: $(head -c 300 "$work/build.err" | tr '\n"' ' .')"
  else
    ${KMIPSA:-bin/kmipsa} -repo "$work/repo" -verif "$PWD" -outdir "$work/out" -prop "$ID" -tier quick -evidence "$work/ev.json" > "$work/log" 2>&1
    local rc=$?
    grep 'kind=' "$work/log" > "$work/diag" || true
    if [ $rc -eq 1 ] && grep -qF -- "$expect" "$work/diag"; then status=killed; detail=$(grep -F -- "$expect" "$work/diag" | head -1 | tr '"' "'" | cut -c1-300)
    elif [ $rc -eq 1 ]; then status=fired-elsewhere; detail=$(head -2 "$work/diag" | tr '\n"' " '" | cut -c1-300)
    else status=survived; detail="check exited $rc"; fi
  fi
  printf '{"mutant":"%s","expect":"%s","status":"%s","detail":"%s"}\n' "$name" "$(echo "$expect" | tr '"' "'")" "$status" "$(echo "$detail" | tr '\\' '/')" > "$work/result.json"
  rm -rf "$work/repo"
}
export -f run_one; export SCRATCH REPO ID
printf '%s\n' "${PATCHES[@]}" | xargs -P "$JOBS" -I{} bash -c 'run_one {}'
python3 - "$SCRATCH" "$OUT" <<'PY'
import json,glob,sys
res=[json.load(open(f)) for f in sorted(glob.glob(sys.argv[1]+'/*/result.json'))]
json.dump({"total":len(res),"killed":sum(r["status"]=="killed" for r in res),"results":res},open(sys.argv[2],'w'),indent=1)
for r in res: print(f'  mutant {r["mutant"]}: {r["status"]} — {r["detail"][:160]}')
PY
