#!/bin/bash
# ./trimcache.sh [limit_gb] — every scratch copy of /repo is compiled under a new path, so the Go build cache grows by
# roughly 1 GB per analysed variant; drop it when it exceeds the limit (default 40 GB). Safe: it is only a cache.
# The corpus scripts hold a shared lock on /tmp/kmipsa-gocache.lock while they compile; the cache is dropped only when
# nobody does (a cache emptied under a running compiler makes that compile fail), or — at three times the limit —
# after waiting for them.
cd "$(dirname "$0")"; . ./env.sh
LIM=${1:-40}
D=$(go env GOCACHE 2>/dev/null)
[ -d "$D" ] || exit 0
SZ=$(du -s --block-size=1G "$D" 2>/dev/null | awk '{print $1}')
if [ "${SZ:-0}" -ge "$LIM" ]; then
  exec 9>/tmp/kmipsa-gocache.lock
  if flock -n -x 9 || { [ "$SZ" -ge $((3*LIM)) ] && flock -x -w 900 9; }; then go clean -cache; fi
fi
exit 0
