#!/bin/bash
# ./trimcache.sh [limit_gb] — every scratch copy of /repo is compiled under a new path, so the Go build cache grows by
# roughly 1 GB per analysed variant; drop it when it exceeds the limit (default 40 GB). Safe: it is only a cache.
cd "$(dirname "$0")"; . ./env.sh
LIM=${1:-40}
D=$(go env GOCACHE 2>/dev/null)
[ -d "$D" ] || exit 0
SZ=$(du -s --block-size=1G "$D" 2>/dev/null | awk '{print $1}')
if [ "${SZ:-0}" -ge "$LIM" ]; then go clean -cache; fi
exit 0
