#!/bin/bash
# ./benign.sh <ID> [jobs]  — applies every behaviour-preserving patch of benign/cases/ to a scratch copy of /repo (outside
# /repo and /verif) and runs the quick check of property <ID> on the copy: the check must stay silent (exit 0).
# Evidence about the checker only: never changes the verdict on /repo. Writes out/<ID>.benign.json.
set -uo pipefail
cd "$(dirname "$0")"
./trimcache.sh
exec 9>/tmp/kmipsa-gocache.lock; flock -s 9   # compiling: the build cache must not be dropped meanwhile
. ./env.sh
ID=${1:?property id}; JOBS=${2:-8}
REPO=${VERIF_REPO:-/repo}
mkdir -p out
OUT=$PWD/out/$ID.benign.json
shopt -s nullglob
PATCHES=(benign/cases/*.patch)
if [ ${#PATCHES[@]} -eq 0 ]; then echo '{"total":0,"silent":0,"results":[]}' > "$OUT"; exit 0; fi
SCRATCH=$(mktemp -d /tmp/kmipsa-ben.XXXXXX)
trap 'rm -rf "$SCRATCH"' EXIT
run_one() {
  local patch=$1 name; name=$(basename "$patch" .patch)
  local work=$SCRATCH/$name
  mkdir -p "$work"
  rsync -a --exclude .git --exclude 'kmiptest/testdata' "$REPO"/ "$work/repo/"
  local status detail=""
  if ! (cd "$work/repo" && patch -p1 -s -F3 --no-backup-if-mismatch < "$OLDPWD/$patch" >/dev/null 2>&1); then
    status=skipped; detail="patch does not apply to the current tree"
  elif ! (cd "$work/repo" && go build ./... >/dev/null 2>"$work/build.err"); then
    status=skipped; detail="does not compile on the current tree"
  else
    ${KMIPSA:-bin/kmipsa} -repo "$work/repo" -verif "$PWD" -outdir "$work/out" -prop "$ID" -tier quick -evidence "$work/ev.json" > "$work/log" 2>&1
    local rc=$?
    if [ $rc -eq 0 ]; then status=silent; else status=alarm; detail=$(grep -m2 'kind=' "$work/log" | tr '\n"\\' " '/" | cut -c1-300); fi
  fi
  printf '{"case":"%s","status":"%s","detail":"%s"}\n' "$name" "$status" "$detail" > "$work/result.json"
  rm -rf "$work/repo"
}
export -f run_one; export SCRATCH REPO ID
printf '%s\n' "${PATCHES[@]}" | xargs -P "$JOBS" -I{} bash -c 'run_one {}'
python3 - "$SCRATCH" "$OUT" <<'PY'
import json,glob,sys
res=[json.load(open(f)) for f in sorted(glob.glob(sys.argv[1]+'/*/result.json'))]
json.dump({"total":len(res),"silent":sum(r["status"]=="silent" for r in res),"alarms":[r for r in res if r["status"]=="alarm"],"skipped":sum(r["status"]=="skipped" for r in res)},open(sys.argv[2],'w'),indent=1)
for r in res:
    if r["status"]!="silent": print(f'  benign {r["case"]}: {r["status"]} — {r["detail"][:200]}')
print(f'  benign corpus: {sum(r["status"]=="silent" for r in res)}/{len(res)} silent')
PY
