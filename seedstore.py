#!/usr/bin/env python3
"""seedstore.py <PROP> <variant> <detected_by or '-'> <needs...>  — keep a confirmed seeded change under /verif/seeded/<PROP>-<variant>/"""
import sys, os, shutil, json, subprocess
prop, var, det = sys.argv[1:4]
needs = ' '.join(sys.argv[4:])
src = f'/tmp/seed-out/{prop}/{var}'
dst = f'/verif/seeded/{prop}-{var}'
os.makedirs(dst, exist_ok=True)
for f in ('patch.diff', 'demo_test.go', 'NOTES.md'):
    if os.path.exists(f'{src}/{f}'):
        shutil.copy(f'{src}/{f}', f'{dst}/{f}')
head = subprocess.run(['git', '-C', '/repo', 'rev-parse', '--short', 'HEAD'], capture_output=True, text=True).stdout.strip()
meta = {
    "property": prop,
    "variant": var,
    "breaks": open(f'/tmp/seed-out/{prop}.property.txt').read().split('\n')[0],
    "needs_to_manifest": needs,
    "author": "independent sub-agent given only the property text and a scratch worktree of /repo",
    "confirmed_by": f"./seedcheck.sh {prop} {var} at /repo {head}: patch applies, go build ./... ok, existing suite passes with the change, demo_test.go fails with the change and passes without it",
    "detected_by": [] if det == '-' else det.split(','),
    "apply": "git -C /repo apply seeded/%s-%s/patch.diff ; run checks ; git -C /repo checkout -- ." % (prop, var),
}
json.dump(meta, open(f'{dst}/meta.json', 'w'), indent=1)
print('stored', dst, 'detected_by', meta['detected_by'])
