#!/usr/bin/env python3
"""Generates MANIFEST.json from the table below (kept next to the checks so the two stay in step)."""
import json, sys

BASELINE_OFF = "cd /repo && go test -mod=mod -vet=off -count=1 -timeout 25m ./..."

NOTE = ("Trusted base: go/types (type checking and constant evaluation), golang.org/x/tools go/packages + go/ssa + VTA call graph "
        "(over-approximate for reachability), the models M1/M2 of the reflective registry/codec (their assumptions are re-probed "
        "structurally on every run; a failed probe makes the check fail as UNDECIDED), and the reference tables under /verif/ref. "
        "The check decides the named structural clauses only; the value-level remainder listed in the evidence under not_covered is not claimed.")

CLAIMED = {
 "C09": dict(level="other",
   technique="static analysis: dominance and path counting on the SSA of BatchExecutor.handleRequest/executeItem and the error mappers (validation-dominates-execution, one store per response slot per loop path, echo dataflow, stop-flag phi analysis)",
   text="Decides the batch semantics structurally for every batch: the only call of the item executor is dominated by the passing edges of the version, Undo and batch-count checks, each failing edge returning an error that becomes a single failed item; the response slice is sized by and indexed over the request's items with exactly one store per slot on every loop path and no append; stored items echo Operation and UniqueBatchItemID from req.BatchItem[i]; one executor call per iteration and at most one handler invocation per execution; the stop flag becomes true only under (OperationFailed and Stop), is never reset, gates execution, and skipped items are reported failed; every non-nil error is mapped to OperationFailed. Comparison with an executable reference model over all batches is not performed.",
   ref="§4 C09"),
 "C15": dict(level="other",
   technique="static analysis: ownership/escape analysis of the per-request holder (allowed-use table over every use of *batchData), who-may-access rule on the placeholder field, attach-before-first-stage dominance",
   text="A non-interference argument for repository code: each request allocates a fresh holder with an empty placeholder and enters the middleware/handler chain with the context carrying it; every one of the uses of *batchData in the package is an allocation, the value of context.WithValue, the comma-ok read back from the context, a field access or a nil test — it is never stored, sent, captured by a goroutine or returned, the key type is constructed only in context.go and no package-level variable holds request state; the placeholder field is touched only by its three accessors, a failed item clears it on every error path, and no goroutine is spawned between HandleRequest and the handlers. User handlers that leak their own context are outside.",
   ref="§4 C15"),
 "C20": dict(level="other",
   technique="static analysis: effect analysis — inventory of every package-level variable of the codec packages with all its writers, who-may-call on Register*, reachability of global writes from the encode/decode entry points, capture analysis of the cached plan closures, publication-completeness of every plan-cache store (no write to a captured cell reachable after the Store), per-call coder construction and Clear completeness",
   text="A non-interference argument for every schedule and history: each of the package-level variables of ttlv, kmip and payloads is written only by init/Register* functions (or is one of the two sync.Map plan caches used only through Load/Store), Register* is called only from init, none of the functions reachable from an encode or decode entry point writes shared state other than the two cache stores, the cached per-type plan closures capture no coder, version state, writer or reader and never store to a captured variable, a plan is stored in the cache only when nothing it captures is written afterwards (so a goroutine that finds the entry during a concurrent first use sees the complete plan), coders and their version state are created per call, and Clear resets the version and every writer field encoding modifies while the binary buffer only grows by appending. With no shared written location there is neither a data race nor a dependence on call history. Byte-equality across processes is implied, not measured.",
   ref="§4 C20"),
 "C14": dict(level="other",
   technique="static analysis: nil-dominance dataflow over every dereference of an optional pointer in the object accessors; path-wise extraction and three-way comparison of the key-format tables (decoder destination, accessor source, builder field); recognition of the 1.3 version switch and of the curve tables; dominating size/sign test in front of every math/big call that panics on the magnitude of its operand",
   text="Decides clause (b) for repository code and the table-agreement part of clause (a): in every accessor each dereference of a pointer loaded from an optional part of a decoded object is dominated by a nil test on the same access path (four nil dereferences on metadata-only or empty key blocks were repaired and are guarded); for each of the 13 key formats the KeyMaterial field the decoder fills is the one each accessor reads and the one each register builder populates with that format constant, on every path of the builders; the builders switch to the unified EC representation exactly at CompareVersions(version, V1_3) >= 0; builder and accessor curve tables are inverse with the right bit lengths; no accessor calls a magnitude-sensitive math/big routine (FillBytes, Div, Mod, ...) without a dominating BitLen/Cmp/Sign test. Mathematical equality of the extracted key (big-integer bytes, DER, curve arithmetic) is value-level and not decided; the planned stdlib-hand-over obligation was dropped as a false alarm (crypto/rsa tolerates nil primes).",
   ref="§4 C14"),
 "C12": dict(level="other",
   technique="static analysis: forbidden-construct rule on unchecked type assertions over server-chosen values in package kmipclient (discharged only through the attribute type table), dominating-length-check rule for batch item indexing, dominance of the Err()==nil edge over success returns, presence of the operation comparison before items are returned",
   text="Decides the structural guards that turn any server response into either the right payload or an error: no panicking type assertion on a payload, object, attribute value or parsed key whose dynamic type the server chooses (three such assertions were repaired; the remaining ones are proven from attrTypes), every constant index into response items is implied by a count check, a payload is returned as success only on the Err()==nil edge of an Err() that reports status, reason and message for every non-success status, and items are returned only after both the item's operation and its payload's operation were compared with the requested one. The enumeration of all response shapes is not performed.",
   ref="§4 C12"),
 "C13": dict(level="other",
   technique="static analysis: value-origin dataflow of every store to Client.version (membership guard by slices.Contains on the client's set), recognition of the maximum-selection idiom, who-stamps-what on request construction",
   text="Decides that whatever a server answers to version discovery, the version stored in the client originates only from candidates taken under a membership test against the client's configured set (or 1.0 under the same test on the discovery-unsupported branch), that the selection keeps the greater by CompareVersions rather than a positional pick (the former serverVersions[0] is repaired and guarded), that the store happens only when a common version exists, that discovery is bypassed exactly when a version is enforced, that every request is built with the adopted version, that the default version list enters a configured set only when that set is empty, and that the library's server answers a discovery-only request whatever version its header announces (without which client and server sets lacking 1.1 could not negotiate — repaired and guarded). The 31x32 table of version sets is not enumerated.",
   ref="§4 C13"),
 "C19": dict(level="other",
   technique="static analysis: discovery of continuation closures over middleware slices; write-after-creation rule on the captured chain position, parameter-forwarding identity, index/continuation/len-guard relations, who-may-write on the chain slices",
   text="Decides ordering and re-entrancy for all three chains and every composition of stages: the position a continuation uses is bound per continuation and never written once it exists (the shared cursor that made a retrying middleware skip inner stages is repaired and guarded), stage and core receive the continuation's own context and message and their results are returned unchanged, stage k gets the continuation for k+1 with the core on the other edge of position < len(chain), chains start at 0, registration appends in order, the chain slices are written only while being registered or constructed and never alias a caller's slice, and the core handler works on the message it is given rather than on a copy of the request saved in the context. User-written stages are outside.",
   ref="§4 C19"),
 "C10": dict(level="other",
   technique="static analysis: who-may-call and lock-bracket dominance on the exchange path of package kmipclient; teardown-before-error-exit dominance after the request hand-off; per-connection ownership of hand-off channels; must-pass-through (Recv, ok edge of the assertion, store) before the read loop's hand-off",
   text="Decides the structural reasons why a caller can only get its own response, for every interleaving at once: an exchange exists only inside doRountrip between Lock and the deferred Unlock of a mutex every constructor creates afresh; once the request has been handed to the connection every error exit of the exchange is dominated by a teardown (the missing teardown when the context ends between send and recv is repaired and guarded), so no connection with a response still in flight is ever reused; channels are created per connection, the old connection is closed before a new one replaces it, send/recv refuse a closed connection, after a completed write send reports nothing derived from the caller's context, and the read loop hands over only the response it has just received (so a server-originated message cannot shift the responses of later calls). Server-side reordering and the end-to-end statement under a real scheduler are not decided.",
   ref="§4 C10"),
 "C11": dict(level="other",
   technique="static analysis: loop-bound recogniser (constant counter, decrement on the single back edge, guard) and retry-set reachability on doRountrip; the C08 channel-discipline rules instantiated for the client connection; goroutine inventory; path rule on doRountrip (re-dial or liveness test before the first exchange), error pass-through of Stream.Recv on the Read error edge, never-nil rule for Client.conn",
   text="Decides the bounded-retry and no-panic/no-leak structure of the client for every fault point: at most four transmissions per call (counter 3, decremented on the only back edge, tested before retrying, one hand-off per send), retry reachable only through errors.Is(err, io.EOF/io.ErrClosedPipe) after closing the old connection, no channel closed under a concurrent sender and a buffered reply channel (both defects repaired and guarded), every blocking channel operation releasable by teardown, a closed client failing with an error outside the retry set, only the two per-connection loops as goroutines, Close marking the connection closed on every path, Stream.Recv handing the transport's end-of-stream error through unchanged to the retry test, a connection torn down by any failure being replaced before the next exchange and Client.conn never being reset to nil (two further defects found this way — no recovery after a connection reset, Close panicking after a failed re-dial — are repaired and guarded). Promptness and recovery against a live server are runtime matters and not decided.",
   ref="§4 C11"),
 "C08": dict(level="other",
   technique="static analysis: channel-discipline rules over the SSA of package kmipserver (close-by-sole-sender, buffered reply hand-off, select-with-Done release of every blocking operation), deferred-recover dominance around handler invocation, path counting of sends in the connection loop, nil-return contract between the batch stages through the call graph",
   text="Decides the structural conditions under which no client behaviour or handler outcome can crash, wedge or leak the server: no channel is closed by anyone but its sole sender (the racy close that crashed the process is repaired and guarded), the per-message reply channel is buffered so the write loop cannot be left blocked, every handler invocation is dominated by a deferred recover() that yields a failed item, each path around the connection loop handles one request and sends exactly one response with no goroutine spawned on the way and a single stream writer (order by construction), an undecodable but framed request gets one Invalid Message response without teardown (and no decode-error sentinel of the codec wraps an error the connection loop takes for a peer close), every blocking channel operation has a <-ctx.Done() alternative with terminate cancelling first, and a pointer result that its caller dereferences without a nil test on the connection goroutine is never the nil constant in any library callee. Deadlock-freedom and liveness under a scheduler are not decided.",
   ref="§4 C08"),
 "C16": dict(level="other",
   technique="static analysis: call-order and dominance checks on Shutdown/Serve/handleConn, WaitGroup accounting (Add before go, deferred Done first, Wait reachable from the deferred Close), goroutine join inventory",
   text="Decides hook pairing and drain structure for every schedule at once: the terminate hook is deferred exactly once, only on the connect hook's success edge and with its context, after which handlers run synchronously in the same function; every connection goroutine is counted before it starts and un-counted by its first deferred call; Shutdown closes the listener, cancels the receive context, arms a 3 s timer that only cancels, waits, then cancels and returns; the loop waits on the receive context and contexts derive from the root; the connection object is closed on every exit of handleConn that follows its creation, and every goroutine the package starts is joined on the way (the missing join of the per-connection loops is repaired and guarded). Timing and per-request outcomes under a real scheduler are not decided.",
   ref="§4 C16"),
 "C04": dict(level="other",
   technique="static analysis: writer/reader lexical agreement rules over the XML/JSON codecs (parse-call base/width dataflow, forbidden Go-quoting in the JSON writer, unit-of-duration and separator/layout sibling checks, non-nil origin analysis of decoded byte strings, use of the sign pad in every big-integer writer, interval arithmetic on the bounds tests of the numeric readers)",
   text="Decides the structural part of XML/JSON interchangeability: for every parse call of the text readers, a hexadecimal spelling is read with a parser that covers every bit pattern the writers can emit for that width, a 0x prefix is followed by a base-16 parse, durations are seconds times time.Second on every return, mask separators and date layouts written are the ones read, enum/mask lookups default the tag identically on both sides, and the JSON writer never uses Go-syntax quoting (strings go through encoding/json; raw names are registry names proven safe by C17.N3). Every writer that renders a big integer consumes the sign pad byte returned by bigIntToBytes, and the three ByteString readers return a non-nil slice on success (a present empty value must not become an absent one under omitempty), and every bounds test of the numeric text readers accepts both end points of the type's range. Four defects found this way are repaired and guarded. Byte-identity of the binary re-encoding and reproduction of foreign XML need execution and are not claimed.",
   ref="§4 C04"),
 "C18": dict(level="other",
   technique="static analysis: range abstraction of every narrowing conversion in the text readers (bit size of the parse or dominating bounds check) against the writers' total domain; writer-panic preconditions",
   text="Decides `whatever a reader can return, every writer can take`: every conversion of a parsed number to a narrower type or to a duration in the XML/JSON readers is justified by the bit size of its parse call or by a dominating bounds check inside the writers' domain (intervals in [0,2^32) s, 32-bit integers and enumerations), every explicit panic of a writer has a precondition those ranges (or C01.P5) establish, the alternative lexical forms accepted on input land in the canonical domain (a tag being a 24-bit quantity), and text strings are handed back verbatim by the XML/JSON readers. This is a necessary condition for re-encodability of accepted input; byte-equality of the second re-encoding is value-level and not decided.",
   ref="§4 C18"),
 "C03": dict(level="other",
   technique="static analysis: constant tables of the binary writer against a hand-written specification table; byte-count abstract domain over the value closures; call-order and value-identity checks of the header writer and the length back-patch; must-pass-through of the sign-bit test in bigIntToBytes; exhaustive evaluation of the reader's sign predicate over the 256 leading-byte values",
   text="Decides the structural clauses of wire-format conformance for every item the writer can emit: the ten type codes/names equal KMIP 1.4 9.1.1 and the reader accepts exactly them; each fixed-width writer declares the specified length and appends exactly 8 value+padding bytes; string writers declare len(value) and right-pad with padForLen(len,8) zero bytes; big integers are written with the sign padding inside the declared length at a multiple of 8; the header is tag(3 big-endian bytes), type, length in that order and the structure length is back-patched at the placeholder with len(after)-offset-4; reader and writer agree on fixed lengths; and the sign-word decision examines the top bit for both signs; on the reading side the sign test of bytesToBigInt is evaluated for all 256 leading bytes and must equal the two's-complement sign. The arithmetic inside padForLen/bigIntToBytes and agreement with an independent parser over the value space need an executable oracle and are not claimed.",
   ref="§4 C03"),
 "C07": dict(level="other",
   technique="static analysis: SSA value-identity and dominance checks on Stream.Recv/computeNeededBytes (bounded-extent slices, must-pass-through of the size limit before buffer growth, non-nil error on every non-decode exit)",
   text="Decides, on the SSA of the receive loop, the structural facts that make framing independent of segmentation for every chunking at once: the transport is only ever asked for buf[read:need] where need is 8 and then the extent announced by the header, so a call can never consume a byte of the next message; the decoder sees exactly buf[:need] and only once read >= need; every other exit is a non-nil error (zero-length read included); the announced extent is compared with the configured maximum on every path before the buffer is grown, and the server configures a positive maximum. The enumeration of concrete segmentations and transports that break the io.Reader contract are outside.",
   ref="§4 C07"),
 "C02": dict(level="other",
   technique="static analysis over the decode-reachable call graph: forbidden-construct rules (panic sites, unchecked type assertions), reader typestate (validate-before-use by dominance), length-guard dataflow for every index/slice with a recognised per-type length table, input-alias taint, per-loop progress",
   text="Enumerates every construct that could make a decoder panic, over-read, spin or write into its input, in the ~200 repository functions reachable while untrusted bytes are decoded, and discharges each by a local structural argument: explicit panics only where the guard depends on the destination type; no unchecked type assertion on an input-chosen value; every binary reader validated before use and confined to its parent's declared extent (validate() is header-first and compares the padded length with the bytes left); every index, slice and fixed-width read dominated by a sufficient length fact (guard, validated typestate, or the length table recognised in validate()); no store/append through a slice aliasing the input; every loop consumes input or is a bounded range and every typed read advances; no reader error dropped. This found five crash/mutation defects, now repaired and guarded. Standard-library internals, memory exhaustion and a full termination proof are outside.",
   ref="§4 C02"),
 "C01": dict(level="other",
   technique="static analysis: codec plan model of the reflective coder over all reachable struct types + SSA path-by-path trace comparison of every hand-written decoder with the encoder of the same struct",
   text="Decides encoder/decoder agreement, a necessary condition of the round trip, for every struct type reachable from the root messages (111 reflectively encoded, 103 reflectively decoded, 12 hand-written decoders): each field resolves to a tag and a supported kind in both directions, no optional or repeated field can steal a same-tag successor, every uint32 field type is a registered enumeration, and on every acyclic success path each hand-written decoder reads the encoder's elements in order into the field they were written from, tolerating exactly the omissions the encoder can make and dropping nothing. Found and now guards two decoder defects (Import Key Wrap Type, response Message Extension). Value-level equality (two's complement, padding, byte identity) is not decided.",
   ref="§4 C01"),
 "C17": dict(level="proof",
   technique="static analysis: exhaustive table evaluation of the init-time registry from source literals (go/types constants) + pinned reference comparison",
   text="Finite and exhaustive: every one of the 292 tags, 601 enumeration values and 22 mask flags registered by the init functions is evaluated from the source literals and shown unique in both directions within its scope, lexically safe for XML/JSON/text, identical to the pinned KMIP 1.0-1.4 registry, wired to its own tag in MarshalText/UnmarshalText, registered only from init, and the mask renderers/parsers never order-compare a mask value (bit 31). A proof over the static registry model, not over sampled lookups.",
   ref="§4 C17"),
 "C05": dict(level="other",
   technique="static analysis: struct-tag plan model vs reviewed version table; SSA path check of the two gating wrappers; who-may-write rule on the version state",
   text="Decides the structural necessary conditions of version gating for every struct type of the library at once: the 61 version annotations equal the reviewed specification table (a wrong, missing or extra annotation is reported per field), the encoder wrapper runs the field coder exactly when the header version is in range and the decoder's only skip is under (!inRange and tag mismatch) on every path of the wrapper, nested coders share the parent's version state, the version is written only by the set-version field wrapper and reset by Clear, and the version-setting header is coded first. Not a run over messages: the arithmetic of range containment and the emitted values are not decided.",
   ref="§4 C05"),
 "C06": dict(level="other",
   technique="static analysis: exhaustive table checks of the operation/object/attribute registries (go/types interface satisfaction, SSA constant returns) + dominance checks in the four hand-written payload decoders",
   text="Exhaustive over the three registries (27 operations x 2 directions, 9 object types, 50 attributes): each registered type implements the interface the reflective constructor asserts, reports the code it is registered under, occupies one slot, and has the TTLV kind of the hand-written specification table; the batch-item decoders pick the payload constructor of their own direction from their own decoded Operation; unknown operations/attributes fall back to the opaque container and the unknown-object error is checked before the object is decoded at every call site; the attribute decoder stores the typed value on every success exit of a known attribute, looks the type table up with the exact name, a decoder that selects the object type from a list element scans from position 0, and the generic decoder fills the value pre-seeded behind an interface instead of replacing it (so the opaque payload keeps its operation code). Byte-identity of opaque re-encoding is value-level and not decided.",
   ref="§4 C06"),
}

PENDING_REASON = "check not built yet in this revision of /verif (static rules are designed in DESIGN.md §4); not claimed until its rule set is implemented and silent on the repaired tree"

ALL = ["C%02d" % i for i in range(1, 21)]

def main():
    checks = []
    for pid in ALL:
        if pid not in CLAIMED:
            continue
        c = CLAIMED[pid]
        checks.append({
            "property_id": pid,
            "quick_cmd": f"./check.sh {pid} quick",
            "thorough_cmd": f"./check.sh {pid} thorough",
            "evidence_file": f"/verif/evidence/{pid}.json",
            "replay_cmd_template": f"./check.sh {pid} --replay {{path}}",
            "engine": "kmipsa",
            "level_claimed": {"category": c["level"], "text": c["text"], "design_ref": c["ref"]},
            "level_note": c.get("note", NOTE),
            "technique": c["technique"],
        })
    na = [{"property_id": p, "reason": NA.get(p, PENDING_REASON)} for p in ALL if p not in CLAIMED]
    m = {
        "version": 1,
        "setup_cmd": "./setup.sh",
        "hooks": {
            "guard": "verif",
            "enable": "none needed: the checks are static and read /repo's working tree; no instrumentation is compiled in",
            "baseline_off_cmd": BASELINE_OFF,
            "source_commits": [],
            "add_only": True,
        },
        "engines": [{
            "name": "kmipsa", "path": "/verif/sa",
            "serves_properties": sorted(CLAIMED),
            "kind_free_text": "custom Go static analyser (go/packages + go/types + go/ssa + VTA call graph) with repository-specific rules; never executes repository code",
        }],
        "checks": checks,
        "notes": "Static analysis only. Each check reports the constructs it enumerated (obligations), the rule applied and floors; see DESIGN.md.",
        "not_applicable": na,
    }
    json.dump(m, open("MANIFEST.json", "w"), indent=1)
    print("MANIFEST.json:", len(checks), "checks,", len(na), "not applicable")

NA = {}

if __name__ == "__main__":
    main()
