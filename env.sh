# sourced by setup.sh and check.sh: one toolchain for go list, the type checker and the stdlib sources
export PATH=/opt/veriftools/go1.26.8/bin:$PATH
export GOTOOLCHAIN=local GOFLAGS=-mod=mod GOPROXY=off GOSUMDB=off CGO_ENABLED=0
unset GOWORK
