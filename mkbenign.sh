#!/bin/bash
# ./mkbenign.sh start <name>   -> scratch copy /tmp/bn/<name> (git-initialised) to edit by hand
# ./mkbenign.sh finish <name>  -> writes benign/cases/<name>.patch and removes the scratch copy
set -euo pipefail
cd "$(dirname "$0")"
case $1 in
 start) rm -rf /tmp/bn/$2; mkdir -p /tmp/bn; rsync -a --exclude .git /repo/ /tmp/bn/$2/; cd /tmp/bn/$2; git init -q .; git add -A; git -c user.email=x -c user.name=x commit -qm base; echo /tmp/bn/$2;;
 finish) mkdir -p benign/cases; (cd /tmp/bn/$2 && git add -A -N && git diff) > benign/cases/$2.patch; rm -rf /tmp/bn/$2; wc -l benign/cases/$2.patch;;
esac
