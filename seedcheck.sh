#!/bin/bash
# ./seedcheck.sh <ID> <variant> [srcdir]  — confirm a seeded change (patch.diff + demo_test.go) in a scratch worktree of /repo:
# builds, existing suite passes, demo fails with the change and passes without; then runs the property's check on the changed tree.
set -uo pipefail
cd "$(dirname "$0")"; . ./env.sh
./trimcache.sh
exec 9>/tmp/kmipsa-gocache.lock; flock -s 9   # compiling: the build cache must not be dropped meanwhile
ID=$1; V=$2; SRC=${3:-/tmp/seed-out/$ID/$V}
WT=/tmp/seedchk/$ID-$V
SC=/tmp/seedchk/$ID-$V.d; rm -rf "$SC"; mkdir -p "$SC"   # per-seed logs: several seedchecks may run side by side
rm -rf "$WT"; git -C /repo worktree prune; mkdir -p /tmp/seedchk
git -C /repo worktree add --detach "$WT" HEAD >/dev/null 2>&1 || { echo "worktree failed"; exit 2; }
trap 'git -C /repo worktree remove --force "$WT" >/dev/null 2>&1; rm -rf "$WT"' EXIT
res() { printf '%-34s %s\n' "$1" "$2"; }
if ! git -C "$WT" apply "$SRC/patch.diff" 2>$SC/apply.err && ! git -C "$WT" apply --3way "$SRC/patch.diff" 2>>$SC/apply.err; then res "apply" "FAILED $(head -c 300 $SC/apply.err)"; exit 3; fi
res "apply" ok
(cd "$WT" && go build ./... 2>&1 | tail -3) && res "build" ok
DIR=$(head -1 "$SRC/demo_test.go" | sed -n 's#^// *place in: *##p' | awk '{print $1}' | sed 's#/*$##')
[ -z "$DIR" ] && DIR=.
if (cd "$WT" && go test -vet=off -count=1 ./... >$SC/suite.log 2>&1); then res "existing suite with change" PASS; else res "existing suite with change" "FAIL: $(grep -m3 -- '--- FAIL\|^FAIL' $SC/suite.log | tr '\n' ' ')"; fi
cp "$SRC/demo_test.go" "$WT/$DIR/zz_seed_demo_test.go"
if (cd "$WT" && timeout 300 go test -vet=off -count=1 -run 'Seed|seed' "./$DIR/" >$SC/demo1.log 2>&1); then res "demo with change" "PASS (expected FAIL)"; else res "demo with change" "FAIL (expected): $(grep -m1 -- '--- FAIL' $SC/demo1.log)"; fi
# the check on the changed tree (demo file removed first: checks look at non-test sources only)
rm -f "$WT/$DIR/zz_seed_demo_test.go"
if [ "${CHECKS:-}" = ALL ]; then CHECKS="C01 C02 C03 C04 C05 C06 C07 C08 C09 C10 C11 C12 C13 C14 C15 C16 C17 C18 C19 C20"; fi
run1() { local P=$1; VERIF_REPO="$WT" ${KMIPSA:-bin/kmipsa} -repo "$WT" -verif "$PWD" -outdir $SC/out-$P -prop "$P" -tier quick -evidence $SC/ev.$P.json > $SC/check.$P.log 2>&1; echo "$P $?" > $SC/rc.$P; }
export -f run1; export WT PWD SC
echo ${CHECKS:-$ID} | tr ' ' '\n' | xargs -P 10 -I{} bash -c 'run1 {}'
any=0
for P in ${CHECKS:-$ID}; do
  rc=$(awk '{print $2}' $SC/rc.$P)
  if [ "$rc" = 1 ]; then any=1; res "check $P on changed tree" "VIOLATION: $(grep -m2 'kind=' $SC/check.$P.log | cut -c1-260 | tr '\n' ' ')"; elif [ "$P" = "$ID" ] || [ "$rc" != 0 ]; then res "check $P on changed tree" "silent (rc=$rc)"; fi
done
[ $any = 0 ] && res "all selected checks" "SILENT"
git -C "$WT" checkout -- . ; cp "$SRC/demo_test.go" "$WT/$DIR/zz_seed_demo_test.go"
if (cd "$WT" && timeout 300 go test -vet=off -count=1 -run 'Seed|seed' "./$DIR/" >$SC/demo2.log 2>&1); then res "demo without change" "PASS (expected)"; else res "demo without change" "FAIL (unexpected): $(grep -m2 -- '--- FAIL\|^FAIL\|cannot\|undefined' $SC/demo2.log | tr '\n' ' ')"; fi
