package main

// Decode/encode traces of hand-written TTLV codecs, extracted from SSA.

import (
	"fmt"
	"go/token"
	"go/types"
	"sort"
	"strings"

	"golang.org/x/tools/go/ssa"
)

const ttlvPath = modPath + "/ttlv"

// EncElem is one element an encoder may emit for a struct.
type EncElem struct {
	Tag      int64 // 0 when TagParam or Dynamic
	TagParam bool  // emitted under the tag passed to the coder (choice types)
	Dynamic  bool  // tag taken from the dynamic type of an interface value
	Src      string
	SrcType  types.Type
	MayOmit  bool // the element can be absent for a populated struct (omitempty, pointer, slice, interface, explicit guard, version gate)
	Iface    bool // absence only because an interface value is nil
	Method   string
	Pos      token.Pos
}

func (e EncElem) String() string {
	t := fmt.Sprintf("0x%06X", e.Tag)
	if e.TagParam {
		t = "<tag>"
	}
	if e.Dynamic {
		t = "<dynamic>"
	}
	o := ""
	if e.MayOmit {
		o = "?"
	}
	return fmt.Sprintf("%s:%s%s", t, e.Src, o)
}

type DecKind int

const (
	DAny DecKind = iota
	DTagAny
	DOpt
	DTyped
	DNested
	DGuard  // d.Tag() == T taken true/false
	DTGuard // d.Type() == ty
	DNext   // d.Next(): skips the current element
	DPrealloc
	DHelper // a repository helper that receives the decoder: its reads are not followed
)

type DecEvent struct {
	Kind     DecKind
	Tag      int64
	TagParam bool
	Dynamic  bool
	Dest     string // receiver field
	DestType types.Type
	Optional bool   // tolerates absence by itself (Opt, pointer/slice destination)
	Outcome  bool   // for guards
	Disc     string // for nested / prealloc: the receiver field (or "param:<name>") used as discriminant
	Method   string
	Callee   *ssa.Function
	Pos      token.Pos
	Val      ssa.Value
}

func (e DecEvent) String() string {
	t := fmt.Sprintf("0x%06X", e.Tag)
	if e.TagParam {
		t = "<tag>"
	}
	if e.Dynamic {
		t = "<dynamic>"
	}
	switch e.Kind {
	case DGuard:
		return fmt.Sprintf("[Tag()==%s:%v]", t, e.Outcome)
	case DTGuard:
		return fmt.Sprintf("[Type()==%d:%v]", e.Tag, e.Outcome)
	case DNext:
		return "Next()"
	case DPrealloc:
		return fmt.Sprintf("prealloc(%s by %s)", e.Dest, e.Disc)
	}
	o := ""
	if e.Optional {
		o = "?"
	}
	return fmt.Sprintf("%s %s->%s%s", e.Method, t, e.Dest, o)
}

// codecFn describes one hand-written coder function under analysis.
type codecFn struct {
	fn        *ssa.Function // the function whose body holds the events (the d.Struct closure, or the method itself)
	outer     *ssa.Function
	recvT     *types.Named
	recvFV    ssa.Value // FreeVar (closure) or Parameter (method) standing for the receiver
	coder     ssa.Value // the *Decoder / *Encoder parameter of fn
	tagParam  ssa.Value // the `tag int` parameter/free variable, if any
	structTag ssa.Value // tag argument passed to d.Struct/e.Struct by the outer function
}

// isRecv reports whether v denotes the receiver pointer.
func (c *codecFn) isRecv(v ssa.Value) bool {
	if v == c.recvFV {
		return true
	}
	if u, ok := v.(*ssa.UnOp); ok && u.Op == token.MUL && u.X == c.recvFV {
		return true
	}
	return false
}

// recvFieldOf: v is (a load of / conversion of) &recv.F or recv.F.
func (c *codecFn) recvFieldOf(v ssa.Value) (*types.Var, bool) {
	v = stripConv(v)
	if u, ok := v.(*ssa.UnOp); ok && u.Op == token.MUL {
		v = u.X
	}
	fa, ok := v.(*ssa.FieldAddr)
	if !ok || !c.isRecv(fa.X) {
		// a local interface variable that holds the very value also stored in a receiver field
		// (`p := newX(); recv.F = p; d.TagAny(tag, &p)`): decoding an interface that holds a pointer decodes into the
		// pointee, which the field shares
		if al, isAlloc := v.(*ssa.Alloc); isAlloc {
			if f, ok := c.aliasCellField(al); ok {
				return f, true
			}
		}
		return nil, false
	}
	st := derefStruct(fa.X.Type())
	if st == nil {
		return nil, false
	}
	return st.Field(fa.Field), true
}

// aliasCellField: al is a local cell of interface type, assigned exactly once, whose content is also stored into a
// field of the receiver (the same value, or a load of the cell): the field it shares its pointee with.
func (c *codecFn) aliasCellField(al *ssa.Alloc) (*types.Var, bool) {
	if _, isI := derefType(al.Type()).Underlying().(*types.Interface); !isI || al.Referrers() == nil {
		return nil, false
	}
	var val ssa.Value
	n := 0
	for _, ref := range *al.Referrers() {
		if st, ok := ref.(*ssa.Store); ok && st.Addr == ssa.Value(al) {
			val = st.Val
			n++
		}
	}
	if n != 1 {
		return nil, false
	}
	var out *types.Var
	try := func(v ssa.Value) {
		if v == nil || v.Referrers() == nil {
			return
		}
		for _, ref := range *v.Referrers() {
			st, ok := ref.(*ssa.Store)
			if !ok || st.Val != v {
				continue
			}
			if fa, ok := st.Addr.(*ssa.FieldAddr); ok && c.isRecv(fa.X) {
				if sd := derefStruct(fa.X.Type()); sd != nil {
					out = sd.Field(fa.Field)
				}
			}
		}
	}
	try(val)
	for _, ref := range *al.Referrers() {
		if ld, ok := ref.(*ssa.UnOp); ok && ld.Op == token.MUL {
			try(ld)
		}
	}
	return out, out != nil
}

func (c *codecFn) isTagParam(v ssa.Value) bool {
	if c.tagParam == nil {
		return false
	}
	if v == c.tagParam {
		return true
	}
	if u, ok := v.(*ssa.UnOp); ok && u.Op == token.MUL && u.X == c.tagParam {
		return true
	}
	return false
}

// findCodec locates the body of a hand-written coder method: if the method's
// only job is `return x.Struct(tag, closure)` the closure is the body.
func findCodec(p *Program, m *ssa.Function, coderType string) *codecFn {
	if m == nil || m.Blocks == nil || m.Signature.Recv() == nil {
		return nil
	}
	c := &codecFn{fn: m, outer: m, recvT: namedOf(m.Signature.Recv().Type())}
	if len(m.Params) > 0 {
		c.recvFV = m.Params[0]
	}
	for _, prm := range m.Params[1:] {
		if typeName(prm.Type()) == coderType && typePkgPath(prm.Type()) == ttlvPath {
			c.coder = prm
		} else if b, ok := prm.Type().Underlying().(*types.Basic); ok && b.Kind() == types.Int && prm.Name() == "tag" {
			c.tagParam = prm
		}
	}
	// the closure form
	var structCall *ssa.Call
	allInstrs(m, func(in ssa.Instruction) {
		if call, ok := in.(*ssa.Call); ok {
			id := callID(&call.Call)
			if id.pkg == ttlvPath && id.recv == coderType && id.name == "Struct" {
				structCall = call
			}
		}
	})
	if structCall != nil && len(m.AnonFuncs) == 1 {
		if mc, ok := structCall.Call.Args[2].(*ssa.MakeClosure); ok && mc.Fn == ssa.Value(m.AnonFuncs[0]) {
			cl := m.AnonFuncs[0]
			c.fn = cl
			c.structTag = structCall.Call.Args[1]
			c.recvFV, c.tagParam = nil, nil
			for i, fv := range cl.FreeVars {
				b := mc.Bindings[i]
				// binding is the Alloc holding the captured variable
				if al, ok := b.(*ssa.Alloc); ok {
					for _, ref := range *al.Referrers() {
						if st, ok := ref.(*ssa.Store); ok && st.Addr == ssa.Value(al) {
							if st.Val == ssa.Value(m.Params[0]) {
								c.recvFV = fv
							} else if prm, ok := st.Val.(*ssa.Parameter); ok && prm.Name() == "tag" {
								c.tagParam = fv
							}
						}
					}
				}
			}
			c.coder = nil
			if len(cl.Params) == 1 {
				c.coder = cl.Params[0]
			}
		}
	}
	if c.recvFV == nil || c.coder == nil {
		return nil
	}
	return c
}

// ---------------------------------------------------------------- decode side

// blockEvents extracts the decode events of one basic block, in order.
func (c *codecFn) blockEvents(b *ssa.BasicBlock, reg *Registry, m *Model) []DecEvent {
	var out []DecEvent
	for _, in := range b.Instrs {
		call, ok := in.(*ssa.Call)
		if !ok {
			continue
		}
		id := callID(&call.Call)
		args := call.Call.Args
		switch {
		case id.pkg == ttlvPath && id.recv == "Decoder" && len(args) >= 1 && args[0] == c.coder:
			ev := DecEvent{Method: id.name, Pos: call.Pos(), Val: call}
			switch id.name {
			case "Any", "TagAny", "Opt":
				dst := args[len(args)-1]
				if id.name == "Any" {
					ev.Kind = DAny
				} else {
					ev.Kind = DTagAny
					if id.name == "Opt" {
						ev.Kind, ev.Optional = DOpt, true
					}
					if v, ok := constIntVal(args[1]); ok {
						ev.Tag = v
					} else if c.isTagParam(args[1]) {
						ev.TagParam = true
					} else {
						ev.Tag = -1
					}
				}
				if f, ok := c.recvFieldOf(dst); ok {
					ev.Dest, ev.DestType = f.Name(), f.Type()
					if ev.Kind == DAny {
						if tg, ok := reg.TagForType(f.Type()); ok {
							ev.Tag = tg
						} else if _, isI := f.Type().Underlying().(*types.Interface); isI {
							ev.Dynamic = true
						} else {
							ev.Tag = -1
						}
					}
					switch k := m.KindOf(f.Type(), false); k {
					case KPointer, KSlice:
						ev.Optional = true
					case KCustomVal:
						if _, isP := f.Type().Underlying().(*types.Pointer); isP {
							ev.Optional = true
						}
					}
				} else {
					ev.Dest = "?"
					ev.Val = dst
				}
				out = append(out, ev)
			case "Integer", "LongInteger", "BigInteger", "Bool", "TextString", "ByteString", "DateTime", "Interval", "Enum", "Bitmask":
				ev.Kind = DTyped
				ta := args[1]
				if id.name == "Enum" || id.name == "Bitmask" {
					ta = args[2]
				}
				if v, ok := constIntVal(ta); ok {
					ev.Tag = v
				} else if c.isTagParam(ta) {
					ev.TagParam = true
				} else {
					ev.Tag = -1
				}
				ev.Dest = "?"
				out = append(out, ev)
			case "Next":
				ev.Kind = DNext
				out = append(out, ev)
			}
		case call.Call.StaticCallee() != nil && call.Call.StaticCallee().Signature.Recv() != nil && id.pkg != ttlvPath && strings.HasPrefix(id.pkg, modPath):
			// nested decode: a repository method taking the decoder
			hasDec := false
			for _, a := range args[1:] {
				if a == c.coder {
					hasDec = true
				}
			}
			if !hasDec {
				continue
			}
			ev := DecEvent{Kind: DNested, Method: id.recv + "." + id.name, Callee: call.Call.StaticCallee(), Pos: call.Pos(), Val: call, Dest: "?"}
			if _, ok := c.recvFieldOf(args[0]); !ok && !c.isRecv(args[0]) {
				ev.Kind = DHelper
			}
			if f, ok := c.recvFieldOf(args[0]); ok {
				ev.Dest, ev.DestType = f.Name(), f.Type()
			}
			ev.Tag = -1
			for _, a := range args[1:] {
				if a == c.coder {
					continue
				}
				if v, ok := constIntVal(a); ok && ev.Tag == -1 {
					ev.Tag = v
				} else if c.isTagParam(a) {
					ev.TagParam, ev.Tag = true, 0
				} else if f, ok := c.recvFieldOf(a); ok {
					ev.Disc = f.Name()
				} else if prm, ok := a.(*ssa.Parameter); ok {
					ev.Disc = "param:" + prm.Name()
				}
			}
			out = append(out, ev)
		case call.Call.StaticCallee() != nil && call.Call.StaticCallee().Signature.Recv() == nil && strings.HasPrefix(id.pkg, modPath) && id.pkg != ttlvPath && func() bool {
			for _, a := range args {
				if a == c.coder {
					return true
				}
			}
			return false
		}():
			out = append(out, DecEvent{Kind: DHelper, Method: id.name, Callee: call.Call.StaticCallee(), Pos: call.Pos(), Val: call, Dest: "?"})
		case id.is(modPath, "", "newRequestPayload") || id.is(modPath, "", "newResponsePayload") || id.is(modPath, "", "NewObjectForType") || id.is(modPath, "", "newAttribute"):
			ev := DecEvent{Kind: DPrealloc, Method: id.name, Pos: call.Pos(), Val: call}
			if f, ok := c.recvFieldOf(args[0]); ok {
				ev.Disc = f.Name()
			}
			out = append(out, ev)
		}
	}
	return out
}

// guardOf interprets the branch condition leaving block b towards next.
func (c *codecFn) guardOf(b, next *ssa.BasicBlock) (DecEvent, bool) {
	cond, isTrue, ok := edgeTaken(b, next)
	if !ok {
		return DecEvent{}, false
	}
	bo, ok := cond.(*ssa.BinOp)
	if !ok || (bo.Op != token.EQL && bo.Op != token.NEQ) {
		return DecEvent{}, false
	}
	var callSide, other ssa.Value
	if cl, ok := bo.X.(*ssa.Call); ok {
		callSide, other = cl, bo.Y
	} else if cl, ok := bo.Y.(*ssa.Call); ok {
		callSide, other = cl, bo.X
	}
	if callSide == nil {
		return DecEvent{}, false
	}
	cl := callSide.(*ssa.Call)
	id := callID(&cl.Call)
	if id.pkg != ttlvPath || id.recv != "Decoder" || len(cl.Call.Args) != 1 || cl.Call.Args[0] != c.coder {
		return DecEvent{}, false
	}
	eq := isTrue == (bo.Op == token.EQL)
	switch id.name {
	case "Tag":
		ev := DecEvent{Kind: DGuard, Outcome: eq, Pos: bo.Pos()}
		if v, ok := constIntVal(other); ok {
			ev.Tag = v
		} else if c.isTagParam(other) {
			ev.TagParam = true
		} else {
			return DecEvent{}, false
		}
		return ev, true
	case "Type":
		if v, ok := constIntVal(other); ok {
			return DecEvent{Kind: DTGuard, Tag: v, Outcome: eq, Pos: bo.Pos()}, true
		}
	}
	return DecEvent{}, false
}

type pathClass int

const (
	pathSuccess pathClass = iota
	pathError
	pathUnknown
)

// classifyReturn decides whether a path ends in a possibly-nil (success) return.
func classifyPath(path cfgPath) (pathClass, string) {
	last := path[len(path)-1]
	ret := last.Instrs[len(last.Instrs)-1].(*ssa.Return)
	if len(ret.Results) == 0 {
		return pathSuccess, ""
	}
	v := ret.Results[len(ret.Results)-1]
	return classifyErrValue(v, path, len(path)-1, 0)
}

func classifyErrValue(v ssa.Value, path cfgPath, at int, depth int) (pathClass, string) {
	if depth > 6 {
		return pathUnknown, "value too deep"
	}
	if isNilConst(v) {
		return pathSuccess, ""
	}
	// tested non-nil on this path?
	for i := 0; i+1 < len(path); i++ {
		cond, isTrue, ok := edgeTaken(path[i], path[i+1])
		if !ok {
			continue
		}
		if bo, ok := cond.(*ssa.BinOp); ok && isNilConst(bo.Y) && bo.X == v {
			if (bo.Op == token.NEQ) == isTrue {
				return pathError, ""
			}
			return pathSuccess, "" // v == nil established
		}
	}
	switch x := v.(type) {
	case *ssa.Call:
		id := callID(&x.Call)
		if id.is("fmt", "", "Errorf") || id.is("errors", "", "New") || id.is(ttlvPath, "", "Errorf") {
			return pathError, ""
		}
		return pathSuccess, "" // tail call: the callee's result is the result
	case *ssa.Extract:
		return pathSuccess, ""
	case *ssa.MakeInterface:
		return pathError, ""
	case *ssa.Phi:
		// find the predecessor on the path
		blk := x.Block()
		for i := 1; i < len(path); i++ {
			if path[i] == blk {
				if pi := predIndex(blk, path[i-1]); pi >= 0 {
					return classifyErrValue(x.Edges[pi], path[:i], i-1, depth+1)
				}
			}
		}
		return pathUnknown, "phi not resolved on path"
	case *ssa.Global, *ssa.UnOp:
		return pathError, ""
	}
	return pathUnknown, fmt.Sprintf("return value %T not classified", v)
}

type decPath struct {
	events []DecEvent
	blocks cfgPath
}

// infeasibleEdge: known-dead branches that would otherwise look like drops.
// (reflect.Value).IsNil() on the result of kmip.newAttribute is false when every
// return of newAttribute is reflect.ValueOf(&T{}) / reflect.New(T).
func infeasibleEdge(p *Program, b, next *ssa.BasicBlock) bool {
	cond, isTrue, ok := edgeTaken(b, next)
	if !ok || !isTrue {
		return false
	}
	call, ok := cond.(*ssa.Call)
	if !ok || !callID(&call.Call).is("reflect", "Value", "IsNil") {
		return false
	}
	src, ok := call.Call.Args[0].(*ssa.Call)
	if !ok || !callID(&src.Call).is(modPath, "", "newAttribute") {
		return false
	}
	fn := p.Func("", "", "newAttribute")
	if fn == nil {
		return false
	}
	allNonNil := true
	allInstrs(fn, func(in ssa.Instruction) {
		ret, ok := in.(*ssa.Return)
		if !ok {
			return
		}
		c, ok := ret.Results[0].(*ssa.Call)
		if !ok {
			allNonNil = false
			return
		}
		id := callID(&c.Call)
		switch {
		case id.is("reflect", "", "New"):
		case id.is("reflect", "", "ValueOf"):
			mi, ok := c.Call.Args[0].(*ssa.MakeInterface)
			if !ok {
				allNonNil = false
				return
			}
			if _, ok := mi.X.(*ssa.Alloc); !ok {
				allNonNil = false
			}
		default:
			allNonNil = false
		}
	})
	return allNonNil
}

// decodePaths enumerates the success paths of a decoder body with their events.
func (c *codecFn) decodePaths(p *Program, reg *Registry, m *Model) (paths []decPath, nAll int, problems []string) {
	all, ok := enumeratePaths(c.fn, 4096)
	if !ok {
		return nil, 0, []string{"more than 4096 simple paths"}
	}
	nAll = len(all)
	cache := map[*ssa.BasicBlock][]DecEvent{}
	for _, path := range all {
		cls, why := classifyPath(path)
		if cls == pathError {
			continue
		}
		if cls == pathUnknown {
			problems = append(problems, "return not classified: "+why)
			continue
		}
		dead := false
		var evs []DecEvent
		for i, b := range path {
			be, ok := cache[b]
			if !ok {
				be = c.blockEvents(b, reg, m)
				cache[b] = be
			}
			evs = append(evs, be...)
			if i+1 < len(path) {
				if infeasibleEdge(p, b, path[i+1]) {
					dead = true
					break
				}
				if g, ok := c.guardOf(b, path[i+1]); ok {
					evs = append(evs, g)
				}
			}
		}
		if dead {
			continue
		}
		// an error-check edge `if err != nil` taken as true on a call result that is then NOT returned is fine;
		// but a path that took the error edge of a decode call is an error path even if it returns something else
		paths = append(paths, decPath{events: evs, blocks: path})
	}
	// resolve destinations of typed reads and reflect-based TagAny by following the value to a store into a receiver field
	for pi := range paths {
		for ei := range paths[pi].events {
			ev := &paths[pi].events[ei]
			if ev.Dest != "?" {
				continue
			}
			root := ev.Val
			if ev.Kind == DTagAny || ev.Kind == DAny {
				// argument is x.Interface() of a reflect.Value: follow the reflect.Value
				if cl, ok := stripConv(root).(*ssa.Call); ok && callID(&cl.Call).is("reflect", "Value", "Interface") {
					root = cl.Call.Args[0]
				}
			}
			if f := c.flowsToField(root, paths[pi].blocks); f != nil {
				ev.Dest, ev.DestType = f.Name(), f.Type()
			}
		}
	}
	return paths, nAll, problems
}

// flowsToField finds a store, in one of the path's blocks, into a receiver field
// of a value derived from root.
func (c *codecFn) flowsToField(root ssa.Value, blocks cfgPath) *types.Var {
	onPath := map[*ssa.BasicBlock]bool{}
	for _, b := range blocks {
		onPath[b] = true
	}
	var derives func(v ssa.Value, depth int) bool
	derives = func(v ssa.Value, depth int) bool {
		if v == root {
			return true
		}
		if depth > 8 {
			return false
		}
		switch x := v.(type) {
		case *ssa.Extract:
			return derives(x.Tuple, depth+1)
		case *ssa.ChangeType:
			return derives(x.X, depth+1)
		case *ssa.Convert:
			return derives(x.X, depth+1)
		case *ssa.MakeInterface:
			return derives(x.X, depth+1)
		case *ssa.UnOp:
			return derives(x.X, depth+1)
		case *ssa.Call:
			id := callID(&x.Call)
			if id.pkg == "reflect" && id.recv == "Value" && len(x.Call.Args) > 0 {
				return derives(x.Call.Args[0], depth+1)
			}
		case *ssa.Alloc:
			for _, ref := range *x.Referrers() {
				if st, ok := ref.(*ssa.Store); ok && st.Addr == ssa.Value(x) && derives(st.Val, depth+1) {
					return true
				}
			}
		}
		return false
	}
	for _, b := range c.fn.Blocks {
		if !onPath[b] {
			continue
		}
		for _, in := range b.Instrs {
			st, ok := in.(*ssa.Store)
			if !ok {
				continue
			}
			if f, ok := c.recvFieldOf(st.Addr); ok && derives(st.Val, 0) {
				return f
			}
		}
	}
	return nil
}

// ---------------------------------------------------------------- encode side

var writerMethodKind = map[string]Kind{"Integer": KInteger, "LongInteger": KLongInteger, "BigInteger": KBigInt, "Enum": KEnum, "Bool": KBool, "TextString": KText, "ByteString": KBytes, "DateTime": KDateTime, "Interval": KInterval, "Bitmask": KBitmask}

// encodeElems lists, in source order, what a hand-written encoder body emits.
func (c *codecFn) encodeElems(reg *Registry, m *Model) (elems []EncElem, problems []string) {
	// loops make source order meaningless
	for _, b := range c.fn.Blocks {
		for _, s := range b.Succs {
			if s.Index <= b.Index && s.Dominates(b) {
				problems = append(problems, "encoder body contains a loop")
			}
		}
	}
	entry := c.fn.Blocks[0]
	var retBlocks []*ssa.BasicBlock
	for _, b := range c.fn.Blocks {
		if len(b.Instrs) > 0 {
			if _, ok := b.Instrs[len(b.Instrs)-1].(*ssa.Return); ok {
				retBlocks = append(retBlocks, b)
			}
		}
	}
	unconditional := func(b *ssa.BasicBlock) bool {
		if b == entry {
			return true
		}
		for _, r := range retBlocks {
			if !b.Dominates(r) {
				return false
			}
		}
		return true
	}
	type item struct {
		pos token.Pos
		e   EncElem
	}
	var items []item
	allInstrs(c.fn, func(in ssa.Instruction) {
		call, ok := in.(*ssa.Call)
		if !ok {
			return
		}
		id := callID(&call.Call)
		args := call.Call.Args
		if id.pkg != ttlvPath || id.recv != "Encoder" || len(args) < 2 || args[0] != c.coder {
			return
		}
		e := EncElem{Method: id.name, Pos: call.Pos()}
		var src ssa.Value
		switch id.name {
		case "Any":
			src = args[1]
		case "TagAny":
			src = args[2]
			if v, ok := constIntVal(args[1]); ok {
				e.Tag = v
			} else if c.isTagParam(args[1]) {
				e.TagParam = true
			} else {
				e.Tag = -1
			}
		case "Integer", "LongInteger", "BigInteger", "Bool", "TextString", "ByteString", "DateTime", "Interval":
			src = args[2]
			if v, ok := constIntVal(args[1]); ok {
				e.Tag = v
			} else if c.isTagParam(args[1]) {
				e.TagParam = true
			} else {
				e.Tag = -1
			}
		case "Enum", "Bitmask":
			src = args[3]
			if v, ok := constIntVal(args[2]); ok {
				e.Tag = v
			} else if c.isTagParam(args[2]) {
				e.TagParam = true
			} else {
				e.Tag = -1
			}
		default:
			return
		}
		if f, ok := c.recvFieldOf(src); ok {
			e.Src, e.SrcType = f.Name(), f.Type()
		} else {
			e.Src = "?"
		}
		if id.name == "Any" {
			if e.SrcType != nil {
				if tg, ok := reg.TagForType(e.SrcType); ok {
					e.Tag = tg
				} else if _, isI := e.SrcType.Underlying().(*types.Interface); isI {
					e.Dynamic = true
				} else {
					e.Tag = -1
				}
			} else {
				e.Tag = -1
			}
		}
		if !unconditional(call.Block()) {
			e.MayOmit = true
			// a guarded element must still be emitted whenever its own field is populated: every edge that leads
			// around the emission must be the "field is empty" edge of a test of that very field
			if f, ok := c.recvFieldOf(src); ok {
				if why := skipsPopulated(call, f); why != "" {
					problems = append(problems, fmt.Sprintf("%s: element %s (field %s) %s", fnKey(c.fn), e.String(), fname(f), why))
				}
			}
		}
		if e.SrcType != nil && (id.name == "Any" || id.name == "TagAny") {
			switch e.SrcType.Underlying().(type) {
			case *types.Pointer:
				e.MayOmit = true
			case *types.Slice:
				if m.KindOf(e.SrcType, true) == KSlice {
					e.MayOmit = true
				}
			case *types.Interface:
				if !e.MayOmit {
					e.Iface = true
				}
				e.MayOmit = true
			}
		}
		items = append(items, item{call.Pos(), e})
	})
	sort.SliceStable(items, func(i, j int) bool { return items[i].pos < items[j].pos })
	for _, it := range items {
		elems = append(elems, it.e)
	}
	return elems, problems
}

// planElems renders the reflective plan of a struct as encoder elements.
func planElems(m *Model, n *types.Named) []EncElem {
	sp := m.Plan(n)
	if sp == nil {
		return nil
	}
	var out []EncElem
	for i := range sp.Fields {
		fp := &sp.Fields[i]
		e := EncElem{Tag: fp.Tag, Dynamic: fp.Dynamic, Src: fp.Name, SrcType: fp.Type, MayOmit: m.OptionalOnEncode(fp), Method: "plan", Pos: fp.Var.Pos()}
		if _, isI := fp.Type.Underlying().(*types.Interface); isI && !fp.Omit && fp.VRange == nil {
			e.Iface = true
		}
		out = append(out, e)
	}
	return out
}

// skipsPopulated: the emission `call` of receiver field f sits under a guard; returns a reason when some way around the
// emission does not imply that f is empty (zero, nil, "", length 0).
func skipsPopulated(call *ssa.Call, f *types.Var) string {
	fn := call.Parent()
	B := call.Block()
	reachB := map[*ssa.BasicBlock]bool{}
	// blocks from which B is reachable
	for _, x := range fn.Blocks {
		if x == B || reachableFrom(x)[B] {
			reachB[x] = true
		}
	}
	isFieldOf := func(v ssa.Value) bool {
		// a load of (a part of) receiver field f
		for d := 0; d < 4 && v != nil; d++ {
			switch x := v.(type) {
			case *ssa.UnOp:
				v = x.X
			case *ssa.FieldAddr:
				if derefStruct(x.X.Type()) != nil && derefStruct(x.X.Type()).Field(x.Field) == f {
					return true
				}
				v = x.X
			case *ssa.Field:
				if st, ok := x.X.Type().Underlying().(*types.Struct); ok && st.Field(x.Field) == f {
					return true
				}
				v = x.X
			case *ssa.Convert:
				v = x.X
			case *ssa.ChangeType:
				v = x.X
			default:
				return false
			}
		}
		return false
	}
	// does (cond == outcome) imply that f is empty?
	impliesEmpty := func(cond ssa.Value, outcome bool) bool {
		bo, ok := cond.(*ssa.BinOp)
		if !ok {
			return false
		}
		x, y := bo.X, bo.Y
		if lx, isLen := lenOperand(x); isLen {
			// len(f) > 0 false, len(f) != 0 false, len(f) == 0 true
			if k, ok := constIntVal(y); ok && k == 0 && isFieldOf(lx) {
				return (bo.Op == token.GTR && !outcome) || (bo.Op == token.NEQ && !outcome) || (bo.Op == token.EQL && outcome)
			}
			return false
		}
		zero := false
		if c, ok := y.(*ssa.Const); ok {
			zero = c.IsNil() || c.Value == nil || c.Value.String() == "0" || c.Value.ExactString() == `""` || c.Value.String() == "false"
		}
		if !zero || !isFieldOf(x) {
			return false
		}
		return (bo.Op == token.NEQ && !outcome) || (bo.Op == token.EQL && outcome) || (bo.Op == token.GTR && !outcome)
	}
	for _, x := range fn.Blocks {
		if !reachB[x] || x == B || len(x.Succs) != 2 {
			continue
		}
		iff, ok := x.Instrs[len(x.Instrs)-1].(*ssa.If)
		if !ok {
			continue
		}
		for i, sc := range x.Succs {
			if reachB[sc] {
				continue
			}
			// (x -> sc) leads around the emission; the other successor must lead to it
			if !reachB[x.Succs[1-i]] {
				continue
			}
			// loops: an emission inside a loop body is skipped by the loop exit edge
			if x.Dominates(B) && sc.Dominates(B) {
				continue
			}
			if _, isRange := iff.Cond.(*ssa.Extract); isRange {
				continue // range iteration exhausted
			}
			if bo, isBo := iff.Cond.(*ssa.BinOp); isBo {
				if _, isPhi := bo.X.(*ssa.Phi); isPhi {
					continue // loop counter test
				}
			}
			// a returning error path is not a way around the emission for a successful encoding
			if !impliesEmpty(iff.Cond, i == 0) {
				return "can be skipped although the field is populated (the guard is not implied by the field being non-empty): the value is silently left out of the encoding"
			}
		}
	}
	return ""
}
