package main

// C06 — payloads, objects and attributes decode to their registered types.

import (
	"bufio"
	"fmt"
	"go/ast"
	"go/constant"
	"go/token"
	"go/types"
	"os"
	"path/filepath"
	"strconv"
	"strings"

	"golang.org/x/tools/go/ssa"
)

func readAttrRef(path string) (map[string]string, error) {
	f, err := os.Open(path)
	if err != nil {
		return nil, err
	}
	defer f.Close()
	out := map[string]string{}
	sc := bufio.NewScanner(f)
	for sc.Scan() {
		ln := sc.Text()
		if strings.TrimSpace(ln) == "" || strings.HasPrefix(ln, "#") {
			continue
		}
		parts := strings.Split(ln, "\t")
		if len(parts) != 2 {
			return nil, fmt.Errorf("%s: bad row %q", path, ln)
		}
		out[parts[0]] = parts[1]
	}
	return out, sc.Err()
}

// methodReturnsConst checks that method `name` of *T (or T) has only returns of
// one integer constant and gives that constant.
func methodReturnsConst(p *Program, t types.Type, name string) (val int64, fn *ssa.Function, why string) {
	ms := types.NewMethodSet(types.NewPointer(t))
	var sel *types.Selection
	for i := 0; i < ms.Len(); i++ {
		if ms.At(i).Obj().Name() == name {
			sel = ms.At(i)
		}
	}
	if sel == nil {
		return 0, nil, "no method " + name
	}
	fn = p.SSA.FuncValue(sel.Obj().(*types.Func))
	if fn == nil || fn.Blocks == nil {
		return 0, fn, "method body not available"
	}
	first := true
	for _, b := range fn.Blocks {
		for _, in := range b.Instrs {
			ret, ok := in.(*ssa.Return)
			if !ok {
				continue
			}
			if len(ret.Results) != 1 {
				return 0, fn, "unexpected result count"
			}
			v, ok := constIntVal(ret.Results[0])
			if !ok {
				return 0, fn, "returns a non-constant value"
			}
			if !first && v != val {
				return 0, fn, "returns different constants on different paths"
			}
			val, first = v, false
		}
	}
	if first {
		return 0, fn, "no return"
	}
	return val, fn, ""
}

func runC06(r *Run, verifDir string) {
	p := r.P
	reg := BuildRegistry(p)
	m := NewModel(p, reg)
	root := p.Pkg("")
	r.Explain = append(r.Explain,
		"C06 is decided over finite tables and four small functions: D1 every RegisterOperationPayload[Req,Resp](op) names types whose pointer implements OperationPayload and whose Operation() returns the constant op (the type parameters are `any`, so a wrong pairing compiles and panics or mis-reports only at the first decode); D2 the same for the object-type table; D3 the attribute table against the hand-written specification table ref/attributes.tsv; D4 the batch-item decoders build the payload for their own direction from their own decoded Operation; D5 unknown operations/attributes fall back to the opaque container, unknown object types yield an error that every call site checks before decoding into the object.")
	r.Assume = append(r.Assume, "M1's reading of the registries (probed)", "ref/attributes.tsv is the KMIP 1.4 attribute table (name -> TTLV kind), written by hand from the specification")
	r.NotCov = append(r.NotCov, "byte-identity of the re-encoding of opaque payloads/attributes (value level; structural half is C01.P5)", "operations registered by user code at run time")

	r.Rule("C06.M", "model conformance probes", 1)
	probs := append(append([]string{}, reg.Problems...), m.Problems...)
	if len(probs) == 0 {
		r.OK("C06.M", "probes", token.NoPos, "all model probes hold")
	}
	for i, s := range probs {
		r.Unk("C06.M", fmt.Sprintf("probe#%d", i), token.NoPos, "%s", s)
	}
	r.Rule("C06.D7", "the attribute decoder stores the typed value on every success exit of a known attribute", 1)
	attrDecoderSetsValue(r, "C06.D7")
	c06D8(r)
	c06D9(r)
	c06D10(r)
	c06D13(r)
	c06D15(r)
	r.Import("C06.D14", "a typed decode that failed is never followed by another read on the same decoder (no generic retry of an element whose registered type did not fit)", 54, "C02", "C02.R8", func(k string) bool { return strings.HasPrefix(k, "kmip.") || strings.HasPrefix(k, "payloads.") })
	r.Rule("C06.D12", "the opaque container records the tag of what it holds: Value.TagDecodeTTLV stores its tag on every successful return", 1)
	valueTagRecorded(r, "C06.D12")
	(&lexCtx{r: r, p: r.P, ord: map[string]int{}}).l1Hex("C06.D11")
	opIface, _ := root.Types.Scope().Lookup("OperationPayload").Type().Underlying().(*types.Interface)
	objIface, _ := root.Types.Scope().Lookup("Object").Type().Underlying().(*types.Interface)
	if opIface == nil || objIface == nil {
		r.Unk("C06.M", "ifaces", token.NoPos, "anchor missing: kmip.OperationPayload / kmip.Object")
		return
	}

	// ---------------- D1
	r.Rule("C06.D1", "each registered (operation, Req, Resp): *Req and *Resp implement OperationPayload, Operation() returns that operation, no operation twice, registered in init", 27*2)
	seenOp := map[int64]*OpReg{}
	slots := map[string][]string{}
	for _, o := range reg.Ops {
		slots[qualName(o.Req)] = append(slots[qualName(o.Req)], o.OpExpr+"/request")
		slots[qualName(o.Resp)] = append(slots[qualName(o.Resp)], o.OpExpr+"/response")
	}
	for _, o := range reg.Ops {
		if prev, dup := seenOp[o.Op]; dup {
			r.Bad("C06.D1", "op/"+o.OpExpr+"/dup", o.Pos, "operation %s is registered twice (also at %s): the later init wins in an order that depends on file names", o.OpExpr, p.pos(prev.Pos))
		}
		seenOp[o.Op] = o
		for dir, t := range map[string]types.Type{"request": o.Req, "response": o.Resp} {
			key := fmt.Sprintf("op/%s/%s", strings.TrimPrefix(o.OpExpr, "kmip."), dir)
			if _, isStruct := t.Underlying().(*types.Struct); !isStruct {
				r.Bad("C06.D1", key, o.Pos, "%s payload type %s is not a struct: reflect.New(T).Interface().(OperationPayload) cannot work", dir, qualName(t))
				continue
			}
			if !types.Implements(types.NewPointer(t), opIface) {
				r.Bad("C06.D1", key, o.Pos, "*%s does not implement kmip.OperationPayload: the first decode of a %s item of operation %s panics in the type assertion", qualName(t), dir, o.OpExpr)
				continue
			}
			v, fn, why := methodReturnsConst(p, t, "Operation")
			pos := o.Pos
			if fn != nil {
				pos = fn.Pos()
			}
			switch {
			case why != "":
				r.Unk("C06.D1", key, pos, "(*%s).Operation(): %s", qualName(t), why)
			case v != o.Op:
				r.Bad("C06.D1", key, pos, "(*%s).Operation() returns 0x%X but the type is registered as the %s payload of %s (0x%X): a decoded item reports another operation than the one on the wire", qualName(t), v, dir, o.OpExpr, o.Op)
			case o.InFunc != "init":
				r.Bad("C06.D1", key, o.Pos, "registered from %s, not from init", o.InFunc)
			case len(slots[qualName(t)]) > 1:
				r.Bad("C06.D1", key, o.Pos, "type %s is registered in %d slots %v: a request and a response (or two operations) would decode to the same Go type", qualName(t), len(slots[qualName(t)]), slots[qualName(t)])
			default:
				r.OK("C06.D1", key, pos, "*%s implements OperationPayload and reports %s", qualName(t), o.OpExpr)
			}
		}
	}

	// ---------------- D2
	r.Rule("C06.D2", "each objectTypes entry k -> T: *T implements Object and ObjectType() returns k", 9)
	for _, e := range reg.Objects {
		key := "object/" + e.KeyExpr
		k, _ := constant.Int64Val(constant.ToInt(e.Key))
		if !types.Implements(types.NewPointer(e.Type), objIface) {
			r.Bad("C06.D2", key, e.Pos, "*%s does not implement kmip.Object: NewObjectForType(%s) panics", qualName(e.Type), e.KeyExpr)
			continue
		}
		v, fn, why := methodReturnsConst(p, e.Type, "ObjectType")
		pos := e.Pos
		if fn != nil {
			pos = fn.Pos()
		}
		switch {
		case why != "":
			r.Unk("C06.D2", key, pos, "(*%s).ObjectType(): %s", qualName(e.Type), why)
		case v != k:
			r.Bad("C06.D2", key, pos, "objectTypes maps %s to %s but (*%s).ObjectType() returns 0x%X: an object decodes to a type that names another object type", e.KeyExpr, qualName(e.Type), qualName(e.Type), v)
		default:
			r.OK("C06.D2", key, pos, "%s -> *%s, ObjectType() agrees", e.KeyExpr, qualName(e.Type))
		}
	}
	// every ObjectType constant registered in the enum has an entry
	if en := reg.EnumForType(root.Types.Scope().Lookup("ObjectType").Type()); en != nil {
		have := map[uint64]bool{}
		for _, e := range reg.Objects {
			k, _ := constant.Uint64Val(constant.ToInt(e.Key))
			have[k] = true
		}
		for _, v := range en.Values {
			if !have[v.Num] {
				r.Bad("C06.D2", "object/missing/"+v.Name, v.Pos, "object type %s is a named enumeration value but has no entry in objectTypes: a conformant object of that type cannot be decoded", v.Name)
			}
		}
	}

	// ---------------- D3
	r.Rule("C06.D3", "attrTypes keys = AllAttributeNames = the AttributeName constants; each value type has the TTLV kind of the specification table", 50*2)
	ref, err := readAttrRef(filepath.Join(verifDir, "ref", "attributes.tsv"))
	if err != nil {
		r.Unk("C06.D3", "ref", token.NoPos, "cannot read reference: %v", err)
	}
	attrNameT := root.Types.Scope().Lookup("AttributeName")
	constNames := map[string]*types.Const{}
	if attrNameT != nil {
		sc := root.Types.Scope()
		for _, n := range sc.Names() {
			if c, ok := sc.Lookup(n).(*types.Const); ok && types.Identical(c.Type(), attrNameT.Type()) {
				constNames[constant.StringVal(c.Val())] = c
			}
		}
	}
	inAll := map[string]bool{}
	for _, e := range reg.AllAttr {
		inAll[constant.StringVal(e.Key)] = true
	}
	inMap := map[string]TypeEntry{}
	for _, e := range reg.Attrs {
		inMap[constant.StringVal(e.Key)] = e
	}
	for name, c := range constNames {
		key := "attr/" + c.Name()
		e, ok := inMap[name]
		switch {
		case !ok:
			r.Bad("C06.D3", key+"/registered", c.Pos(), "standard attribute %q has no entry in attrTypes: its value decodes as opaque TTLV instead of its specified type", name)
		case !inAll[name]:
			r.Bad("C06.D3", key+"/registered", c.Pos(), "standard attribute %q is missing from AllAttributeNames", name)
		default:
			r.OK("C06.D3", key+"/registered", e.Pos, "%q in attrTypes and AllAttributeNames", name)
		}
	}
	for name, e := range inMap {
		key := "attr/" + e.KeyExpr
		if _, ok := constNames[name]; !ok {
			r.Bad("C06.D3", key+"/registered", e.Pos, "attrTypes has an entry %q that is not an AttributeName constant", name)
		}
		kd, ke := m.KindOf(e.Type, false), m.KindOf(e.Type, true)
		want, inRef := ref[name]
		got := kd.String()
		switch {
		case strings.HasPrefix(name, "x-") || strings.HasPrefix(name, "y-"):
			r.Bad("C06.D3", key+"/kind", e.Pos, "a custom attribute name has a fixed type")
		case kd == KUnsupported || ke == KUnsupported:
			r.Bad("C06.D3", key+"/kind", e.Pos, "value type %s of attribute %q cannot be coded (the library panics)", qualName(e.Type), name)
		case kd != ke:
			r.Bad("C06.D3", key+"/kind", e.Pos, "value type %s encodes as %s but decodes as %s", qualName(e.Type), ke, kd)
		case ref != nil && !inRef:
			r.Bad("C06.D3", key+"/kind", e.Pos, "attribute %q is not in the specification table", name)
		case ref != nil && want != got:
			r.Bad("C06.D3", key+"/kind", e.Pos, "attribute %q is registered with Go type %s (TTLV %s) but the specification defines it as %s", name, qualName(e.Type), got, want)
		default:
			r.OK("C06.D3", key+"/kind", e.Pos, "%q -> %s (%s) as specified", name, qualName(e.Type), got)
		}
	}
	for name := range ref {
		if _, ok := inMap[name]; !ok {
			r.Bad("C06.D3", "attr/spec/"+name, token.NoPos, "specification attribute %q (%s) is not registered", name, ref[name])
		}
	}

	// ---------------- D4 direction
	r.Rule("C06.D4", "batch-item decoders build the payload of their own direction from their own decoded Operation", 2)
	c06Direction(r, "RequestBatchItem", "newRequestPayload", "newResponsePayload", "RequestPayload")
	c06Direction(r, "ResponseBatchItem", "newResponsePayload", "newRequestPayload", "ResponsePayload")
	c06RegistryAccessors(r)

	// ---------------- D6 the opaque payload keeps its operation
	r.Rule("C06.D6", "UnknownPayload.opType is written only by its constructors: decoding never loses the operation code of an opaque payload", 3)
	c06OpTypeWriters(r)

	// ---------------- D5 fallbacks
	r.Rule("C06.D5", "unknown operation/attribute -> opaque container; unknown object type -> error, checked at every call site before decoding the object", 3+4)
	c06Fallbacks(r, reg)
}

// decodeClosure returns the closure passed to d.Struct in (*T).TagDecodeTTLV, plus the receiver value inside it.
func decodeClosure(p *Program, rel, typ, method string) (*ssa.Function, ssa.Value) {
	fn := p.Func(rel, typ, method)
	if fn == nil || len(fn.AnonFuncs) != 1 {
		return nil, nil
	}
	cl := fn.AnonFuncs[0]
	for _, fv := range cl.FreeVars {
		if typeName(fv.Type()) == typ || (func() bool {
			if pt, ok := fv.Type().(*types.Pointer); ok {
				return typeName(pt.Elem()) == typ
			}
			return false
		})() {
			return cl, fv
		}
	}
	return cl, nil
}

// recvField reports whether v is (a load of) &recv.F and returns F's name.
// recv may be captured by reference (FreeVar of type **T): loads are looked through.
func recvField(v ssa.Value, recv ssa.Value) (string, bool) {
	v = stripConv(v)
	if u, ok := v.(*ssa.UnOp); ok && u.Op == token.MUL {
		v = u.X
	}
	fa, ok := v.(*ssa.FieldAddr)
	if !ok {
		return "", false
	}
	base := fa.X
	for {
		if u, ok := base.(*ssa.UnOp); ok && u.Op == token.MUL {
			base = u.X
			continue
		}
		break
	}
	if base != recv {
		return "", false
	}
	st := derefStruct(fa.X.Type())
	if st == nil {
		return "", false
	}
	return fname(st.Field(fa.Field)), true
}

func c06Direction(r *Run, typ, wantCtor, otherCtor, payloadField string) {
	p := r.P
	key := "kmip." + typ + ".TagDecodeTTLV"
	cl, recv := decodeClosure(p, "", typ, "TagDecodeTTLV")
	if cl == nil || recv == nil {
		r.Unk("C06.D4", key, token.NoPos, "anchor missing: decoder closure / receiver of %s", typ)
		return
	}
	var ctorCall *ssa.Call
	var opDecode ssa.Instruction
	bad := ""
	allInstrs(cl, func(in ssa.Instruction) {
		c, ok := in.(*ssa.Call)
		if !ok {
			return
		}
		id := callID(&c.Call)
		switch {
		case id.is(modPath, "", otherCtor):
			bad = fmt.Sprintf("calls %s: a %s would be decoded into the payload type of the other direction", otherCtor, strings.TrimSuffix(typ, "BatchItem"))
		case id.is(modPath, "", wantCtor):
			ctorCall = c
		case id.pkg == modPath+"/ttlv" && id.recv == "Decoder" && (id.name == "Any" || id.name == "TagAny" || id.name == "Opt"):
			arg := c.Call.Args[len(c.Call.Args)-1]
			if f, ok := recvField(arg, recv); ok && f == "Operation" {
				opDecode = c
			}
		}
	})
	switch {
	case bad != "":
		r.Bad("C06.D4", key, cl.Pos(), "%s", bad)
	case ctorCall == nil:
		r.Bad("C06.D4", key, cl.Pos(), "never calls %s: the payload is not decoded into the registered type", wantCtor)
	case opDecode == nil:
		r.Unk("C06.D4", key, cl.Pos(), "decode of the receiver's Operation field not recognised")
	default:
		f, ok := recvField(ctorCall.Call.Args[0], recv)
		if !ok || f != "Operation" {
			r.Bad("C06.D4", key, ctorCall.Pos(), "%s is called with something else than the item's own Operation field", wantCtor)
			return
		}
		if !dominatesInstr(opDecode, ctorCall) {
			r.Bad("C06.D4", key, ctorCall.Pos(), "%s(recv.Operation) is not preceded on every path by the decode of Operation: the payload type is chosen from a stale operation", wantCtor)
			return
		}
		// result stored into recv.<payloadField>
		stored := false
		for _, ref := range *ctorCall.Referrers() {
			if st, ok := ref.(*ssa.Store); ok {
				if f, ok := recvField(st.Addr, recv); ok && f == payloadField {
					stored = true
				}
				// kept in a local first: `p := newX(op); recv.F = p`
				if al, isLocal := st.Addr.(*ssa.Alloc); isLocal && al.Referrers() != nil {
					for _, r2 := range *al.Referrers() {
						if ld, ok := r2.(*ssa.UnOp); ok && ld.Op == token.MUL && ld.Referrers() != nil {
							for _, r3 := range *ld.Referrers() {
								if st2, ok := r3.(*ssa.Store); ok && st2.Val == ssa.Value(ld) {
									if f, ok := recvField(st2.Addr, recv); ok && f == payloadField {
										stored = true
									}
								}
							}
						}
					}
				}
			}
		}
		if !stored {
			r.Bad("C06.D4", key, ctorCall.Pos(), "result of %s is not stored into %s", wantCtor, payloadField)
			return
		}
		r.OK("C06.D4", key, ctorCall.Pos(), "%s(recv.Operation) after Operation is decoded, stored in %s", wantCtor, payloadField)
	}
}

// c06RegistryAccessors: newRequestPayload uses .newRequest() which reads .request; typeForOperation fills request from Req.
func c06RegistryAccessors(r *Run) {
	p := r.P
	check := func(ctor, meth, field string) {
		key := "kmip." + ctor
		fn := p.Func("", "", ctor)
		mf := p.Func("", "operationPayloadTypes", meth)
		if fn == nil || mf == nil {
			r.Unk("C06.D4", key, token.NoPos, "anchor missing: %s / operationPayloadTypes.%s", ctor, meth)
			return
		}
		calls := false
		allInstrs(fn, func(in ssa.Instruction) {
			if c, ok := in.(*ssa.Call); ok && callID(&c.Call).is(modPath, "operationPayloadTypes", meth) {
				calls = true
			}
		})
		reads := ""
		allInstrs(mf, func(in ssa.Instruction) {
			if fa, ok := in.(*ssa.FieldAddr); ok {
				if st := derefStruct(fa.X.Type()); st != nil {
					reads += fname(st.Field(fa.Field)) + " "
				}
			}
		})
		if calls && strings.TrimSpace(reads) == field {
			r.OK("C06.D4", key, fn.Pos(), "%s -> %s() -> .%s", ctor, meth, field)
		} else {
			r.Bad("C06.D4", key, fn.Pos(), "%s does not obtain the %s type through %s() reading .%s (calls=%v reads=%q)", ctor, field, meth, field, calls, reads)
		}
	}
	check("newRequestPayload", "newRequest", "request")
	check("newResponsePayload", "newResponse", "response")
	// typeForOperation literal: request: reflect.TypeFor[Req](), response: reflect.TypeFor[Resp]()
	fd := p.FuncDecl("", "", "typeForOperation")
	root := p.Pkg("")
	if fd == nil {
		r.Unk("C06.D4", "kmip.typeForOperation", token.NoPos, "anchor missing")
		return
	}
	got := map[string]string{}
	ast.Inspect(fd.Body, func(n ast.Node) bool {
		kv, ok := n.(*ast.KeyValueExpr)
		if !ok {
			return true
		}
		k, _ := kv.Key.(*ast.Ident)
		if k == nil {
			return true
		}
		if t := reflectTypeForArg(root.TypesInfo, kv.Value); t != nil {
			name := k.Name
			if fv, ok := root.TypesInfo.Uses[k].(*types.Var); ok {
				name = fname(fv) // the reference-tree name of a renamed field
			}
			got[name] = t.String()
		}
		return true
	})
	if got["request"] == "Req" && got["response"] == "Resp" {
		r.OK("C06.D4", "kmip.typeForOperation", fd.Pos(), "request <- Req, response <- Resp")
	} else {
		r.Bad("C06.D4", "kmip.typeForOperation", fd.Pos(), "typeForOperation fills request/response from %v: directions are crossed", got)
	}
}

func c06Fallbacks(r *Run, reg *Registry) {
	p := r.P
	// (a) newRequestPayload/newResponsePayload: on the !ok edge return &UnknownPayload{opType: op}
	for _, ctor := range []string{"newRequestPayload", "newResponsePayload"} {
		key := "kmip." + ctor + "/fallback"
		fn := p.Func("", "", ctor)
		if fn == nil {
			r.Unk("C06.D5", key, token.NoPos, "anchor missing")
			continue
		}
		ok := false
		allInstrs(fn, func(in ssa.Instruction) {
			st, isSt := in.(*ssa.Store)
			if !isSt {
				return
			}
			base, fld, isF := fieldAddrOf(st.Addr)
			if !isF || fname(fld) != "opType" || typeName(base.Type()) != "UnknownPayload" {
				return
			}
			if st.Val != ssa.Value(fn.Params[0]) {
				return
			}
			// the alloc is returned, and the block is on the !ok edge of the map lookup
			alloc, isA := base.(*ssa.Alloc)
			if !isA {
				return
			}
			returned := false
			for _, ref := range *alloc.Referrers() {
				if mi, isMI := ref.(*ssa.MakeInterface); isMI {
					for _, r2 := range *mi.Referrers() {
						if _, isRet := r2.(*ssa.Return); isRet {
							returned = true
						}
					}
				}
			}
			if !returned {
				return
			}
			// dominating If on the comma-ok
			for d := st.Block(); d != nil; d = d.Idom() {
				if idom := d.Idom(); idom != nil {
					if cond, isTrue, e := edgeTaken(idom, d); e {
						if ex, isEx := cond.(*ssa.Extract); isEx && ex.Index == 1 && !isTrue {
							if _, isLookup := ex.Tuple.(*ssa.Lookup); isLookup {
								ok = true
							}
						}
					}
				}
			}
		})
		if ok {
			r.OK("C06.D5", key, fn.Pos(), "unregistered operation -> &UnknownPayload{opType: op}")
		} else {
			r.Bad("C06.D5", key, fn.Pos(), "%s does not return an UnknownPayload carrying the same operation when the operation is not registered", ctor)
		}
	}
	// (b) newAttribute: custom or unknown name -> &ttlv.Value{}
	{
		key := "kmip.newAttribute/fallback"
		fn := p.Func("", "", "newAttribute")
		if fn == nil {
			r.Unk("C06.D5", key, token.NoPos, "anchor missing")
		} else {
			// every return is either the generic container reflect.ValueOf(&ttlv.Value{}), or reflect.New(ty) with ty the
			// table entry of the name, returned only when the entry exists and the name is not a custom one
			nGeneric, nTyped, bad := 0, 0, ""
			for _, b := range fn.Blocks {
				ret, ok := b.Instrs[len(b.Instrs)-1].(*ssa.Return)
				if !ok || len(ret.Results) != 1 {
					continue
				}
				var classify func(v ssa.Value, d int) string
				classify = func(v ssa.Value, d int) string {
					if d > 4 {
						return "?"
					}
					switch x := v.(type) {
					case *ssa.Call:
						id := callID(&x.Call)
						if id.is("reflect", "", "ValueOf") {
							a := x.Call.Args[0]
							if mi, ok := a.(*ssa.MakeInterface); ok {
								a = mi.X
							}
							if al, ok := a.(*ssa.Alloc); ok && typeName(al.Type()) == "Value" && typePkgPath(al.Type()) == modPath+"/ttlv" {
								return "generic"
							}
						}
						if id.is("reflect", "", "New") {
							if ex, ok := x.Call.Args[0].(*ssa.Extract); ok {
								if lk, ok := ex.Tuple.(*ssa.Lookup); ok && lk.CommaOk && unspill(lk.Index) == ssa.Value(fn.Params[0]) {
									// dominated by ok == true and IsCustom() == false
									okEdge, notCustom := false, false
									hasCustomTest := false
									allInstrs(fn, func(in ssa.Instruction) {
										if c, ok := in.(*ssa.Call); ok && callID(&c.Call).name == "IsCustom" {
											hasCustomTest = true
										}
									})
									for _, dc := range dominatingConds(x.Block()) {
										if e2, ok := dc.cond.(*ssa.Extract); ok && e2.Tuple == ssa.Value(lk) && e2.Index == 1 && dc.outcome {
											okEdge = true
										}
										if c, ok := dc.cond.(*ssa.Call); ok && callID(&c.Call).name == "IsCustom" && !dc.outcome {
											notCustom = true
										}
									}
									if okEdge && (notCustom || !hasCustomTest) {
										return "typed"
									}
									return "typed-unguarded"
								}
							}
						}
					case *ssa.Phi:
						kinds := map[string]bool{}
						for _, e := range x.Edges {
							kinds[classify(e, d+1)] = true
						}
						if len(kinds) == 1 {
							for k := range kinds {
								return k
							}
						}
						return "mixed"
					}
					return "?"
				}
				switch k := classify(ret.Results[0], 0); k {
				case "generic":
					nGeneric++
				case "typed":
					nTyped++
				default:
					bad = k
				}
			}
			// a custom name must not reach the typed return: either the typed return is under !IsCustom(), or custom names are
			// never in the table (they are not: C06.D3 shows the table holds the standard names only)
			if bad == "" && nGeneric >= 1 && nTyped >= 1 {
				r.OK("C06.D5", key, fn.Pos(), "custom (x-/y-) and unregistered names decode into a generic ttlv.Value (%d return(s)); registered names into reflect.New(attrTypes[name]) under the ok edge of the lookup (%d return(s))", nGeneric, nTyped)
			} else {
				r.Unk("C06.D5", key, fn.Pos(), "newAttribute: a return is neither the generic container nor reflect.New of the looked-up type under its ok edge (generic=%d typed=%d other=%q)", nGeneric, nTyped, bad)
			}
		}
	}
	// (c) NewObjectForType: !ok -> (nil, non-nil error)
	{
		key := "kmip.NewObjectForType/error"
		fn := p.Func("", "", "NewObjectForType")
		if fn == nil {
			r.Unk("C06.D5", key, token.NoPos, "anchor missing")
		} else {
			okErr := false
			allInstrs(fn, func(in ssa.Instruction) {
				ret, isRet := in.(*ssa.Return)
				if !isRet || len(ret.Results) != 2 {
					return
				}
				if isNilConst(ret.Results[0]) {
					if c, isC := ret.Results[1].(*ssa.Call); isC && (callID(&c.Call).is("fmt", "", "Errorf") || callID(&c.Call).is("errors", "", "New")) {
						// on the !ok edge
						for d := ret.Block(); d != nil; d = d.Idom() {
							if idom := d.Idom(); idom != nil {
								if cond, isTrue, e := edgeTaken(idom, d); e && !isTrue {
									if ex, isEx := cond.(*ssa.Extract); isEx && ex.Index == 1 {
										okErr = true
									}
								}
							}
						}
					}
				}
			})
			if okErr {
				r.OK("C06.D5", key, fn.Pos(), "unknown object type -> (nil, error)")
			} else {
				r.Bad("C06.D5", key, fn.Pos(), "NewObjectForType does not return (nil, non-nil error) for an unregistered object type")
			}
		}
	}
	// (d) call sites of NewObjectForType
	n := 0
	for _, fn := range p.OwnFuncs() {
		if fnKey(fn) == "kmip.NewObjectForType" {
			continue
		}
		allInstrs(fn, func(in ssa.Instruction) {
			c, ok := in.(*ssa.Call)
			if !ok || !callID(&c.Call).is(modPath, "", "NewObjectForType") {
				return
			}
			n++
			key := fnKey(fn) + "/NewObjectForType"
			// error extract, tested != nil, and every later d.Any(&x.Object) in this function dominated by the err==nil edge
			var errEx *ssa.Extract
			for _, ref := range *c.Referrers() {
				if ex, ok := ref.(*ssa.Extract); ok && ex.Index == 1 {
					errEx = ex
				}
			}
			if errEx == nil || len(*errEx.Referrers()) == 0 {
				r.Bad("C06.D5", key, c.Pos(), "the error of NewObjectForType is discarded: an unknown object type reaches the decoder with a nil object")
				return
			}
			var okBlock *ssa.BasicBlock
			for _, ref := range *errEx.Referrers() {
				if b, ok := ref.(*ssa.BinOp); ok && b.Op == token.NEQ && isNilConst(b.Y) {
					for _, r2 := range *b.Referrers() {
						if iff, ok := r2.(*ssa.If); ok {
							okBlock = iff.Block().Succs[1]
						}
					}
				}
			}
			if okBlock == nil {
				r.Unk("C06.D5", key, c.Pos(), "error check idiom `if err != nil` not recognised")
				return
			}
			// decode into Object
			found, guarded := 0, 0
			allInstrs(fn, func(in2 ssa.Instruction) {
				c2, ok := in2.(*ssa.Call)
				if !ok {
					return
				}
				id := callID(&c2.Call)
				if id.pkg == modPath+"/ttlv" && id.recv == "Decoder" && (id.name == "Any" || id.name == "TagAny") {
					arg := stripConv(c2.Call.Args[len(c2.Call.Args)-1])
					if fa, ok := arg.(*ssa.FieldAddr); ok {
						if st := derefStruct(fa.X.Type()); st != nil && fname(st.Field(fa.Field)) == "Object" {
							found++
							if okBlock.Dominates(c2.Block()) {
								guarded++
							}
						}
					}
				}
			})
			// discriminant: a load of <recv>.ObjectType, or a comma-ok assertion to kmip.ObjectType
			disc := ""
			arg := c.Call.Args[0]
			if u, ok := arg.(*ssa.UnOp); ok && u.Op == token.MUL {
				if fa, ok := u.X.(*ssa.FieldAddr); ok {
					if st := derefStruct(fa.X.Type()); st != nil {
						disc = "field " + fname(st.Field(fa.Field))
					}
				}
			}
			if ex, ok := arg.(*ssa.Extract); ok {
				if ta, ok := ex.Tuple.(*ssa.TypeAssert); ok && ta.CommaOk && typeName(ta.AssertedType) == "ObjectType" {
					disc = "comma-ok assertion of an attribute value to kmip.ObjectType"
				}
			}
			if ta, ok := arg.(*ssa.TypeAssert); ok && !ta.CommaOk && typeName(ta.AssertedType) == "ObjectType" {
				disc = "assertion of an attribute value to kmip.ObjectType (its safety is C02.R2's obligation)"
			}
			switch {
			case found == 0:
				r.Unk("C06.D5", key, c.Pos(), "no decode into the Object field found after NewObjectForType")
			case guarded != found:
				r.Bad("C06.D5", key, c.Pos(), "the object is decoded on a path where the error of NewObjectForType was not checked: an unknown object type reaches the decoder with a nil object")
			case disc == "" || (strings.HasPrefix(disc, "field") && disc != "field ObjectType"):
				r.Bad("C06.D5", key, c.Pos(), "NewObjectForType is not called with the payload's own decoded ObjectType (got %q)", disc)
			default:
				r.OK("C06.D5", key, c.Pos(), "error checked before d.Any(&Object); object type taken from %s", disc)
			}
		})
	}
	if n < 4 {
		r.Unk("C06.D5", "NewObjectForType/callsites", token.NoPos, "%d call sites found, 4 confirmed on the pinned tree", n)
	}
}

// c06OpTypeWriters: who may write UnknownPayload.opType (field stores and whole-struct stores).
func c06OpTypeWriters(r *Run) {
	p := r.P
	allowed := map[string]bool{"kmip.newRequestPayload": true, "kmip.newResponsePayload": true, "kmip.NewUnknownPayload": true}
	n := 0
	for _, fn := range p.OwnFuncs() {
		ord := 0
		allInstrs(fn, func(in ssa.Instruction) {
			st, ok := in.(*ssa.Store)
			if !ok {
				return
			}
			writes := false
			if _, fld, ok := fieldAddrOf(st.Addr); ok && fname(fld) == "opType" && typeName(st.Addr.(*ssa.FieldAddr).X.Type()) == "UnknownPayload" {
				writes = true
			}
			if pt, ok := st.Addr.Type().Underlying().(*types.Pointer); ok && typeName(pt.Elem()) == "UnknownPayload" && typePkgPath(pt.Elem()) == modPath {
				if _, isStruct := pt.Elem().Underlying().(*types.Struct); isStruct {
					writes = true // *v = UnknownPayload{...}
				}
			}
			if !writes {
				return
			}
			n++
			ord++
			key := fmt.Sprintf("%s/store-opType#%d", fnKey(fn), ord)
			if allowed[fnKey(fn)] {
				r.OK("C06.D6", key, st.Pos(), "operation code set by constructor %s", fnKey(fn))
			} else {
				r.Bad("C06.D6", key, st.Pos(), "%s overwrites the operation code of an UnknownPayload after it was created for a given operation: a decoded opaque payload reports operation 0 and is re-encoded under the wrong operation", fnKey(fn))
			}
		})
	}
	if n == 0 {
		r.Unk("C06.D6", "UnknownPayload.opType/writers", token.NoPos, "no writer of UnknownPayload.opType found")
	}
}

// ---------------------------------------------------------------- D7

// attrDecoderSetsValue: in Attribute.TagDecodeTTLV every success exit on which the attribute has a registered (or
// custom) value type has stored the decoded, typed value into AttributeValue: a return of the nil constant (or of a
// call result, which may be nil) is dominated by the store, unless it is on the newAttribute(...).IsNil() edge (unknown
// attribute: the value is skipped and stays nil). The client's unguarded assertions on attribute values (C12.A1) and
// the "decode to the registered type" clause of C06 both rest on this.
func attrDecoderSetsValue(r *Run, rule string) {
	p := r.P
	fn := p.Func("", "Attribute", "TagDecodeTTLV")
	key := "kmip.Attribute.TagDecodeTTLV/value-set"
	if fn == nil {
		r.Unk(rule, key, token.NoPos, "anchor missing")
		return
	}
	n, bad := 0, token.NoPos
	why := ""
	withClosures(fn, func(f *ssa.Function) {
		if f == fn {
			return
		}
		// the store att.AttributeValue = ...
		var stores []*ssa.Store
		allInstrs(f, func(in ssa.Instruction) {
			if st, ok := in.(*ssa.Store); ok {
				if _, fld, ok := fieldAddrOf(st.Addr); ok && fname(fld) == "AttributeValue" && typeName(st.Addr.(*ssa.FieldAddr).X.Type()) == "Attribute" {
					stores = append(stores, st)
				}
			}
		})
		for _, b := range f.Blocks {
			ret, ok := b.Instrs[len(b.Instrs)-1].(*ssa.Return)
			if !ok || len(ret.Results) != 1 {
				continue
			}
			v := ret.Results[0]
			mayBeNil := true
			switch x := v.(type) {
			case *ssa.Const:
				mayBeNil = x.IsNil()
			case *ssa.Call:
				id := callID(&x.Call)
				mayBeNil = !(id.is("fmt", "", "Errorf") || id.is("errors", "", "New") || id.is(ttlvPath, "", "Errorf"))
			case *ssa.MakeInterface:
				mayBeNil = false
			}
			// nil unless a dominating test says otherwise
			for _, dc := range dominatingConds(b) {
				if bo, ok := dc.cond.(*ssa.BinOp); ok && bo.X == v && isNilConst(bo.Y) && (bo.Op == token.NEQ) == dc.outcome {
					mayBeNil = false
				}
			}
			if !mayBeNil {
				continue
			}
			n++
			stored := false
			for _, st := range stores {
				if dominatesInstr(st, ret) {
					stored = true
				}
			}
			unknown := false
			for _, dc := range dominatingConds(b) {
				if c, ok := dc.cond.(*ssa.Call); ok && dc.outcome && callID(&c.Call).is("reflect", "Value", "IsNil") {
					unknown = true
				}
			}
			if !stored && !unknown {
				bad = ret.Pos()
				why = "a success exit of the attribute decoder is reached without AttributeValue having been set and outside the unknown-attribute branch"
			}
		}
	})
	switch {
	case bad.IsValid():
		r.Bad(rule, key, bad, "%s: a standard attribute can then be returned with a nil value, which the client's attribute handling asserts to its registered type without a test (panic on a response the decoder accepted)", why)
	case n == 0:
		r.Unk(rule, key, fn.Pos(), "no success exit found in the attribute decoder")
	default:
		r.OK(rule, key, fn.Pos(), "%d success exit(s): each follows the store of the typed value, or is the unknown-attribute branch", n)
	}
}

// ---------------------------------------------------------------- D8 / D9

// c06D8: an interface-typed destination is decoded INTO the value its owner pre-seeded (the batch-item decoders seed
// the payload for the decoded operation, and UnknownPayload keeps the operation code in an unexported field that only
// the seeding sets): the interface plan passes value.Elem() of its own destination to decodeValue and never replaces
// the destination.
func c06D8(r *Run) {
	p := r.P
	r.Rule("C06.D8", "the generic decoder fills the pre-seeded value behind an interface, it does not replace it", 1)
	df := p.Func("ttlv", "", "decodeFunc")
	key := "ttlv.decodeFunc/interface-plan"
	if df == nil {
		r.Unk("C06.D8", key, token.NoPos, "anchor missing")
		return
	}
	n, bad := 0, token.NoPos
	why := ""
	withClosures(df, func(cl *ssa.Function) {
		if cl == df || len(cl.Params) < 3 {
			return
		}
		// the destination parameter: the reflect.Value one
		var dst *ssa.Parameter
		for _, prm := range cl.Params {
			if typeName(prm.Type()) == "Value" && typePkgPath(prm.Type()) == "reflect" {
				dst = prm
			}
		}
		if dst == nil {
			return
		}
		var dv *ssa.Call
		allInstrs(cl, func(in ssa.Instruction) {
			if c, ok := in.(*ssa.Call); ok && callID(&c.Call).is(ttlvPath, "Decoder", "decodeValue") {
				dv = c
			}
		})
		if dv == nil {
			return
		}
		// is this the interface plan? it calls Elem() on the destination or decodes into a New value
		isIface := false
		allInstrs(cl, func(in ssa.Instruction) {
			if c, ok := in.(*ssa.Call); ok {
				id := callID(&c.Call)
				if id.pkg == "reflect" && id.recv == "Value" && id.name == "Elem" && len(c.Call.Args) == 1 && unspill(c.Call.Args[0]) == ssa.Value(dst) {
					isIface = true
				}
			}
		})
		if !isIface {
			return
		}
		n++
		target := dv.Call.Args[len(dv.Call.Args)-1]
		okTarget := false
		if c, ok := target.(*ssa.Call); ok {
			id := callID(&c.Call)
			if id.pkg == "reflect" && id.recv == "Value" && id.name == "Elem" && unspill(c.Call.Args[0]) == ssa.Value(dst) {
				okTarget = true
			}
		}
		replaced := false
		allInstrs(cl, func(in ssa.Instruction) {
			if c, ok := in.(*ssa.Call); ok {
				id := callID(&c.Call)
				if id.pkg == "reflect" && id.recv == "Value" && id.name == "Set" && unspill(c.Call.Args[0]) == ssa.Value(dst) {
					replaced = true
				}
			}
		})
		if !okTarget || replaced {
			bad = dv.Pos()
			why = "the interface plan decodes into a value other than the one behind the destination (or replaces the destination afterwards)"
		}
	})
	switch {
	case bad.IsValid():
		r.Bad("C06.D8", key, bad, "%s: the value the owner pre-seeded is discarded, so a payload of an operation without registered type (UnknownPayload, whose operation code is set only by the seeding) reports operation 0 after decoding", why)
	case n == 0:
		r.Unk("C06.D8", key, df.Pos(), "the interface decode plan (a closure calling Elem() on its destination and decodeValue) was not found")
	default:
		r.OK("C06.D8", key, df.Pos(), "%d interface plan(s): decodeValue(tag, value.Elem()), destination never replaced", n)
	}
}

// c06D9: the attribute's Go type is chosen by the exact attribute name: newAttribute looks attrTypes up with its
// parameter itself (a normalised/derived key would type look-alike names that are not standard attributes).
func c06D9(r *Run) {
	p := r.P
	r.Rule("C06.D9", "newAttribute looks the type table up with the attribute name itself", 1)
	fn := p.Func("", "", "newAttribute")
	key := "kmip.newAttribute/exact-name"
	if fn == nil {
		r.Unk("C06.D9", key, token.NoPos, "anchor missing")
		return
	}
	tbl := curVarName(modPath, "attrTypes")
	n, bad := 0, token.NoPos
	allInstrs(fn, func(in ssa.Instruction) {
		lk, ok := in.(*ssa.Lookup)
		if !ok {
			return
		}
		g := globalRoot(lk.X, 0)
		if g == nil || g.Name() != tbl {
			return
		}
		n++
		if unspill(lk.Index) != ssa.Value(fn.Params[0]) {
			bad = lk.Pos()
		}
	})
	switch {
	case bad.IsValid():
		r.Bad("C06.D9", key, bad, "newAttribute looks the attribute type up with a value derived from the name, not the name itself: a name that is not a standard attribute but normalises to one is decoded as that attribute's type (a value of another kind makes the whole message fail, a matching one comes back typed instead of opaque)")
	case n == 0:
		r.Unk("C06.D9", key, fn.Pos(), "no lookup of the attribute type table found in newAttribute")
	default:
		r.OK("C06.D9", key, fn.Pos(), "%d lookup(s) keyed by the parameter itself", n)
	}
}

// c06D10: a decoder that picks the object's Go type from an element of a decoded list (Import: the Object Type
// attribute among the attributes) considers every position of the list. The index used to reach the element
// that dominates the NewObjectForType call must be able to take the value 0 and must not be able to be negative:
// its lower bound, computed from its origin (loop counter: the initial constant; -1-sentinel search of the
// standard library: -1) and the comparisons with constants that dominate the indexing, has to be exactly 0.
func c06D10(r *Run) {
	p := r.P
	r.Rule("C06.D10", "a type-selecting scan over a decoded list covers every position (index lower bound is 0)", 1)
	n := 0
	for _, fn := range p.OwnFuncs() {
		if fn.Pkg == nil || !strings.HasSuffix(fn.Pkg.Pkg.Path(), "/payloads") {
			continue
		}
		var sel []ssa.Instruction
		allInstrs(fn, func(in ssa.Instruction) {
			if c := callOf(in); c != nil && resolvedCallID(c, 2).is(modPath, "", "NewObjectForType") {
				sel = append(sel, in)
			}
		})
		if len(sel) == 0 {
			continue
		}
		allInstrs(fn, func(in ssa.Instruction) {
			ia, ok := in.(*ssa.IndexAddr)
			if !ok {
				return
			}
			if _, isSl := ia.X.Type().Underlying().(*types.Slice); !isSl {
				return
			}
			if _, _, isFld := fieldAddrOf(unspill(ia.X)); !isFld {
				if ld, ok := unspill(ia.X).(*ssa.UnOp); !ok || ld.Op != token.MUL {
					return
				} else if _, _, isFld := fieldAddrOf(ld.X); !isFld {
					return
				}
			}
			dom := false
			for _, s := range sel {
				if dominatesInstr(ia, s) {
					dom = true
				}
			}
			if !dom {
				return
			}
			n++
			key := fnKey(fn) + "/scan-total"
			lb, how, ok := indexLowerBound(ia.Index, ia.Block())
			switch {
			case !ok:
				r.Unk("C06.D10", key, ia.Pos(), "origin of the index of the type-selecting element not understood (%s)", how)
			case lb > 0:
				r.Bad("C06.D10", key, ia.Pos(), "the element that selects the object's type is reached with an index that is never below %d (%s): a list whose selecting element sits at position 0 is treated as if it had none, the request fails to decode", lb, how)
			case lb < 0:
				r.Bad("C06.D10", key, ia.Pos(), "the element that selects the object's type is indexed with a search result that may be -1 (%s): a list without the element panics the decoder", how)
			default:
				r.OK("C06.D10", key, ia.Pos(), "index lower bound 0 (%s)", how)
			}
		})
	}
	if n == 0 {
		r.OK("C06.D10", "payloads/no-indexed-selection", token.NoPos, "no decoder selects the object type through an indexed list element")
	}
}

// indexLowerBound computes the least value idx can have in block at: origin (loop counter or -1-sentinel search)
// refined by the dominating comparisons of idx with constants.
func indexLowerBound(idx ssa.Value, at *ssa.BasicBlock) (int64, string, bool) {
	idx = unspill(idx)
	var lb int64
	how := ""
	base := idx
	add := int64(0)
	if bo, ok := base.(*ssa.BinOp); ok && bo.Op == token.ADD {
		if k, ok := constIntVal(bo.Y); ok {
			base, add = bo.X, k
		}
	}
	switch v := base.(type) {
	case *ssa.Phi:
		// loop counter: one constant initial edge, the other edges v+k with k > 0
		init, haveInit := int64(0), false
		for _, e := range v.Edges {
			e = unspill(e)
			if k, ok := constIntVal(e); ok {
				if haveInit && k != init {
					return 0, "counter with two initial values", false
				}
				init, haveInit = k, true
				continue
			}
			bo, ok := e.(*ssa.BinOp)
			if !ok || bo.Op != token.ADD {
				return 0, "counter edge is not an increment", false
			}
			k, okK := constIntVal(bo.Y)
			if !okK || k <= 0 || (unspill(bo.X) != ssa.Value(v) && unspill(bo.X) != idx) {
				return 0, "counter edge is not an increment", false
			}
		}
		if !haveInit {
			return 0, "counter without constant start", false
		}
		lb, how = init+add, "loop counter starting at "+strconv.FormatInt(init+add, 10)
	case *ssa.Call:
		id := callID(&v.Call)
		if add != 0 {
			return 0, "offset search result", false
		}
		okFn := false
		switch {
		case (id.pkg == "slices") && (id.name == "Index" || id.name == "IndexFunc"):
			okFn = true
		case (id.pkg == "strings" || id.pkg == "bytes") && (strings.HasPrefix(id.name, "Index") || strings.HasPrefix(id.name, "LastIndex")):
			okFn = true
		}
		if !okFn {
			return 0, "result of " + id.String(), false
		}
		lb, how = -1, "result of "+id.String()
	default:
		return 0, fmt.Sprintf("%T", base), false
	}
	for _, dc := range dominatingConds(at) {
		bo, ok := dc.cond.(*ssa.BinOp)
		if !ok {
			continue
		}
		x, y, op := unspill(bo.X), unspill(bo.Y), bo.Op
		if _, isC := constIntVal(x); isC {
			x, y = y, x
			switch op {
			case token.LSS:
				op = token.GTR
			case token.LEQ:
				op = token.GEQ
			case token.GTR:
				op = token.LSS
			case token.GEQ:
				op = token.LEQ
			}
		}
		if x != idx && x != base {
			continue
		}
		k, ok := constIntVal(y)
		if !ok {
			continue
		}
		if x == base && base != idx {
			k += add
		}
		if !dc.outcome {
			switch op {
			case token.LSS:
				op = token.GEQ
			case token.LEQ:
				op = token.GTR
			case token.GTR:
				op = token.LEQ
			case token.GEQ:
				op = token.LSS
			case token.EQL:
				op = token.NEQ
			case token.NEQ:
				op = token.EQL
			}
		}
		switch op {
		case token.GTR:
			if k+1 > lb {
				lb = k + 1
				how += ", under idx > " + strconv.FormatInt(k, 10)
			}
		case token.GEQ:
			if k > lb {
				lb = k
				how += ", under idx >= " + strconv.FormatInt(k, 10)
			}
		case token.EQL:
			if k > lb {
				lb = k
				how += ", under idx == " + strconv.FormatInt(k, 10)
			}
		}
	}
	// a second pass for != lb (order-independent fixpoint of at most a few steps)
	for changed := true; changed; {
		changed = false
		for _, dc := range dominatingConds(at) {
			bo, ok := dc.cond.(*ssa.BinOp)
			if !ok {
				continue
			}
			x, y := unspill(bo.X), unspill(bo.Y)
			if _, isC := constIntVal(x); isC {
				x, y = y, x
			}
			if x != idx {
				continue
			}
			k, ok := constIntVal(y)
			if !ok {
				continue
			}
			if ((bo.Op == token.NEQ && dc.outcome) || (bo.Op == token.EQL && !dc.outcome)) && k == lb {
				lb++
				how += ", under idx != " + strconv.FormatInt(k, 10)
				changed = true
			}
		}
	}
	return lb, how, true
}

// c06D13: decoding a response item does not depend on its status: the payload of the item's operation is decoded
// whenever it is present. (Only Success excludes an error for the *caller*; Operation Pending and Operation Undone
// items legitimately carry payloads, and a decoder that refuses them fails the whole message.) In the hand-written
// decoder of ResponseBatchItem no branch condition reads ResultStatus or calls Err().
func c06D13(r *Run) {
	p := r.P
	r.Rule("C06.D13", "the response item decoder decodes the payload whatever the item's status", 1)
	fn := p.Func("", "ResponseBatchItem", "TagDecodeTTLV")
	key := "kmip.ResponseBatchItem.TagDecodeTTLV/status-independent"
	if fn == nil {
		r.Unk("C06.D13", key, token.NoPos, "anchor missing")
		return
	}
	bad := token.NoPos
	withClosures(fn, func(f *ssa.Function) {
		allInstrs(f, func(in ssa.Instruction) {
			iff, ok := in.(*ssa.If)
			if !ok {
				return
			}
			var dep func(v ssa.Value, d int) bool
			dep = func(v ssa.Value, d int) bool {
				if d > 5 {
					return false
				}
				switch x := v.(type) {
				case *ssa.BinOp:
					return dep(x.X, d+1) || dep(x.Y, d+1)
				case *ssa.UnOp:
					if x.Op == token.MUL {
						if _, fld, ok := fieldAddrOf(x.X); ok && fname(fld) == "ResultStatus" {
							return true
						}
					}
					return dep(x.X, d+1)
				case *ssa.Call:
					id := callID(&x.Call)
					if id.recv == "ResponseBatchItem" && id.name == "Err" {
						return true
					}
				case *ssa.Phi:
					for _, e := range x.Edges {
						if dep(e, d+1) {
							return true
						}
					}
				}
				return false
			}
			if dep(iff.Cond, 0) {
				bad = iff.Cond.Pos()
				if !bad.IsValid() {
					bad = fn.Pos()
				}
			}
		})
	})
	if bad.IsValid() {
		r.Bad("C06.D13", key, bad, "the decoder of ResponseBatchItem branches on the item's Result Status (or Err()): items whose status is not Success but which carry a payload of their operation (Operation Pending, Operation Undone) are refused, and with them the whole response message")
	} else {
		r.OK("C06.D13", key, fn.Pos(), "no branch of the decoder depends on ResultStatus or Err()")
	}
}

// c06D15: the payload type of a batch item is the one registered for its operation code — the whole 32-bit code.
// newRequestPayload / newResponsePayload return either the opaque UnknownPayload carrying that code, or the constructor
// found in a package-level registry under the code itself (a map lookup on its ok edge, or an array/slice element
// indexed by the code without a narrowing conversion). A table indexed by uint8(op) decodes vendor operation
// 0x8000000A as a Get.
func c06D15(r *Run) {
	r.Rule("C06.D15", "payload constructors are selected by the full operation code: registry lookup keyed by the code itself, else UnknownPayload with that code", 2)
	for _, name := range []string{"newRequestPayload", "newResponsePayload"} {
		fn := r.P.Func("", "", name)
		key := "kmip." + name
		if fn == nil || len(fn.Params) != 1 {
			r.Unk("C06.D15", key, token.NoPos, "anchor missing")
			continue
		}
		op := ssa.Value(fn.Params[0])
		isOp := func(v ssa.Value) bool {
			for {
				if v == op {
					return true
				}
				cv, ok := v.(*ssa.Convert)
				if !ok {
					return false
				}
				// widening or same-size integer conversions only
				if b, ok := cv.Type().Underlying().(*types.Basic); !ok || b.Info()&types.IsInteger == 0 || r.P.sizes().Sizeof(cv.Type()) < r.P.sizes().Sizeof(op.Type()) {
					return false
				}
				v = cv.X
			}
		}
		fromGlobal := func(v ssa.Value) bool {
			for i := 0; i < 4; i++ {
				switch x := v.(type) {
				case *ssa.Global:
					return true
				case *ssa.UnOp:
					v = x.X
				case *ssa.Slice:
					v = x.X
				default:
					return false
				}
			}
			return false
		}
		var keyed func(v ssa.Value, d int) (bool, string)
		keyed = func(v ssa.Value, d int) (bool, string) {
			if d > 6 {
				return false, "selection too deep to follow"
			}
			switch x := v.(type) {
			case *ssa.Alloc:
				var src ssa.Value
				n := 0
				for _, ref := range *x.Referrers() {
					if st, ok := ref.(*ssa.Store); ok && st.Addr == ssa.Value(x) {
						src = st.Val
						n++
					}
				}
				if n == 1 {
					return keyed(src, d+1)
				}
				return false, "the constructor record is assigned in several places"
			case *ssa.UnOp:
				return keyed(x.X, d+1)
			case *ssa.Extract:
				return keyed(x.Tuple, d+1)
			case *ssa.Lookup:
				if !fromGlobal(x.X) {
					return false, "looked up in something else than a package-level registry"
				}
				if !isOp(x.Index) {
					return false, "the registry is not keyed by the operation code itself"
				}
				return true, ""
			case *ssa.IndexAddr:
				if !fromGlobal(x.X) {
					return false, "taken from something else than a package-level table"
				}
				if !isOp(x.Index) {
					return false, "the table is indexed by a narrowed or transformed operation code (its upper bits are ignored)"
				}
				return true, ""
			case *ssa.Index:
				if !isOp(x.Index) {
					return false, "the table is indexed by a narrowed or transformed operation code (its upper bits are ignored)"
				}
				return true, ""
			case *ssa.Phi:
				for _, e := range x.Edges {
					if ok, why := keyed(e, d+1); !ok {
						return false, why
					}
				}
				return true, ""
			case *ssa.Call:
				if callee := x.Call.StaticCallee(); callee != nil && callee.Blocks != nil && idOf(callee).pkg == modPath {
					// a lookup helper of the package: decided on its returns, with its parameter standing for the code
					for i, a := range x.Call.Args {
						if isOp(a) && i < len(callee.Params) {
							saved := op
							op = callee.Params[i]
							okAll, whyAll := true, ""
							for _, b := range callee.Blocks {
								if ret, isRet := b.Instrs[len(b.Instrs)-1].(*ssa.Return); isRet && len(ret.Results) > 0 && !isNilConst(ret.Results[0]) {
									if ok, why := keyed(ret.Results[0], d+1); !ok {
										okAll, whyAll = false, why
									}
								}
							}
							op = saved
							return okAll, whyAll
						}
					}
				}
				return false, "obtained from a call that is not given the operation code"
			}
			return false, "not a registry lookup"
		}
		n, bad, why := 0, token.NoPos, ""
		for _, b := range fn.Blocks {
			ret, ok := b.Instrs[len(b.Instrs)-1].(*ssa.Return)
			if !ok || len(ret.Results) != 1 {
				continue
			}
			n++
			v := ret.Results[0]
			if mi, ok := v.(*ssa.MakeInterface); ok {
				if al, ok := mi.X.(*ssa.Alloc); ok && typeName(derefType(al.Type())) == "UnknownPayload" {
					okCode := false
					for _, ref := range *al.Referrers() {
						if fa, ok := ref.(*ssa.FieldAddr); ok {
							for _, r2 := range *fa.Referrers() {
								if st, ok := r2.(*ssa.Store); ok && st.Val == op {
									okCode = true
								}
							}
						}
					}
					if !okCode {
						bad, why = ret.Pos(), "the opaque payload does not carry the operation code"
					}
					continue
				}
			}
			call, ok := v.(*ssa.Call)
			if !ok || len(call.Call.Args) == 0 {
				bad, why = ret.Pos(), "the payload is neither an UnknownPayload nor the result of a registered constructor"
				continue
			}
			if ok, w := keyed(call.Call.Args[0], 0); !ok {
				bad, why = ret.Pos(), w
			}
		}
		switch {
		case n == 0:
			r.Unk("C06.D15", key, fn.Pos(), "no return found")
		case bad.IsValid():
			r.Bad("C06.D15", key, bad, "%s selects a payload constructor without the full operation code (%s): an unregistered code sharing its low bits with a registered operation is decoded as that operation's payload instead of being kept opaque", name, why)
		default:
			r.OK("C06.D15", key, fn.Pos(), "%d return(s): registry entry under the code itself, or UnknownPayload carrying the code", n)
		}
	}
}
