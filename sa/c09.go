package main

// C09 — server batch execution follows KMIP batch semantics.
// C15 — the ID placeholder is scoped to a single request.

import (
	"fmt"
	"go/constant"
	"go/token"
	"go/types"
	"strings"

	"golang.org/x/tools/go/ssa"
)

func reqField(v ssa.Value, names ...string) bool {
	// v is a load of req.<names...>
	u, ok := v.(*ssa.UnOp)
	if !ok {
		return false
	}
	cur := u.X
	for i := len(names) - 1; i >= 0; i-- {
		fa, ok := cur.(*ssa.FieldAddr)
		if !ok {
			return false
		}
		st := derefStruct(fa.X.Type())
		if st == nil || fname(st.Field(fa.Field)) != names[i] {
			return false
		}
		cur = fa.X
	}
	_, isParam := cur.(*ssa.Parameter)
	return isParam
}

func runC09(r *Run, verifDir string) {
	p := r.P
	r.Explain = append(r.Explain,
		"C09 is decided on the SSA of BatchExecutor.handleRequest, executeItemWithMiddleware, executeItem and the two error mappers: B1 the single call site of the item executor is dominated by the passing edges of the three header checks (supported version, option != Undo, BatchCount == len(BatchItem)), each failing edge returns an error that HandleRequest turns into a one-item failed response; B2 the response slice is made with len(req.BatchItem), the loop ranges over exactly those indexes, every path through the body stores to index i once and nothing appends, and the header echoes the request's batch count and version; B3 on every path the stored item's Operation and UniqueBatchItemID are loads of req.BatchItem[i]'s; B4 one call site inside a range loop without inner loop or `go`, the route is invoked at most once per execution; B5 the stop flag is set only under (status == OperationFailed && option == Stop), never reset, the executor runs on the !stopped edge and the stopped branch reports OperationFailed; B6 handleBatchItemError stores OperationFailed on every path with a non-nil error.")
	r.NotCov = append(r.NotCov, "the exhaustive comparison with a reference model over all batches (runtime)", "handler side effects", "middlewares that replace the response item")
	hr := p.Func("kmipserver", "BatchExecutor", "handleRequest")
	r.Rule("C09.B1", "header validation dominates execution; each failed check returns an error mapped to a single failed item", 4)
	r.Rule("C09.B2", "one response slot per request item: make(len(req.BatchItem)), loop over the same range, one store to slot i per path, header echoes count and version", 4)
	r.Rule("C09.B3", "each response item echoes the request item's Operation and UniqueBatchItemID", 2)
	r.Rule("C09.B4", "each item is executed at most once, in order: single call site in the range loop, no inner loop, no go; one route invocation per execution", 2)
	r.Rule("C09.B5", "stop flag: set only under failed && Stop, never reset; execution on the !stopped edge; stopped items reported failed", 3)
	r.Rule("C09.B6", "every non-nil error (typed, plain, recovered panic, unrouted operation, critical extension) becomes status OperationFailed", 2)
	c09B7(r)
	if hr == nil {
		r.Unk("C09.B1", "kmipserver.BatchExecutor.handleRequest", token.NoPos, "anchor missing")
		return
	}
	var exec *ssa.Call
	nExec := 0
	allInstrs(hr, func(in ssa.Instruction) {
		if c, ok := in.(*ssa.Call); ok && callID(&c.Call).is(srvPath, "BatchExecutor", "executeItemWithMiddleware") {
			exec = c
			nExec++
		}
	})
	if exec == nil {
		r.Unk("C09.B1", "kmipserver.BatchExecutor.handleRequest/exec", hr.Pos(), "call of executeItemWithMiddleware not found")
		return
	}
	conds := dominatingConds(exec.Block())
	// --- B1
	verOK, undoOK, countOK := false, false, false
	for _, dc := range conds {
		switch x := dc.cond.(type) {
		case *ssa.Call:
			id := callID(&x.Call)
			if id.pkg == "slices" && id.name == "Contains" && dc.outcome && reqField(x.Call.Args[1], "Header", "ProtocolVersion") {
				if u, ok := x.Call.Args[0].(*ssa.UnOp); ok {
					if _, fld, ok := fieldAddrOf(u.X); ok && fname(fld) == "supportedVersions" {
						verOK = true
					}
				}
			}
		case *ssa.BinOp:
			if (x.Op == token.NEQ && !dc.outcome) || (x.Op == token.EQL && dc.outcome) {
				// int(req.Header.BatchCount) != len(req.BatchItem), either way round
				for _, pr := range [][2]ssa.Value{{x.X, x.Y}, {x.Y, x.X}} {
					if y, ok := lenOperand(pr[1]); ok && reqField(y, "BatchItem") {
						if cv, ok := pr[0].(*ssa.Convert); ok && reqField(cv.X, "Header", "BatchCount") {
							countOK = true
						}
					}
				}
			}
		}
	}
	// Undo: the option value that reaches the loop is never Undo: the edge `co == Undo` true returns an error
	var undoConst int64 = -1
	reg := BuildRegistry(p)
	stopConst, failedConst := int64(-1), int64(-1)
	for _, e := range reg.Enums {
		switch e.Type.Obj().Name() {
		case "BatchErrorContinuationOption":
			for _, v := range e.Values {
				if v.Name == "Undo" {
					undoConst = int64(v.Num)
				}
				if v.Name == "Stop" {
					stopConst = int64(v.Num)
				}
			}
		case "ResultStatus":
			for _, v := range e.Values {
				if v.Name == "OperationFailed" {
					failedConst = int64(v.Num)
				}
			}
		}
	}
	// values that carry the request's option: the header field itself, or the field with its zero value defaulted
	// (phi of the field and a constant, cmp.Or(field, constant), conversions)
	optVal := map[ssa.Value]bool{}
	for changed := true; changed; {
		changed = false
		allInstrs(hr, func(in ssa.Instruction) {
			v, ok := in.(ssa.Value)
			if !ok || optVal[v] {
				return
			}
			is := false
			switch x := in.(type) {
			case *ssa.UnOp:
				is = reqField(x, "Header", "BatchErrorContinuationOption")
			case *ssa.Phi:
				is = true
				any := false
				for _, e := range x.Edges {
					if optVal[e] {
						any = true
					} else if _, isC := e.(*ssa.Const); !isC {
						is = false
					}
				}
				is = is && any
			case *ssa.Call:
				if id := callID(&x.Call); id.pkg == "cmp" && id.name == "Or" {
					is = true
					any := false
					for _, a := range x.Call.Args {
						if sl, ok := a.(*ssa.Slice); ok {
							// variadic: the backing array's stores
							_ = sl
						}
						if optVal[a] {
							any = true
						}
					}
					// variadic cmp.Or(vals ...T): the arguments are stored into a fresh array
					if len(x.Call.Args) == 1 {
						if sl, ok := x.Call.Args[0].(*ssa.Slice); ok {
							if al, ok := sl.X.(*ssa.Alloc); ok {
								for _, ref := range *al.Referrers() {
									if ia, ok := ref.(*ssa.IndexAddr); ok {
										for _, r2 := range *ia.Referrers() {
											if st, ok := r2.(*ssa.Store); ok {
												if optVal[st.Val] {
													any = true
												} else if _, isC := st.Val.(*ssa.Const); !isC {
													is = false
												}
											}
										}
									}
								}
							}
						}
					}
					is = is && any
				}
			case *ssa.Convert:
				is = optVal[x.X]
			case *ssa.ChangeType:
				is = optVal[x.X]
			}
			if is {
				optVal[v] = true
				changed = true
			}
		})
	}
	allInstrs(hr, func(in ssa.Instruction) {
		bo, ok := in.(*ssa.BinOp)
		if !ok || (bo.Op != token.EQL && bo.Op != token.NEQ) || !optVal[bo.X] {
			return
		}
		if k, ok := constIntVal(bo.Y); !ok || k != undoConst {
			return
		}
		for _, ref := range *bo.Referrers() {
			iff, ok := ref.(*ssa.If)
			if !ok {
				continue
			}
			tb := iff.Block().Succs[0]
			if bo.Op == token.NEQ {
				tb = iff.Block().Succs[1]
			}
			retErr := false
			for _, in2 := range tb.Instrs {
				if ret, ok := in2.(*ssa.Return); ok && !isNilConst(ret.Results[1]) {
					retErr = true
				}
			}
			// the executor is not reachable from the Undo branch
			if retErr && !reachableFrom(tb)[exec.Block()] {
				undoOK = true
			}
		}
	})
	verWhy := "execution dominated by slices.Contains(exec.supportedVersions, req.Header.ProtocolVersion)"
	if !verOK {
		// alternative: the only way past a failed membership test is a request made of Discover Versions items only
		// (version discovery is served whatever version the request is framed with, see C13)
		allInstrs(hr, func(in ssa.Instruction) {
			c, ok := in.(*ssa.Call)
			if !ok {
				return
			}
			id := callID(&c.Call)
			if !(id.pkg == "slices" && id.name == "Contains" && reqField(c.Call.Args[1], "Header", "ProtocolVersion")) {
				return
			}
			if u, ok := c.Call.Args[0].(*ssa.UnOp); !ok {
				return
			} else if _, fld, ok := fieldAddrOf(u.X); !ok || fname(fld) != "supportedVersions" {
				return
			}
			for _, ref := range *c.Referrers() {
				iff, ok := ref.(*ssa.If)
				if !ok {
					continue
				}
				fb := iff.Block().Succs[1] // version not supported
				if len(fb.Instrs) == 0 {
					continue
				}
				iff2, ok := fb.Instrs[len(fb.Instrs)-1].(*ssa.If)
				if !ok {
					continue
				}
				pc, ok := iff2.Cond.(*ssa.Call)
				if !ok || pc.Call.StaticCallee() == nil || !discoveryOnlyPredicate(pc.Call.StaticCallee(), reg) {
					continue
				}
				// predicate false -> error return that cannot reach the executor
				rej := fb.Succs[1]
				retErr := false
				for _, in2 := range rej.Instrs {
					if ret, ok := in2.(*ssa.Return); ok && len(ret.Results) == 2 && !isNilConst(ret.Results[1]) {
						retErr = true
					}
				}
				if retErr && !reachableFrom(rej)[exec.Block()] && dominatesInstr(c, exec) {
					verOK = true
					verWhy = "execution requires slices.Contains(exec.supportedVersions, req.Header.ProtocolVersion), or a request made of Discover Versions items only (" + fnKey(pc.Call.StaticCallee()) + ")"
				}
			}
		})
	}
	r.Check(verOK, "C09.B1", "kmipserver.BatchExecutor.handleRequest/version", exec.Pos(), verWhy, "items can be executed for a request whose protocol version is not among the supported ones")
	r.Check(undoOK, "C09.B1", "kmipserver.BatchExecutor.handleRequest/undo", exec.Pos(), "the Undo option returns an error before any item runs", "a request with the Undo option is not rejected before its items are executed")
	r.Check(countOK, "C09.B1", "kmipserver.BatchExecutor.handleRequest/count", exec.Pos(), "execution dominated by int(BatchCount) == len(BatchItem)", "items can be executed although the header's batch count differs from the number of items")
	// HandleRequest maps the error to handleMessageError; handleMessageError builds one failed item with BatchCount 1
	okMap := false
	if top := p.Func("kmipserver", "BatchExecutor", "HandleRequest"); top != nil {
		allInstrs(top, func(in ssa.Instruction) {
			c, ok := in.(*ssa.Call)
			if !ok || !strings.HasSuffix(callID(&c.Call).name, "handleMessageError") {
				return
			}
			for _, dc := range dominatingConds(c.Block()) {
				if bo, ok := dc.cond.(*ssa.BinOp); ok && bo.Op == token.NEQ && isNilConst(bo.Y) && dc.outcome {
					okMap = true
				}
			}
		})
	}
	okOne := false
	if hme := p.Func("kmipserver", "", "handleMessageError"); hme != nil {
		one, mk := false, false
		allInstrs(hme, func(in ssa.Instruction) {
			switch x := in.(type) {
			case *ssa.Store:
				if _, fld, ok := fieldAddrOf(x.Addr); ok && fname(fld) == "BatchCount" {
					if k, ok := constIntVal(x.Val); ok && k == 1 {
						one = true
					}
				}
			case *ssa.Call:
				if callID(&x.Call).is(srvPath, "", "handleBatchItemError") {
					mk = true
				}
			}
		})
		okOne = one && mk
	}
	r.Check(okMap && okOne, "C09.B1", "kmipserver.BatchExecutor.HandleRequest/whole-message-error", hr.Pos(), "a non-nil error of handleRequest becomes handleMessageError: BatchCount 1, one item marked by handleBatchItemError", "a rejected request is not answered with a single failed item")

	// --- B2
	var mk *ssa.MakeSlice
	allInstrs(hr, func(in ssa.Instruction) {
		if m, ok := in.(*ssa.MakeSlice); ok && typeName(m.Type().Underlying().(*types.Slice).Elem()) == "ResponseBatchItem" {
			mk = m
		}
	})
	okMake := false
	if mk != nil {
		if y, ok := lenOperand(mk.Len); ok && reqField(y, "BatchItem") {
			okMake = true
		}
	}
	r.Check(okMake, "C09.B2", "kmipserver.BatchExecutor.handleRequest/make", hr.Pos(), "response items = make([]ResponseBatchItem, len(req.BatchItem))", "the response item slice is not sized by the number of request items")
	// loop header: the block dominating exec with a back edge; bound = len(req.BatchItem)
	var hdr *ssa.BasicBlock
	for b := exec.Block(); b != nil; b = b.Idom() {
		for _, pr := range b.Preds {
			if b.Dominates(pr) {
				hdr = b
			}
		}
		if hdr != nil {
			break
		}
	}
	okRange := false
	var idx ssa.Value
	if hdr != nil {
		if iff, ok := hdr.Instrs[len(hdr.Instrs)-1].(*ssa.If); ok {
			if bo, ok := iff.Cond.(*ssa.BinOp); ok && bo.Op == token.LSS {
				if y, ok := lenOperand(bo.Y); ok && reqField(y, "BatchItem") {
					okRange = true
					idx = bo.X
				}
			}
		}
	}
	r.Check(okRange, "C09.B2", "kmipserver.BatchExecutor.handleRequest/range", hr.Pos(), "the loop ranges over 0..len(req.BatchItem)", "the item loop does not range over exactly the request's items")
	// the "fill the tail and leave" form of stopping: instead of carrying a flag, the iteration that stops the batch
	// reports every remaining item in an inner loop and breaks
	var tail *c09Tail
	if hdr != nil && idx != nil {
		tail = c09FindTail(hr, hdr, idx, exec, failedConst, stopConst, func(v ssa.Value) bool { return reqField(v, "BatchItem") }, mk)
	}
	// stores to response slot: every path header->header stores exactly once to [idx]
	slotStores := map[*ssa.BasicBlock]int{}
	nAppend := 0
	allInstrs(hr, func(in ssa.Instruction) {
		switch x := in.(type) {
		case *ssa.Store:
			if ia, ok := x.Addr.(*ssa.IndexAddr); ok {
				if sl, ok := ia.X.Type().Underlying().(*types.Slice); ok && typeName(sl.Elem()) == "ResponseBatchItem" && ia.Index == idx {
					slotStores[x.Block()]++
				}
			}
		case *ssa.Call:
			if b, ok := x.Call.Value.(*ssa.Builtin); ok && b.Name() == "append" {
				if sl, ok := x.Type().Underlying().(*types.Slice); ok && typeName(sl.Elem()) == "ResponseBatchItem" {
					nAppend++
				}
			}
		}
	})
	okSlots := hdr != nil && nAppend == 0
	if hdr != nil {
		var walk func(b *ssa.BasicBlock, seen map[*ssa.BasicBlock]bool, n int)
		walk = func(b *ssa.BasicBlock, seen map[*ssa.BasicBlock]bool, n int) {
			n += slotStores[b]
			for _, s := range b.Succs {
				if s == hdr {
					if n != 1 {
						okSlots = false
					}
					continue
				}
				if seen[s] || !hdr.Dominates(s) {
					continue
				}
				// leaving the loop
				if !reachableFrom(s)[hdr] {
					continue
				}
				seen[s] = true
				walk(s, seen, n)
				delete(seen, s)
			}
		}
		walk(hdr, map[*ssa.BasicBlock]bool{hdr: true}, 0)
	}
	r.Check(okSlots, "C09.B2", "kmipserver.BatchExecutor.handleRequest/slots", hr.Pos(), "every path around the loop stores exactly once into response.BatchItem[i]; nothing appends", "a path through the item loop stores zero or several times into the response slot (or appends): the response does not have one item per request item in order")
	// header echo
	echoCount, echoVer := false, false
	allInstrs(hr, func(in ssa.Instruction) {
		st, ok := in.(*ssa.Store)
		if !ok {
			return
		}
		_, fld, ok := fieldAddrOf(st.Addr)
		if !ok || typeName(st.Addr.(*ssa.FieldAddr).X.Type()) != "ResponseHeader" {
			return
		}
		if fname(fld) == "BatchCount" && reqField(st.Val, "Header", "BatchCount") {
			echoCount = true
		}
		if fname(fld) == "ProtocolVersion" && reqField(st.Val, "Header", "ProtocolVersion") {
			echoVer = true
		}
	})
	r.Check(echoCount && echoVer, "C09.B2", "kmipserver.BatchExecutor.handleRequest/header-echo", hr.Pos(), "response header copies the request's BatchCount and ProtocolVersion", "the response header does not echo the request's batch count and protocol version")

	// --- B3 echo of operation and id
	echoField := func(fn *ssa.Function, recvReq func(ssa.Value) bool) (bool, bool) {
		op, id := false, false
		allInstrs(fn, func(in ssa.Instruction) {
			st, ok := in.(*ssa.Store)
			if !ok {
				return
			}
			_, fld, ok := fieldAddrOf(st.Addr)
			if !ok || typeName(st.Addr.(*ssa.FieldAddr).X.Type()) != "ResponseBatchItem" {
				return
			}
			u, ok := st.Val.(*ssa.UnOp)
			if !ok {
				return
			}
			fa, ok := u.X.(*ssa.FieldAddr)
			if !ok || !recvReq(fa.X) {
				return
			}
			src := fname(derefStruct(fa.X.Type()).Field(fa.Field))
			if fname(fld) == "Operation" && src == "Operation" {
				op = true
			}
			if fname(fld) == "UniqueBatchItemID" && src == "UniqueBatchItemID" {
				id = true
			}
		})
		return op, id
	}
	// stopped branch in handleRequest: source is &req.BatchItem[i]
	skipIdx := idx
	if tail != nil {
		skipIdx = tail.j
	}
	op1, id1 := echoField(hr, func(v ssa.Value) bool {
		ia, ok := v.(*ssa.IndexAddr)
		return ok && ia.Index == skipIdx && reqField(ia.X, "BatchItem")
	})
	r.Check(op1 && id1, "C09.B3", "kmipserver.BatchExecutor.handleRequest/stopped-item", hr.Pos(), "the item reported for a skipped request item copies its Operation and UniqueBatchItemID", "the item reported for a skipped request item does not echo its Operation and UniqueBatchItemID")
	ei := p.Func("kmipserver", "BatchExecutor", "executeItem")
	if ei == nil {
		r.Unk("C09.B3", "kmipserver.BatchExecutor.executeItem/echo", token.NoPos, "anchor missing")
	} else {
		op2, id2 := echoField(ei, func(v ssa.Value) bool { _, isParam := v.(*ssa.Parameter); return isParam })
		// and the error mapper does not overwrite them
		clobber := false
		if hb := p.Func("kmipserver", "", "handleBatchItemError"); hb != nil {
			allInstrs(hb, func(in ssa.Instruction) {
				if st, ok := in.(*ssa.Store); ok {
					if _, fld, ok := fieldAddrOf(st.Addr); ok && (fname(fld) == "Operation" || fname(fld) == "UniqueBatchItemID") {
						clobber = true
					}
				}
			})
		}
		// the item a recovered panic is reported on is the pre-filled one: the recover closure lives in the function that
		// builds the echoing item
		for _, fn := range pkgFuncs(p, "kmipserver") {
			if fn.Parent() == nil {
				continue
			}
			hasRecover, reports := false, false
			allInstrs(fn, func(in ssa.Instruction) {
				if c, ok := in.(*ssa.Call); ok {
					if b, ok := c.Call.Value.(*ssa.Builtin); ok && b.Name() == "recover" {
						hasRecover = true
					}
					if strings.HasSuffix(resolvedCallID(&c.Call, 0).name, "handleBatchItemError") {
						reports = true
					}
				}
			})
			if !hasRecover || !reports {
				continue
			}
			encl := fn.Parent()
			opE, idE := echoField(encl, func(v ssa.Value) bool { _, isParam := v.(*ssa.Parameter); return isParam })
			if opE && idE {
				r.OK("C09.B3", fnKey(fn)+"/panic-item-echo", fn.Pos(), "a recovered panic is reported on the item that was pre-filled with the request's Operation and UniqueBatchItemID")
			} else {
				r.Bad("C09.B3", fnKey(fn)+"/panic-item-echo", fn.Pos(), "the item on which a recovered panic is reported is not the one pre-filled with the request item's Operation and UniqueBatchItemID: a panicking item comes back without its id")
			}
		}
		// the pre-filled item is the one returned: nothing else is ever assigned to the result
		replaced := token.NoPos
		allInstrs(ei, func(in ssa.Instruction) {
			st, ok := in.(*ssa.Store)
			if !ok {
				return
			}
			cell, ok := st.Addr.(*ssa.Alloc)
			if !ok {
				return
			}
			pt, ok := cell.Type().(*types.Pointer)
			if !ok {
				return
			}
			if pp, ok := pt.Elem().(*types.Pointer); !ok || typeName(pp.Elem()) != "ResponseBatchItem" {
				return
			}
			if _, isAlloc := st.Val.(*ssa.Alloc); isAlloc {
				return
			}
			// `return resp, err` with a deferred closure spills the results back into their own cells
			if ld, ok := st.Val.(*ssa.UnOp); ok && ld.Op == token.MUL && ld.X == ssa.Value(cell) {
				return
			}
			replaced = st.Pos()
		})
		for _, b := range ei.Blocks {
			if ret, ok := b.Instrs[len(b.Instrs)-1].(*ssa.Return); ok && len(ret.Results) > 0 {
				if c, isCall := ret.Results[0].(*ssa.Call); isCall && typeName(c.Type()) == "ResponseBatchItem" {
					replaced = ret.Pos()
				}
			}
		}
		if replaced.IsValid() {
			r.Bad("C09.B3", "kmipserver.BatchExecutor.executeItem/echo-kept", replaced, "executeItem replaces the item it pre-filled with the request's Operation and UniqueBatchItemID by another item: on that path the response item no longer echoes the request item's id")
		} else {
			r.OK("C09.B3", "kmipserver.BatchExecutor.executeItem/echo-kept", ei.Pos(), "the pre-filled item is the only value ever assigned to the result")
		}
		r.Check(op2 && id2 && !clobber, "C09.B3", "kmipserver.BatchExecutor.executeItem/echo", ei.Pos(), "the executed item starts as {Operation: bi.Operation, UniqueBatchItemID: bi.UniqueBatchItemID}; the error mapper leaves both untouched", "an executed item does not echo the request item's Operation and UniqueBatchItemID")
	}

	// --- B4
	innerLoop, hasGo := false, false
	if hdr != nil {
		for _, b := range hr.Blocks {
			if b != hdr && hdr.Dominates(b) {
				for _, s := range b.Succs {
					if s != hdr && s.Dominates(b) && !(tail != nil && s == tail.hdr) {
						innerLoop = true
					}
				}
			}
		}
	}
	allInstrs(hr, func(in ssa.Instruction) {
		if _, ok := in.(*ssa.Go); ok {
			hasGo = true
		}
	})
	// ... and nothing but that loop executes items: a second entry point (a fast path for one-item requests, a helper
	// called before the header checks) runs handlers outside the validation and the stop logic
	elsewhere := token.NoPos
	where := ""
	for _, f := range pkgFuncs(p, "kmipserver") {
		top := f
		for top.Parent() != nil {
			top = top.Parent()
		}
		if top == hr {
			continue
		}
		allInstrs(f, func(in ssa.Instruction) {
			if c := callOf(in); c != nil {
				if id := callID(c); id.is(srvPath, "BatchExecutor", "executeItemWithMiddleware") || (id.is(srvPath, "BatchExecutor", "executeItem") && !idOf(top).is(srvPath, "BatchExecutor", "executeItemWithMiddleware")) {
					elsewhere, where = in.Pos(), fnKey(f)
				}
			}
		})
	}
	if elsewhere.IsValid() {
		r.Bad("C09.B4", "kmipserver.BatchExecutor.handleRequest/only-entry", elsewhere, "%s executes a batch item outside the loop of handleRequest: that execution is not covered by the version / Undo / batch-count validation nor by the stop logic, and the item may be executed a second time by the loop", where)
	} else {
		r.OK("C09.B4", "kmipserver.BatchExecutor.handleRequest/only-entry", exec.Pos(), "the item executor is called from the loop of handleRequest only")
	}
	r.Check(nExec == 1 && hdr != nil && !innerLoop && !hasGo && exec.Call.Args[2] != nil, "C09.B4", "kmipserver.BatchExecutor.handleRequest/once", exec.Pos(), "one call of the item executor per loop iteration, no inner loop, no goroutine", fmt.Sprintf("items may be executed more than once or concurrently (call sites=%d, inner loop=%v, go=%v)", nExec, innerLoop, hasGo))
	if ei != nil {
		paths, ok := enumeratePaths(ei, 4096)
		maxInv := 0
		if ok {
			for _, path := range paths {
				n := 0
				for _, b := range path {
					for _, in := range b.Instrs {
						if c, ok := in.(*ssa.Call); ok && c.Call.IsInvoke() && c.Call.Method.Name() == "HandleOperation" {
							n++
						}
					}
				}
				if n > maxInv {
					maxInv = n
				}
			}
		}
		r.Check(ok && maxInv == 1, "C09.B4", "kmipserver.BatchExecutor.executeItem/one-invocation", ei.Pos(), "every path through executeItem invokes at most one handler", fmt.Sprintf("a path through executeItem invokes %d handlers", maxInv))
	}

	// --- B5 stop flag
	var stopped *ssa.Phi
	if hdr != nil {
		for _, in := range hdr.Instrs {
			if ph, ok := in.(*ssa.Phi); ok {
				if b, ok := ph.Type().Underlying().(*types.Basic); ok && b.Kind() == types.Bool {
					stopped = ph
				}
			}
		}
	}
	if stopped == nil && tail != nil {
		r.Check(tail.range_ == "", "C09.B2", "kmipserver.BatchExecutor.handleRequest/tail-range", tail.hdr.Instrs[0].Pos(), "the stopping iteration fills slots i+1..len-1, each exactly once, then leaves the item loop", "the loop that reports the items after a stop does not cover exactly the remaining slots ("+tail.range_+"): the response does not have one item per request item")
		r.Check(tail.entry == "", "C09.B5", "kmipserver.BatchExecutor.handleRequest/stop-set", tail.hdr.Instrs[0].Pos(), "the remaining items are reported as stopped only when the item's status is OperationFailed and the option is Stop", "the batch is stopped under another condition than (status == OperationFailed && option == Stop) ("+tail.entry+"): items are skipped under Continue, or keep running under Stop")
		r.Check(tail.leaves == "", "C09.B5", "kmipserver.BatchExecutor.handleRequest/stop-sticky", tail.hdr.Instrs[0].Pos(), "after the remaining items are reported the item loop is left: nothing runs after a stop", "after a stop the item loop can continue ("+tail.leaves+"): items after the first failure run again under Stop")
		r.Check(tail.failed == "", "C09.B5", "kmipserver.BatchExecutor.handleRequest/stop-branches", exec.Pos(), "the executor is not called for the remaining items; they are reported with status OperationFailed", "after a stop, items are still executed or are not reported as failed ("+tail.failed+")")
	} else if stopped == nil {
		r.Unk("C09.B5", "kmipserver.BatchExecutor.handleRequest/stop-flag", hr.Pos(), "the stopped flag (a bool carried around the loop) was not found")
	} else {
		okSet, okNoReset := true, true
		nTrue := 0
		for i, e := range stopped.Edges {
			pred := hdr.Preds[i]
			if e == ssa.Value(stopped) {
				continue
			}
			if c, ok := e.(*ssa.Const); ok {
				v := c.Value != nil && c.Value.String() == "true"
				if !hdr.Dominates(pred) {
					// initialisation
					if v {
						okSet = false
					}
					continue
				}
				if !v {
					okNoReset = false
					continue
				}
				nTrue++
				// the edge must be dominated by status == Failed && option == Stop
				fail, stop := false, false
				for _, dc := range dominatingConds(pred) {
					bo, ok := dc.cond.(*ssa.BinOp)
					if !ok || bo.Op != token.EQL || !dc.outcome {
						continue
					}
					k, _ := constIntVal(bo.Y)
					if typeName(bo.X.Type()) == "ResultStatus" && k == failedConst {
						fail = true
					}
					if typeName(bo.X.Type()) == "BatchErrorContinuationOption" && k == stopConst {
						stop = true
					}
				}
				if !fail || !stop {
					okSet = false
				}
			} else {
				okSet = false
			}
		}
		r.Check(okSet && nTrue == 1, "C09.B5", "kmipserver.BatchExecutor.handleRequest/stop-set", stopped.Pos(), "stopped becomes true only when the item's status is OperationFailed and the option is Stop", "the stop flag is set under another condition than (status == OperationFailed && option == Stop): items are skipped under Continue, or keep running under Stop")
		r.Check(okNoReset, "C09.B5", "kmipserver.BatchExecutor.handleRequest/stop-sticky", stopped.Pos(), "stopped is never reset inside the loop", "the stop flag is reset inside the loop: items after the first failure run again under Stop")
		// exec on the !stopped edge; stopped branch stores OperationFailed
		onNot := false
		for _, dc := range conds {
			if dc.cond == ssa.Value(stopped) && !dc.outcome {
				onNot = true
			}
		}
		failedStored := false
		allInstrs(hr, func(in ssa.Instruction) {
			st, ok := in.(*ssa.Store)
			if !ok {
				return
			}
			if _, fld, ok := fieldAddrOf(st.Addr); ok && fname(fld) == "ResultStatus" {
				if k, ok := constIntVal(st.Val); ok && k == failedConst {
					for _, dc := range dominatingConds(st.Block()) {
						if dc.cond == ssa.Value(stopped) && dc.outcome {
							failedStored = true
						}
					}
				}
			}
		})
		r.Check(onNot && failedStored, "C09.B5", "kmipserver.BatchExecutor.handleRequest/stop-branches", exec.Pos(), "items run only while !stopped; skipped items are reported with status OperationFailed", "after a stop, items are still executed or are not reported as failed")
	}

	// --- B6
	c08K3RecoveredError(r, "C09.B6")
	hb := p.Func("kmipserver", "", "handleBatchItemError")
	if hb == nil {
		r.Unk("C09.B6", "kmipserver.handleBatchItemError", token.NoPos, "anchor missing")
	} else {
		var st *ssa.Store
		allInstrs(hb, func(in ssa.Instruction) {
			if s, ok := in.(*ssa.Store); ok {
				if _, fld, ok := fieldAddrOf(s.Addr); ok && fname(fld) == "ResultStatus" {
					if k, ok := constIntVal(s.Val); ok && k == failedConst {
						st = s
					}
				}
			}
		})
		okAll := st != nil
		if st != nil {
			// every return reachable with err != nil passes through the store: the store's block is entered on the err != nil edge
			// and dominates every return other than the err == nil early exit
			allInstrs(hb, func(in ssa.Instruction) {
				ret, ok := in.(*ssa.Return)
				if !ok {
					return
				}
				early := false
				for _, dc := range dominatingConds(ret.Block()) {
					if bo, ok := dc.cond.(*ssa.BinOp); ok && isNilConst(bo.Y) && (bo.Op == token.EQL) == dc.outcome {
						if _, isParam := bo.X.(*ssa.Parameter); isParam {
							early = true
						}
					}
				}
				if !early && !dominatesInstr(st, ret) {
					okAll = false
				}
			})
		}
		r.Check(okAll, "C09.B6", "kmipserver.handleBatchItemError", hb.Pos(), "every exit with a non-nil error has stored ResultStatus = OperationFailed", "handleBatchItemError can return for a non-nil error without marking the item OperationFailed")
	}
	// executeItem error sources all flow to the mapper: unrouted operation and critical extension return a non-nil error
	if ei != nil && p.Func("kmipserver", "BatchExecutor", "executeItemWithMiddleware") != nil {
		eim := p.Func("kmipserver", "BatchExecutor", "executeItemWithMiddleware")
		mapped := false
		allInstrs(eim, func(in ssa.Instruction) {
			if c, ok := in.(*ssa.Call); ok && callID(&c.Call).is(srvPath, "", "handleBatchItemError") {
				for _, dc := range dominatingConds(c.Block()) {
					if bo, ok := dc.cond.(*ssa.BinOp); ok && bo.Op == token.NEQ && isNilConst(bo.Y) && dc.outcome {
						mapped = true
					}
				}
			}
		})
		r.Check(mapped, "C09.B6", "kmipserver.BatchExecutor.executeItemWithMiddleware/map-error", eim.Pos(), "an error returned by the chain is mapped by handleBatchItemError", "an error returned by the item chain is not turned into a failed item")
	}
}

// ================================================================ C15

func runC15(r *Run, verifDir string) {
	p := r.P
	r.Explain = append(r.Explain,
		"C15 is decided as a non-interference argument over package kmipserver: O1 every request gets a freshly allocated holder whose placeholder is the zero value, attached to a context derived for that request before any handler or middleware runs; O2 the holder never escapes: values of type *batchData are only created in newBatchContext, handed to context.WithValue, obtained back from ctx.Value(ctxBatch{}) and dereferenced — never stored in a global, a struct field, a channel or a goroutine; the key type is unexported and constructed only in context.go; O3 the placeholder field is read and written only by the three accessors, and a failed item clears it; O4 items of one request run sequentially (C09.B4), so later items observe earlier writes without a race.")
	r.NotCov = append(r.NotCov, "user handlers that leak their context to another request")
	r.Rule("C15.O1", "fresh holder per request, placeholder unset, attached before the first stage", 2)
	r.Rule("C15.O2", "the holder never escapes the request context", 3)
	r.Rule("C15.O3", "the placeholder is accessed only through its accessors; an error clears it", 4)
	r.Rule("C15.O4", "items of one request are processed sequentially", 1)
	r.Rule("C15.O5", "the accessors are faithful: the setter stores its argument on every return, clear stores the empty value, the getter returns the field", 3)
	nb := p.Func("kmipserver", "", "newBatchContext")
	if nb == nil {
		r.Unk("C15.O1", "kmipserver.newBatchContext", token.NoPos, "anchor missing")
		return
	}
	// O1: alloc of batchData, no store to idPlaceholder, passed to context.WithValue with key ctxBatch{}
	var al *ssa.Alloc
	setsPlaceholder := false
	withValue := false
	allInstrs(nb, func(in ssa.Instruction) {
		switch x := in.(type) {
		case *ssa.Alloc:
			if typeName(x.Type()) == "batchData" {
				al = x
			}
		case *ssa.Store:
			if _, fld, ok := fieldAddrOf(x.Addr); ok && fname(fld) == "idPlaceholder" {
				// an explicit initialisation with the empty string is the zero value spelled out
				if c, isC := x.Val.(*ssa.Const); !(isC && c.Value != nil && isStringConst(c) && constStringVal(c) == "") {
					setsPlaceholder = true
				}
			}
		case *ssa.Call:
			if callID(&x.Call).is("context", "", "WithValue") {
				if mi, ok := x.Call.Args[2].(*ssa.MakeInterface); ok && al != nil && mi.X == ssa.Value(al) {
					if k, ok := x.Call.Args[1].(*ssa.MakeInterface); ok && typeName(k.X.Type()) == "ctxBatch" {
						withValue = true
					}
				}
			}
		}
	})
	// ... on every path: each value newBatchContext returns is that WithValue result
	everyReturn := true
	for _, b := range nb.Blocks {
		ret, ok := b.Instrs[len(b.Instrs)-1].(*ssa.Return)
		if !ok || len(ret.Results) != 1 {
			continue
		}
		var isFresh func(v ssa.Value, d int) bool
		isFresh = func(v ssa.Value, d int) bool {
			if d > 4 {
				return false
			}
			switch x := v.(type) {
			case *ssa.Call:
				if callID(&x.Call).is("context", "", "WithValue") {
					if mi, ok := x.Call.Args[2].(*ssa.MakeInterface); ok && al != nil && mi.X == ssa.Value(al) {
						return true
					}
					// further values stacked on top of the fresh holder
					return isFresh(x.Call.Args[0], d+1)
				}
			case *ssa.Phi:
				for _, e := range x.Edges {
					if !isFresh(e, d+1) {
						return false
					}
				}
				return true
			}
			return false
		}
		if !isFresh(ret.Results[0], 0) {
			everyReturn = false
		}
	}
	r.Check(everyReturn, "C15.O1", "kmipserver.newBatchContext/every-path", nb.Pos(), "every return of newBatchContext carries the freshly allocated holder", "newBatchContext can return a context that does not carry a fresh holder (e.g. it reuses the batch state already present in the parent context): a request nested in, or following, another one starts with that request's placeholder")
	r.Check(al != nil && al.Heap && !setsPlaceholder && withValue, "C15.O1", "kmipserver.newBatchContext", nb.Pos(), "allocates a new batchData whose idPlaceholder is the zero value and attaches it under ctxBatch{}", "newBatchContext does not create a fresh holder with an empty placeholder under the ctxBatch key")
	top := p.Func("kmipserver", "BatchExecutor", "HandleRequest")
	if top == nil {
		r.Unk("C15.O1", "kmipserver.BatchExecutor.HandleRequest", token.NoPos, "anchor missing")
	} else {
		var nbc *ssa.Call
		var first *ssa.Call
		var firstCtx ssa.Value
		chainFns := map[*ssa.Function]bool{}
		for _, ch := range findChains(p) {
			chainFns[ch.k] = true
		}
		allInstrs(top, func(in ssa.Instruction) {
			c, ok := in.(*ssa.Call)
			if !ok {
				return
			}
			if callID(&c.Call).is(srvPath, "", "newBatchContext") {
				nbc = c
			}
			// the call that starts the chain: a call of a func value with (ctx, req), or of the continuation method
			// (a chain kept as a value type with a `next` method) with its receiver in front
			sc := c.Call.StaticCallee()
			if (sc == nil && !c.Call.IsInvoke() && len(c.Call.Args) == 2) || (sc != nil && chainFns[sc] && len(c.Call.Args) == 3) {
				a := c.Call.Args[len(c.Call.Args)-2]
				if typeName(a.Type()) == "Context" {
					first, firstCtx = c, a
				}
			}
		})
		ok := nbc != nil && first != nil && dominatesInstr(nbc, first) && firstCtx == ssa.Value(nbc)
		r.Check(ok, "C15.O1", "kmipserver.BatchExecutor.HandleRequest", top.Pos(), "the chain is entered with the context returned by newBatchContext, created on every call", "the middleware/handler chain can run with a context that does not carry this request's own holder (stale or shared placeholder)")
	}
	// O2: uses of *batchData values across the package
	bad := 0
	nUses := 0
	for _, fn := range pkgFuncs(p, "kmipserver") {
		allInstrs(fn, func(in ssa.Instruction) {
			v, ok := in.(ssa.Value)
			if !ok {
				return
			}
			pt, ok := v.Type().Underlying().(*types.Pointer)
			if !ok || typeName(pt.Elem()) != "batchData" {
				return
			}
			for _, ref := range *v.Referrers() {
				nUses++
				switch x := ref.(type) {
				case *ssa.FieldAddr, *ssa.BinOp, *ssa.DebugRef, *ssa.Phi:
				case *ssa.MakeInterface:
					// only as the value of context.WithValue
					okUse := false
					for _, r2 := range *x.Referrers() {
						if c, ok := r2.(*ssa.Call); ok && callID(&c.Call).is("context", "", "WithValue") {
							okUse = true
						}
					}
					if !okUse {
						bad++
						r.Bad("C15.O2", fnKey(fn)+"/holder-escapes", x.Pos(), "the per-request holder is converted to an interface that is not the value of context.WithValue in %s", fnKey(fn))
					}
				case *ssa.Store:
					if x.Val == v {
						bad++
						r.Bad("C15.O2", fnKey(fn)+"/holder-stored", x.Pos(), "the per-request holder is stored into memory that outlives the request (%s): another request can observe its placeholder", fnKey(fn))
					}
				case *ssa.Send, *ssa.Go, *ssa.MakeClosure, *ssa.Return:
					bad++
					r.Bad("C15.O2", fnKey(fn)+"/holder-escapes", ref.Pos(), "the per-request holder leaves its request through %T in %s", ref, fnKey(fn))
				case *ssa.Extract:
				case *ssa.Call:
					bad++
					r.Bad("C15.O2", fnKey(fn)+"/holder-passed", x.Pos(), "the per-request holder is passed to %s", callID(&x.Call).String())
				}
			}
		})
	}
	if bad == 0 {
		r.OK("C15.O2", "kmipserver/batchData-uses", token.NoPos, "%d uses of *batchData: allocation, context.WithValue, ctx.Value assertion, field access, nil test — nothing else", nUses)
	}
	// ctxBatch{} only in context.go functions; no package-level variable of these types
	okKey := true
	pk := p.Pkg("kmipserver")
	for _, fn := range pkgFuncs(p, "kmipserver") {
		allInstrs(fn, func(in ssa.Instruction) {
			if mi, ok := in.(*ssa.MakeInterface); ok && typeName(mi.X.Type()) == "ctxBatch" {
				file := p.Fset.Position(fn.Pos()).Filename
				if !strings.HasSuffix(file, "/context.go") {
					okKey = false
					r.Bad("C15.O2", fnKey(fn)+"/ctxBatch-key", fn.Pos(), "the context key of the holder is constructed outside context.go")
				}
			}
		})
	}
	for _, n := range pk.Types.Scope().Names() {
		if v, ok := pk.Types.Scope().Lookup(n).(*types.Var); ok {
			ts := v.Type().String()
			if strings.Contains(ts, "batchData") || strings.Contains(ts, "context.Context") {
				okKey = false
				r.Bad("C15.O2", "kmipserver/global/"+n, v.Pos(), "package-level variable %s holds request state", n)
			}
		}
	}
	if okKey {
		r.OK("C15.O2", "kmipserver/ctxBatch-key", token.NoPos, "ctxBatch{} is constructed only in context.go; no package-level variable holds a holder or a context")
	}
	// contexts stored in struct fields of Server/conn/BatchExecutor: only the server-level ones
	okCtxStore := true
	for _, fn := range pkgFuncs(p, "kmipserver") {
		allInstrs(fn, func(in ssa.Instruction) {
			st, ok := in.(*ssa.Store)
			if !ok || typeName(st.Val.Type()) != "Context" {
				return
			}
			if _, fld, ok := fieldAddrOf(st.Addr); ok {
				owner := typeName(st.Addr.(*ssa.FieldAddr).X.Type())
				// request contexts derive from newBatchContext: a store whose value comes from it is forbidden
				if c, ok := st.Val.(*ssa.Call); ok && callID(&c.Call).is(srvPath, "", "newBatchContext") {
					okCtxStore = false
					r.Bad("C15.O2", fnKey(fn)+"/request-ctx-stored", st.Pos(), "the request context is stored in %s.%s", owner, fname(fld))
				}
			}
		})
	}
	if okCtxStore {
		r.OK("C15.O2", "kmipserver/request-ctx", token.NoPos, "the request context lives only in locals and parameters")
	}
	// O3
	accessors := map[string]bool{"kmipserver.IdPlaceholder": true, "kmipserver.SetIdPlaceholder": true, "kmipserver.ClearIdPlaceholder": true}
	nAcc := 0
	for _, fn := range pkgFuncs(p, "kmipserver") {
		allInstrs(fn, func(in ssa.Instruction) {
			fa, ok := in.(*ssa.FieldAddr)
			if !ok {
				return
			}
			st := derefStruct(fa.X.Type())
			if st == nil || fname(st.Field(fa.Field)) != "idPlaceholder" {
				return
			}
			nAcc++
			key := fmt.Sprintf("%s/idPlaceholder#%d", fnKey(fn), nAcc)
			emptyInit := false
			if fnKey(fn) == "kmipserver.newBatchContext" {
				emptyInit = true
				for _, ref := range *fa.Referrers() {
					st, isSt := ref.(*ssa.Store)
					c, isC := func() (*ssa.Const, bool) {
						if !isSt {
							return nil, false
						}
						c, ok := st.Val.(*ssa.Const)
						return c, ok
					}()
					if !isSt || !isC || c.Value == nil || !isStringConst(c) || constStringVal(c) != "" {
						emptyInit = false
					}
				}
			}
			if accessors[fnKey(fn)] {
				r.OK("C15.O3", key, fa.Pos(), "placeholder accessed in accessor %s", fnKey(fn))
			} else if emptyInit {
				r.OK("C15.O3", key, fa.Pos(), "the constructor initialises the placeholder with the empty string")
			} else {
				r.Bad("C15.O3", key, fa.Pos(), "the placeholder is accessed directly in %s, outside its three accessors", fnKey(fn))
			}
		})
	}
	if hb := p.Func("kmipserver", "", "handleBatchItemError"); hb != nil {
		var clr *ssa.Call
		allInstrs(hb, func(in ssa.Instruction) {
			if c, ok := in.(*ssa.Call); ok && callID(&c.Call).is(srvPath, "", "ClearIdPlaceholder") {
				clr = c
			}
		})
		okClr := clr != nil
		if clr != nil {
			for _, dc := range dominatingConds(clr.Block()) {
				_ = dc
			}
			// cleared on every non-nil-error path: dominates every return except the err == nil early exit
			allInstrs(hb, func(in ssa.Instruction) {
				ret, ok := in.(*ssa.Return)
				if !ok {
					return
				}
				early := false
				for _, dc := range dominatingConds(ret.Block()) {
					if bo, ok := dc.cond.(*ssa.BinOp); ok && isNilConst(bo.Y) && (bo.Op == token.EQL) == dc.outcome {
						early = true
					}
				}
				if !early && !dominatesInstr(clr, ret) {
					okClr = false
				}
			})
		}
		r.Check(okClr, "C15.O3", "kmipserver.handleBatchItemError/clears", hb.Pos(), "a failed item clears the placeholder on every error path", "a failed item does not clear the ID placeholder on every error path: later items act on the identifier of a failed operation")
	}
	// every assignment of the failed status to an item that was being executed is preceded by the reset of the
	// placeholder (a fresh item built for a skipped position after a stop is exempt: the failing item already cleared)
	if kp := p.Pkg(""); kp != nil {
		var failed int64 = -1
		if c, ok := kp.Types.Scope().Lookup("ResultStatusOperationFailed").(*types.Const); ok {
			if v, ok := constant.Int64Val(c.Val()); ok {
				failed = v
			}
		}
		nSt := 0
		for _, fn := range pkgFuncs(p, "kmipserver") {
			var clears []ssa.Instruction
			allInstrs(fn, func(in ssa.Instruction) {
				if c, ok := in.(*ssa.Call); ok && callID(&c.Call).is(srvPath, "", "ClearIdPlaceholder") {
					clears = append(clears, in)
				}
			})
			allInstrs(fn, func(in ssa.Instruction) {
				st, ok := in.(*ssa.Store)
				if !ok {
					return
				}
				fa, ok := st.Addr.(*ssa.FieldAddr)
				if !ok || typeName(fa.X.Type()) != "ResponseBatchItem" {
					return
				}
				if fname(derefStruct(fa.X.Type()).Field(fa.Field)) != "ResultStatus" {
					return
				}
				if _, fresh := fa.X.(*ssa.Alloc); fresh {
					return
				}
				k, ok := constIntVal(st.Val)
				if !ok || k != failed || failed < 0 {
					return
				}
				nSt++
				key := fmt.Sprintf("%s/failed-status#%d", fnKey(fn), nSt)
				dom := false
				for _, c := range clears {
					if dominatesInstr(c, st) {
						dom = true
					}
				}
				if dom {
					r.OK("C15.O3", key, st.Pos(), "the placeholder is cleared before the item is marked failed")
				} else {
					r.Bad("C15.O3", key, st.Pos(), "%s marks an executed item as failed without clearing the ID placeholder first: later items of the request without a Unique Identifier act on the identifier stored before the failure", fnKey(fn))
				}
			})
		}
	}
	// who may clear: the placeholder is reset only where an item failed (handleBatchItemError); a reset anywhere else
	// makes later items lose what an earlier item stored
	nClr := 0
	for _, fn := range pkgFuncs(p, "kmipserver") {
		allInstrs(fn, func(in ssa.Instruction) {
			c := callOf(in)
			if c == nil || !callID(c).is(srvPath, "", "ClearIdPlaceholder") {
				return
			}
			nClr++
			key := fmt.Sprintf("%s/clears#%d", fnKey(fn), nClr)
			if fnKey(fn) == "kmipserver.handleBatchItemError" {
				r.OK("C15.O3", key, in.Pos(), "the placeholder is cleared where an item failed")
			} else {
				r.Bad("C15.O3", key, in.Pos(), "%s clears the ID placeholder outside the failure path of an item: later items of the request no longer observe the value an earlier item stored", fnKey(fn))
			}
		})
	}
	// who may set or read: the value is written and consumed by operation handlers (user code reached through the
	// OperationHandler interface); the server's own code neither sets the placeholder nor copies it out of the request —
	// a value read here could be kept beyond the request (a cache, a log of outcomes), a value set here comes from
	// somewhere else than an operation of this request
	nPlc := 0
	for _, fn := range pkgFuncs(p, "kmipserver") {
		allInstrs(fn, func(in ssa.Instruction) {
			c := callOf(in)
			if c == nil {
				return
			}
			id := callID(c)
			if !id.is(srvPath, "", "SetIdPlaceholder") && !id.is(srvPath, "", "IdPlaceholder") {
				return
			}
			if fnKey(fn) == "kmipserver.GetIdOrPlaceholder" {
				// the public accessor handlers use: the explicit identifier of the payload, else the placeholder — it
				// returns the value to its caller and keeps nothing
				r.OK("C15.O3", "kmipserver.GetIdOrPlaceholder/uses-placeholder", in.Pos(), "public accessor for handlers: returns the explicit identifier or the placeholder")
				return
			}
			nPlc++
			r.Bad("C15.O3", fmt.Sprintf("%s/uses-placeholder#%d", fnKey(fn), nPlc), in.Pos(), "%s calls %s: the server's own code reads or sets the ID placeholder, which belongs to the operation handlers of one request — a value carried in server state (replay cache, shared executor field) crosses from one request or connection to another", fnKey(fn), id.name)
		})
	}
	if nPlc == 0 {
		r.OK("C15.O3", "kmipserver/uses-placeholder", token.NoPos, "no function of the server package sets or reads the placeholder: only operation handlers do")
	}
	c15O5(r)
	// O4
	hr := p.Func("kmipserver", "BatchExecutor", "handleRequest")
	hasGo := false
	for _, name := range []string{"handleRequest", "executeItemWithMiddleware", "executeItem", "HandleRequest"} {
		if fn := p.Func("kmipserver", "BatchExecutor", name); fn != nil {
			withClosures(fn, func(f *ssa.Function) {
				allInstrs(f, func(in ssa.Instruction) {
					if _, ok := in.(*ssa.Go); ok {
						hasGo = true
					}
				})
			})
		}
	}
	pos := token.NoPos
	if hr != nil {
		pos = hr.Pos()
	}
	r.Check(!hasGo, "C15.O4", "kmipserver/batch-path/no-go", pos, "no goroutine is spawned between HandleRequest and the handlers: items of a request see each other's placeholder writes in order", "items of one request can run concurrently: placeholder reads and writes race")
}

// discoveryOnlyPredicate: fn(req) returns true only if every batch item's Operation is Discover Versions: it compares
// the Operation of the items with that constant inside a loop, the mismatch edge returns false, and every other return
// lies outside the loop.
func discoveryOnlyPredicate(fn *ssa.Function, reg *Registry) bool {
	if fn == nil || fn.Blocks == nil {
		return false
	}
	var disc int64 = -1
	for _, e := range reg.Enums {
		if e.Type.Obj().Name() == "Operation" {
			for _, v := range e.Values {
				if v.Name == "DiscoverVersions" {
					disc = int64(v.Num)
				}
			}
		}
	}
	if disc < 0 {
		return false
	}
	okCmp := false
	var loopBlocks map[*ssa.BasicBlock]bool
	allInstrs(fn, func(in ssa.Instruction) {
		bo, ok := in.(*ssa.BinOp)
		if !ok || (bo.Op != token.NEQ && bo.Op != token.EQL) {
			return
		}
		k, ok := constIntVal(bo.Y)
		if !ok || k != disc || typeName(bo.X.Type()) != "Operation" {
			return
		}
		ld, ok := bo.X.(*ssa.UnOp)
		if !ok {
			return
		}
		if _, fld, ok := fieldAddrOf(ld.X); !ok || fname(fld) != "Operation" {
			return
		}
		for _, ref := range *bo.Referrers() {
			iff, ok := ref.(*ssa.If)
			if !ok {
				continue
			}
			mis := iff.Block().Succs[0]
			if bo.Op == token.EQL {
				mis = iff.Block().Succs[1]
			}
			for _, in2 := range mis.Instrs {
				if ret, ok := in2.(*ssa.Return); ok && len(ret.Results) == 1 {
					if c, ok := ret.Results[0].(*ssa.Const); ok && c.Value != nil && c.Value.String() == "false" {
						okCmp = true
						// the loop: blocks from which the comparison block is reachable and that it reaches
						loopBlocks = map[*ssa.BasicBlock]bool{}
						from := reachableFrom(iff.Block())
						for _, b := range fn.Blocks {
							if from[b] && reachableFrom(b)[iff.Block()] {
								loopBlocks[b] = true
							}
						}
					}
				}
			}
		}
	})
	if !okCmp {
		return discoveryOnlyByContainsFunc(fn, disc)
	}
	// an empty batch is not a discovery: every return that can be true is `len(items) > 0` or lies under that test
	for _, b := range fn.Blocks {
		ret, ok := b.Instrs[len(b.Instrs)-1].(*ssa.Return)
		if !ok || len(ret.Results) != 1 {
			continue
		}
		if c, isC := ret.Results[0].(*ssa.Const); isC && c.Value != nil && c.Value.String() == "false" {
			continue
		}
		okRet := lenPositiveCond(ret.Results[0], true)
		for _, dc := range dominatingConds(b) {
			if lenPositiveCond(dc.cond, dc.outcome) {
				okRet = true
			}
		}
		if !okRet {
			return false
		}
	}
	// no return of a possibly-true value inside the loop
	for b := range loopBlocks {
		if ret, ok := b.Instrs[len(b.Instrs)-1].(*ssa.Return); ok {
			if c, ok := ret.Results[0].(*ssa.Const); !ok || c.Value == nil || c.Value.String() != "false" {
				return false
			}
		}
	}
	return true
}

// discoveryOnlyByContainsFunc: the other spelling of the predicate, `... && !slices.ContainsFunc(items, isOther)` with
// isOther(item) = item.Operation != DiscoverVersions: every value the function can return is false or the negation of
// that call.
func discoveryOnlyByContainsFunc(fn *ssa.Function, disc int64) bool {
	var cf *ssa.Call
	allInstrs(fn, func(in ssa.Instruction) {
		if c, ok := in.(*ssa.Call); ok {
			if id := callID(&c.Call); id.pkg == "slices" && id.name == "ContainsFunc" {
				cf = c
			}
		}
	})
	if cf == nil || len(cf.Call.Args) != 2 {
		return false
	}
	var pred *ssa.Function
	switch a := cf.Call.Args[1].(type) {
	case *ssa.MakeClosure:
		pred, _ = a.Fn.(*ssa.Function)
	case *ssa.Function:
		pred = a
	case *ssa.UnOp:
		// a local holding the closure
		if al, ok := a.X.(*ssa.Alloc); ok {
			for _, ref := range *al.Referrers() {
				if st, ok := ref.(*ssa.Store); ok {
					if mc, ok := st.Val.(*ssa.MakeClosure); ok {
						pred, _ = mc.Fn.(*ssa.Function)
					}
				}
			}
		}
	}
	if pred == nil || len(pred.Blocks) != 1 {
		return false
	}
	ret, ok := pred.Blocks[0].Instrs[len(pred.Blocks[0].Instrs)-1].(*ssa.Return)
	if !ok || len(ret.Results) != 1 {
		return false
	}
	bo, ok := ret.Results[0].(*ssa.BinOp)
	if !ok || bo.Op != token.NEQ || typeName(bo.X.Type()) != "Operation" {
		return false
	}
	if k, ok := constIntVal(bo.Y); !ok || k != disc {
		return false
	}
	// an empty batch is not a discovery: the ContainsFunc call is only reached when there is at least one item
	nonEmpty := false
	for _, dc := range dominatingConds(cf.Block()) {
		if lenPositiveCond(dc.cond, dc.outcome) {
			nonEmpty = true
		}
	}
	if !nonEmpty {
		return false
	}
	// returns of fn: false, or !ContainsFunc(...)
	var okVal func(v ssa.Value, d int) bool
	okVal = func(v ssa.Value, d int) bool {
		if d > 4 {
			return false
		}
		switch x := v.(type) {
		case *ssa.Const:
			return x.Value != nil && x.Value.String() == "false"
		case *ssa.UnOp:
			return x.Op == token.NOT && x.X == ssa.Value(cf)
		case *ssa.Phi:
			for _, e := range x.Edges {
				if !okVal(e, d+1) {
					return false
				}
			}
			return true
		}
		return false
	}
	for _, b := range fn.Blocks {
		if r2, ok := b.Instrs[len(b.Instrs)-1].(*ssa.Return); ok {
			if len(r2.Results) != 1 || !okVal(r2.Results[0], 0) {
				return false
			}
		}
	}
	return true
}

// lenPositive: cond/outcome (or the value itself when used as the returned boolean) states len(x) > 0 for a slice of
// request batch items.
func lenPositiveCond(cond ssa.Value, outcome bool) bool {
	bo, ok := cond.(*ssa.BinOp)
	if !ok {
		return false
	}
	y, isLen := lenOperand(bo.X)
	if !isLen {
		return false
	}
	if sl, ok := y.Type().Underlying().(*types.Slice); !ok || typeName(sl.Elem()) != "RequestBatchItem" {
		return false
	}
	k, ok := constIntVal(bo.Y)
	if !ok {
		return false
	}
	switch {
	case bo.Op == token.GTR && k == 0, bo.Op == token.NEQ && k == 0, bo.Op == token.GEQ && k == 1:
		return outcome
	case bo.Op == token.EQL && k == 0, bo.Op == token.LSS && k == 1, bo.Op == token.LEQ && k == 0:
		return !outcome
	}
	return false
}

// c15O5: "a value stored while processing one item is what later items observe" needs faithful accessors:
// SetIdPlaceholder stores exactly its argument on every path that returns, ClearIdPlaceholder stores the empty
// string on every path with a holder, IdPlaceholder returns the field unchanged whenever there is a holder.
func c15O5(r *Run) {
	p := r.P
	isPH := func(addr ssa.Value) bool {
		fa, ok := addr.(*ssa.FieldAddr)
		if !ok {
			return false
		}
		st := derefStruct(fa.X.Type())
		return st != nil && fname(st.Field(fa.Field)) == "idPlaceholder"
	}
	strParam := func(fn *ssa.Function) *ssa.Parameter {
		for _, prm := range fn.Params {
			if b, ok := prm.Type().Underlying().(*types.Basic); ok && b.Info()&types.IsString != 0 {
				return prm
			}
		}
		return nil
	}
	setFn := p.Func("kmipserver", "", "SetIdPlaceholder")
	clrFn := p.Func("kmipserver", "", "ClearIdPlaceholder")
	getFn := p.Func("kmipserver", "", "IdPlaceholder")
	// storesOn: the instructions of fn that store `want(val)` into the placeholder
	check := func(fn *ssa.Function, key string, want func(v ssa.Value) bool, what string, viaSetter bool) bool {
		if fn == nil {
			r.Unk("C15.O5", key, token.NoPos, "anchor missing")
			return false
		}
		var good []ssa.Instruction
		bad := token.NoPos
		allInstrs(fn, func(in ssa.Instruction) {
			switch x := in.(type) {
			case *ssa.Store:
				if isPH(x.Addr) {
					if want(unspill(x.Val)) {
						good = append(good, in)
					} else {
						bad = x.Pos()
					}
				}
			case *ssa.Call:
				if viaSetter && setFn != nil && x.Call.StaticCallee() == setFn && len(x.Call.Args) == 2 && want(unspill(x.Call.Args[1])) {
					good = append(good, in)
				}
			}
		})
		if bad.IsValid() {
			r.Bad("C15.O5", key, bad, "%s stores something else than %s in the placeholder: what later items observe is not what was stored", fnKey(fn), what)
			return false
		}
		paths, okP := enumeratePaths(fn, 256)
		if !okP {
			r.Unk("C15.O5", key, fn.Pos(), "too many paths")
			return false
		}
		for _, path := range paths {
			stored, absent := false, false
			for i, b := range path {
				for _, in := range b.Instrs {
					for _, g := range good {
						if in == g {
							stored = true
						}
					}
				}
				if cond, isTrue, ok, inf := edgeOnPath(path, i); inf {
					absent = true // infeasible path: nothing to show
				} else if ok {
					if bo, ok := cond.(*ssa.BinOp); ok && (isNilConst(bo.Y) || isNilConst(bo.X)) && (bo.Op == token.EQL) == isTrue {
						absent = true
					}
					if ex, ok := cond.(*ssa.Extract); ok && ex.Index == 1 && !isTrue {
						if ta, ok := ex.Tuple.(*ssa.TypeAssert); ok && ta.CommaOk {
							absent = true
						}
					}
				}
			}
			if !stored && !absent {
				last := path[len(path)-1]
				pos := last.Instrs[len(last.Instrs)-1].Pos()
				if !pos.IsValid() {
					pos = fn.Pos()
				}
				r.Bad("C15.O5", key, pos, "%s can return without having stored %s in the placeholder (a conditional or skipped store): the value a handler stored, or the reset after a failed item, is not what later items of the request observe", fnKey(fn), what)
				return false
			}
		}
		r.OK("C15.O5", key, fn.Pos(), "%s stores %s on every return with a holder (%d store site(s))", fnKey(fn), what, len(good))
		return true
	}
	var sp *ssa.Parameter
	if setFn != nil {
		sp = strParam(setFn)
	}
	setOK := check(setFn, "kmipserver.SetIdPlaceholder/stores-argument", func(v ssa.Value) bool { return sp != nil && v == ssa.Value(sp) }, "its argument", false)
	isEmpty := func(v ssa.Value) bool {
		c, ok := v.(*ssa.Const)
		return ok && c.Value != nil && isStringConst(c) && constStringVal(c) == ""
	}
	check(clrFn, "kmipserver.ClearIdPlaceholder/stores-empty", isEmpty, "the empty string", setOK)
	// getter: every return with a holder returns the loaded field itself
	key := "kmipserver.IdPlaceholder/returns-field"
	if getFn == nil {
		r.Unk("C15.O5", key, token.NoPos, "anchor missing")
		return
	}
	bad, n := token.NoPos, 0
	absentEdge := func(cond ssa.Value, isTrue bool) bool {
		if bo, ok := cond.(*ssa.BinOp); ok && (isNilConst(bo.Y) || isNilConst(bo.X)) && (bo.Op == token.EQL) == isTrue {
			return true
		}
		if ex, ok := cond.(*ssa.Extract); ok && ex.Index == 1 && !isTrue {
			if ta, ok := ex.Tuple.(*ssa.TypeAssert); ok && ta.CommaOk {
				return true
			}
		}
		return false
	}
	gpaths, okP := enumeratePaths(getFn, 256)
	if !okP {
		r.Unk("C15.O5", key, getFn.Pos(), "too many paths")
		return
	}
	for _, path := range gpaths {
		last := path[len(path)-1]
		ret := last.Instrs[len(last.Instrs)-1].(*ssa.Return)
		if len(ret.Results) != 1 {
			continue
		}
		absent := false
		for i := 0; i+1 < len(path); i++ {
			if cond, isTrue, ok, inf := edgeOnPath(path, i); inf || ok && absentEdge(cond, isTrue) {
				absent = true
			}
		}
		if absent {
			continue
		}
		n++
		v := ret.Results[0]
		for k := len(path) - 1; k > 0; k-- {
			ph, ok := v.(*ssa.Phi)
			if !ok || ph.Block() != path[k] {
				if ok {
					continue
				}
				break
			}
			if pi := predIndex(path[k], path[k-1]); pi >= 0 {
				v = ph.Edges[pi]
			}
		}
		ld, ok := unspill(v).(*ssa.UnOp)
		if !ok || ld.Op != token.MUL || !isPH(ld.X) {
			bad = ret.Pos()
		}
	}
	switch {
	case bad.IsValid():
		r.Bad("C15.O5", key, bad, "IdPlaceholder returns something else than the stored placeholder")
	case n == 0:
		r.Unk("C15.O5", key, getFn.Pos(), "no return with a holder found")
	default:
		r.OK("C15.O5", key, getFn.Pos(), "returns the stored field unchanged")
	}
}

// c09B7: the only reasons to reject a request as a whole are the three the property names — an unsupported protocol
// version, the Undo option, a batch-count mismatch. Every other condition has to be reported on the item it concerns:
// each error return of handleRequest is dominated by one of those three tests.
func c09B7(r *Run) {
	p := r.P
	r.Rule("C09.B7", "a request is rejected as a whole only for an unsupported version, the Undo option or a batch-count mismatch", 2)
	hr := p.Func("kmipserver", "BatchExecutor", "handleRequest")
	if hr == nil {
		r.Unk("C09.B7", "kmipserver.BatchExecutor.handleRequest/whole-rejections", token.NoPos, "anchor missing")
		return
	}
	var reads func(v ssa.Value, name string, d int) bool
	reads = func(v ssa.Value, name string, d int) bool {
		if d > 6 {
			return false
		}
		switch x := v.(type) {
		case *ssa.UnOp:
			if x.Op == token.MUL {
				if _, fld, ok := fieldAddrOf(x.X); ok && fname(fld) == name {
					return true
				}
			}
			return reads(x.X, name, d+1)
		case *ssa.BinOp:
			return reads(x.X, name, d+1) || reads(x.Y, name, d+1)
		case *ssa.Convert:
			return reads(x.X, name, d+1)
		case *ssa.Phi:
			for _, e := range x.Edges {
				if reads(e, name, d+1) {
					return true
				}
			}
		case *ssa.Call:
			for _, a := range x.Call.Args {
				if reads(a, name, d+1) {
					return true
				}
			}
		case *ssa.Slice:
			// the variadic arguments of a call (cmp.Or(field, default)): the values stored into the array
			if al, ok := x.X.(*ssa.Alloc); ok {
				for _, ref := range *al.Referrers() {
					ia, ok := ref.(*ssa.IndexAddr)
					if !ok {
						continue
					}
					for _, r2 := range *ia.Referrers() {
						if st, ok := r2.(*ssa.Store); ok && st.Addr == ssa.Value(ia) && reads(st.Val, name, d+1) {
							return true
						}
					}
				}
			}
		}
		return false
	}
	n := 0
	for _, b := range hr.Blocks {
		ret, ok := b.Instrs[len(b.Instrs)-1].(*ssa.Return)
		if !ok || len(ret.Results) != 2 || isNilConst(ret.Results[1]) {
			continue
		}
		// an error return: a constructed error (not a phi of nil)
		if _, isCall := ret.Results[1].(*ssa.Call); !isCall {
			if _, isMI := ret.Results[1].(*ssa.MakeInterface); !isMI {
				continue
			}
		}
		n++
		key := fmt.Sprintf("kmipserver.BatchExecutor.handleRequest/whole-rejection#%d", n)
		why := ""
		for i, dc := range dominatingConds(b) {
			if i > 0 {
				break // the test that immediately controls the return decides; earlier ones are the passing edges of the other checks
			}
			switch {
			case reads(dc.cond, "supportedVersions", 0) || reads(dc.cond, "ProtocolVersion", 0):
				why = "unsupported protocol version"
			case reads(dc.cond, "BatchErrorContinuationOption", 0):
				why = "Undo option"
			case reads(dc.cond, "BatchCount", 0):
				why = "batch-count mismatch"
			}
			if c, ok := dc.cond.(*ssa.Call); ok && why == "" {
				id := callID(&c.Call)
				if id.is(srvPath, "", "isDiscoveryOnly") {
					why = "unsupported protocol version"
				}
			}
		}
		if why != "" {
			r.OK("C09.B7", key, ret.Pos(), "whole-request rejection for: %s", why)
		} else {
			r.Bad("C09.B7", key, ret.Pos(), "handleRequest rejects the whole request for a reason other than an unsupported version, the Undo option or a batch-count mismatch: the client gets a single failed item and no handler runs although every item of a legal batch must be executed and answered individually")
		}
	}
	if n == 0 {
		r.Unk("C09.B7", "kmipserver.BatchExecutor.handleRequest/whole-rejections", hr.Pos(), "no whole-request rejection found")
	}
}

// c09Tail describes the inner loop of handleRequest that reports the items after a stop. The four strings are empty
// when the corresponding clause holds, else the reason.
type c09Tail struct {
	hdr    *ssa.BasicBlock
	j      ssa.Value
	range_ string // covers idx+1 .. len(items)-1, one store per slot
	entry  string // entered only under status == OperationFailed && option == Stop
	leaves string // its exit leaves the item loop; nothing else does
	failed string // stores status OperationFailed; does not execute
}

func c09FindTail(hr *ssa.Function, outer *ssa.BasicBlock, idx ssa.Value, exec *ssa.Call, failedConst, stopConst int64, isReqItems func(ssa.Value) bool, mk *ssa.MakeSlice) *c09Tail {
	var ih *ssa.BasicBlock
	for _, b := range hr.Blocks {
		if b == outer || !outer.Dominates(b) {
			continue
		}
		for _, pr := range b.Preds {
			if b.Dominates(pr) {
				if ih != nil && ih != b {
					return nil // more than one inner loop
				}
				ih = b
			}
		}
	}
	if ih == nil || len(ih.Instrs) == 0 {
		return nil
	}
	t := &c09Tail{hdr: ih}
	// the response slice is the one made with len(req.BatchItem)
	isRespItems := func(v ssa.Value) bool {
		sl, ok := v.Type().Underlying().(*types.Slice)
		if !ok || typeName(sl.Elem()) != "ResponseBatchItem" || mk == nil {
			return false
		}
		same := true
		allInstrs(hr, func(in ssa.Instruction) {
			if st, ok := in.(*ssa.Store); ok {
				if sl2, ok := st.Val.Type().Underlying().(*types.Slice); ok && typeName(sl2.Elem()) == "ResponseBatchItem" && st.Val != ssa.Value(mk) {
					same = false
				}
			}
		})
		return same
	}
	// j < len(items), j = phi(idx+1, j+1)
	iff, ok := ih.Instrs[len(ih.Instrs)-1].(*ssa.If)
	var bo *ssa.BinOp
	if ok {
		bo, _ = iff.Cond.(*ssa.BinOp)
	}
	if bo == nil {
		return nil
	}
	jv, bound, inEdge := bo.X, bo.Y, 0
	switch bo.Op {
	case token.LSS:
	case token.GTR:
		jv, bound = bo.Y, bo.X
	case token.GEQ:
		inEdge = 1
	case token.LEQ:
		jv, bound, inEdge = bo.Y, bo.X, 1
	default:
		return nil
	}
	jp, ok := jv.(*ssa.Phi)
	if !ok || jp.Block() != ih {
		return nil
	}
	t.j = jp
	plusOne := func(v, base ssa.Value) bool {
		b, ok := v.(*ssa.BinOp)
		if !ok || b.Op != token.ADD {
			return false
		}
		k, isK := constIntVal(b.Y)
		return isK && k == 1 && b.X == base
	}
	y, isLen := lenOperand(bound)
	switch {
	case !isLen || !(isReqItems(y) || isRespItems(y)):
		t.range_ = "its bound is not the number of items"
	}
	for i, e := range jp.Edges {
		pr := ih.Preds[i]
		if ih.Dominates(pr) {
			if !plusOne(e, jp) {
				t.range_ = "it does not advance by one"
			}
		} else if !plusOne(e, idx) {
			t.range_ = "it does not start at the slot after the current item"
		}
	}
	// one store to slot j on every path around the inner loop
	body := ih.Succs[inEdge]
	exit := ih.Succs[1-inEdge]
	stores := map[*ssa.BasicBlock]int{}
	allInstrs(hr, func(in ssa.Instruction) {
		st, ok := in.(*ssa.Store)
		if !ok || !ih.Dominates(st.Block()) {
			return
		}
		if ia, ok := st.Addr.(*ssa.IndexAddr); ok {
			if sl, ok := ia.X.Type().Underlying().(*types.Slice); ok && typeName(sl.Elem()) == "ResponseBatchItem" {
				if ia.Index == ssa.Value(jp) {
					stores[st.Block()]++
				} else {
					t.range_ = "it stores into another slot than its own index"
				}
			}
		}
	})
	var walk func(b *ssa.BasicBlock, seen map[*ssa.BasicBlock]bool, n int)
	walk = func(b *ssa.BasicBlock, seen map[*ssa.BasicBlock]bool, n int) {
		n += stores[b]
		for _, s := range b.Succs {
			if s == ih {
				if n != 1 && t.range_ == "" {
					t.range_ = fmt.Sprintf("a path around it stores %d times into its slot", n)
				}
				continue
			}
			if seen[s] {
				continue
			}
			if !ih.Dominates(s) || !reachableFrom(s)[ih] {
				if t.range_ == "" { // only the loop test itself may end the reporting loop
					t.range_ = "the reporting loop can be left before the last slot"
				}
				continue
			}
			seen[s] = true
			walk(s, seen, n)
			delete(seen, s)
		}
	}
	if body == ih {
		t.range_ = "empty body"
	} else {
		walk(body, map[*ssa.BasicBlock]bool{body: true}, 0)
	}
	// leaving: the exit cannot come back to the item loop; and the item loop is left only from its own header or here
	if reachableFrom(exit)[outer] {
		t.leaves = "the item loop continues after the remaining items were reported"
	}
	inOuter := reachableFromWithin(outer)
	for _, b := range hr.Blocks {
		if !outer.Dominates(b) || !inOuter[b] || b == outer || b == ih {
			continue
		}
		for _, s := range b.Succs {
			if !reachableFrom(s)[outer] && !mustReach(s, ih, map[*ssa.BasicBlock]bool{}) && t.leaves == "" {
				t.leaves = "the item loop is left without reporting the remaining items"
			}
		}
	}
	// entry: failed && stop
	for i, pr := range ih.Preds {
		if ih.Dominates(pr) {
			continue
		}
		_ = i
		conds := dominatingConds(pr)
		if cnd, isTrue, ok := edgeTaken(pr, ih); ok {
			conds = append(conds, domCond{cnd, isTrue, pr})
		}
		fail, stop := false, false
		for _, dc := range conds {
			b, ok := dc.cond.(*ssa.BinOp)
			if !ok || !((b.Op == token.EQL && dc.outcome) || (b.Op == token.NEQ && !dc.outcome)) {
				continue
			}
			x, yv := b.X, b.Y
			if _, isK := constIntVal(x); isK {
				x, yv = yv, x
			}
			k, isK := constIntVal(yv)
			if !isK {
				continue
			}
			if typeName(x.Type()) == "ResultStatus" && k == failedConst && outer.Dominates(dc.at) {
				fail = true
			}
			if typeName(x.Type()) == "BatchErrorContinuationOption" && k == stopConst {
				stop = true
			}
		}
		if !fail || !stop {
			t.entry = fmt.Sprintf("failed=%v stop=%v", fail, stop)
		}
	}
	// reported as failed, not executed
	failedStored := false
	allInstrs(hr, func(in ssa.Instruction) {
		if !ih.Dominates(in.Block()) || !reachableFrom(in.Block())[ih] {
			return
		}
		if st, ok := in.(*ssa.Store); ok {
			if _, fld, ok := fieldAddrOf(st.Addr); ok && fname(fld) == "ResultStatus" {
				if k, ok := constIntVal(st.Val); ok && k == failedConst {
					failedStored = true
				}
			}
		}
		if c, ok := in.(*ssa.Call); ok && c.Call.StaticCallee() != nil && c.Call.StaticCallee() == exec.Call.StaticCallee() {
			t.failed = "the executor is called for the remaining items"
		}
	})
	if !failedStored && t.failed == "" {
		t.failed = "the remaining items are not given status OperationFailed"
	}
	return t
}

// reachableFromWithin: the blocks of the natural loop headed by hdr (those dominated by hdr that can reach it).
func reachableFromWithin(hdr *ssa.BasicBlock) map[*ssa.BasicBlock]bool {
	out := map[*ssa.BasicBlock]bool{}
	for _, b := range hdr.Parent().Blocks {
		if hdr.Dominates(b) && reachableFrom(b)[hdr] {
			out[b] = true
		}
	}
	return out
}

// mustReach: every path from b arrives at target (no return, no cycle before it).
func mustReach(b, target *ssa.BasicBlock, onPath map[*ssa.BasicBlock]bool) bool {
	if b == target {
		return true
	}
	if len(b.Succs) == 0 || onPath[b] {
		return false
	}
	onPath[b] = true
	defer delete(onPath, b)
	for _, s := range b.Succs {
		if !mustReach(s, target, onPath) {
			return false
		}
	}
	return true
}
