package main

// M1 — the static registry. Evaluates, from source literals and go/types
// constant values only, what the init-time Register* calls put into the
// process-wide tables: tags, enumerations, bit masks, operation payloads,
// object types, attribute types. No repository code is executed.

import (
	"fmt"
	"go/ast"
	"go/constant"
	"go/token"
	"go/types"
	"sort"
	"strings"

	"golang.org/x/tools/go/packages"
	"golang.org/x/tools/go/ssa"
	"golang.org/x/tools/go/types/typeutil"
)

type TagEntry struct {
	Num  int64
	Name string
	Pos  token.Pos
	// NumExpr is the source expression of the number (a Tag* constant name usually)
	NumExpr string
}

type EnumValue struct {
	Num      uint64
	Name     string
	Pos      token.Pos
	ConstObj *types.Const // the Go constant used as key, if it is one
}

type EnumReg struct {
	Tag      int64
	TagExpr  string
	Type     *types.Named
	Values   []EnumValue
	Pos      token.Pos
	InFunc   string // enclosing function name
	NilNames bool
}

type MaskReg struct {
	Tag     int64
	TagExpr string
	Type    *types.Named
	Names   []string
	NamePos []token.Pos
	Pos     token.Pos
	InFunc  string
}

type OpReg struct {
	Op     int64
	OpExpr string
	OpObj  *types.Const
	Req    types.Type
	Resp   types.Type
	Pos    token.Pos
	InFunc string
	Pkg    string
}

type TypeEntry struct {
	Key     constant.Value
	KeyExpr string
	KeyObj  *types.Const
	Type    types.Type
	Pos     token.Pos
}

type RegCall struct {
	Callee string
	Pos    token.Pos
	InFunc string
	Pkg    string
}

type Registry struct {
	Tags      []TagEntry // from the tagNames literal
	TagByNum  map[int64]string
	TagByName map[string]int64
	// RegisterTag call sites and whether the tagNames loop form was recognised
	TagLoopOK bool
	Enums     []*EnumReg
	Masks     []*MaskReg
	Ops       []*OpReg
	Objects   []TypeEntry
	Attrs     []TypeEntry
	AllAttr   []TypeEntry // AllAttributeNames literal (Type nil)
	RegCalls  []RegCall   // every call to a Register* function in the repo
	Problems  []string    // model-conformance probe failures => dependents are UNDECIDED
	tagByType map[types.Type]int64
}

func calleeOf(info *types.Info, call *ast.CallExpr) *types.Func {
	if f, ok := typeutil.Callee(info, call).(*types.Func); ok {
		return f
	}
	return nil
}

func isFunc(f *types.Func, pkgPath, name string) bool {
	return f != nil && f.Pkg() != nil && f.Pkg().Path() == pkgPath && f.Name() == name && f.Type().(*types.Signature).Recv() == nil
}

func constInt(info *types.Info, e ast.Expr) (int64, bool) {
	tv, ok := info.Types[e]
	if !ok || tv.Value == nil {
		return 0, false
	}
	v := constant.ToInt(tv.Value)
	if v.Kind() != constant.Int {
		return 0, false
	}
	i, exact := constant.Int64Val(v)
	if !exact {
		// uint64 range
		u, ok := constant.Uint64Val(v)
		if !ok {
			return 0, false
		}
		return int64(u), true
	}
	return i, true
}

func constStr(info *types.Info, e ast.Expr) (string, bool) {
	tv, ok := info.Types[e]
	if !ok || tv.Value == nil || tv.Value.Kind() != constant.String {
		return "", false
	}
	return constant.StringVal(tv.Value), true
}

func constObjOf(info *types.Info, e ast.Expr) *types.Const {
	switch x := e.(type) {
	case *ast.Ident:
		c, _ := info.Uses[x].(*types.Const)
		return c
	case *ast.SelectorExpr:
		c, _ := info.Uses[x.Sel].(*types.Const)
		return c
	case *ast.ParenExpr:
		return constObjOf(info, x.X)
	}
	return nil
}

// typeArgsOfCall returns the explicit/inferred type arguments of a generic call.
func typeArgsOfCall(info *types.Info, call *ast.CallExpr) []types.Type {
	var id *ast.Ident
	fun := call.Fun
	for {
		switch x := fun.(type) {
		case *ast.IndexExpr:
			fun = x.X
			continue
		case *ast.IndexListExpr:
			fun = x.X
			continue
		case *ast.ParenExpr:
			fun = x.X
			continue
		}
		break
	}
	switch x := fun.(type) {
	case *ast.Ident:
		id = x
	case *ast.SelectorExpr:
		id = x.Sel
	}
	if id == nil {
		return nil
	}
	inst, ok := info.Instances[id]
	if !ok {
		return nil
	}
	var out []types.Type
	for i := 0; i < inst.TypeArgs.Len(); i++ {
		out = append(out, inst.TypeArgs.At(i))
	}
	return out
}

// reflectTypeForArg recognises reflect.TypeFor[T]() and returns T.
func reflectTypeForArg(info *types.Info, e ast.Expr) types.Type {
	call, ok := e.(*ast.CallExpr)
	if !ok {
		return nil
	}
	f := calleeOf(info, call)
	if !isFunc(f, "reflect", "TypeFor") {
		return nil
	}
	ta := typeArgsOfCall(info, call)
	if len(ta) != 1 {
		return nil
	}
	return ta[0]
}

func findPkgVarLit(pk *packages.Package, name string) (*ast.CompositeLit, token.Pos) {
	name = curVarName(pk.PkgPath, name)
	for _, f := range pk.Syntax {
		for _, d := range f.Decls {
			gd, ok := d.(*ast.GenDecl)
			if !ok || gd.Tok != token.VAR {
				continue
			}
			for _, s := range gd.Specs {
				vs := s.(*ast.ValueSpec)
				for i, n := range vs.Names {
					if n.Name == name && i < len(vs.Values) {
						if cl, ok := vs.Values[i].(*ast.CompositeLit); ok {
							return cl, n.Pos()
						}
					}
				}
			}
		}
	}
	return nil, token.NoPos
}

func enclosingFuncName(f *ast.File, pos token.Pos) string {
	for _, d := range f.Decls {
		if fd, ok := d.(*ast.FuncDecl); ok && fd.Pos() <= pos && pos < fd.End() {
			n := fd.Name.Name
			if fd.Recv != nil && len(fd.Recv.List) == 1 {
				n = recvName(fd.Recv.List[0].Type) + "." + n
			}
			// inside a func literal within fd? still attribute to fd but mark
			lit := false
			ast.Inspect(fd.Body, func(nd ast.Node) bool {
				if fl, ok := nd.(*ast.FuncLit); ok && fl.Pos() <= pos && pos < fl.End() {
					lit = true
				}
				return true
			})
			if lit {
				n += "$lit"
			}
			return n
		}
	}
	return "<package-level>"
}

func BuildRegistry(p *Program) *Registry {
	reg := &Registry{TagByNum: map[int64]string{}, TagByName: map[string]int64{}, tagByType: map[types.Type]int64{}}
	ttlvPath := modPath + "/ttlv"
	root := p.Pkg("")
	if root == nil {
		reg.Problems = append(reg.Problems, "root package not loaded")
		return reg
	}
	// ---- tagNames literal
	if cl, _ := findPkgVarLit(root, "tagNames"); cl != nil {
		for _, el := range cl.Elts {
			kv, ok := el.(*ast.KeyValueExpr)
			if !ok {
				reg.Problems = append(reg.Problems, "tagNames: non key-value element")
				continue
			}
			n, ok1 := constInt(root.TypesInfo, kv.Key)
			s, ok2 := constStr(root.TypesInfo, kv.Value)
			if !ok1 || !ok2 {
				reg.Problems = append(reg.Problems, "tagNames: non-constant entry at "+p.pos(kv.Pos()))
				continue
			}
			reg.Tags = append(reg.Tags, TagEntry{Num: n, Name: s, Pos: kv.Pos(), NumExpr: types.ExprString(kv.Key)})
		}
	} else {
		reg.Problems = append(reg.Problems, "anchor missing: var tagNames map literal in package kmip")
	}

	// ---- all Register* calls in the repository
	for _, pk := range p.RepoPkgs() {
		for _, file := range pk.Syntax {
			ast.Inspect(file, func(n ast.Node) bool {
				call, ok := n.(*ast.CallExpr)
				if !ok {
					return true
				}
				f := calleeOf(pk.TypesInfo, call)
				if f == nil || f.Pkg() == nil {
					return true
				}
				in := enclosingFuncName(file, call.Pos())
				switch {
				case isFunc(f, ttlvPath, "RegisterTag"):
					reg.RegCalls = append(reg.RegCalls, RegCall{"ttlv.RegisterTag", call.Pos(), in, pk.PkgPath})
				case isFunc(f, ttlvPath, "RegisterHideTag"):
					reg.RegCalls = append(reg.RegCalls, RegCall{"ttlv.RegisterHideTag", call.Pos(), in, pk.PkgPath})
				case isFunc(f, modPath, "RegisterObject"):
					reg.RegCalls = append(reg.RegCalls, RegCall{"kmip.RegisterObject", call.Pos(), in, pk.PkgPath})
				case isFunc(f, ttlvPath, "RegisterEnum"):
					reg.RegCalls = append(reg.RegCalls, RegCall{"ttlv.RegisterEnum", call.Pos(), in, pk.PkgPath})
					er := &EnumReg{Pos: call.Pos(), InFunc: in}
					ta := typeArgsOfCall(pk.TypesInfo, call)
					if len(ta) == 1 {
						er.Type, _ = ta[0].(*types.Named)
					}
					if len(call.Args) != 2 || er.Type == nil {
						reg.Problems = append(reg.Problems, "RegisterEnum call not understood at "+p.pos(call.Pos()))
						return true
					}
					tag, ok := constInt(pk.TypesInfo, call.Args[0])
					if !ok {
						reg.Problems = append(reg.Problems, "RegisterEnum: non-constant tag at "+p.pos(call.Pos()))
						return true
					}
					er.Tag, er.TagExpr = tag, types.ExprString(call.Args[0])
					switch a := call.Args[1].(type) {
					case *ast.CompositeLit:
						for _, el := range a.Elts {
							kv, ok := el.(*ast.KeyValueExpr)
							if !ok {
								continue
							}
							n, ok1 := constInt(pk.TypesInfo, kv.Key)
							s, ok2 := constStr(pk.TypesInfo, kv.Value)
							if !ok1 || !ok2 {
								reg.Problems = append(reg.Problems, "RegisterEnum: non-constant entry at "+p.pos(kv.Pos()))
								continue
							}
							er.Values = append(er.Values, EnumValue{Num: uint64(n), Name: s, Pos: kv.Pos(), ConstObj: constObjOf(pk.TypesInfo, kv.Key)})
						}
					case *ast.Ident:
						if a.Name == "nil" {
							er.NilNames = true
						} else {
							reg.Problems = append(reg.Problems, "RegisterEnum: names not a literal at "+p.pos(call.Pos()))
						}
					default:
						reg.Problems = append(reg.Problems, "RegisterEnum: names not a literal at "+p.pos(call.Pos()))
					}
					reg.Enums = append(reg.Enums, er)
				case isFunc(f, ttlvPath, "RegisterBitmask"):
					reg.RegCalls = append(reg.RegCalls, RegCall{"ttlv.RegisterBitmask", call.Pos(), in, pk.PkgPath})
					mr := &MaskReg{Pos: call.Pos(), InFunc: in}
					ta := typeArgsOfCall(pk.TypesInfo, call)
					if len(ta) == 1 {
						mr.Type, _ = ta[0].(*types.Named)
					}
					if len(call.Args) < 1 || mr.Type == nil || call.Ellipsis.IsValid() {
						reg.Problems = append(reg.Problems, "RegisterBitmask call not understood at "+p.pos(call.Pos()))
						return true
					}
					tag, ok := constInt(pk.TypesInfo, call.Args[0])
					if !ok {
						reg.Problems = append(reg.Problems, "RegisterBitmask: non-constant tag at "+p.pos(call.Pos()))
						return true
					}
					mr.Tag, mr.TagExpr = tag, types.ExprString(call.Args[0])
					for _, a := range call.Args[1:] {
						s, ok := constStr(pk.TypesInfo, a)
						if !ok {
							reg.Problems = append(reg.Problems, "RegisterBitmask: non-constant name at "+p.pos(a.Pos()))
							continue
						}
						mr.Names = append(mr.Names, s)
						mr.NamePos = append(mr.NamePos, a.Pos())
					}
					reg.Masks = append(reg.Masks, mr)
				case isFunc(f, modPath, "RegisterOperationPayload"):
					reg.RegCalls = append(reg.RegCalls, RegCall{"kmip.RegisterOperationPayload", call.Pos(), in, pk.PkgPath})
					or := &OpReg{Pos: call.Pos(), InFunc: in, Pkg: pk.PkgPath}
					ta := typeArgsOfCall(pk.TypesInfo, call)
					if len(ta) != 2 || len(call.Args) != 1 {
						reg.Problems = append(reg.Problems, "RegisterOperationPayload call not understood at "+p.pos(call.Pos()))
						return true
					}
					or.Req, or.Resp = ta[0], ta[1]
					op, ok := constInt(pk.TypesInfo, call.Args[0])
					if !ok {
						reg.Problems = append(reg.Problems, "RegisterOperationPayload: non-constant operation at "+p.pos(call.Pos()))
						return true
					}
					or.Op, or.OpExpr, or.OpObj = op, types.ExprString(call.Args[0]), constObjOf(pk.TypesInfo, call.Args[0])
					reg.Ops = append(reg.Ops, or)
				}
				return true
			})
		}
	}

	// ---- the RegisterTag loop over tagNames (tags.go init)
	for _, file := range root.Syntax {
		ast.Inspect(file, func(n ast.Node) bool {
			rs, ok := n.(*ast.RangeStmt)
			if !ok {
				return true
			}
			id, ok := rs.X.(*ast.Ident)
			if !ok || id.Name != curVarName(root.PkgPath, "tagNames") || root.TypesInfo.Uses[id] == nil || root.TypesInfo.Uses[id].Parent() != root.Types.Scope() {
				return true
			}
			k, _ := rs.Key.(*ast.Ident)
			v, _ := rs.Value.(*ast.Ident)
			if k == nil || v == nil || len(rs.Body.List) != 1 {
				return true
			}
			es, ok := rs.Body.List[0].(*ast.ExprStmt)
			if !ok {
				return true
			}
			call, ok := es.X.(*ast.CallExpr)
			if !ok || !isFunc(calleeOf(root.TypesInfo, call), ttlvPath, "RegisterTag") || len(call.Args) != 2 {
				return true
			}
			a0, _ := call.Args[0].(*ast.Ident)
			a1, _ := call.Args[1].(*ast.Ident)
			if a0 != nil && a1 != nil && root.TypesInfo.Uses[a0] == root.TypesInfo.Defs[v] && root.TypesInfo.Uses[a1] == root.TypesInfo.Defs[k] {
				reg.TagLoopOK = true
			}
			return true
		})
	}
	if !reg.TagLoopOK {
		reg.Problems = append(reg.Problems, "idiom not recognised: `for tag, name := range tagNames { ttlv.RegisterTag(name, tag) }` in package kmip")
	}
	for _, t := range reg.Tags {
		// map literal with duplicate constant keys does not compile, so Num is unique here
		reg.TagByNum[t.Num] = t.Name
		reg.TagByName[t.Name] = t.Num // duplicates detected by C17.N1, not here
	}

	// ---- objectTypes, attrTypes, AllAttributeNames
	readTypeMap := func(name string) []TypeEntry {
		cl, _ := findPkgVarLit(root, name)
		if cl == nil {
			reg.Problems = append(reg.Problems, "anchor missing: var "+name+" literal in package kmip")
			return nil
		}
		var out []TypeEntry
		for _, el := range cl.Elts {
			kv, ok := el.(*ast.KeyValueExpr)
			if !ok {
				reg.Problems = append(reg.Problems, name+": non key-value element")
				continue
			}
			tv := root.TypesInfo.Types[kv.Key]
			ty := reflectTypeForArg(root.TypesInfo, kv.Value)
			if tv.Value == nil || ty == nil {
				reg.Problems = append(reg.Problems, name+": entry not `const: reflect.TypeFor[T]()` at "+p.pos(kv.Pos()))
				continue
			}
			out = append(out, TypeEntry{Key: tv.Value, KeyExpr: types.ExprString(kv.Key), KeyObj: constObjOf(root.TypesInfo, kv.Key), Type: ty, Pos: kv.Pos()})
		}
		return out
	}
	reg.Objects = readTypeMap("objectTypes")
	reg.Attrs = readTypeMap("attrTypes")
	if cl, _ := findPkgVarLit(root, "AllAttributeNames"); cl != nil {
		for _, el := range cl.Elts {
			tv := root.TypesInfo.Types[el]
			if tv.Value == nil {
				reg.Problems = append(reg.Problems, "AllAttributeNames: non-constant element at "+p.pos(el.Pos()))
				continue
			}
			reg.AllAttr = append(reg.AllAttr, TypeEntry{Key: tv.Value, KeyExpr: types.ExprString(el), KeyObj: constObjOf(root.TypesInfo, el), Pos: el.Pos()})
		}
	} else {
		reg.Problems = append(reg.Problems, "anchor missing: var AllAttributeNames")
	}

	reg.probe(p)

	// type -> default tag (RegisterEnum/RegisterBitmask write tagByType)
	for _, e := range reg.Enums {
		reg.tagByType[e.Type] = e.Tag
	}
	for _, m := range reg.Masks {
		reg.tagByType[m.Type] = m.Tag
	}
	sort.SliceStable(reg.Ops, func(i, j int) bool { return reg.Ops[i].Op < reg.Ops[j].Op })
	return reg
}

// probe re-checks, on the SSA of the current source, what the model assumes the Register* functions do: which
// package-level maps they update, with which of their parameters as key and value. Globals and parameters are
// identified by role (type, position), not by name.
func (reg *Registry) probe(p *Program) {
	if p.Pkg("ttlv") == nil {
		reg.Problems = append(reg.Problems, "package ttlv not loaded")
		return
	}
	type upd struct{ mapT, key, val string }
	collect := func(rel, fn string) []upd {
		sf := p.Func(rel, "", fn)
		if sf == nil || sf.Blocks == nil {
			reg.Problems = append(reg.Problems, "anchor missing: "+rel+"."+fn)
			return nil
		}
		// origin of a value in terms of the function's parameters
		var origin func(v ssa.Value, d int) string
		origin = func(v ssa.Value, d int) string {
			if d > 6 {
				return "?"
			}
			switch x := v.(type) {
			case *ssa.Parameter:
				for i, prm := range sf.Params {
					if prm == x {
						return fmt.Sprintf("param#%d", i)
					}
				}
			case *ssa.Convert:
				return origin(x.X, d+1)
			case *ssa.ChangeType:
				return origin(x.X, d+1)
			case *ssa.MakeInterface:
				return origin(x.X, d+1)
			case *ssa.ChangeInterface:
				return origin(x.X, d+1)
			case *ssa.Extract:
				if nx, ok := x.Tuple.(*ssa.Next); ok {
					if rg, ok := nx.Iter.(*ssa.Range); ok {
						return fmt.Sprintf("range(%s)#%d", origin(rg.X, d+1), x.Index)
					}
				}
				return origin(x.Tuple, d+1)
			case *ssa.UnOp:
				if x.Op == token.MUL {
					if ia, ok := x.X.(*ssa.IndexAddr); ok {
						return "elem(" + origin(ia.X, d+1) + ")"
					}
				}
				return origin(x.X, d+1)
			case *ssa.BinOp:
				if x.Op == token.SHL {
					if k, ok := constIntVal(x.X); ok && k == 1 {
						y := x.Y
						if cv, ok := y.(*ssa.Convert); ok {
							y = cv.X
						}
						// the loop index: the induction phi or its increment
						if _, isPhi := y.(*ssa.Phi); isPhi {
							return "1<<index"
						}
						if add, ok := y.(*ssa.BinOp); ok && add.Op == token.ADD {
							if _, isPhi := add.X.(*ssa.Phi); isPhi {
								return "1<<index"
							}
						}
					}
				}
			case *ssa.Call:
				id := callID(&x.Call)
				if id.pkg == "reflect" && id.name == "TypeFor" {
					return "typefor"
				}
				if id.pkg == "reflect" && id.name == "Elem" && len(x.Call.Args) == 1 {
					return "elem-type(" + origin(x.Call.Args[0], d+1) + ")"
				}
				if id.pkg == "reflect" && id.name == "TypeOf" && len(x.Call.Args) == 1 {
					return "typeof(" + origin(x.Call.Args[0], d+1) + ")"
				}
				if x.Call.IsInvoke() && x.Call.Method.Name() == "Elem" {
					return "elem-type(" + origin(x.Call.Value, d+1) + ")"
				}
				if strings.HasPrefix(id.pkg, modPath) {
					return "call:" + id.name
				}
			case *ssa.Slice:
				return origin(x.X, d+1)
			}
			return "?"
		}
		var out []upd
		allInstrs(sf, func(in ssa.Instruction) {
			mu, ok := in.(*ssa.MapUpdate)
			if !ok {
				return
			}
			// the map: a package-level map, or an element of a package-level map of maps
			m := mu.Map
			mt := ""
			// inner: m is the element of a package-level map of maps under some index — looked up, or a map made
			// here and stored there (an alias kept in a local: `byName := reg[tag]; if byName == nil { byName = make(..); reg[tag] = byName }`)
			var inner func(v ssa.Value, d int) string
			inner = func(v ssa.Value, d int) string {
				if d > 4 {
					return ""
				}
				switch x := v.(type) {
				case *ssa.Lookup:
					if g := globalRoot(x.X, 0); g != nil {
						return types.TypeString(x.X.Type(), func(*types.Package) string { return "" }) + "[" + origin(x.Index, 0) + "]"
					}
				case *ssa.MakeMap:
					res := ""
					allInstrs(sf, func(i2 ssa.Instruction) {
						if m2, ok := i2.(*ssa.MapUpdate); ok && m2.Value == ssa.Value(x) {
							if g := globalRoot(m2.Map, 0); g != nil {
								res = types.TypeString(m2.Map.Type(), func(*types.Package) string { return "" }) + "[" + origin(m2.Key, 0) + "]"
							}
						}
					})
					return res
				case *ssa.Phi:
					res := ""
					for _, e := range x.Edges {
						r1 := inner(e, d+1)
						if r1 == "" || (res != "" && r1 != res) {
							return ""
						}
						res = r1
					}
					return res
				}
				return ""
			}
			if _, isLk := m.(*ssa.Lookup); isLk {
				mt = inner(m, 0)
			} else if g := globalRoot(m, 0); g != nil {
				mt = types.TypeString(m.Type(), func(*types.Package) string { return "" })
			} else {
				mt = inner(m, 0)
			}
			if mt == "" {
				return
			}
			out = append(out, upd{mt, origin(mu.Key, 0), origin(mu.Value, 0)})
		})
		return out
	}
	need := func(fn string, us []upd, n int, mapT, key, val, what string) {
		c := 0
		for _, u := range us {
			if u.mapT == mapT && u.key == key && u.val == val {
				c++
			}
		}
		if c < n {
			reg.Problems = append(reg.Problems, fmt.Sprintf("model probe failed: %s no longer records %s (expected %d update(s) of a package-level %s with key %s and value %s, found %d)", fn, what, n, mapT, key, val, c))
		}
	}
	a := collect("ttlv", "RegisterTag")
	need("ttlv.RegisterTag", a, 1, "map[string]int", "param#0", "param#1", "name -> tag")
	need("ttlv.RegisterTag", a, 1, "map[int]string", "param#1", "param#0", "tag -> name")
	a = collect("ttlv", "RegisterEnum")
	need("ttlv.RegisterEnum", a, 2, "map[Type]int", "typefor", "param#0", "the enumeration type -> tag (enum set and default tag)")
	need("ttlv.RegisterEnum", a, 1, "map[int]map[uint32]string[param#0]", "range(param#1)#1", "range(param#1)#2", "value -> name under the tag")
	need("ttlv.RegisterEnum", a, 1, "map[int]map[string]uint32[param#0]", "range(param#1)#2", "range(param#1)#1", "name -> value under the tag")
	a = collect("ttlv", "RegisterBitmask")
	need("ttlv.RegisterBitmask", a, 2, "map[Type]int", "typefor", "param#0", "the mask type -> tag (mask set and default tag)")
	need("ttlv.RegisterBitmask", a, 1, "map[int][]string", "param#0", "param#1", "tag -> flag names in bit order")
	need("ttlv.RegisterBitmask", a, 1, "map[int]map[string]int32[param#0]", "elem(param#1)", "1<<index", "flag name -> bit under the tag")
	a = collect("", "RegisterOperationPayload")
	need("kmip.RegisterOperationPayload", a, 1, "map[Operation]operationPayloadTypes", "param#0", "call:typeForOperation", "operation -> payload types")
	a = collect("", "RegisterObject")
	need("kmip.RegisterObject", a, 1, "map[ObjectType]Type", "param#0", "elem-type(typeof(param#1))", "object type -> struct type")
}

// EnumForType returns the registration of a named uint32 type, or nil.
func (reg *Registry) EnumForType(t types.Type) *EnumReg {
	for _, e := range reg.Enums {
		if types.Identical(e.Type, t) {
			return e
		}
	}
	return nil
}

func (reg *Registry) MaskForType(t types.Type) *MaskReg {
	for _, m := range reg.Masks {
		if types.Identical(m.Type, t) {
			return m
		}
	}
	return nil
}

// TagForType mirrors ttlv.getTagForType: pointers/slices/arrays stripped, then
// tagByType (enum/mask registrations), then a tag named like the type.
func (reg *Registry) TagForType(t types.Type) (int64, bool) {
	for {
		t = types.Unalias(t)
		switch u := t.Underlying().(type) {
		case *types.Pointer:
			t = u.Elem()
			continue
		case *types.Slice:
			t = u.Elem()
			continue
		case *types.Array:
			t = u.Elem()
			continue
		}
		break
	}
	for k, v := range reg.tagByType {
		if types.Identical(k, t) {
			return v, true
		}
	}
	name := ""
	switch n := t.(type) {
	case *types.Named:
		name = n.Obj().Name()
	case *types.Basic:
		name = n.Name()
	}
	if tag, ok := reg.TagByName[name]; ok {
		return tag, true
	}
	return 0, false
}

func (reg *Registry) TagName(n int64) string {
	if s, ok := reg.TagByNum[n]; ok {
		return s
	}
	return fmt.Sprintf("0x%06X", n)
}
