package main

// C12 — the client turns every protocol-violating server response into an error.
// C13 — version negotiation adopts the highest common protocol version.

import (
	"fmt"
	"go/constant"
	"go/token"
	"go/types"
	"strings"

	"golang.org/x/tools/go/ssa"
)

func runC12(r *Run, verifDir string) {
	p := r.P
	reg := BuildRegistry(p)
	r.Explain = append(r.Explain,
		"C12 is decided structurally on package kmipclient and kmip.ResponseBatchItem.Err: A1 every panicking type assertion in the client is an obligation, discharged only when the operand's dynamic type is fixed by the library's own tables (an attribute value asserted under `case AttributeNameX` to attrTypes[X]); assertions on payloads, objects or parsed keys chosen by the server must be comma-ok; A2 every constant index into a response's batch items is dominated by a length check that implies it; A3 a response payload is returned as success only on the Err()==nil edge, and Err() is non-nil whenever the status is not Success with a message built from status, reason and message; A4 before items are returned as success each item's operation (when present) and its payload's operation are compared with the requested payload's operation.")
	r.Assume = append(r.Assume, "attribute values of standard attributes have exactly their registered Go type after decoding (C06.D3, C01.P4 Attribute decoder)")
	r.NotCov = append(r.NotCov, "enumeration of all response shapes against a scripted server")
	for _, s := range reg.Problems {
		r.Unk("C12.A1", "registry", token.NoPos, "%s", s)
	}
	c12A1(r, reg)
	// premise of the table-based discharges of A1: a decoded standard attribute always carries its typed value
	attrDecoderSetsValue(r, "C12.A1")
	c12A2(r)
	c12A2Cross(r)
	c12A3(r)
	c12A3Negotiate(r)
	c12A4(r)
	c12A5(r)
	freshResponseMessage(r, "C12.A6")
	c12A7(r)
}

func c12A1(r *Run, reg *Registry) {
	p := r.P
	r.Rule("C12.A1", "no panicking type assertion on a value whose dynamic type the server chooses", 4)
	attrType := map[string]types.Type{}
	for _, e := range reg.Attrs {
		attrType[constant.StringVal(e.Key)] = e.Type
	}
	seen := map[string]bool{}
	for _, fn := range pkgFuncs(p, "kmipclient") {
		if fn.TypeParams().Len() > 0 && len(fn.TypeArgs()) == 0 {
			continue
		}
		ord := 0
		allInstrs(fn, func(in ssa.Instruction) {
			ta, ok := in.(*ssa.TypeAssert)
			if !ok || ta.CommaOk {
				return
			}
			ord++
			base := fnKey(fn)
			if o := fn.Origin(); o != nil {
				base = fnKey(o)
			}
			key := fmt.Sprintf("%s/assert#%d", base, ord)
			if seen[key] {
				return
			}
			seen[key] = true
			// attribute value under a switch on the attribute name
			if u, ok := ta.X.(*ssa.UnOp); ok {
				if _, fld, ok := fieldAddrOf(u.X); ok && fname(fld) == "AttributeValue" {
					// the dominating case: AttributeName == const
					for _, dc := range dominatingConds(ta.Block()) {
						bo, ok := dc.cond.(*ssa.BinOp)
						if !ok || bo.Op != token.EQL || !dc.outcome {
							continue
						}
						k, ok := bo.Y.(*ssa.Const)
						if !ok || k.Value == nil || k.Value.Kind() != constant.String {
							continue
						}
						name := constant.StringVal(k.Value)
						if want, ok := attrType[name]; ok {
							if types.Identical(want, ta.AssertedType) {
								r.OK("C12.A1", key, ta.Pos(), "attribute %q always decodes to %s (attrTypes)", name, qualName(want))
							} else {
								r.Bad("C12.A1", key, ta.Pos(), "attribute %q decodes to %s but is asserted to %s: the call panics on every server answer", name, qualName(want), qualName(ta.AssertedType))
							}
							return
						}
					}
				}
			}
			// atomic.Value that only ever holds one concrete type
			if lc, ok := ta.X.(*ssa.Call); ok && callID(&lc.Call).is("sync/atomic", "Value", "Load") {
				if _, fld, ok := fieldAddrOf(lc.Call.Args[0]); ok {
					okAll, n := true, 0
					for _, f2 := range pkgFuncs(p, "kmipclient") {
						allInstrs(f2, func(in2 ssa.Instruction) {
							c2, ok := in2.(*ssa.Call)
							if !ok {
								return
							}
							id2 := callID(&c2.Call)
							if id2.pkg != "sync/atomic" || id2.recv != "Value" || (id2.name != "Store" && id2.name != "Swap" && id2.name != "CompareAndSwap") {
								return
							}
							if _, f3, ok := fieldAddrOf(c2.Call.Args[0]); !ok || f3 != fld {
								return
							}
							n++
							for _, a := range c2.Call.Args[1:] {
								if mi, ok := a.(*ssa.MakeInterface); !ok || !types.Identical(mi.X.Type(), ta.AssertedType) {
									okAll = false
								}
							}
						})
					}
					if okAll && n > 0 {
						r.OK("C12.A1", key, ta.Pos(), "atomic.Value field %s only ever stores a %s (%d store site(s))", fname(fld), qualName(ta.AssertedType), n)
						return
					}
				}
			}
			if !c12ServerControlled(p, ta.X) {
				r.Trivial("C12.A1", key, ta.Pos(), "operand does not originate from a server response (locally parsed or constructed value)")
				return
			}
			r.Bad("C12.A1", key, ta.Pos(), "unchecked type assertion to %s in %s on a value whose dynamic type is determined by the server's response (payload chosen by the response's operation, missing payload = nil, key parsed from returned material): a misbehaving server makes the client panic instead of getting an error", qualName(ta.AssertedType), base)
		})
	}
}

func c12A2(r *Run) {
	p := r.P
	r.Rule("C12.A2", "constant indexes into a response's batch items are implied by a length check", 2)
	for _, fn := range pkgFuncs(p, "kmipclient") {
		if fn.TypeParams().Len() > 0 && len(fn.TypeArgs()) == 0 || fn.Origin() != nil {
			continue
		}
		ord := 0
		allInstrs(fn, func(in ssa.Instruction) {
			ia, ok := in.(*ssa.IndexAddr)
			if !ok {
				return
			}
			sl, ok := ia.X.Type().Underlying().(*types.Slice)
			if !ok || typeName(sl.Elem()) != "ResponseBatchItem" {
				return
			}
			k, ok := constIntVal(ia.Index)
			if !ok {
				return
			}
			ord++
			key := fmt.Sprintf("%s/batchitem[%d]#%d", fnKey(fn), k, ord)
			if lb := lenLowerBound(ia.X, ia); lb > k {
				r.OK("C12.A2", key, ia.Pos(), "index %d dominated by a length check (len >= %d)", k, lb)
				return
			}
			// items returned by Batch/BatchOpt called with n payloads: BatchOpt guarantees len(items) == n
			src := ia.X
			if ex, ok := src.(*ssa.Extract); ok {
				if call, ok := ex.Tuple.(*ssa.Call); ok {
					id := callID(&call.Call)
					if id.is(cliPath, "Client", "Batch") || id.is(cliPath, "Client", "BatchOpt") {
						n := int64(-1)
						arg := call.Call.Args[2]
						if s2, ok := arg.(*ssa.Slice); ok {
							if pa, ok := s2.X.Type().Underlying().(*types.Pointer); ok {
								if arr, ok := pa.Elem().Underlying().(*types.Array); ok {
									n = arr.Len()
								}
							}
						}
						// the error of the call is checked before the index
						errChecked := false
						for _, dc := range dominatingConds(ia.Block()) {
							if bo, ok := dc.cond.(*ssa.BinOp); ok && isNilConst(bo.Y) && (bo.Op == token.NEQ) != dc.outcome {
								if e2, ok := bo.X.(*ssa.Extract); ok && e2.Tuple == ssa.Value(call) {
									errChecked = true
								}
							}
						}
						if n > k && errChecked && c12BatchOptCountCheck(p) {
							r.OK("C12.A2", key, ia.Pos(), "items come from %s called with %d payload(s), which returns them only when len(items) == len(payloads)", id.name, n)
							return
						}
					}
				}
			}
			r.Bad("C12.A2", key, ia.Pos(), "batch item %d of a server response is used without a check that the response has that many items: an empty or short response panics (index out of range)", k)
		})
	}
}

// c12BatchOptCountCheck: BatchOpt returns the items only past `len(resp.BatchItem) != len(payloads)` -> error.
func c12BatchOptCountCheck(p *Program) bool {
	fn := p.Func("kmipclient", "Client", "BatchOpt")
	if fn == nil {
		return false
	}
	ok := false
	allInstrs(fn, func(in ssa.Instruction) {
		bo, isB := in.(*ssa.BinOp)
		if !isB || bo.Op != token.NEQ {
			return
		}
		x, ok1 := lenOperand(bo.X)
		y, ok2 := lenOperand(bo.Y)
		if !ok1 || !ok2 {
			return
		}
		_, isParam := y.(*ssa.Parameter)
		if u, isU := x.(*ssa.UnOp); isU && isParam {
			if _, fld, isF := fieldAddrOf(u.X); isF && fname(fld) == "BatchItem" {
				ok = true
			}
		}
	})
	return ok
}

func c12A3(r *Run) {
	p := r.P
	r.Rule("C12.A3", "a response payload is a success value only on the Err()==nil edge; Err() reports status, reason and message", 3)
	// Err()
	ef := p.Func("", "ResponseBatchItem", "Err")
	if ef == nil {
		r.Unk("C12.A3", "kmip.ResponseBatchItem.Err", token.NoPos, "anchor missing")
	} else {
		fields := map[string]bool{}
		allInstrs(ef, func(in ssa.Instruction) {
			if x, ok := in.(*ssa.FieldAddr); ok {
				if st := derefStruct(x.X.Type()); st != nil {
					fields[fname(st.Field(x.Field))] = true
				}
			}
		})
		// path-wise: nil is returned exactly on the paths that took the `ResultStatus == Success` edge
		isStatus := func(v ssa.Value) bool {
			u, ok := unspill(v).(*ssa.UnOp)
			if !ok {
				return false
			}
			_, fld, ok := fieldAddrOf(u.X)
			return ok && fname(fld) == "ResultStatus"
		}
		okGuard := true
		paths, okP := enumeratePaths(ef, 256)
		if !okP || len(paths) == 0 {
			okGuard = false
		}
		for _, path := range paths {
			success, inf := false, false
			for i := range path {
				cond, isTrue, ok, infeasible := edgeOnPath(path, i)
				if infeasible {
					inf = true
				}
				if !ok {
					continue
				}
				bo, isB := cond.(*ssa.BinOp)
				if !isB {
					continue
				}
				x, y := bo.X, bo.Y
				if _, isK := constIntVal(x); isK {
					x, y = y, x
				}
				if k, isK := constIntVal(y); isK && k == 0 && isStatus(x) && ((bo.Op == token.EQL) == isTrue) && (bo.Op == token.EQL || bo.Op == token.NEQ) {
					success = true
				}
			}
			if inf {
				continue
			}
			last := path[len(path)-1]
			ret := last.Instrs[len(last.Instrs)-1].(*ssa.Return)
			v := ret.Results[0]
			if ph, ok := v.(*ssa.Phi); ok && ph.Block() == last && len(path) > 1 {
				if pi := predIndex(last, path[len(path)-2]); pi >= 0 {
					v = ph.Edges[pi]
				}
			}
			retNil := isNilConst(v)
			nonNil := false
			switch x := v.(type) {
			case *ssa.Call:
				id := callID(&x.Call)
				nonNil = id.is("fmt", "", "Errorf") || id.is("errors", "", "New")
			case *ssa.MakeInterface:
				nonNil = true
			}
			if success != retNil || (!success && !nonNil) {
				okGuard = false
			}
		}
		if okGuard && fields["ResultStatus"] && fields["ResultReason"] && fields["ResultMessage"] {
			r.OK("C12.A3", "kmip.ResponseBatchItem.Err", ef.Pos(), "non-nil exactly when ResultStatus != Success; the error text is built from status, reason and message")
		} else {
			r.Bad("C12.A3", "kmip.ResponseBatchItem.Err", ef.Pos(), "Err() does not return an error carrying status, reason and message whenever ResultStatus != Success (guard=%v fields=%v)", okGuard, fields)
		}
	}
	// Request: payload returned under Err()==nil
	rf := p.Func("kmipclient", "Client", "Request")
	if rf == nil {
		r.Unk("C12.A3", "kmipclient.Client.Request", token.NoPos, "anchor missing")
	} else {
		bad := false
		n := 0
		allInstrs(rf, func(in ssa.Instruction) {
			ret, ok := in.(*ssa.Return)
			if !ok || !isNilConst(ret.Results[1]) || isNilConst(ret.Results[0]) {
				return
			}
			n++
			okErr := false
			for _, dc := range dominatingConds(ret.Block()) {
				if bo, ok := dc.cond.(*ssa.BinOp); ok && isNilConst(bo.Y) && (bo.Op == token.NEQ) != dc.outcome {
					if c, ok := bo.X.(*ssa.Call); ok && callID(&c.Call).is(modPath, "ResponseBatchItem", "Err") {
						okErr = true
					}
				}
			}
			if !okErr {
				bad = true
			}
		})
		if n > 0 && !bad {
			r.OK("C12.A3", "kmipclient.Client.Request", rf.Pos(), "the payload is returned only when the item's Err() is nil")
		} else {
			r.Bad("C12.A3", "kmipclient.Client.Request", rf.Pos(), "Request can return a response payload as success without having checked the item's status")
		}
	}
	// Unwrap collects Err() of every item
	uf := p.Func("kmipclient", "BatchResult", "Unwrap")
	if uf == nil {
		r.Unk("C12.A3", "kmipclient.BatchResult.Unwrap", token.NoPos, "anchor missing")
	} else {
		inLoop, joined := false, false
		allInstrs(uf, func(in ssa.Instruction) {
			if c, ok := in.(*ssa.Call); ok {
				if callID(&c.Call).is(modPath, "ResponseBatchItem", "Err") {
					for _, s := range c.Block().Succs {
						if reachableFrom(s)[c.Block()] {
							inLoop = true
						}
					}
				}
				if callID(&c.Call).is("errors", "", "Join") {
					joined = true
				}
			}
		})
		if inLoop && joined {
			r.OK("C12.A3", "kmipclient.BatchResult.Unwrap", uf.Pos(), "every item's Err() is collected and joined")
		} else {
			r.Bad("C12.A3", "kmipclient.BatchResult.Unwrap", uf.Pos(), "Unwrap does not surface the error of every failed item")
		}
	}
}

func c12A4(r *Run) {
	p := r.P
	r.Rule("C12.A4", "response items are matched against the requested operation before being returned as success", 1)
	fn := p.Func("kmipclient", "Client", "BatchOpt")
	if fn == nil {
		r.Unk("C12.A4", "kmipclient.Client.BatchOpt", token.NoPos, "anchor missing")
		return
	}
	// want := payloads[i].Operation(); compared with item.Operation and item.ResponsePayload.Operation()
	var wants []*ssa.Call
	allInstrs(fn, func(in ssa.Instruction) {
		c, ok := in.(*ssa.Call)
		if !ok || !c.Call.IsInvoke() || c.Call.Method.Name() != "Operation" {
			return
		}
		// receiver loaded from the payloads parameter
		if u, ok := c.Call.Value.(*ssa.UnOp); ok {
			if ia, ok := u.X.(*ssa.IndexAddr); ok {
				if _, isParam := ia.X.(*ssa.Parameter); isParam {
					wants = append(wants, c)
				}
			}
		}
	})
	itemOp, payloadOp := false, false
	allInstrs(fn, func(in ssa.Instruction) {
		bo, ok := in.(*ssa.BinOp)
		if !ok || bo.Op != token.NEQ {
			return
		}
		isWant := func(v ssa.Value) bool {
			for _, w := range wants {
				if v == ssa.Value(w) {
					return true
				}
			}
			return false
		}
		var other ssa.Value
		switch {
		case isWant(bo.X):
			other = bo.Y
		case isWant(bo.Y):
			other = bo.X
		default:
			return
		}
		// the mismatch edge returns an error
		errRet := false
		for _, ref := range *bo.Referrers() {
			if iff, ok := ref.(*ssa.If); ok {
				for _, in2 := range iff.Block().Succs[0].Instrs {
					if ret, ok := in2.(*ssa.Return); ok && !isNilConst(ret.Results[1]) {
						errRet = true
					}
				}
			}
		}
		if !errRet {
			return
		}
		if u, ok := other.(*ssa.UnOp); ok {
			if _, fld, ok := fieldAddrOf(u.X); ok && fname(fld) == "Operation" {
				itemOp = true
			}
		}
		if c, ok := other.(*ssa.Call); ok && c.Call.IsInvoke() && c.Call.Method.Name() == "Operation" {
			payloadOp = true
		}
	})
	switch {
	case len(wants) == 0 || (!itemOp && !payloadOp):
		r.Bad("C12.A4", "kmipclient.Client.BatchOpt", fn.Pos(), "BatchOpt only checks counts: an item (or payload) of another operation is returned as the successful result of the call")
	case !itemOp:
		r.Bad("C12.A4", "kmipclient.Client.BatchOpt", fn.Pos(), "the item's Operation field is not compared with the requested operation")
	case !payloadOp:
		r.Bad("C12.A4", "kmipclient.Client.BatchOpt", fn.Pos(), "the payload's Operation() is not compared with the requested operation: a payload of another operation is returned as success")
	default:
		r.OK("C12.A4", "kmipclient.Client.BatchOpt", fn.Pos(), "item.Operation and item.ResponsePayload.Operation() are both compared with payloads[i].Operation(); a mismatch is an error")
	}
}

// ================================================================ C13

func runC13(r *Run, verifDir string) {
	p := r.P
	r.Explain = append(r.Explain,
		"C13 is decided structurally on negotiateVersion and the request constructors of package kmipclient: N1 every value stored into Client.version on the discovery path is a member of the client's configured set (an element of the server's list taken under slices.Contains(c.supportedVersions, v), or 1.0 under Contains(.., V1_0) on the discovery-unsupported branch); N2 the adopted value is not picked from the server's list by position: candidates are kept only when CompareVersions(candidate, best) > 0; N4 discovery runs only when no version is enforced and constructors copy the enforced version; N5 every request message is built with the client's adopted version except the discovery request itself, and a clone copies it; N6 the store is dominated by the `a common version exists` edge, the other edge returns an error.")
	r.NotCov = append(r.NotCov, "the 31x32 exhaustive table of version sets (runtime)", "server-side ordering of the discovery response")
	nv := p.Func("kmipclient", "Client", "negotiateVersion")
	r.Rule("C13.N1", "every version adopted by discovery is a member of the client's configured set", 2)
	r.Rule("C13.N2", "the adopted version is the maximum of the common versions, not a positional pick from the server's list", 1)
	r.Rule("C13.N4", "discovery is skipped when a version is enforced; constructors copy the enforced version", 2)
	r.Rule("C13.N5", "every request is stamped with the adopted version; clones copy it", 2)
	r.Rule("C13.N6", "no common version -> error, before any store", 1)
	c13N7(r)
	c13N8(r)
	c13N9(r)
	c13N10(r)
	if nv == nil {
		r.Unk("C13.N1", "kmipclient.Client.negotiateVersion", token.NoPos, "anchor missing")
		return
	}
	isSupportedVersions := func(v ssa.Value) bool {
		u, ok := v.(*ssa.UnOp)
		if !ok {
			return false
		}
		_, fld, ok := fieldAddrOf(u.X)
		return ok && fname(fld) == "supportedVersions"
	}
	containsGuard := func(at *ssa.BasicBlock, elem func(ssa.Value) bool) bool {
		for _, dc := range dominatingConds(at) {
			c, ok := dc.cond.(*ssa.Call)
			if !ok || !dc.outcome {
				continue
			}
			id := callID(&c.Call)
			if id.pkg == "slices" && id.name == "Contains" && isSupportedVersions(c.Call.Args[0]) && elem(c.Call.Args[1]) {
				return true
			}
		}
		return false
	}
	ord := 0
	var stores []*ssa.Store
	allInstrs(nv, func(in ssa.Instruction) {
		st, ok := in.(*ssa.Store)
		if !ok {
			return
		}
		if _, fld, ok := fieldAddrOf(st.Addr); ok && fname(fld) == "version" && typeName(st.Addr.(*ssa.FieldAddr).X.Type()) == "Client" {
			stores = append(stores, st)
		}
	})
	if len(stores) == 0 {
		r.Unk("C13.N1", "kmipclient.Client.negotiateVersion/stores", nv.Pos(), "no store to Client.version found")
	}
	positional := false
	maxIdiom := false
	for _, st := range stores {
		ord++
		key := fmt.Sprintf("kmipclient.Client.negotiateVersion/store-version#%d", ord)
		// collect the non-nil origins of the stored pointer
		var origins []ssa.Value
		seen := map[ssa.Value]bool{}
		var walk func(v ssa.Value)
		walk = func(v ssa.Value) {
			if seen[v] || isNilConst(v) {
				return
			}
			seen[v] = true
			if ph, ok := v.(*ssa.Phi); ok {
				for _, e := range ph.Edges {
					walk(e)
				}
				return
			}
			origins = append(origins, v)
		}
		walk(st.Val)
		bad := ""
		for _, o := range origins {
			switch x := o.(type) {
			case *ssa.Global:
				// &kmip.V1_0 on the fallback branch
				name := x.Name()
				okG := containsGuard(st.Block(), func(v ssa.Value) bool {
					u, ok := v.(*ssa.UnOp)
					if !ok {
						return false
					}
					g, ok := u.X.(*ssa.Global)
					return ok && g == x
				})
				// ... and only where the server said it does not support discovery (Operation Failed / Operation Not
				// Supported): an answered discovery without a common version is a failure to connect, not a fallback
				unsupported := false
				for _, dc := range dominatingConds(st.Block()) {
					if bo, ok := dc.cond.(*ssa.BinOp); ok && bo.Op == token.EQL && dc.outcome && typeName(bo.X.Type()) == "ResultReason" {
						unsupported = true
					}
				}
				if okG && !unsupported {
					bad = fmt.Sprintf("the fallback version %s is adopted on a path where the server did not answer `operation not supported`: a server that answered discovery with no common version (e.g. an empty list) must make the connection fail, not settle on a version it never advertised", name)
				}
				if !okG {
					bad = fmt.Sprintf("the fallback version %s is adopted without checking that it is in the client's configured set", name)
				}
			case *ssa.IndexAddr:
				if k, isConst := constIntVal(x.Index); isConst {
					positional = true
					_ = k
				}
				// element of the server's list: must be under Contains(c.supportedVersions, *elem)
				okE := containsGuard(x.Block(), func(v ssa.Value) bool {
					u, ok := v.(*ssa.UnOp)
					return ok && u.X == ssa.Value(x)
				})
				// or an element of the client's own list
				if isSupportedVersions(x.X) {
					okE = true
				}
				// or the element at a remembered index: `best` is a phi of a negative sentinel and of loop indexes, each
				// remembered under the membership guard of the element at that index
				if !okE {
					var idxOK func(v ssa.Value, d int) bool
					idxOK = func(v ssa.Value, d int) bool {
						ph, ok := v.(*ssa.Phi)
						if !ok || d > 3 {
							return false
						}
						some := false
						for i, e := range ph.Edges {
							if k, isK := constIntVal(e); isK {
								if k >= 0 {
									return false
								}
								continue
							}
							if e == ssa.Value(ph) {
								continue
							}
							if e2, isPhi := e.(*ssa.Phi); isPhi && e2 != ph {
								// the loop-carried copy of the same variable
								if !idxOK(e2, d+1) {
									// it may be the loop header phi that merges the sentinel and this phi
									cyc := false
									for _, ee := range e2.Edges {
										if ee == ssa.Value(ph) {
											cyc = true
										}
									}
									if !cyc {
										return false
									}
								}
								continue
							}
							// a loop index remembered on this edge: the guard must hold in the predecessor block
							pred := ph.Block().Preds[i]
							if !containsGuard(pred, func(g ssa.Value) bool {
								u, ok := g.(*ssa.UnOp)
								if !ok {
									return false
								}
								ia2, ok := u.X.(*ssa.IndexAddr)
								return ok && sameSlice(ia2.X, x.X) && ia2.Index == e
							}) {
								return false
							}
							some = true
						}
						return some
					}
					if idxOK(x.Index, 0) {
						okE = true
					}
				}
				// the candidate may be used in a later block of the loop body: accept a guard dominating the phi edge
				if !okE {
					for _, ref := range *x.Referrers() {
						if ph, ok := ref.(*ssa.Phi); ok {
							for i, e := range ph.Edges {
								if e == ssa.Value(x) && containsGuard(ph.Block().Preds[i], func(v ssa.Value) bool {
									u, ok := v.(*ssa.UnOp)
									return ok && u.X == ssa.Value(x)
								}) {
									okE = true
								}
							}
						}
					}
				}
				if !okE {
					bad = "a version taken from the server's list is adopted without a membership test against the client's configured set: the client can end up speaking a version it was configured not to use"
				}
			case *ssa.Alloc:
				// a copy of a range element: its store must be under the membership guard
				okA := false
				for _, ref := range *x.Referrers() {
					if s2, ok := ref.(*ssa.Store); ok && s2.Addr == ssa.Value(x) {
						if containsGuard(s2.Block(), func(v ssa.Value) bool { return true }) {
							okA = true
						}
					}
				}
				if !okA {
					bad = "the adopted version is a copy made without a membership test against the client's configured set"
				}
			default:
				bad = fmt.Sprintf("origin of the adopted version not recognised (%T)", o)
			}
		}
		if bad != "" {
			r.Bad("C13.N1", key, st.Pos(), "%s", bad)
		} else {
			r.OK("C13.N1", key, st.Pos(), "stored version originates from %d candidate(s), each a member of c.supportedVersions", len(origins))
		}
	}
	// N2: max idiom — the comparison that lets a candidate replace the current best says "candidate is greater":
	// CompareVersions(candidate, best) > 0 (>= 0), or with the operands swapped CompareVersions(best, candidate) < 0 (<= 0);
	// the candidate is the element of the list being scanned, the best the loop-carried pointer
	minIdiom := false
	allInstrs(nv, func(in ssa.Instruction) {
		bo, ok := in.(*ssa.BinOp)
		if !ok {
			return
		}
		x, y, op := bo.X, bo.Y, bo.Op
		if _, isK := constIntVal(x); isK {
			x, y = y, x
			switch op {
			case token.LSS:
				op = token.GTR
			case token.LEQ:
				op = token.GEQ
			case token.GTR:
				op = token.LSS
			case token.GEQ:
				op = token.LEQ
			}
		}
		c, ok := x.(*ssa.Call)
		if !ok {
			return
		}
		f := c.Call.StaticCallee()
		if f == nil || f.Origin() == nil || f.Origin().Name() != "CompareVersions" || len(c.Call.Args) != 2 {
			return
		}
		if k, ok := constIntVal(y); !ok || k != 0 {
			return
		}
		role := func(v ssa.Value) string {
			if mi, ok := v.(*ssa.MakeInterface); ok {
				v = mi.X
			}
			ld, ok := v.(*ssa.UnOp)
			if !ok || ld.Op != token.MUL {
				return ""
			}
			switch x := ld.X.(type) {
			case *ssa.Phi:
				return "best"
			case *ssa.IndexAddr:
				// element at a remembered index (a phi with a negative sentinel edge, directly or through the loop header)
				var sentinel func(v ssa.Value, d int) bool
				sentinel = func(v ssa.Value, d int) bool {
					ph, ok := v.(*ssa.Phi)
					if !ok || d > 2 {
						return false
					}
					for _, e := range ph.Edges {
						if k, isK := constIntVal(e); isK && k < 0 {
							return true
						}
						if e != ssa.Value(ph) && sentinel(e, d+1) {
							return true
						}
					}
					return false
				}
				if sentinel(x.Index, 0) {
					return "best"
				}
				return "cand"
			case *ssa.Alloc:
				return "cand"
			}
			return ""
		}
		a, b := role(c.Call.Args[0]), role(c.Call.Args[1])
		// which outcome of the test lets the candidate replace the best: the edge on the way to the assignment of the
		// candidate (a `continue` guard replaces on its false edge)
		if repl, known := replacementOutcome(nv, bo); known && !repl {
			switch op {
			case token.LSS:
				op = token.GEQ
			case token.LEQ:
				op = token.GTR
			case token.GTR:
				op = token.LEQ
			case token.GEQ:
				op = token.LSS
			}
		}
		greater := op == token.GTR || op == token.GEQ
		smaller := op == token.LSS || op == token.LEQ
		switch {
		case a == "cand" && b == "best" && greater, a == "best" && b == "cand" && smaller:
			maxIdiom = true
		case a == "cand" && b == "best" && smaller, a == "best" && b == "cand" && greater:
			minIdiom = true
		case op == token.GTR && (a == "" || b == ""):
			maxIdiom = true // roles not recognised: the reference spelling
		}
	})
	if minIdiom {
		maxIdiom = false
		r.Bad("C13.N2", "kmipclient.Client.negotiateVersion/selection", nv.Pos(), "a candidate replaces the current best when it is SMALLER (the comparison of candidate and best has the wrong direction): the lowest common version is adopted instead of the highest")
		positional = false
	}
	// idiom B: scan the client's own list from index 0 and adopt the first entry the server lists
	scanOwn := false
	for _, st := range stores {
		if ia, ok := st.Val.(*ssa.IndexAddr); ok && isSupportedVersions(ia.X) {
			if _, isConst := ia.Index.(*ssa.Const); !isConst {
				scanOwn = true
			}
		}
	}
	switch {
	case minIdiom:
	case positional:
		r.Bad("C13.N2", "kmipclient.Client.negotiateVersion/selection", nv.Pos(), "the adopted version is picked from the server's list by a fixed position: for an unordered or foreign list no fixed position is the highest common version")
	case maxIdiom:
		r.OK("C13.N2", "kmipclient.Client.negotiateVersion/selection", nv.Pos(), "a candidate replaces the current best only when CompareVersions(candidate, best) > 0")
	case scanOwn && func() bool {
		// the candidate's presence in the server's list must be established by a linear search: the order of the
		// server's answer is not under the client's control, so a bisection (slices.BinarySearch*, sort.Search*) over
		// it misses entries of a list that is not sorted the way the comparator expects
		bis := token.NoPos
		allInstrs(nv, func(in ssa.Instruction) {
			c, ok := in.(*ssa.Call)
			if !ok {
				return
			}
			id := callID(&c.Call)
			if (id.pkg == "slices" && strings.HasPrefix(id.name, "BinarySearch")) || (id.pkg == "sort" && strings.HasPrefix(id.name, "Search")) {
				if len(c.Call.Args) > 0 && !isSupportedVersions(c.Call.Args[0]) {
					bis = c.Pos()
				}
			}
		})
		if bis.IsValid() {
			r.Bad("C13.N2", "kmipclient.Client.negotiateVersion/selection", bis, "the server's version list is searched by bisection: that finds an entry only in a list sorted exactly as the comparator expects, and the order of the server's answer is not under the client's control (the library's own server answers in ascending order after SetSupportedProtocolVersions): a common version is missed, negotiation fails or settles on a lower version")
			return true
		}
		return false
	}():
	case scanOwn:
		if why := c13ClientListDescending(p); why == "" {
			r.OK("C13.N2", "kmipclient.Client.negotiateVersion/selection", nv.Pos(), "the client's own list is scanned in order and is kept strictly descending (default literal and WithKmipVersions)")
		} else {
			r.Bad("C13.N2", "kmipclient.Client.negotiateVersion/selection", nv.Pos(), "the first common entry of the client's own list is adopted, which is the highest only if that list is strictly descending — but %s", why)
		}
	default:
		r.Unk("C13.N2", "kmipclient.Client.negotiateVersion/selection", nv.Pos(), "selection idiom not recognised (expected: keep the greater by ttlv.CompareVersions(..) > 0, or scan the client's own descending list)")
	}
	// N6: the discovery store is dominated by a non-nil test of the chosen candidate
	for i, st := range stores {
		if _, isG := st.Val.(*ssa.Global); isG {
			continue
		}
		if ia, isElem := st.Val.(*ssa.IndexAddr); isElem {
			k6 := fmt.Sprintf("kmipclient.Client.negotiateVersion/none-common#%d", i+1)
			if ph, isPhi := ia.Index.(*ssa.Phi); isPhi {
				// a remembered index with a negative "none found" sentinel: the store needs index >= 0
				if lo, _ := boundedBy(ph, st); lo != nil && *lo >= 0 {
					r.OK("C13.N6", k6, st.Pos(), "the remembered index is tested non-negative before the element is adopted; the other edge returns an error")
				} else {
					r.Bad("C13.N6", k6, st.Pos(), "the element at the remembered index is adopted without testing that a common version was found (index still at its negative sentinel): no common version makes the client index out of range instead of returning an error")
				}
				continue
			}
			r.OK("C13.N6", k6, st.Pos(), "the stored value is the address of a list element found in the loop: never nil; the loop falling through returns an error")
			continue
		}
		key := fmt.Sprintf("kmipclient.Client.negotiateVersion/none-common#%d", i+1)
		okNil := false
		for _, dc := range dominatingConds(st.Block()) {
			if bo, ok := dc.cond.(*ssa.BinOp); ok && isNilConst(bo.Y) && bo.X == st.Val && (bo.Op == token.EQL) != dc.outcome {
				okNil = true
			}
		}
		if okNil {
			r.OK("C13.N6", key, st.Pos(), "the store happens only when a common version was found; the other edge returns an error")
		} else {
			r.Bad("C13.N6", key, st.Pos(), "a version can be stored although no common version was found (nil)")
		}
	}
	// N4
	okSkip := false
	var rt *ssa.Call
	allInstrs(nv, func(in ssa.Instruction) {
		if c, ok := in.(*ssa.Call); ok && callID(&c.Call).is(cliPath, "Client", "Roundtrip") {
			rt = c
		}
	})
	if rt != nil {
		for _, dc := range dominatingConds(rt.Block()) {
			if bo, ok := dc.cond.(*ssa.BinOp); ok && isNilConst(bo.Y) {
				if u, ok := bo.X.(*ssa.UnOp); ok {
					if _, fld, ok := fieldAddrOf(u.X); ok && fname(fld) == "version" && (bo.Op == token.NEQ) != dc.outcome {
						okSkip = true
					}
				}
			}
		}
	}
	if okSkip {
		r.OK("C13.N4", "kmipclient.Client.negotiateVersion/enforced", nv.Pos(), "the discovery exchange is dominated by c.version == nil")
	} else {
		r.Bad("C13.N4", "kmipclient.Client.negotiateVersion/enforced", nv.Pos(), "discovery runs even when a version is enforced")
	}
	nCtor := 0
	for _, fn := range pkgFuncs(p, "kmipclient") {
		allInstrs(fn, func(in ssa.Instruction) {
			st, ok := in.(*ssa.Store)
			if !ok || fn == nv {
				return
			}
			if _, fld, ok := fieldAddrOf(st.Addr); ok && fname(fld) == "version" && typeName(st.Addr.(*ssa.FieldAddr).X.Type()) == "Client" {
				nCtor++
				key := fnKey(fn) + "/init-version"
				src := ""
				// through a constructor helper: what its callers pass for the version
				for _, val := range paramSources(p, st.Val, 0) {
					one := ""
					if u, ok := val.(*ssa.UnOp); ok {
						if _, f2, ok := fieldAddrOf(u.X); ok {
							one = f2.Name()
						}
					}
					if al, ok := val.(*ssa.Alloc); ok {
						one = "copy:" + al.Comment
					}
					if one != "enforceVersion" && !strings.HasPrefix(one, "copy:") {
						src = one
						break
					}
					src = one
				}
				if src == "enforceVersion" || strings.HasPrefix(src, "copy:") {
					r.OK("C13.N4", key, st.Pos(), "version initialised from %s", src)
				} else {
					r.Bad("C13.N4", key, st.Pos(), "%s sets Client.version from something else than the enforced version or a clone's copy (%q)", fnKey(fn), src)
				}
			}
		})
	}
	if nCtor < 2 {
		r.Unk("C13.N4", "kmipclient/constructors", token.NoPos, "%d constructor stores of Client.version found", nCtor)
	}
	// N5
	nReq := 0
	for _, fn := range pkgFuncs(p, "kmipclient") {
		ord := 0
		allInstrs(fn, func(in ssa.Instruction) {
			c, ok := in.(*ssa.Call)
			if !ok || !callID(&c.Call).is(modPath, "", "NewRequestMessage") {
				return
			}
			nReq++
			ord++
			key := fmt.Sprintf("%s/NewRequestMessage#%d", fnKey(fn), ord)
			arg := c.Call.Args[0]
			fromClient := false
			if u, ok := arg.(*ssa.UnOp); ok { // *c.version
				if u2, ok := u.X.(*ssa.UnOp); ok {
					if _, fld, ok := fieldAddrOf(u2.X); ok && fname(fld) == "version" {
						fromClient = true
					}
				}
			}
			switch {
			case fromClient:
				r.OK("C13.N5", key, c.Pos(), "request built with *c.version")
			case fn == nv:
				r.OK("C13.N5", key, c.Pos(), "the discovery request itself (sent before a version is adopted)")
			default:
				r.Bad("C13.N5", key, c.Pos(), "a request is built with a protocol version that is not the client's adopted version")
			}
		})
	}
	if nReq < 2 {
		r.Unk("C13.N5", "kmipclient/NewRequestMessage", token.NoPos, "%d call sites found, 2 expected", nReq)
	}
}

// c12ServerControlled: the asserted value's dynamic type can be chosen by the server: it is (or is loaded from) a
// KMIP message type (payload, object, attribute value), or a client-side field filled from a response payload.
func c12ServerControlled(p *Program, v ssa.Value) bool {
	isKmipIface := func(t types.Type) bool {
		if _, ok := t.Underlying().(*types.Interface); !ok {
			return false
		}
		n, ok := types.Unalias(t).(*types.Named)
		return ok && n.Obj().Pkg() != nil && n.Obj().Pkg().Path() == modPath && (n.Obj().Name() == "OperationPayload" || n.Obj().Name() == "Object")
	}
	if isKmipIface(v.Type()) {
		return true
	}
	if u, ok := v.(*ssa.UnOp); ok {
		if base, fld, ok := fieldAddrOf(u.X); ok {
			pk := typePkgPath(base.Type())
			if pk == modPath || pk == modPath+"/payloads" {
				return true // a field of a decoded message
			}
			if pk == cliPath {
				// a client-side field: server-controlled when some store into it derives from a payload method
				tainted := false
				for _, fn := range pkgFuncs(p, "kmipclient") {
					allInstrs(fn, func(in ssa.Instruction) {
						st, ok := in.(*ssa.Store)
						if !ok {
							return
						}
						if _, f2, ok := fieldAddrOf(st.Addr); !ok || f2 != fld {
							return
						}
						val := st.Val
						if ex, ok := val.(*ssa.Extract); ok {
							val = ex.Tuple
						}
						if c, ok := val.(*ssa.Call); ok {
							id := callID(&c.Call)
							if id.pkg == modPath+"/payloads" || id.pkg == modPath {
								tainted = true
							}
						}
					})
				}
				return tainted
			}
		}
	}
	if ex, ok := v.(*ssa.Extract); ok {
		if c, ok := ex.Tuple.(*ssa.Call); ok {
			id := callID(&c.Call)
			if id.pkg == cliPath && (id.name == "Request" || id.name == "Roundtrip" || id.name == "Batch" || id.name == "BatchOpt") {
				return true
			}
		}
	}
	return false
}

// c13ClientListDescending: "" when the client's configured list is strictly descending by construction.
func c13ClientListDescending(p *Program) string {
	pk := p.Pkg("kmipclient")
	// default literal
	if cl, _ := findPkgVarLit(pk, "supportedVersions"); cl != nil {
		prev := int64(1 << 40)
		root := p.Pkg("")
		for _, el := range cl.Elts {
			name := types.ExprString(el)
			name = strings.TrimPrefix(name, "kmip.")
			obj := root.Types.Scope().Lookup(name)
			if obj == nil || !strings.HasPrefix(name, "V") {
				return "the default version list is not a list of kmip.Vx_y values"
			}
			var maj, min int64
			fmt.Sscanf(name, "V%d_%d", &maj, &min)
			cur := maj*100 + min
			if cur >= prev {
				return "the default version list is not strictly descending"
			}
			prev = cur
		}
	} else {
		return "the default version list was not found"
	}
	// WithKmipVersions: sort the accumulated field with a swapped comparator, then compact it
	var cl *ssa.Function
	for _, fn := range pkgFuncs(p, "kmipclient") {
		if fnKey(fn) == "kmipclient.WithKmipVersions$1" {
			cl = fn
		}
	}
	if cl == nil {
		return "WithKmipVersions was not found"
	}
	isField := func(v ssa.Value) bool {
		u, ok := v.(*ssa.UnOp)
		if !ok {
			return false
		}
		_, fld, ok := fieldAddrOf(u.X)
		return ok && fname(fld) == "supportedVersions"
	}
	sortsField, swapped, compacts := false, false, false
	allInstrs(cl, func(in ssa.Instruction) {
		c, ok := in.(*ssa.Call)
		if !ok {
			return
		}
		id := callID(&c.Call)
		if id.pkg == "slices" && id.name == "SortFunc" {
			if isField(c.Call.Args[0]) {
				sortsField = true
			}
			var cmpFn *ssa.Function
			switch f := c.Call.Args[1].(type) {
			case *ssa.MakeClosure:
				cmpFn, _ = f.Fn.(*ssa.Function)
			case *ssa.Function:
				cmpFn = f
			}
			if cmpFn != nil && len(cmpFn.Params) == 2 {
				allInstrs(cmpFn, func(in2 ssa.Instruction) {
					if c2, ok := in2.(*ssa.Call); ok {
						if f := c2.Call.StaticCallee(); f != nil && f.Origin() != nil && f.Origin().Name() == "CompareVersions" {
							if c2.Call.Args[0] == ssa.Value(cmpFn.Params[1]) && c2.Call.Args[1] == ssa.Value(cmpFn.Params[0]) {
								swapped = true
							}
						}
					}
				})
			}
		}
		if id.pkg == "slices" && id.name == "Compact" && isField(c.Call.Args[0]) {
			compacts = true
		}
	})
	switch {
	case !sortsField:
		return "WithKmipVersions does not sort the whole accumulated list (only the new versions are sorted, so two options can leave it unordered)"
	case !swapped:
		return "WithKmipVersions does not sort in descending order"
	case !compacts:
		return "WithKmipVersions does not remove duplicates from the accumulated list"
	}
	return ""
}

// ---------------------------------------------------------------- C13.N7

// c13N7: the discovery exchange itself must not depend on a version both sides happen to share: the client frames
// the Discover Versions request with a fixed version, so the library's server must serve a discovery-only request
// whatever version its header announces. Decided on BatchExecutor.handleRequest: the false edge of the membership
// test of the header version leads to a discovery-only predicate whose true edge continues to the executor.
func c13N7(r *Run) {
	p := r.P
	r.Rule("C13.N7", "version discovery does not need a shared version: the server answers a discovery-only request whatever its header version", 1)
	key := "kmipserver.BatchExecutor.handleRequest/discovery-any-version"
	hr := p.Func("kmipserver", "BatchExecutor", "handleRequest")
	if hr == nil {
		r.Unk("C13.N7", key, token.NoPos, "anchor missing")
		return
	}
	reg := BuildRegistry(p)
	found, bypass := false, false
	allInstrs(hr, func(in ssa.Instruction) {
		c, ok := in.(*ssa.Call)
		if !ok {
			return
		}
		id := callID(&c.Call)
		if !(id.pkg == "slices" && id.name == "Contains" && len(c.Call.Args) == 2) {
			return
		}
		u, ok := c.Call.Args[0].(*ssa.UnOp)
		if !ok {
			return
		}
		if _, fld, ok := fieldAddrOf(u.X); !ok || fname(fld) != "supportedVersions" {
			return
		}
		found = true
		for _, ref := range *c.Referrers() {
			iff, ok := ref.(*ssa.If)
			if !ok {
				continue
			}
			fb := iff.Block().Succs[1]
			if len(fb.Instrs) == 0 {
				continue
			}
			if iff2, ok := fb.Instrs[len(fb.Instrs)-1].(*ssa.If); ok {
				if pc, ok := iff2.Cond.(*ssa.Call); ok && pc.Call.StaticCallee() != nil && discoveryOnlyPredicate(pc.Call.StaticCallee(), reg) {
					// the true edge must not be an error return
					tb := fb.Succs[0]
					isErr := false
					for _, in2 := range tb.Instrs {
						if ret, ok := in2.(*ssa.Return); ok && len(ret.Results) == 2 && !isNilConst(ret.Results[1]) {
							isErr = true
						}
					}
					if !isErr {
						bypass = true
					}
				}
			}
		}
	})
	// which version does the client frame the discovery with? a constant => the bypass is required
	switch {
	case !found:
		r.OK("C13.N7", key, hr.Pos(), "the server does not test the header version before dispatching: discovery is served for any version")
	case bypass:
		r.OK("C13.N7", key, hr.Pos(), "a request made of Discover Versions items only passes the header-version test whatever its version")
	default:
		r.Bad("C13.N7", key, hr.Pos(), "the server rejects a Discover Versions request whose header version is not in its supported set, while the client frames discovery with a fixed version: a client and a server that share versions but not that one (client {1.0} / server {1.0}, client {1.2..1.4} / server {1.2..1.4}) cannot negotiate")
	}
}

// ---------------------------------------------------------------- C13.N8

// c13N8: the configured set is the one the options built: the package's default version list flows into a
// configured set (opts.supportedVersions / Client.supportedVersions) only under `len(<that set>) == 0`, i.e. only
// when no version was configured. (WithKmipVersions appends: defaults seeded before the options would stay in the set.)
func c13N8(r *Run) {
	p := r.P
	r.Rule("C13.N8", "the default version list is used only when no version was configured (len(configured) == 0)", 1)
	defName := curVarName(cliPath, "supportedVersions")
	n := 0
	for _, fn := range pkgFuncs(p, "kmipclient") {
		ord := 0
		allInstrs(fn, func(in ssa.Instruction) {
			ld, ok := in.(*ssa.UnOp)
			if !ok || ld.Op != token.MUL {
				return
			}
			g, ok := ld.X.(*ssa.Global)
			if !ok || g.Name() != defName || g.Pkg == nil || g.Pkg.Pkg.Path() != cliPath {
				return
			}
			// does the loaded default list flow into a supportedVersions field?
			flows := false
			seen := map[ssa.Value]bool{}
			var walk func(v ssa.Value, d int)
			walk = func(v ssa.Value, d int) {
				if d > 6 || seen[v] {
					return
				}
				seen[v] = true
				for _, ref := range *v.Referrers() {
					switch x := ref.(type) {
					case *ssa.Store:
						if _, fld, ok := fieldAddrOf(x.Addr); ok && fname(fld) == "supportedVersions" && x.Val == v {
							flows = true
						}
					case *ssa.Call:
						walk(x, d+1)
					case *ssa.Slice:
						walk(x, d+1)
					case *ssa.Phi:
						walk(x, d+1)
					case *ssa.ChangeType:
						walk(x, d+1)
					}
				}
			}
			walk(ld, 0)
			if !flows {
				return
			}
			n++
			ord++
			key := fmt.Sprintf("%s/default-versions#%d", fnKey(fn), ord)
			guarded := false
			for _, dc := range dominatingConds(ld.Block()) {
				bo, ok := dc.cond.(*ssa.BinOp)
				if !ok {
					continue
				}
				y, isLen := lenOperand(bo.X)
				if !isLen {
					continue
				}
				if k, ok := constIntVal(bo.Y); !ok || k != 0 {
					continue
				}
				u, ok := y.(*ssa.UnOp)
				if !ok {
					continue
				}
				if _, fld, ok := fieldAddrOf(u.X); ok && fname(fld) == "supportedVersions" && (bo.Op == token.EQL) == dc.outcome {
					guarded = true
				}
			}
			if guarded {
				r.OK("C13.N8", key, ld.Pos(), "defaults applied under len(configured set) == 0")
			} else {
				r.Bad("C13.N8", key, ld.Pos(), "%s puts the default version list into the configured set without testing that the set is empty: WithKmipVersions appends, so a client restricted to some versions still offers and adopts all default versions (a version outside its configured set, or 1.0 as fallback when 1.0 was not configured)", fnKey(fn))
			}
		})
	}
	if n == 0 {
		r.Unk("C13.N8", "kmipclient/default-versions", token.NoPos, "no use of the default version list found")
	}
}

// ---------------------------------------------------------------- A2 (cross-slice index), A3 (negotiation)

// c12A2Cross: an index that ranges over the response's items but is applied to another slice (the request payloads)
// needs the two lengths compared first: the server chooses how many items it returns.
func c12A2Cross(r *Run) {
	p := r.P
	n := 0
	for _, fn := range pkgFuncs(p, "kmipclient") {
		if fn.TypeParams().Len() > 0 && len(fn.TypeArgs()) == 0 || fn.Origin() != nil {
			continue
		}
		ord := 0
		allInstrs(fn, func(in ssa.Instruction) {
			ia, ok := in.(*ssa.IndexAddr)
			if !ok {
				return
			}
			if _, isSl := ia.X.Type().Underlying().(*types.Slice); !isSl {
				return
			}
			// the index: a range-style induction variable bounded by len(other) with other a []ResponseBatchItem
			var other ssa.Value
			idx := ia.Index
			if b, ok := idx.(*ssa.BinOp); ok && b.Op == token.ADD {
				idx = b.X
			}
			ph, ok := idx.(*ssa.Phi)
			if !ok {
				return
			}
			for _, ref := range *ph.Referrers() {
				chk := ref
				if b, ok := ref.(*ssa.BinOp); ok && b.Op == token.ADD {
					for _, r2 := range *b.Referrers() {
						if b2, ok := r2.(*ssa.BinOp); ok && b2.Op == token.LSS {
							chk = b2
						}
					}
				}
				if b, ok := chk.(*ssa.BinOp); ok && b.Op == token.LSS {
					if y, isLen := lenOperand(b.Y); isLen {
						if sl, ok := y.Type().Underlying().(*types.Slice); ok && typeName(sl.Elem()) == "ResponseBatchItem" {
							other = y
						}
					} else if c, ok := b.Y.(*ssa.Call); ok {
						_ = c
					}
				}
			}
			// go/ssa hoists len(x) of a range loop: the bound is a value computed before the loop
			if other == nil {
				for _, ref := range *ph.Referrers() {
					var cmp *ssa.BinOp
					if b, ok := ref.(*ssa.BinOp); ok && b.Op == token.ADD {
						for _, r2 := range *b.Referrers() {
							if b2, ok := r2.(*ssa.BinOp); ok && b2.Op == token.LSS {
								cmp = b2
							}
						}
					}
					if cmp == nil {
						continue
					}
					if c, ok := cmp.Y.(*ssa.Call); ok {
						if y, isLen := lenOperand(c); isLen {
							if sl, ok := y.Type().Underlying().(*types.Slice); ok && typeName(sl.Elem()) == "ResponseBatchItem" {
								other = y
							}
						}
					}
				}
			}
			if other == nil || sameSlice(other, ia.X) {
				return
			}
			if sl, ok := ia.X.Type().Underlying().(*types.Slice); ok && typeName(sl.Elem()) == "ResponseBatchItem" {
				return
			}
			// a slice made with exactly that length
			if mk, ok := ia.X.(*ssa.MakeSlice); ok {
				if y, isLen := lenOperand(mk.Len); isLen && sameSlice(y, other) {
					return
				}
			}
			n++
			ord++
			key := fmt.Sprintf("%s/cross-index#%d", fnKey(fn), ord)
			// a dominating comparison of the two lengths
			okLen := false
			for _, dc := range dominatingConds(ia.Block()) {
				bo, ok := dc.cond.(*ssa.BinOp)
				if !ok {
					continue
				}
				a, isA := lenOperand(bo.X)
				b, isB := lenOperand(bo.Y)
				if !isA || !isB {
					continue
				}
				pair := (sameSlice(a, other) && sameSlice(b, ia.X)) || (sameSlice(b, other) && sameSlice(a, ia.X))
				if !pair {
					continue
				}
				if (bo.Op == token.NEQ && !dc.outcome) || (bo.Op == token.EQL && dc.outcome) {
					okLen = true
				}
			}
			if okLen {
				r.OK("C12.A2", key, ia.Pos(), "an index running over the response's items is applied to another slice only after the two lengths were compared")
			} else {
				r.Bad("C12.A2", key, ia.Pos(), "%s indexes a slice of its own with a position that runs over the items of the server's response before the number of items was compared with the number of payloads: a response with more items than requested panics (index out of range)", fnKey(fn))
			}
		})
	}
	_ = n
}

// c12A3Negotiate: the version negotiation adopts a version only from a discovery item whose Err() is nil (or on the
// documented not-supported fallback): a failed discovery is surfaced with its status, reason and message.
func c12A3Negotiate(r *Run) {
	p := r.P
	nv := p.Func("kmipclient", "Client", "negotiateVersion")
	key := "kmipclient.Client.negotiateVersion/err-checked"
	if nv == nil {
		r.Unk("C12.A3", key, token.NoPos, "anchor missing")
		return
	}
	n, bad := 0, token.NoPos
	allInstrs(nv, func(in ssa.Instruction) {
		st, ok := in.(*ssa.Store)
		if !ok {
			return
		}
		if _, fld, ok := fieldAddrOf(st.Addr); !ok || fname(fld) != "version" || typeName(st.Addr.(*ssa.FieldAddr).X.Type()) != "Client" {
			return
		}
		n++
		okErr, fallback := false, false
		for _, dc := range dominatingConds(st.Block()) {
			switch c := dc.cond.(type) {
			case *ssa.BinOp:
				if call, ok := c.X.(*ssa.Call); ok && isNilConst(c.Y) && callID(&call.Call).name == "Err" && typeName(call.Call.Args[0].Type()) == "ResponseBatchItem" {
					if (c.Op == token.NEQ) != dc.outcome {
						okErr = true
					}
				}
				if typeName(c.X.Type()) == "ResultReason" && c.Op == token.EQL && dc.outcome {
					fallback = true
				}
			}
		}
		if !okErr && !fallback {
			bad = st.Pos()
		}
	})
	switch {
	case bad.IsValid():
		r.Bad("C12.A3", key, bad, "negotiateVersion adopts a version from the discovery item without having found its Err() nil: a server that fails discovery with any status other than the not-supported fallback is treated as having answered (its status, reason and message are lost, or Dial succeeds on a refused exchange)")
	case n == 0:
		r.Unk("C12.A3", key, nv.Pos(), "no assignment of Client.version found")
	default:
		r.OK("C12.A3", key, nv.Pos(), "%d assignment(s) of the adopted version, each under Err() == nil or on the not-supported fallback", n)
	}
}

// c12A5: standard-library helpers that panic on an empty slice (slices.Max/Min/MaxFunc/MinFunc) are applied, in
// the client, only to slices proven non-empty where they are called: what remains of a server's list after
// filtering can be empty whatever the list was.
func c12A5(r *Run) {
	p := r.P
	r.Rule("C12.A5", "no library call that panics on an empty slice is made on data derived from a response without a dominating non-empty test", 1)
	n := 0
	for _, fn := range pkgFuncs(p, "kmipclient") {
		allInstrs(fn, func(in ssa.Instruction) {
			call, ok := in.(*ssa.Call)
			if !ok {
				return
			}
			id := callID(&call.Call)
			if id.pkg != "slices" || (id.name != "Max" && id.name != "Min" && id.name != "MaxFunc" && id.name != "MinFunc") || len(call.Call.Args) == 0 {
				return
			}
			n++
			key := fmt.Sprintf("%s/%s#%d", fnKey(fn), id.name, n)
			if lenLowerBound(call.Call.Args[0], call) >= 1 {
				r.OK("C12.A5", key, call.Pos(), "slices.%s on a slice proven non-empty by a dominating length test", id.name)
			} else {
				r.Bad("C12.A5", key, call.Pos(), "%s calls slices.%s, which panics on an empty slice, without a dominating test that the slice is non-empty: a server answer that leaves nothing after filtering (e.g. a version list with no common entry) makes the client panic instead of returning an error", fnKey(fn), id.name)
			}
		})
	}
	if n == 0 {
		r.OK("C12.A5", "kmipclient/no-empty-panicking-call", token.NoPos, "no slices.Max/Min/MaxFunc/MinFunc call in the client")
	}
}

// freshResponseMessage: every response handed to a caller lives in memory of its own. The client's receive message
// (recvMsg.DecodeTTLV) decodes each message into a value it allocates for that message (`new(T)`), never into a field
// of the receive message itself or another object that outlives the iteration: otherwise every result a caller still
// holds (a BatchResult, a failed item not yet unwrapped) is overwritten by the next response on the connection.
func freshResponseMessage(r *Run, rule string) {
	p := r.P
	r.Rule(rule, "each decoded response is allocated for that message: results held by callers never alias the next response", 1)
	fn := p.Func("kmipclient", "recvMsg", "DecodeTTLV")
	key := "kmipclient.recvMsg.DecodeTTLV/fresh-message"
	if fn == nil || len(fn.Params) == 0 {
		r.Unk(rule, key, token.NoPos, "anchor missing")
		return
	}
	n, bad := 0, token.NoPos
	allInstrs(fn, func(in ssa.Instruction) {
		st, ok := in.(*ssa.Store)
		if !ok {
			return
		}
		fa, ok := st.Addr.(*ssa.FieldAddr)
		if !ok || fa.X != ssa.Value(fn.Params[0]) {
			return
		}
		mi, ok := st.Val.(*ssa.MakeInterface)
		if !ok {
			return
		}
		if _, isPtr := mi.X.Type().Underlying().(*types.Pointer); !isPtr {
			return
		}
		n++
		if al, isAlloc := mi.X.(*ssa.Alloc); !isAlloc || !al.Heap {
			bad = st.Pos()
		}
	})
	switch {
	case bad.IsValid():
		r.Bad(rule, key, bad, "the receive message decodes a response into storage that is not allocated for that message (a field of the receive message, a recycled value): everything a caller still holds from an earlier response on the connection — a failed batch item not yet unwrapped, a payload — is overwritten by the next response, so a failure can turn into the later success")
	case n == 0:
		r.Unk(rule, key, fn.Pos(), "no destination message assigned in DecodeTTLV")
	default:
		r.OK(rule, key, fn.Pos(), "%d destination(s), each a new(T) allocated in this call", n)
	}
}

// c13N9: an Option is a value a caller may keep and pass to several Dial calls, so applying it must not change it:
// the closure returned by a With* function of the client never writes one of its captured variables (building the
// merged version list in the captured parameter makes the option carry the whole set of the Dial it was last used
// in into the next one, which then offers versions outside its configured set).
func c13N9(r *Run) {
	p := r.P
	r.Rule("C13.N9", "client options are reusable values: an option closure never writes its captured variables", 3)
	n := 0
	for _, fn := range pkgFuncs(p, "kmipclient") {
		if fn.Parent() == nil || len(fn.FreeVars) == 0 {
			continue
		}
		par := fn.Parent()
		if par.Parent() != nil || !strings.HasPrefix(par.Name(), "With") && par.Name() != "EnforceVersion" {
			continue
		}
		// the closure is what the With* function returns (type Option)
		if res := par.Signature.Results(); res.Len() != 1 || typeName(res.At(0).Type()) != "Option" {
			continue
		}
		n++
		key := fnKey(fn) + "/pure"
		bad := token.NoPos
		name := ""
		allInstrs(fn, func(in ssa.Instruction) {
			if st, ok := in.(*ssa.Store); ok {
				if fv, ok := st.Addr.(*ssa.FreeVar); ok {
					bad, name = st.Pos(), fv.Name()
				}
			}
		})
		if bad.IsValid() {
			r.Bad("C13.N9", key, bad, "the option closure of %s assigns its captured variable %s: the Option value changes when it is applied, so reusing it for a second Dial (after it was combined with other options in the first) configures that client with state left over from the first — e.g. a version list containing versions the second client was not configured with", par.Name(), name)
		} else {
			r.OK("C13.N9", key, fn.Pos(), "no captured variable is written")
		}
	}
	if n == 0 {
		r.Unk("C13.N9", "kmipclient/options", token.NoPos, "no option closure found")
	}
}

// replacementOutcome: the outcome of the comparison cmp under which the loop-carried "best" is replaced by the
// candidate: the phi edge that carries a candidate (an element address or a copy) comes from a block dominated by one
// edge of cmp.
func replacementOutcome(fn *ssa.Function, cmp *ssa.BinOp) (bool, bool) {
	var res, known bool
	allInstrs(fn, func(in ssa.Instruction) {
		ph, ok := in.(*ssa.Phi)
		if !ok || known {
			return
		}
		// only the loop-carried "best": a pointer phi with a nil edge, or an index phi with a negative sentinel edge
		// (directly, or through the loop-header phi it feeds)
		isBest := false
		var hasSentinel func(p2 *ssa.Phi, d int) bool
		hasSentinel = func(p2 *ssa.Phi, d int) bool {
			for _, e := range p2.Edges {
				if isNilConst(e) {
					return true
				}
				if k, isK := constIntVal(e); isK && k < 0 {
					return true
				}
				if p3, isP := e.(*ssa.Phi); isP && p3 != p2 && d < 2 && hasSentinel(p3, d+1) {
					return true
				}
			}
			return false
		}
		isBest = hasSentinel(ph, 0)
		if !isBest {
			return
		}
		for i, e := range ph.Edges {
			switch e.(type) {
			case *ssa.IndexAddr, *ssa.Alloc:
			default:
				bin, isBin := e.(*ssa.BinOp)
				if !isBin || bin.X == ssa.Value(ph) {
					continue // not a candidate (the phi itself, or the loop counter's own increment)
				}
				// an index candidate (i) for the index form: phi of int
				if b, isBasic := ph.Type().Underlying().(*types.Basic); !isBasic || b.Info()&types.IsInteger == 0 {
					continue
				}
			}
			pred := ph.Block().Preds[i]
			conds := dominatingConds(pred)
			if c, isTrue, ok := edgeTaken(pred, ph.Block()); ok {
				conds = append(conds, domCond{c, isTrue, pred})
			}
			for _, dc := range conds {
				if dc.cond == ssa.Value(cmp) {
					res, known = dc.outcome, true
				}
			}
			if known {
				continue
			}
			// not dominated (the guard is one operand of a `a && b` / `a || b`): within one iteration — without going
			// through the loop header again — the assignment is reachable from only one edge of the comparison
			var ifBlk *ssa.BasicBlock
			for _, ref := range *cmp.Referrers() {
				if iff, ok := ref.(*ssa.If); ok {
					ifBlk = iff.Block()
				}
			}
			if ifBlk == nil || len(ifBlk.Succs) != 2 {
				continue
			}
			reach := func(from *ssa.BasicBlock) bool {
				seen := map[*ssa.BasicBlock]bool{}
				var walk func(b *ssa.BasicBlock) bool
				walk = func(b *ssa.BasicBlock) bool {
					if b == pred {
						return true
					}
					if b == ph.Block() || seen[b] {
						return false
					}
					seen[b] = true
					for _, sc := range b.Succs {
						if walk(sc) {
							return true
						}
					}
					return false
				}
				return walk(from)
			}
			t, f := reach(ifBlk.Succs[0]), reach(ifBlk.Succs[1])
			if t != f {
				res, known = t, true
			}
		}
	})
	return res, known
}

// c12A7: what the client validates and hands back is what it decoded. No code of the client stores into the item list
// of a response message, into one of its items, or into the fields of an item: a "realigned", filtered or patched list
// can hide a failed item (a slot left at its zero value reads as Success) or present an item the server never sent.
func c12A7(r *Run) {
	r.Rule("C12.A7", "the client never rewrites a decoded response: no store into ResponseMessage.BatchItem, into an element of it, or into a field of a ResponseBatchItem", 1)
	n := 0
	for _, fn := range pkgFuncs(r.P, "kmipclient") {
		ord := 0
		allInstrs(fn, func(in ssa.Instruction) {
			st, ok := in.(*ssa.Store)
			if !ok {
				return
			}
			what := ""
			switch a := st.Addr.(type) {
			case *ssa.FieldAddr:
				owner := typeName(derefType(a.X.Type()))
				f := fname(derefStruct(a.X.Type()).Field(a.Field))
				if owner == "ResponseMessage" && f == "BatchItem" {
					what = "replaces the item list of a response message"
				}
				if owner == "ResponseBatchItem" {
					// a literal being built in a local of this function is not a decoded item
					if al, isAlloc := a.X.(*ssa.Alloc); !isAlloc || al.Heap {
						what = "writes field " + f + " of a response item"
					}
				}
			case *ssa.IndexAddr:
				if sl, ok := a.X.Type().Underlying().(*types.Slice); ok && typeName(sl.Elem()) == "ResponseBatchItem" {
					if _, fresh := a.X.(*ssa.MakeSlice); !fresh {
						what = "overwrites an element of a response item list"
					}
				}
			}
			if what == "" {
				return
			}
			n++
			ord++
			r.Bad("C12.A7", fmt.Sprintf("%s/response-rewrite#%d", fnKey(fn), ord), st.Pos(), "%s %s: the items the per-item checks see and the caller receives are no longer the ones the server sent — a failed item can be dropped or replaced by a zero item, which reads as a successful one", fnKey(fn), what)
		})
	}
	if n == 0 {
		r.OK("C12.A7", "kmipclient/response-rewrite", token.NoPos, "no function of the client stores into a response message's items")
	}
}

// c13N10: the selection is total over the server's list. The loops of negotiateVersion only skip or remember versions;
// none of them can end the negotiation with an error: a version the client did not offer, a duplicate or an
// unordered list is no reason to fail when a common version exists.
func c13N10(r *Run) {
	r.Rule("C13.N10", "no loop of negotiateVersion returns an error: the server's list is scanned to its end whatever it contains", 1)
	fn := r.P.Func("kmipclient", "Client", "negotiateVersion")
	if fn == nil {
		r.Unk("C13.N10", "kmipclient.Client.negotiateVersion/loops", token.NoPos, "anchor missing")
		return
	}
	nLoops, bad := 0, token.NoPos
	fns := []*ssa.Function{fn}
	fns = append(fns, fn.AnonFuncs...)
	for _, f := range fns {
		for _, hdr := range f.Blocks {
			isHdr := false
			for _, pr := range hdr.Preds {
				if hdr.Dominates(pr) {
					isHdr = true
				}
			}
			if !isHdr {
				continue
			}
			nLoops++
			within := reachableFromWithin(hdr)
			for b := range within {
				for _, s := range b.Succs {
					if within[s] {
						continue
					}
					// an exit of the loop: follow it to a return without passing a merge with the normal exit
					for x := s; x != nil; {
						if ret, ok := x.Instrs[len(x.Instrs)-1].(*ssa.Return); ok {
							if n := len(ret.Results); n > 0 && !isNilConst(ret.Results[n-1]) && b != hdr {
								if _, isPhi := ret.Results[n-1].(*ssa.Phi); !isPhi {
									bad = ret.Pos()
								}
							}
							break
						}
						if len(x.Succs) != 1 || len(x.Succs[0].Preds) != 1 {
							break
						}
						x = x.Succs[0]
					}
				}
			}
		}
	}
	switch {
	case bad.IsValid():
		r.Bad("C13.N10", "kmipclient.Client.negotiateVersion/loops", bad, "a loop of negotiateVersion returns an error from its body: the negotiation fails on the content of the server's list (an unoffered, duplicated or misplaced version) although a common version may exist")
	case nLoops == 0:
		r.OK("C13.N10", "kmipclient.Client.negotiateVersion/loops", fn.Pos(), "no loop (selection through library calls)")
	default:
		r.OK("C13.N10", "kmipclient.Client.negotiateVersion/loops", fn.Pos(), "%d loop(s), none with an error exit from the body", nLoops)
	}
}
