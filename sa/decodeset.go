package main

// The decode-side function set D: everything in the repository that can run
// while untrusted bytes are being decoded.

import (
	"strings"

	"golang.org/x/tools/go/callgraph"
	"golang.org/x/tools/go/ssa"
)

func takesDecoder(fn *ssa.Function) bool {
	for _, prm := range fn.Params {
		if typeName(prm.Type()) == "Decoder" && typePkgPath(prm.Type()) == ttlvPath {
			return true
		}
	}
	return false
}

// decodeRoots lists the entry points of decoding.
func decodeRoots(p *Program) []*ssa.Function {
	var roots []*ssa.Function
	for _, fn := range p.OwnFuncs() {
		if fn.Synthetic != "" {
			continue
		}
		k := fnKey(fn)
		id := idOf(fn)
		switch {
		case id.pkg == ttlvPath && id.recv == "" && (strings.HasPrefix(id.name, "Unmarshal") || strings.HasPrefix(id.name, "New") && strings.HasSuffix(id.name, "Decoder") || id.name == "NewXMLFromDecoder"):
			roots = append(roots, fn)
		case id.pkg == ttlvPath && (id.recv == "Decoder" || id.recv == "ttlvReader" || id.recv == "xmlReader" || id.recv == "jsonReader") && fn.Parent() == nil:
			roots = append(roots, fn)
		case id.pkg == ttlvPath && id.recv == "Stream" && id.name == "Recv":
			roots = append(roots, fn)
		case id.pkg == ttlvPath && (id.name == "decodeFuncFor" || id.name == "decodeFunc" || id.name == "computeNeededBytes"):
			roots = append(roots, fn)
		case fn.Parent() == nil && fn.Signature.Recv() != nil && takesDecoder(fn):
			// hand-written decoders everywhere in the repo (TagDecodeTTLV, DecodeTTLV, decode)
			roots = append(roots, fn)
		case strings.HasPrefix(k, "ttlv.build") && strings.Contains(k, "Decode") && fn.Parent() != nil:
			roots = append(roots, fn)
		case (strings.HasPrefix(k, "ttlv.apply") && strings.Contains(k, "Decode") || strings.HasPrefix(k, "ttlv.buidStructDecodeFunc") || strings.HasPrefix(k, "ttlv.decodeFunc$")) && fn.Parent() != nil:
			roots = append(roots, fn)
		}
	}
	return roots
}

// repoReach computes the repository functions reachable from roots following
// call-graph edges whose callee is a repository function (VTA over CHA), plus
// the closures syntactically nested in reached functions.
func repoReach(p *Program, roots []*ssa.Function) map[*ssa.Function]bool {
	cg := p.CallGraph()
	own := map[*ssa.Function]bool{}
	for _, f := range p.OwnFuncs() {
		own[f] = true
	}
	seen := map[*ssa.Function]bool{}
	var work []*ssa.Function
	push := func(f *ssa.Function) {
		if f != nil && own[f] && !seen[f] {
			seen[f] = true
			work = append(work, f)
		}
	}
	for _, r := range roots {
		push(r)
	}
	for len(work) > 0 {
		f := work[len(work)-1]
		work = work[:len(work)-1]
		for _, a := range f.AnonFuncs {
			push(a)
		}
		if n := cg.Nodes[f]; n != nil {
			for _, e := range n.Out {
				push(e.Callee.Func)
			}
		}
	}
	return seen
}

var _ = callgraph.Edge{}
