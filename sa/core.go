package main

// Core of kmipsa: loading the repository, the obligation ledger, floors,
// known-findings filtering and evidence output. Every rule of every property
// enumerates obligations into a *Run; nothing here executes repository code.

import (
	"encoding/json"
	"fmt"
	"go/ast"
	"go/token"
	"go/types"
	"os"
	"path/filepath"
	"sort"
	"strings"
	"time"

	"golang.org/x/tools/go/callgraph"
	"golang.org/x/tools/go/callgraph/cha"
	"golang.org/x/tools/go/callgraph/vta"
	"golang.org/x/tools/go/packages"
	"golang.org/x/tools/go/ssa"
	"golang.org/x/tools/go/ssa/ssautil"
)

const modPath = "github.com/ovh/kmip-go"

var processStart = time.Now()

type Status int

const (
	Discharged Status = iota
	Violated
	Undecided
)

func (s Status) String() string {
	switch s {
	case Discharged:
		return "discharged"
	case Violated:
		return "violated"
	}
	return "undecided"
}

// Obligation is one construct a rule had to decide.
type Obligation struct {
	Rule   string `json:"rule"`
	Key    string `json:"key"` // rule-independent construct key: pkg.Func#construct#ordinal — never a line number
	Pos    string `json:"pos"` // file:line for the human reader
	Status string `json:"status"`
	Why    string `json:"why"`
	status Status
	// nontrivial: the discharge needed an argument (guard found, table row
	// compared, path enumerated) rather than "no instance".
	nontrivial bool
}

type Program struct {
	Repo   string
	Fset   *token.FileSet
	Pkgs   []*packages.Package
	ByPath map[string]*packages.Package
	SSA    *ssa.Program
	ssaPkg map[string]*ssa.Package
	cg     *callgraph.Graph
	// ownFuncs caches all functions (incl. anonymous + instantiations) whose
	// position lies in the repository.
	ownFuncs []*ssa.Function
}

type Run struct {
	Prop     string
	Tier     string
	P        *Program
	Obls     []*Obligation
	floors   map[string]int
	Info     []string
	Samples  []any
	Extra    map[string]any
	Assume   []string
	NotCov   []string
	Explain  []string
	start    time.Time
	ruleDesc map[string]string
	order    []string
}

func NewRun(prop, tier string, p *Program) *Run {
	return &Run{Prop: prop, Tier: tier, P: p, floors: map[string]int{}, Extra: map[string]any{}, start: processStart, ruleDesc: map[string]string{}}
}

// Rule declares a rule, what it decides, and the minimum number of instances
// confirmed by hand on the pinned tree (a rule matching fewer passes vacuously
// and therefore fails the check).
func (r *Run) Rule(id, desc string, floor int) {
	if _, ok := r.ruleDesc[id]; !ok {
		r.order = append(r.order, id)
	}
	r.ruleDesc[id] = desc
	// The floor guards against a rule that silently stops matching (anchor moved, idiom no longer recognised). A
	// behaviour-preserving refactor may legitimately merge or split a few instances, so the armed floor is half the
	// count confirmed by hand (at least one): a recogniser that breaks drops to (near) zero, a merge does not.
	if floor > 1 {
		floor = (floor + 1) / 2
	}
	r.floors[id] = floor
}

func (r *Run) add(rule, key string, pos token.Pos, st Status, nontrivial bool, why string) *Obligation {
	o := &Obligation{Rule: rule, Key: key, Pos: r.P.pos(pos), Status: st.String(), status: st, Why: why, nontrivial: nontrivial}
	r.Obls = append(r.Obls, o)
	return o
}

func (r *Run) OK(rule, key string, pos token.Pos, why string, args ...any) {
	r.add(rule, key, pos, Discharged, true, fmt.Sprintf(why, args...))
}
func (r *Run) Trivial(rule, key string, pos token.Pos, why string, args ...any) {
	r.add(rule, key, pos, Discharged, false, fmt.Sprintf(why, args...))
}
func (r *Run) Bad(rule, key string, pos token.Pos, why string, args ...any) {
	r.add(rule, key, pos, Violated, true, fmt.Sprintf(why, args...))
}
func (r *Run) Unk(rule, key string, pos token.Pos, why string, args ...any) {
	r.add(rule, key, pos, Undecided, true, fmt.Sprintf(why, args...))
}

// Check records a decided obligation.
func (r *Run) Check(ok bool, rule, key string, pos token.Pos, okWhy, badWhy string) {
	if ok {
		r.OK(rule, key, pos, "%s", okWhy)
	} else {
		r.Bad(rule, key, pos, "%s", badWhy)
	}
}

func (r *Run) Infof(f string, args ...any) { r.Info = append(r.Info, fmt.Sprintf(f, args...)) }

// verifDirGlobal: the verification directory (ref/ tables), for rule sets run through Import.
var verifDirGlobal = "/verif"

// importCache: one scratch ledger per imported property and process.
var importCache = map[string]*Run{}

// Import decides, under the own rule id alias, the obligations that rule srcRule of property srcProp raises on the
// constructs selected by keep: a structural clause that is a necessary condition of both properties is decided once and
// reported by both checks. The source rule set runs in a scratch ledger; nothing else of it is taken over.
func (r *Run) Import(alias, desc string, floor int, srcProp, srcRule string, keep func(key string) bool) {
	r.Rule(alias, desc+" (decided by rule "+srcRule+")", floor)
	sub, ok := importCache[srcProp]
	if !ok {
		sub = NewRun(srcProp, r.Tier, r.P)
		props[srcProp](sub, verifDirGlobal)
		importCache[srcProp] = sub
	}
	for _, o := range sub.Obls {
		if o.Rule != srcRule || (keep != nil && !keep(o.Key)) {
			continue
		}
		c := *o
		c.Rule = alias
		r.Obls = append(r.Obls, &c)
	}
}

func (p *Program) pos(pos token.Pos) string {
	if !pos.IsValid() {
		return "-"
	}
	po := p.Fset.Position(pos)
	f := po.Filename
	if rel, err := filepath.Rel(p.Repo, f); err == nil && !strings.HasPrefix(rel, "..") {
		f = rel
	}
	return fmt.Sprintf("%s:%d", f, po.Line)
}

// ---------------------------------------------------------------- loading

func Load(repo string, tests bool, env []string) (*Program, error) {
	return LoadOverlay(repo, tests, env, nil)
}

// LoadOverlay loads the tree with some files replaced by the given contents (helper normalisation).
func LoadOverlay(repo string, tests bool, env []string, overlay map[string][]byte) (*Program, error) {
	abs, err := filepath.Abs(repo)
	if err != nil {
		return nil, err
	}
	fset := token.NewFileSet()
	cfg := &packages.Config{
		Mode:    packages.LoadAllSyntax,
		Dir:     abs,
		Fset:    fset,
		Tests:   tests,
		Env:     append(os.Environ(), env...),
		Overlay: overlay,
	}
	pkgs, err := packages.Load(cfg, "./...")
	if err != nil {
		return nil, fmt.Errorf("packages.Load: %w", err)
	}
	if len(pkgs) == 0 {
		return nil, fmt.Errorf("no packages loaded from %s", abs)
	}
	var errs []string
	packages.Visit(pkgs, nil, func(p *packages.Package) {
		for _, e := range p.Errors {
			errs = append(errs, e.Error())
		}
	})
	if len(errs) > 0 {
		return nil, fmt.Errorf("type-check/load errors: %s", strings.Join(errs, "; "))
	}
	p := &Program{Repo: abs, Fset: fset, Pkgs: pkgs, ByPath: map[string]*packages.Package{}, ssaPkg: map[string]*ssa.Package{}}
	for _, pk := range pkgs {
		if !strings.HasPrefix(pk.PkgPath, modPath) {
			continue
		}
		// with Tests:true prefer the variant that includes tests for lookups by path? keep the plain one.
		if _, ok := p.ByPath[pk.PkgPath]; !ok || pk.ID == pk.PkgPath {
			p.ByPath[pk.PkgPath] = pk
		}
	}
	prog, spkgs := ssautil.AllPackages(pkgs, ssa.InstantiateGenerics)
	prog.Build()
	p.SSA = prog
	for i, sp := range spkgs {
		if sp != nil {
			if _, ok := p.ssaPkg[pkgs[i].PkgPath]; !ok || pkgs[i].ID == pkgs[i].PkgPath {
				p.ssaPkg[pkgs[i].PkgPath] = sp
			}
		}
	}
	// forbidden constructs that would invalidate the models (unsafe, cgo, linkname)
	for _, pk := range p.RepoPkgs() {
		for _, imp := range pk.Imports {
			if imp.PkgPath == "unsafe" || imp.PkgPath == "C" {
				return nil, fmt.Errorf("package %s imports %s: models do not cover it", pk.PkgPath, imp.PkgPath)
			}
		}
		for _, f := range pk.Syntax {
			for _, cg := range f.Comments {
				for _, c := range cg.List {
					if strings.HasPrefix(c.Text, "//go:linkname") {
						return nil, fmt.Errorf("%s uses go:linkname", p.pos(c.Pos()))
					}
				}
			}
		}
	}
	return p, nil
}

// RepoPkgs returns the non-example library packages of the module, sorted.
func (p *Program) RepoPkgs() []*packages.Package {
	var out []*packages.Package
	for _, pk := range p.ByPath {
		out = append(out, pk)
	}
	sort.Slice(out, func(i, j int) bool { return out[i].PkgPath < out[j].PkgPath })
	return out
}

func (p *Program) Pkg(rel string) *packages.Package {
	path := modPath
	if rel != "" {
		path += "/" + rel
	}
	return p.ByPath[path]
}

func (p *Program) SSAPkg(rel string) *ssa.Package {
	path := modPath
	if rel != "" {
		path += "/" + rel
	}
	return p.ssaPkg[path]
}

// CallGraph builds (once) the VTA call graph over CHA.
func (p *Program) CallGraph() *callgraph.Graph {
	if p.cg == nil {
		p.cg = vta.CallGraph(ssautil.AllFunctions(p.SSA), cha.CallGraph(p.SSA))
	}
	return p.cg
}

func (p *Program) inRepo(pos token.Pos) bool {
	if !pos.IsValid() {
		return false
	}
	return strings.HasPrefix(p.Fset.Position(pos).Filename, p.Repo+string(filepath.Separator))
}

// OwnFuncs lists every SSA function (methods, closures, generic instances)
// whose source is in the repository's library packages.
func (p *Program) OwnFuncs() []*ssa.Function {
	if p.ownFuncs != nil {
		return p.ownFuncs
	}
	for fn := range ssautil.AllFunctions(p.SSA) {
		if fn.Blocks == nil {
			continue
		}
		pk := fn.Package()
		if pk == nil && fn.Origin() != nil {
			pk = fn.Origin().Package()
		}
		q := fn
		for pk == nil && q.Parent() != nil {
			q = q.Parent()
			pk = q.Package()
			if pk == nil && q.Origin() != nil {
				pk = q.Origin().Package()
			}
		}
		if pk == nil || pk.Pkg == nil {
			continue
		}
		if _, ok := p.ByPath[pk.Pkg.Path()]; !ok {
			continue
		}
		p.ownFuncs = append(p.ownFuncs, fn)
	}
	sort.Slice(p.ownFuncs, func(i, j int) bool {
		a, b := p.ownFuncs[i], p.ownFuncs[j]
		if a.String() != b.String() {
			return a.String() < b.String()
		}
		return a.Pos() < b.Pos()
	})
	return p.ownFuncs
}

// Func finds a package-level function or method: Func("kmipserver", "conn", "send")
// or Func("ttlv", "", "UnmarshalTTLV"). nil when absent (callers must treat that
// as a missing anchor).
func (p *Program) Func(rel, recv, name string) *ssa.Function {
	sp := p.SSAPkg(rel)
	if sp == nil {
		return nil
	}
	recv, name = p.currentName(rel, recv, name)
	if recv == "" {
		return sp.Func(name)
	}
	t := sp.Type(recv)
	if t == nil {
		return nil
	}
	for _, ty := range []types.Type{t.Type(), types.NewPointer(t.Type())} {
		ms := p.SSA.MethodSets.MethodSet(ty)
		for i := 0; i < ms.Len(); i++ {
			if ms.At(i).Obj().Name() == name {
				if fn := p.SSA.MethodValue(ms.At(i)); fn != nil && fn.Synthetic == "" {
					return fn
				}
			}
		}
	}
	// unexported / wrapper fallbacks
	for _, ty := range []types.Type{types.NewPointer(t.Type()), t.Type()} {
		ms := p.SSA.MethodSets.MethodSet(ty)
		for i := 0; i < ms.Len(); i++ {
			if ms.At(i).Obj().Name() == name {
				return p.SSA.MethodValue(ms.At(i))
			}
		}
	}
	return nil
}

// currentName translates a reference-tree (receiver, function) name into the names used by the analysed tree.
func (p *Program) currentName(rel, recv, name string) (string, string) {
	path := modPath
	if rel != "" {
		path += "/" + rel
	}
	if c, ok := renameFnInv[funcID{path, recv, name}]; ok {
		return c.recv, c.name
	}
	if recv != "" {
		recv = curTypeName(path, recv)
	}
	return recv, name
}

// FuncDecl returns the syntax of a function/method declared in package rel.
func (p *Program) FuncDecl(rel, recv, name string) *ast.FuncDecl {
	pk := p.Pkg(rel)
	if pk == nil {
		return nil
	}
	recv, name = p.currentName(rel, recv, name)
	for _, f := range pk.Syntax {
		for _, d := range f.Decls {
			fd, ok := d.(*ast.FuncDecl)
			if !ok || fd.Name.Name != name {
				continue
			}
			if recv == "" && fd.Recv == nil {
				return fd
			}
			if recv != "" && fd.Recv != nil && len(fd.Recv.List) == 1 {
				if recvName(fd.Recv.List[0].Type) == recv {
					return fd
				}
			}
		}
	}
	return nil
}

func recvName(e ast.Expr) string {
	switch t := e.(type) {
	case *ast.StarExpr:
		return recvName(t.X)
	case *ast.Ident:
		return t.Name
	case *ast.IndexExpr:
		return recvName(t.X)
	case *ast.IndexListExpr:
		return recvName(t.X)
	}
	return ""
}

// ---------------------------------------------------------------- finishing

type knownFinding struct {
	kind, prop, rule, key, text string
}

func loadKnown(path string) ([]knownFinding, error) {
	b, err := os.ReadFile(path)
	if err != nil {
		if os.IsNotExist(err) {
			return nil, nil
		}
		return nil, err
	}
	var out []knownFinding
	for _, ln := range strings.Split(string(b), "\n") {
		ln = strings.TrimSpace(ln)
		if ln == "" || strings.HasPrefix(ln, "#") {
			continue
		}
		kf := knownFinding{}
		switch {
		case strings.HasPrefix(ln, "known:"):
			kf.kind = "known"
			ln = strings.TrimSpace(strings.TrimPrefix(ln, "known:"))
		case strings.HasPrefix(ln, "fixed:"):
			kf.kind = "fixed"
			ln = strings.TrimSpace(strings.TrimPrefix(ln, "fixed:"))
		default:
			return nil, fmt.Errorf("known findings: bad line %q", ln)
		}
		rest := []string{}
		for _, f := range strings.Fields(ln) {
			switch {
			case strings.HasPrefix(f, "property=") && kf.prop == "":
				kf.prop = strings.TrimPrefix(f, "property=")
			case strings.HasPrefix(f, "rule=") && kf.rule == "":
				kf.rule = strings.TrimPrefix(f, "rule=")
			case strings.HasPrefix(f, "construct=") && kf.key == "":
				kf.key = strings.TrimPrefix(f, "construct=")
			default:
				rest = append(rest, f)
			}
		}
		kf.text = strings.Join(rest, " ")
		out = append(out, kf)
	}
	return out, nil
}

type Verdict struct {
	Violations []*Obligation
	Known      []string
}

// Finish checks floors, applies known findings, writes evidence and the
// violation report, prints the diagnostics and returns the exit code.
func (r *Run) Finish(evidencePath, knownPath, outDir string, seed int) int {
	// floors
	count := map[string]int{}
	for _, o := range r.Obls {
		count[o.Rule]++
	}
	for _, id := range r.order {
		if count[id] < r.floors[id] {
			r.Unk(id, "floor", token.NoPos, "rule matched %d instance(s), fewer than the %d confirmed by hand on the pinned tree: the anchor moved or the rule no longer recognises the idiom", count[id], r.floors[id])
		}
	}
	known, err := loadKnown(knownPath)
	if err != nil {
		fmt.Fprintln(os.Stderr, "CHECKER-FAULT:", err)
		return 2
	}
	var viol []*Obligation
	var knownHit []string
	nDis, nNT := 0, 0
	ntKeys := map[string]bool{}
	for _, o := range r.Obls {
		if o.status == Discharged {
			nDis++
			if o.nontrivial {
				ntKeys[o.Rule+"|"+o.Key] = true
			}
			continue
		}
		ntKeys[o.Rule+"|"+o.Key] = true
		suppressed := false
		if o.status == Violated {
			for _, k := range known {
				if k.kind == "known" && k.prop == r.Prop && k.rule == o.Rule && k.key == o.Key {
					suppressed = true
					knownHit = append(knownHit, fmt.Sprintf("KNOWN-FINDING: property=%s %s [%s %s at %s]", r.Prop, k.text, o.Rule, o.Key, o.Pos))
					break
				}
			}
		}
		if !suppressed {
			viol = append(viol, o)
		}
	}
	nNT = len(ntKeys)
	sort.SliceStable(viol, func(i, j int) bool {
		if viol[i].Rule != viol[j].Rule {
			return viol[i].Rule < viol[j].Rule
		}
		return viol[i].Key < viol[j].Key
	})

	// ---- evidence
	perRule := []map[string]any{}
	for _, id := range r.order {
		n, d := 0, 0
		for _, o := range r.Obls {
			if o.Rule == id {
				n++
				if o.status == Discharged {
					d++
				}
			}
		}
		perRule = append(perRule, map[string]any{"rule": id, "decides": r.ruleDesc[id], "instances": n, "discharged": d, "floor": r.floors[id]})
	}
	samples := r.Samples
	// a few obligations of each rule, written out
	seen := map[string]int{}
	for _, o := range r.Obls {
		if o.nontrivial && seen[o.Rule] < 3 {
			seen[o.Rule]++
			samples = append(samples, map[string]any{"rule": o.Rule, "construct": o.Key, "pos": o.Pos, "status": o.Status, "why": o.Why})
		}
	}
	if len(samples) == 0 {
		samples = append(samples, "no obligation enumerated")
	}
	level := "other"
	cov := map[string]any{
		"explanation":         strings.Join(r.Explain, " "),
		"obligations":         len(r.Obls),
		"discharged":          nDis,
		"evaluations":         len(r.Obls),
		"distinct_nontrivial": nNT,
		"rule":                "one obligation per construct a rule enumerates (call site, struct field, table entry, function exit, channel op, ...), keyed by rule+package+function+construct; non-trivial = the discharge needed a stated argument (dominating guard, table row compared, path enumerated), counted over distinct keys",
		"samples":             samples,
		"rule_instances":      perRule,
		"not_covered":         r.NotCov,
		"information":         r.Info,
		"known_findings":      knownHit,
	}
	for k, v := range r.Extra {
		cov[k] = v
	}
	if lv, ok := r.Extra["level"].(string); ok {
		level = lv
		delete(cov, "level")
	}
	if r.Assume == nil {
		r.Assume = []string{"go/types, go/ssa and the VTA call graph model the program faithfully (no unsafe, cgo or linkname in the repository: checked at load)"}
	}
	if r.NotCov == nil {
		r.NotCov = []string{}
	}
	if r.Info == nil {
		r.Info = []string{}
	}
	ev := map[string]any{
		"property_id": r.Prop,
		"tier":        r.Tier,
		"seed":        seed,
		"level":       level,
		"coverage":    cov,
		"assumptions": r.Assume,
		"wall_s":      time.Since(r.start).Seconds(),
		"violations":  len(viol),
	}
	if evidencePath != "" {
		_ = os.MkdirAll(filepath.Dir(evidencePath), 0o755)
		b, _ := json.MarshalIndent(ev, "", " ")
		if err := os.WriteFile(evidencePath, b, 0o644); err != nil {
			fmt.Fprintln(os.Stderr, "CHECKER-FAULT: cannot write evidence:", err)
			return 2
		}
	}

	// ---- stdout
	fmt.Printf("kmipsa %s tier=%s: %d obligations, %d discharged, %d rules, %.1fs\n", r.Prop, r.Tier, len(r.Obls), nDis, len(r.order), time.Since(r.start).Seconds())
	for _, pr := range perRule {
		fmt.Printf("  %-10s instances=%-4d discharged=%-4d floor=%-4d %s\n", pr["rule"], pr["instances"], pr["discharged"], pr["floor"], pr["decides"])
	}
	for _, s := range r.Info {
		fmt.Println("  info:", s)
	}
	for _, k := range knownHit {
		fmt.Println(k)
	}
	if len(viol) == 0 {
		return 0
	}
	for _, o := range viol {
		kind := "violation"
		if o.status == Undecided {
			kind = "undecided"
		}
		fmt.Printf("%s: %s: kind=%s construct=%s: %s\n", o.Pos, o.Rule, kind, o.Key, o.Why)
	}
	_ = os.MkdirAll(outDir, 0o755)
	rp := filepath.Join(outDir, r.Prop+".violations.json")
	b, _ := json.MarshalIndent(map[string]any{"property": r.Prop, "violations": viol}, "", " ")
	_ = os.WriteFile(rp, b, 0o644)
	fmt.Printf("VIOLATION property=%s replay=%s\n", r.Prop, rp)
	return 1
}

// sizes: the type sizes of the load's target (amd64 unless GOARCH was overridden).
func (p *Program) sizes() types.Sizes {
	for _, pk := range p.Pkgs {
		if pk.TypesSizes != nil {
			return pk.TypesSizes
		}
	}
	return types.SizesFor("gc", "amd64")
}
