package main

// C04 — XML and JSON encodings are interchangeable with binary TTLV (lexical
// agreement of each writer with its reader), and
// C18 — re-encoding an accepted input reaches a fixed point (whatever a reader
// can return, every writer can take).

import (
	"fmt"
	"go/constant"
	"go/token"
	"go/types"
	"sort"
	"strings"

	"golang.org/x/tools/go/ssa"
)

// textSideFuncs: reader-side functions of the text formats (and the text unmarshalers built on them).
func textReaderFuncs(p *Program) []*ssa.Function {
	var out []*ssa.Function
	for _, fn := range p.OwnFuncs() {
		id := idOf(fn)
		k := fnKey(fn)
		switch {
		case id.pkg == ttlvPath && (id.recv == "xmlReader" || id.recv == "jsonReader"):
			out = append(out, fn)
		case id.pkg == ttlvPath && (id.name == "parseInt" || id.name == "parseUint"):
			out = append(out, fn)
		case strings.HasPrefix(k, "kmip.maskUnmarshalText") || strings.HasPrefix(k, "kmip.unmarshalText"):
			out = append(out, fn)
		}
	}
	// the token-processing helpers the readers hand their text to (registry lookups by name that also accept
	// numbers, small parse helpers): static callees in the module that take a string, two levels deep
	have := map[*ssa.Function]bool{}
	for _, fn := range out {
		have[fn] = true
	}
	frontier := append([]*ssa.Function{}, out...)
	for depth := 0; depth < 2; depth++ {
		var next []*ssa.Function
		for _, fn := range frontier {
			allInstrs(fn, func(in ssa.Instruction) {
				call, ok := in.(*ssa.Call)
				if !ok {
					return
				}
				sc := call.Call.StaticCallee()
				if sc == nil || sc.Blocks == nil || have[sc] || sc.Synthetic != "" {
					return
				}
				if pk := idOf(sc).pkg; pk != ttlvPath && pk != modPath {
					return
				}
				takesString := false
				for _, prm := range sc.Params {
					if b, ok := prm.Type().Underlying().(*types.Basic); ok && b.Info()&types.IsString != 0 {
						takesString = true
					}
				}
				if !takesString {
					return
				}
				usesStrconv := false
				allInstrs(sc, func(i2 ssa.Instruction) {
					if c2, ok := i2.(*ssa.Call); ok && callID(&c2.Call).pkg == "strconv" {
						usesStrconv = true
					}
				})
				if !usesStrconv {
					return
				}
				have[sc] = true
				out = append(out, sc)
				next = append(next, sc)
			})
		}
		frontier = next
	}
	sort.Slice(out, func(i, j int) bool { return out[i].String() < out[j].String() })
	// generic helpers: analyse one instantiation per origin (the bodies are identical), not the uninstantiated origin
	var dedup []*ssa.Function
	seenOrigin := map[*ssa.Function]bool{}
	for _, fn := range out {
		top := fn
		for top.Parent() != nil {
			top = top.Parent()
		}
		if top.TypeParams().Len() > 0 && len(top.TypeArgs()) == 0 {
			continue
		}
		if o := top.Origin(); o != nil {
			if seenOrigin[o] && fn == top {
				continue
			}
			if fn == top {
				seenOrigin[o] = true
			}
		}
		dedup = append(dedup, fn)
	}
	return dedup
}

func textWriterFuncs(p *Program, recv string) []*ssa.Function {
	var out []*ssa.Function
	for _, fn := range p.OwnFuncs() {
		id := idOf(fn)
		q := fn
		for q.Parent() != nil {
			q = q.Parent()
		}
		qid := idOf(q)
		if id.pkg == ttlvPath && qid.recv == recv {
			out = append(out, fn)
		}
	}
	sort.Slice(out, func(i, j int) bool { return fnKey(out[i]) < fnKey(out[j]) })
	return out
}

type lexCtx struct {
	r   *Run
	p   *Program
	ord map[string]int
}

func (c *lexCtx) key(fn *ssa.Function, kind string) string {
	k := fnKey(fn) + "/" + kind
	c.ord[k]++
	return fmt.Sprintf("%s#%d", k, c.ord[k])
}

func intWidth(t types.Type) (bits int, unsigned bool, ok bool) {
	b, isB := t.Underlying().(*types.Basic)
	if !isB || b.Info()&types.IsInteger == 0 {
		return 0, false, false
	}
	unsigned = b.Info()&types.IsUnsigned != 0
	switch b.Kind() {
	case types.Int8, types.Uint8:
		return 8, unsigned, true
	case types.Int16, types.Uint16:
		return 16, unsigned, true
	case types.Int32, types.Uint32:
		return 32, unsigned, true
	}
	return 64, unsigned, true
}

// narrowestUse: the narrowest integer type the value is converted to.
func narrowestUse(v ssa.Value, depth int) (int, bool) {
	best := 64
	found := false
	if depth > 4 {
		return best, false
	}
	refs := v.Referrers()
	if refs == nil {
		return best, false
	}
	for _, ref := range *refs {
		switch x := ref.(type) {
		case *ssa.Convert:
			if w, _, ok := intWidth(x.Type()); ok {
				found = true
				if w < best {
					best = w
				}
			}
		case *ssa.Extract:
			if w, ok := narrowestUse(x, depth+1); ok {
				found = true
				if w < best {
					best = w
				}
			}
		case *ssa.Phi:
			if w, ok := narrowestUse(x, depth+1); ok {
				found = true
				if w < best {
					best = w
				}
			}
		}
	}
	return best, found
}

func runC04(r *Run, verifDir string) {
	c := &lexCtx{r: r, p: r.P, ord: map[string]int{}}
	r.Explain = append(r.Explain,
		"C04 is decided as lexical agreement of each text writer with its reader: L1 a hexadecimal spelling of an N-bit quantity is never parsed with a signed N-bit parser (all 2^N bit patterns the writers emit with %08X/%016x must be readable), separators and time layouts written are the ones split/parsed; L2 wherever a 0x prefix guards a parse of the remainder the base is 16; L3 the JSON writer never renders a Go string with Go-syntax quoting (strconv.Quote/AppendQuote/%q emit \\x01, \\a, \\v, \\U..., which are not JSON) — strings go through encoding/json, and raw insertions are registry names proven lexically safe by C17.N3; L4 every duration a reader returns is a count of seconds times time.Second, as the writers divide by it; L5 enum/mask writers and readers default the lookup tag identically and fall back to hex when no name exists.")
	r.Assume = append(r.Assume, "registry names are lexically safe for XML element names and JSON strings (decided by C17.N3)", "encoding/xml escapes attribute values correctly; encoding/json escapes strings correctly")
	r.NotCov = append(r.NotCov, "byte-identity of the binary re-encoding after an XML/JSON round trip (value level)", "element-for-element reproduction of foreign conformant XML (OASIS vectors): needs execution", "Unicode coverage of the escapers", "2^52 threshold arithmetic beyond the hex-parse rule")
	c.l1Hex("C04.L1")
	c.trimCutset("C04.L1")
	c.x8DatesTotal("C04.L10")
	c.l1Separators()
	c.l2Base("C04.L2")
	c.l3JSONStrings()
	c.l4Units("C04.L4")
	c.l5Fallbacks()
	c.l6VectorOrder()
	c.l7SignPad()
	c.l8EmptyByteString()
	c.x1Ranges("C04.L9")
	bigNarrowRule(r, "C04.L11")
	errorsNotCarried(r, "C04.L13")
	r.Import("C04.L12", "numbers rendered in hexadecimal by the name/mask writers are unsigned (no minus sign can appear in a 0x form)", 10, "C17", "C17.N9", nil)
}

func runC18(r *Run, verifDir string) {
	c := &lexCtx{r: r, p: r.P, ord: map[string]int{}}
	r.Explain = append(r.Explain,
		"C18 is decided as `whatever a reader can return, every writer can take`: X1 for each text reader method the numeric range it can return lies inside the writers' total domain (intervals in [0, 2^32) seconds, 32-bit integers, enumerations in uint32) — established from the bit size of the parse call or a dominating bounds check; X2 every explicit panic of a writer has a precondition that X1 / C01.P5 prove for all reader outputs; X3 the alternative lexical forms accepted on input (hex numbers, prefixed forms) land in the canonical domain (same checks as C04.L1/L2/L4).")
	r.Assume = append(r.Assume, "C01.P5 (the generic container produces only types the generic encoder accepts)", "dates are restricted to years 1..9999 by the property")
	r.NotCov = append(r.NotCov, "idempotence of normalisation as such (byte equality of the second re-encoding): value level", "non-zero padding, over-long big integers, reordered fields: acceptance/normalisation is value level", "uniform leniency of the three Struct readers (X4 of the design) is not implemented as a rule")
	c.x1Ranges("C18.X1")
	c.x1ParserDomain()
	c.x4BinaryReaderTotal()
	c.x5TextVerbatim()
	c.x6DelegatingEncoders()
	c.x7JSONNumberRange()
	c.x8DatesTotal("C18.X8")
	c.x2WriterPanics()
	c.l1Hex("C18.X3")
	c.l2Base("C18.X3")
	c.l4Units("C18.X3")
	bigNarrowRule(r, "C18.X9")
	errorsNotCarried(r, "C18.X13")
	r.Import("C18.X10", "numbers rendered in hexadecimal by the name/mask writers are unsigned (no minus sign can appear in a 0x form)", 10, "C17", "C17.N9", nil)
	r.Import("C18.X11", "the generic containers never keep an element whose decode failed (a half-built Value cannot be re-encoded)", 100, "C02", "C02.R8", func(k string) bool { return strings.HasPrefix(k, "ttlv.") })
	r.Import("C18.X12", "the JSON writer escapes every caller-provided string", 3, "C04", "C04.L3", nil)
	r.Import("C18.X14", "decoding never writes through the input buffer: e1 handed to the decoder is still e1 afterwards, so encode(decode(e1)) is compared against the bytes that were actually re-encoded", 2, "C02", "C02.R5", nil)
}

// ---------------------------------------------------------------- L1

func (c *lexCtx) l1Hex(rule string) {
	r := c.r
	if rule == "C04.L1" {
		r.Rule(rule, "hexadecimal spellings are parsed with a parser covering every bit pattern of the target width; written separators/layouts are the ones read", 10)
	} else if rule == "C17.N10" {
		r.Rule(rule, "a token is told apart as number or name by its 0x prefix or a failed parse in base 10/16, never by a guessed base or a cutset trim", 8)
	} else if rule == "C06.D11" {
		r.Rule(rule, "the text readers turn the number of an operation, object type or other enumeration into the same code whatever its spelling: decimal in base 10, 0x-prefixed in base 16, never a guessed base", 8)
	} else {
		r.Rule(rule, "alternative lexical forms land in the canonical domain (hex width, 0x base, seconds)", 14)
	}
	for _, fn := range textReaderFuncs(c.p) {
		allInstrs(fn, func(in ssa.Instruction) {
			call, ok := in.(*ssa.Call)
			if !ok {
				return
			}
			id := callID(&call.Call)
			if id.pkg != "strconv" || (id.name != "ParseInt" && id.name != "ParseUint") {
				return
			}
			bases, ok1 := possibleConsts(call.Call.Args[1], 0)
			bits, ok2 := constIntVal(call.Call.Args[2])
			key := c.key(fn, rule+":"+id.name)
			if !ok1 {
				r.Unk(rule, key, call.Pos(), "non-constant base")
				return
			}
			base := bases[0]
			for _, b := range bases {
				if b == 16 {
					base = 16 // one of the bases the call can be made with is hexadecimal: the hex rule applies
				}
				if b != 10 && b != 16 {
					r.Bad(rule, key, call.Pos(), "%s is called with base %d in a text reader: the writers spell numbers in decimal or 0x-prefixed hexadecimal only; base 0 lets strconv guess (a zero-padded decimal such as \"010\" is read as octal 8, \"0b..\", \"0o..\" and digit-group underscores are accepted), any other base misreads every value", id.name, b)
					return
				}
			}
			if base != 16 {
				r.OK(rule, key, call.Pos(), "%s base %d", id.name, base)
				return
			}
			if !ok2 {
				// utils.parseInt passes its bits parameter: ParseUint is unsigned, fine
				if id.name == "ParseUint" {
					r.OK(rule, key, call.Pos(), "hex parsed unsigned with the caller's width: every bit pattern of that width is accepted")
				} else {
					r.Unk(rule, key, call.Pos(), "signed hex parse with non-constant width")
				}
				return
			}
			w, found := narrowestUse(call, 0)
			// quantities narrower than their Go carrier: a tag is a 24-bit quantity written with all its bits (%06X)
			if qw := quantityWidth(fn); qw > 0 {
				need := qw
				if id.name == "ParseInt" {
					need = qw + 1 // a signed parse on N bits accepts N-1 value bits
				}
				if bits < need {
					r.Bad(rule, key, call.Pos(), "a %d-bit quantity spelled in hexadecimal is parsed with strconv.%s(_, 16, %d): values with the top bit set (0x%X and above) are written by the writers but rejected on reading", qw, id.name, bits, int64(1)<<(qw-1))
					return
				}
			}
			if id.name == "ParseUint" {
				r.OK(rule, key, call.Pos(), "hex parsed unsigned on %d bits", bits)
				return
			}
			// signed hex parse: fine only when the destination is wider than the quantity (e.g. 24-bit tags into int)
			if found && int64(w) <= bits {
				r.Bad(rule, key, call.Pos(), "a hexadecimal value is parsed with strconv.ParseInt(_, 16, %d) and stored in a %d-bit integer: the writers spell %d-bit quantities with all %d bits (%%0%dX of the unsigned value), so values with the top bit set (e.g. 0x80000000) are written but cannot be read back", bits, w, w, w, w/4)
				return
			}
			r.OK(rule, key, call.Pos(), "signed hex parse on %d bits into a wider destination", bits)
		})
	}
}

func (c *lexCtx) l1Separators() {
	r, p := c.r, c.p
	// separators: writer constant vs reader split
	type sepCase struct {
		writer, reader, recvW, recvR string
	}
	for _, fmtName := range []string{"xml", "json"} {
		wfn := p.Func("ttlv", fmtName+"Writer", "Bitmask")
		rfn := p.Func("ttlv", fmtName+"Reader", "Bitmask")
		key := "ttlv." + fmtName + "/mask-separator"
		if wfn == nil || rfn == nil {
			r.Unk("C04.L1", key, token.NoPos, "anchor missing")
			continue
		}
		wsep, rsep := "", ""
		withClosures(wfn, func(f *ssa.Function) {
			allInstrs(f, func(in ssa.Instruction) {
				if call, ok := in.(*ssa.Call); ok {
					id := callID(&call.Call)
					if id.pkg == ttlvPath && (id.name == "bitmaskString" || id.name == "AppendBitmaskString") {
						if k, ok := call.Call.Args[len(call.Call.Args)-1].(*ssa.Const); ok {
							wsep = constStringVal(k)
						}
					}
				}
			})
		})
		allInstrs(rfn, func(in ssa.Instruction) {
			if call, ok := in.(*ssa.Call); ok {
				id := callID(&call.Call)
				if id.is("strings", "", "Fields") {
					rsep = " "
				}
				if id.is("strings", "", "Split") || id.is("strings", "", "SplitSeq") {
					if k, ok := call.Call.Args[1].(*ssa.Const); ok {
						rsep = constStringVal(k)
					}
				}
			}
		})
		if wsep != "" && wsep == rsep {
			r.OK("C04.L1", key, wfn.Pos(), "mask flags joined with %q and split on %q", wsep, rsep)
		} else {
			r.Bad("C04.L1", key, wfn.Pos(), "mask flags are joined with %q by the writer but split on %q by the reader", wsep, rsep)
		}
		// the empty mask: the writer emits "" for the value 0; strings.Split("", sep) yields one empty part,
		// which the reader must skip (strings.Fields drops it by itself)
		usesSplit := false
		var parses []ssa.Instruction
		var emptyTests []*ssa.BinOp
		// (the loop body of `for part := range strings.SplitSeq(..)` is a closure of the reader)
		withClosures(rfn, func(rf2 *ssa.Function) {
			allInstrs(rf2, func(in ssa.Instruction) {
				switch x := in.(type) {
				case *ssa.Call:
					id := callID(&x.Call)
					if id.is("strings", "", "Split") || id.is("strings", "", "SplitSeq") {
						usesSplit = true
					}
					if id.pkg == "strconv" && strings.HasPrefix(id.name, "Parse") || id.is(ttlvPath, "", "BitmaskByStr") {
						parses = append(parses, x)
					}
				case *ssa.BinOp:
					if x.Op == token.EQL || x.Op == token.NEQ {
						for _, side := range []ssa.Value{x.X, x.Y} {
							if k, ok := side.(*ssa.Const); ok && k.Value != nil && constStringVal(k) == "" && isStringConst(k) {
								emptyTests = append(emptyTests, x)
							}
						}
					}
				}
			})
		})
		ekey := "ttlv." + fmtName + "/empty-mask"
		if !usesSplit {
			r.OK("C04.L1", ekey, rfn.Pos(), "the reader splits with strings.Fields: the empty string written for a mask of 0 reads back as 0")
		} else {
			guarded := len(parses) > 0
			for _, pc := range parses {
				ok := false
				for _, dc := range dominatingConds(pc.Block()) {
					for _, et := range emptyTests {
						if dc.cond == ssa.Value(et) && (et.Op == token.NEQ) == dc.outcome {
							ok = true
						}
					}
				}
				if !ok {
					guarded = false
				}
			}
			if guarded {
				r.OK("C04.L1", ekey, rfn.Pos(), "empty parts are skipped before parsing: the empty string written for a mask of 0 reads back as 0")
			} else {
				r.Bad("C04.L1", ekey, rfn.Pos(), "the writer emits the empty string for a mask of 0, strings.Split turns it into one empty part, and the reader parses that part without skipping it: a mask of 0 is written but cannot be read back in %s", fmtName)
			}
		}
		// date-time layout
		wd := p.Func("ttlv", fmtName+"Writer", "DateTime")
		rd := p.Func("ttlv", fmtName+"Reader", "DateTime")
		key = "ttlv." + fmtName + "/datetime-layout"
		if wd == nil || rd == nil {
			r.Unk("C04.L1", key, token.NoPos, "anchor missing")
			continue
		}
		layout := func(fn *ssa.Function, names ...string) string {
			out := ""
			withClosures(fn, func(f *ssa.Function) {
				allInstrs(f, func(in ssa.Instruction) {
					if call, ok := in.(*ssa.Call); ok {
						id := callID(&call.Call)
						for _, n := range names {
							if id.pkg == "time" && id.name == n {
								for _, a := range call.Call.Args {
									if k, ok := a.(*ssa.Const); ok && constStringVal(k) != "" {
										out = constStringVal(k)
									}
								}
							}
						}
					}
				})
			})
			return out
		}
		wl, rl := layout(wd, "Format", "AppendFormat"), layout(rd, "Parse")
		if wl != "" && wl == rl {
			r.OK("C04.L1", key, wd.Pos(), "dates written and parsed with layout %q", wl)
		} else {
			r.Bad("C04.L1", key, wd.Pos(), "dates are written with layout %q but parsed with %q", wl, rl)
		}
	}
}

// ---------------------------------------------------------------- L2

func (c *lexCtx) l2Base(rule string) {
	r := c.r
	if rule == "C04.L2" {
		r.Rule(rule, "a parse of s[2:] guarded by HasPrefix(s, \"0x\") uses base 16", 8)
	}
	for _, fn := range textReaderFuncs(c.p) {
		allInstrs(fn, func(in ssa.Instruction) {
			call, ok := in.(*ssa.Call)
			if !ok {
				return
			}
			id := callID(&call.Call)
			if id.pkg != "strconv" || (id.name != "ParseInt" && id.name != "ParseUint") {
				return
			}
			sl, ok := call.Call.Args[0].(*ssa.Slice)
			if !ok {
				return
			}
			lo, ok := constIntVal(sl.Low)
			if !ok || lo != 2 || hasPrefixGuard(sl.X, call) < 2 {
				return
			}
			key := c.key(fn, rule+":prefixed-parse")
			base, ok := constIntVal(call.Call.Args[1])
			if ok && base == 16 {
				r.OK(rule, key, call.Pos(), "0x-prefixed value parsed in base 16")
			} else {
				r.Bad(rule, key, call.Pos(), "a value recognised by its 0x prefix is parsed in base %d: hexadecimal input is rejected or misread", base)
			}
		})
	}
}

// ---------------------------------------------------------------- L3

func (c *lexCtx) l3JSONStrings() {
	r, p := c.r, c.p
	r.Rule("C04.L3", "the JSON writer never uses Go-syntax quoting nor raw insertion of a caller string; text strings go through encoding/json", 3)
	n := 0
	for _, fn := range textWriterFuncs(p, "jsonWriter") {
		allInstrs(fn, func(in ssa.Instruction) {
			call, ok := in.(*ssa.Call)
			if !ok {
				return
			}
			id := callID(&call.Call)
			bad := ""
			if id.pkg == "strconv" && (strings.HasPrefix(id.name, "Quote") || strings.HasPrefix(id.name, "AppendQuote")) {
				bad = "strconv." + id.name
			}
			if id.pkg == "fmt" {
				for _, a := range call.Call.Args {
					if k, ok := a.(*ssa.Const); ok && strings.Contains(constStringVal(k), "%q") {
						bad = "fmt verb %q"
					}
				}
			}
			if bad != "" {
				n++
				r.Bad("C04.L3", c.key(fn, "go-quote"), call.Pos(), "the JSON writer renders a string with %s: Go escapes such as \\x01, \\a, \\v, \\U0001F600 are not valid JSON, so a text string containing a control character yields a document no JSON parser accepts", bad)
			}
		})
	}
	// TextString must escape through encoding/json (or an escaper emitting \u00XX)
	key := "ttlv.jsonWriter.TextString/escaper"
	ts := p.Func("ttlv", "jsonWriter", "TextString")
	if ts == nil {
		r.Unk("C04.L3", key, token.NoPos, "anchor missing")
		return
	}
	viaJSON := false
	seen := map[*ssa.Function]bool{}
	var scan func(f *ssa.Function, depth int)
	scan = func(f *ssa.Function, depth int) {
		if f == nil || seen[f] || depth > 3 || f.Blocks == nil {
			return
		}
		seen[f] = true
		withClosures(f, func(g *ssa.Function) {
			allInstrs(g, func(in ssa.Instruction) {
				call, ok := in.(*ssa.Call)
				if !ok {
					return
				}
				id := callID(&call.Call)
				if id.pkg == "encoding/json" {
					viaJSON = true
				}
				for _, a := range call.Call.Args {
					if k, ok := a.(*ssa.Const); ok && strings.Contains(constStringVal(k), `\u00`) {
						viaJSON = true
					}
				}
				if sc := call.Call.StaticCallee(); sc != nil && idOf(sc).pkg == ttlvPath {
					scan(sc, depth+1)
				}
			})
		})
	}
	scan(ts, 0)
	if viaJSON {
		r.OK("C04.L3", key, ts.Pos(), "text strings are escaped by encoding/json")
	} else if n == 0 {
		r.Bad("C04.L3", key, ts.Pos(), "jsonWriter.TextString does not escape its value through encoding/json (or a \\u00XX escaper): quotes, backslashes and control characters break the document")
	} else {
		r.Bad("C04.L3", key, ts.Pos(), "jsonWriter.TextString does not escape its value as JSON")
	}
	if n == 0 {
		r.OK("C04.L3", "ttlv.jsonWriter/no-go-quote", ts.Pos(), "no strconv.Quote*/AppendQuote*/%%q in the JSON writer")
	}
	// no raw insertion of a caller-provided string: the text may only flow into the escaper
	fromStringParam := func(v ssa.Value) bool {
		for d := 0; d < 8; d++ {
			switch x := v.(type) {
			case *ssa.Parameter:
				b, ok := x.Type().Underlying().(*types.Basic)
				return ok && b.Info()&types.IsString != 0
			case *ssa.FreeVar:
				if pt, ok := x.Type().Underlying().(*types.Pointer); ok {
					b, ok := pt.Elem().Underlying().(*types.Basic)
					return ok && b.Info()&types.IsString != 0
				}
				return false
			case *ssa.UnOp:
				v = x.X
			case *ssa.Convert:
				v = x.X
			case *ssa.Slice:
				v = x.X
			case *ssa.ChangeType:
				v = x.X
			case *ssa.Alloc:
				// spilled parameter
				found := false
				for _, ref := range *x.Referrers() {
					if st, ok := ref.(*ssa.Store); ok && st.Addr == ssa.Value(x) {
						if prm, ok := st.Val.(*ssa.Parameter); ok {
							if b, ok := prm.Type().Underlying().(*types.Basic); ok && b.Info()&types.IsString != 0 {
								found = true
							}
						}
					}
				}
				return found
			default:
				return false
			}
		}
		return false
	}
	var scope []*ssa.Function
	scope = append(scope, textWriterFuncs(p, "jsonWriter")...)
	for f := range seen {
		dup := false
		for _, g := range scope {
			if g == f {
				dup = true
			}
		}
		if !dup {
			withClosures(f, func(g *ssa.Function) { scope = append(scope, g) })
		}
	}
	nRaw := 0
	for _, fn := range scope {
		allInstrs(fn, func(in ssa.Instruction) {
			call, ok := in.(*ssa.Call)
			if !ok {
				return
			}
			var arg ssa.Value
			id := callID(&call.Call)
			if b, ok := call.Call.Value.(*ssa.Builtin); ok && b.Name() == "append" && len(call.Call.Args) == 2 {
				arg = call.Call.Args[1]
			} else if id.pkg == "bytes" && id.recv == "Buffer" && (id.name == "WriteString" || id.name == "Write") {
				arg = call.Call.Args[1]
			}
			if arg == nil || !fromStringParam(arg) {
				return
			}
			// a raw copy on the true edge of a byte predicate that lets through only bytes encoding/json would copy
			// unchanged (printable ASCII other than the quote, the backslash and the HTML-escaped <, >, &)
			if why, ok := plainJSONGuard(call); ok {
				r.OK("C04.L3", c.key(fn, "raw-string"), call.Pos(), "%s", why)
				return
			}
			nRaw++
			r.Bad("C04.L3", c.key(fn, "raw-string"), call.Pos(), "%s copies a caller-provided string into the JSON output without escaping: whether a predicate in front of it covers every character that needs escaping (quote, backslash, controls) cannot be established, and a text string containing such a character yields an ill-formed or different document", fnKey(fn))
		})
	}
	if nRaw == 0 {
		r.OK("C04.L3", "ttlv.jsonWriter/no-raw-string", ts.Pos(), "no caller-provided string reaches the output except through encoding/json (%d functions scanned)", len(scope))
	}
}

// ---------------------------------------------------------------- L4

func (c *lexCtx) l4Units(rule string) {
	r, p := c.r, c.p
	if rule == "C04.L4" {
		r.Rule(rule, "every duration returned by a reader's Interval method is seconds * time.Second; writers divide by it", 7)
	}
	for _, recv := range []string{"ttlvReader", "xmlReader", "jsonReader"} {
		fn := p.Func("ttlv", recv, "Interval")
		if fn == nil {
			r.Unk(rule, "ttlv."+recv+".Interval", token.NoPos, "anchor missing")
			continue
		}
		paths, ok := enumeratePaths(fn, 4096)
		if !ok {
			r.Unk(rule, "ttlv."+recv+".Interval", fn.Pos(), "too many paths")
			continue
		}
		seenRet := map[*ssa.Return]bool{}
		for _, path := range paths {
			if cls, _ := classifyPath(path); cls == pathError {
				continue
			}
			last := path[len(path)-1]
			ret := last.Instrs[len(last.Instrs)-1].(*ssa.Return)
			if seenRet[ret] {
				continue
			}
			seenRet[ret] = true
			key := c.key(fn, rule+":return")
			v := ret.Results[0]
			okUnit := false
			if bo, ok := v.(*ssa.BinOp); ok && bo.Op == token.MUL {
				for _, side := range []ssa.Value{bo.X, bo.Y} {
					if k, ok := constIntVal(side); ok && k == 1000000000 {
						okUnit = true
					}
				}
			}
			if okUnit {
				r.OK(rule, key, ret.Pos(), "returns seconds * time.Second")
			} else {
				r.Bad(rule, key, ret.Pos(), "%s.Interval returns a duration that is not a number of seconds multiplied by time.Second: an interval of N seconds is read as N nanoseconds and re-encoded as 0", recv)
			}
		}
	}
	if rule != "C04.L4" {
		return
	}
	for _, recv := range []string{"ttlvWriter", "xmlWriter", "jsonWriter"} {
		fn := p.Func("ttlv", recv, "Interval")
		key := "ttlv." + recv + ".Interval/seconds"
		if fn == nil {
			r.Unk(rule, key, token.NoPos, "anchor missing")
			continue
		}
		secs := false
		withClosures(fn, func(f *ssa.Function) {
			allInstrs(f, func(in ssa.Instruction) {
				if call, ok := in.(*ssa.Call); ok && callID(&call.Call).is("time", "Duration", "Seconds") {
					secs = true
				}
			})
		})
		if secs {
			r.OK(rule, key, fn.Pos(), "writes interval.Seconds()")
		} else {
			r.Bad(rule, key, fn.Pos(), "%s.Interval does not write the number of seconds", recv)
		}
	}
}

// ---------------------------------------------------------------- L5

func (c *lexCtx) l5Fallbacks() {
	r, p := c.r, c.p
	r.Rule("C04.L5", "enum/mask writers and readers default the lookup tag identically (realtag <= 0 -> tag); writers fall back to hex when the registry has no name", 10)
	for _, recv := range []string{"xmlWriter", "jsonWriter", "xmlReader", "jsonReader"} {
		for _, m := range []string{"Enum", "Bitmask"} {
			fn := p.Func("ttlv", recv, m)
			key := "ttlv." + recv + "." + m + "/default-tag"
			if fn == nil {
				r.Unk("C04.L5", key, token.NoPos, "anchor missing")
				continue
			}
			// `if realtag <= 0 { realtag = tag }`: a phi of (param1, param2) controlled by param1 <= 0
			ok := false
			allInstrs(fn, func(in ssa.Instruction) {
				bo, isB := in.(*ssa.BinOp)
				if !isB || bo.Op != token.LEQ || !isParamOrSpill(bo.X, fn.Params[1]) {
					return
				}
				if k, isK := constIntVal(bo.Y); isK && k == 0 {
					ok = true
				}
			})
			if ok {
				r.OK("C04.L5", key, fn.Pos(), "lookup tag defaults to the item's tag when no type tag is given")
			} else {
				r.Bad("C04.L5", key, fn.Pos(), "%s.%s does not default the lookup tag to the item's own tag: names are resolved in a different table than on the other side", recv, m)
			}
		}
	}
	for _, recv := range []string{"xmlWriter", "jsonWriter"} {
		fn := p.Func("ttlv", recv, "Enum")
		key := "ttlv." + recv + ".Enum/hex-fallback"
		if fn == nil {
			continue
		}
		name, hex := false, false
		withClosures(fn, func(f *ssa.Function) {
			allInstrs(f, func(in ssa.Instruction) {
				if call, ok := in.(*ssa.Call); ok {
					id := callID(&call.Call)
					if id.is(ttlvPath, "", "EnumName") {
						name = true
					}
					for _, a := range call.Call.Args {
						if k, ok := a.(*ssa.Const); ok && strings.Contains(constStringVal(k), "0x%08X") {
							hex = true
						}
					}
				}
			})
		})
		if name && hex {
			r.OK("C04.L5", key, fn.Pos(), "named values by registry name, unnamed as 0x%%08X")
		} else {
			r.Bad("C04.L5", key, fn.Pos(), "%s.Enum lacks the name-or-hex fallback (name=%v hex=%v): unnamed enumeration values cannot be written", recv, name, hex)
		}
	}
}

// ---------------------------------------------------------------- X1

// boundedBy: v (an int64 value) is dominated at `at` by checks establishing lo <= v <= hi.
func boundedBy(v ssa.Value, at ssa.Instruction) (lo, hi *int64) {
	for _, dc := range dominatingConds(at.Block()) {
		var scan func(cond ssa.Value, outcome bool)
		scan = func(cond ssa.Value, outcome bool) {
			bo, ok := cond.(*ssa.BinOp)
			if !ok {
				return
			}
			// round-trip test `T(U(v)) == v` (either side): true means v lies in U's range
			if bo.Op == token.EQL || bo.Op == token.NEQ {
				for _, pr := range [][2]ssa.Value{{bo.X, bo.Y}, {bo.Y, bo.X}} {
					if pr[1] != v {
						continue
					}
					if c1, ok := pr[0].(*ssa.Convert); ok {
						if c2, ok := c1.X.(*ssa.Convert); ok && c2.X == v {
							if w, uns, ok := intWidth(c2.Type()); ok && w < 63 && (bo.Op == token.EQL) == outcome {
								l, h := -(int64(1) << (w - 1)), (int64(1)<<(w-1))-1
								if uns {
									l, h = 0, (int64(1)<<w)-1
								}
								if lo == nil || l > *lo {
									lo = &l
								}
								if hi == nil || h < *hi {
									hi = &h
								}
							}
						}
					}
				}
				return
			}
			op := bo.Op
			x, y := bo.X, bo.Y
			if _, isC := constIntVal(x); isC && y == v {
				// constant on the left: mirror the comparison
				x, y = y, x
				switch op {
				case token.LSS:
					op = token.GTR
				case token.LEQ:
					op = token.GEQ
				case token.GTR:
					op = token.LSS
				case token.GEQ:
					op = token.LEQ
				}
			}
			if x != v {
				return
			}
			k, ok := constIntVal(y)
			if !ok {
				return
			}
			if !outcome {
				switch op {
				case token.LSS:
					op = token.GEQ
				case token.LEQ:
					op = token.GTR
				case token.GTR:
					op = token.LEQ
				case token.GEQ:
					op = token.LSS
				default:
					return
				}
			}
			switch op {
			case token.GEQ:
				if lo == nil || k > *lo {
					kk := k
					lo = &kk
				}
			case token.GTR:
				kk := k + 1
				if lo == nil || kk > *lo {
					lo = &kk
				}
			case token.LEQ:
				if hi == nil || k < *hi {
					kk := k
					hi = &kk
				}
			case token.LSS:
				kk := k - 1
				if hi == nil || kk < *hi {
					hi = &kk
				}
			}
		}
		scan(dc.cond, dc.outcome)
	}
	// `a || b -> error` : the non-error block is reached on the false edges of both tests; the second
	// test's block is dominated by the first one's false edge, so the chain above already sees both.
	return lo, hi
}

func (c *lexCtx) x1Ranges(rule string) {
	r, p := c.r, c.p
	r.Rule(rule, "numeric range each text reader can return lies inside the writers' domain and covers it (bit size of the parse or a dominating bounds check)", 12)
	// narrowing conversions in the text readers: int64 -> int32/uint32 etc.
	for _, fn := range textReaderFuncs(p) {
		id := idOf(fn)
		if id.recv != "xmlReader" && id.recv != "jsonReader" {
			continue
		}
		allInstrs(fn, func(in ssa.Instruction) {
			var cv interface {
				ssa.Value
				Pos() token.Pos
			}
			var cvX ssa.Value
			switch x := in.(type) {
			case *ssa.Convert:
				cv, cvX = x, x.X
			case *ssa.ChangeType:
				cv, cvX = x, x.X
			default:
				return
			}
			tw, _, ok1 := intWidth(cv.Type())
			fw, _, ok2 := intWidth(cvX.Type())
			isDur := isNamed(cv.Type(), "time", "Duration")
			if !ok1 || !ok2 || (tw >= fw && !isDur) {
				return
			}
			if isNamed(cvX.Type(), "time", "Duration") {
				return
			}
			if roundTripProbe(cv, cvX) {
				return
			}
			key := c.key(fn, "narrow")
			src := cvX
			// origin: parse with a bit size
			origin := src
			if ex, ok := origin.(*ssa.Extract); ok {
				origin = ex.Tuple
			}
			want := int64(tw)
			lo, hi := boundedBy(src, in)
			if isDur {
				// seconds of an interval: [0, 2^32)
				if call, ok := origin.(*ssa.Call); ok {
					cid := callID(&call.Call)
					if (cid.is(ttlvPath, "", "parseUint") || cid.is("strconv", "", "ParseUint")) && len(call.Call.Args) >= 2 {
						if b, ok := constIntVal(call.Call.Args[len(call.Call.Args)-1]); ok && b <= 32 {
							r.OK(rule, key, cv.Pos(), "interval seconds parsed unsigned on %d bits", b)
							return
						}
					}
				}
				if lo != nil && *lo >= 0 && hi != nil && *hi <= 4294967295 && (*lo > 0 || *hi < 4294967295) {
					r.Bad(rule, key, cv.Pos(), "%s accepts [%d, %d] s for an interval whose range is [0, 4294967295]: a boundary value the writers emit (off by one in the bounds check) is rejected on reading", fnKey(fn), *lo, *hi)
					return
				}
				if lo != nil && *lo >= 0 && hi != nil && *hi <= 4294967295 {
					r.OK(rule, key, cv.Pos(), "interval seconds checked to lie in [%d, %d]", *lo, *hi)
					return
				}
				r.Bad(rule, key, cv.Pos(), "%s converts an unbounded number into an interval: a negative value is accepted and every writer panics on re-encoding it (\"interval cannot be negative\"); a value >= 2^32 s is truncated on the wire", fnKey(fn))
				return
			}
			if call, ok := origin.(*ssa.Call); ok {
				cid := callID(&call.Call)
				if cid.pkg == "strconv" || cid.pkg == ttlvPath && (cid.name == "parseInt" || cid.name == "parseUint") {
					if b, ok := constIntVal(call.Call.Args[len(call.Call.Args)-1]); ok && b <= want {
						r.OK(rule, key, cv.Pos(), "value parsed on %d bits fits the %d-bit destination", b, want)
						return
					}
				}
				if cid.is(ttlvPath, "", "EnumByName") || cid.is(ttlvPath, "", "BitmaskByStr") {
					r.OK(rule, key, cv.Pos(), "registry value")
					return
				}
			}
			if lo != nil && hi != nil {
				// the bounds admit no more than the destination holds, and no less: a signed 32-bit quantity is written
				// over its whole range, so the reader must accept all of it
				_, unsignedDst, _ := intWidth(cv.Type())
				fullLo, fullHi := -(int64(1) << (want - 1)), (int64(1)<<(want-1))-1
				if unsignedDst {
					fullLo, fullHi = 0, (int64(1)<<want)-1
				}
				if want < 63 && (*lo > fullLo || *hi < fullHi) {
					r.Bad(rule, key, cv.Pos(), "%s accepts [%d, %d] for a %d-bit destination whose range is [%d, %d]: a value the writers emit (a boundary value when the bounds check is off by one) is rejected on reading", fnKey(fn), *lo, *hi, want, fullLo, fullHi)
					return
				}
				r.OK(rule, key, cv.Pos(), "bounds [%d, %d] checked before narrowing to %d bits", *lo, *hi, want)
				return
			}
			// phi of parsed values (hex/decimal/name branches): each edge must be fine
			if ph, ok := src.(*ssa.Phi); ok {
				okAll := true
				for _, e := range ph.Edges {
					o := e
					if ex, ok := o.(*ssa.Extract); ok {
						o = ex.Tuple
					}
					if cv2, ok := o.(*ssa.Convert); ok {
						o = cv2.X
						if ex, ok := o.(*ssa.Extract); ok {
							o = ex.Tuple
						}
					}
					call, ok := o.(*ssa.Call)
					if !ok {
						okAll = false
						continue
					}
					cid := callID(&call.Call)
					switch {
					case cid.pkg == "strconv" && (cid.name == "ParseInt" || cid.name == "ParseUint"):
						if b, ok := constIntVal(call.Call.Args[2]); !ok || b > want {
							okAll = false
						}
					case cid.is(ttlvPath, "", "parseInt") || cid.is(ttlvPath, "", "parseUint"):
						if b, ok := constIntVal(call.Call.Args[len(call.Call.Args)-1]); !ok || b > want {
							okAll = false
						}
					case cid.is(ttlvPath, "", "EnumByName") || cid.is(ttlvPath, "", "BitmaskByStr"):
					default:
						okAll = false
					}
				}
				if okAll {
					r.OK(rule, key, cv.Pos(), "every alternative (hex, decimal, name) is parsed on at most %d bits", want)
					return
				}
			}
			r.Bad(rule, key, cv.Pos(), "%s narrows a %d-bit value to %d bits without a bounds check: an accepted input is silently altered and does not re-encode to itself", fnKey(fn), fw, want)
		})
	}
}

// ---------------------------------------------------------------- X2

func (c *lexCtx) x2WriterPanics() {
	r, p := c.r, c.p
	r.Rule("C18.X2", "every explicit panic of a writer has a precondition established for all reader outputs", 5)
	for _, recv := range []string{"ttlvWriter", "xmlWriter", "jsonWriter", "textWriter"} {
		for _, fn := range textWriterFuncs(p, recv) {
			allInstrs(fn, func(in ssa.Instruction) {
				pn, ok := in.(*ssa.Panic)
				if !ok {
					return
				}
				key := c.key(fn, "panic")
				k := fnKey(fn)
				switch {
				case strings.HasSuffix(k, ".Interval"):
					// guard must be interval < 0
					okGuard := false
					for _, dc := range dominatingConds(pn.Block()) {
						if bo, ok := dc.cond.(*ssa.BinOp); ok && dc.outcome && bo.Op == token.LSS {
							if z, ok := constIntVal(bo.Y); ok && z == 0 {
								okGuard = true
							}
						}
					}
					if okGuard {
						r.OK("C18.X2", key, pn.Pos(), "panics only on a negative interval; readers return intervals in [0, 2^32) s (C18.X1)")
					} else {
						r.Bad("C18.X2", key, pn.Pos(), "writer panic whose guard is not `interval < 0`")
					}
				default:
					// `if _, err := buf.WriteString(..); err != nil { panic(err) }` on a bytes.Buffer: never taken
					never := false
					for _, dc := range dominatingConds(pn.Block()) {
						if bo, ok := dc.cond.(*ssa.BinOp); ok && dc.outcome && bo.Op == token.NEQ && isNilConst(bo.Y) {
							if ex, ok := bo.X.(*ssa.Extract); ok {
								if call, ok := ex.Tuple.(*ssa.Call); ok && callID(&call.Call).pkg == "bytes" && callID(&call.Call).recv == "Buffer" {
									never = true
								}
								// json.Marshal of a plain string cannot fail
								if call, ok := ex.Tuple.(*ssa.Call); ok && callID(&call.Call).is("encoding/json", "", "Marshal") {
									if mi, ok := call.Call.Args[0].(*ssa.MakeInterface); ok {
										if b, ok := mi.X.Type().Underlying().(*types.Basic); ok && b.Info()&types.IsString != 0 {
											never = true
										}
									}
								}
							}
						}
					}
					if never {
						r.OK("C18.X2", key, pn.Pos(), "guarded by an error that is always nil (bytes.Buffer write, json.Marshal of a string)")
						return
					}
					r.Bad("C18.X2", key, pn.Pos(), "writer %s panics on a condition not covered by a reader-side guarantee", k)
				}
			})
		}
	}
	// panicOnErr (XML encoder errors) and Value.TagEncodeTTLV: stated dependencies
	if fn := p.Func("ttlv", "Value", "TagEncodeTTLV"); fn != nil {
		n := 0
		allInstrs(fn, func(in ssa.Instruction) {
			if _, ok := in.(*ssa.Panic); ok {
				n++
			}
		})
		r.OK("C18.X2", "ttlv.Value.TagEncodeTTLV/panic", fn.Pos(), "%d panic on an unsupported dynamic type: the generic decoder only produces the ten supported types (C01.P5)", n)
	}
	if fn := p.Func("ttlv", "", "panicOnErr"); fn != nil {
		r.OK("C18.X2", "ttlv.panicOnErr", fn.Pos(), "XML token errors arise only from invalid element/attribute names; element names are registry names (C17.N3) or TTLV")
	}
}

// isParamOrSpill: v is the parameter, or a load of the heap cell the parameter was spilled to.
func isParamOrSpill(v ssa.Value, prm *ssa.Parameter) bool {
	if v == ssa.Value(prm) {
		return true
	}
	u, ok := v.(*ssa.UnOp)
	if !ok || u.Op != token.MUL {
		return false
	}
	al, ok := u.X.(*ssa.Alloc)
	if !ok {
		return false
	}
	for _, ref := range *al.Referrers() {
		if st, ok := ref.(*ssa.Store); ok && st.Addr == ssa.Value(al) && st.Val == ssa.Value(prm) {
			return true
		}
	}
	return false
}

func isStringConst(k *ssa.Const) bool {
	b, ok := k.Type().Underlying().(*types.Basic)
	return ok && b.Info()&types.IsString != 0
}

// ---------------------------------------------------------------- X1 (parser domain)

type parseSite struct {
	fn   string // ParseInt | ParseUint
	base int64
	bits int64
	pos  token.Pos
	via  string
}

// reachableParses lists strconv.Parse(U)int calls reachable from fn through ttlv helpers, resolving a
// helper's `bits` parameter from the constant passed by its caller.
func reachableParses(fn *ssa.Function, bind map[*ssa.Parameter]int64, depth int, via string) []parseSite {
	var out []parseSite
	if fn == nil || fn.Blocks == nil || depth > 3 {
		return out
	}
	resolve := func(v ssa.Value) (int64, bool) {
		if k, ok := constIntVal(v); ok {
			return k, true
		}
		if prm, ok := v.(*ssa.Parameter); ok {
			k, ok := bind[prm]
			return k, ok
		}
		return 0, false
	}
	allInstrs(fn, func(in ssa.Instruction) {
		call, ok := in.(*ssa.Call)
		if !ok {
			return
		}
		id := callID(&call.Call)
		if id.pkg == "strconv" && (id.name == "ParseInt" || id.name == "ParseUint") {
			b, ok1 := resolve(call.Call.Args[1])
			w, ok2 := resolve(call.Call.Args[2])
			if !ok1 {
				b = -1
			}
			if !ok2 {
				w = -1
			}
			out = append(out, parseSite{id.name, b, w, call.Pos(), via})
			return
		}
		sc := call.Call.StaticCallee()
		if sc == nil || idOf(sc).pkg != ttlvPath || idOf(sc).recv != "" || sc == fn {
			return
		}
		if !strings.HasPrefix(sc.Name(), "parse") {
			return
		}
		nb := map[*ssa.Parameter]int64{}
		for i, a := range call.Call.Args {
			if i < len(sc.Params) {
				if k, ok := resolve(a); ok {
					nb[sc.Params[i]] = k
				}
			}
		}
		out = append(out, reachableParses(sc, nb, depth+1, via+">"+sc.Name())...)
	})
	return out
}

func (c *lexCtx) x1ParserDomain() {
	r, p := c.r, c.p
	r.Rule("C18.X1d", "the text parsers accept every spelling the writers emit for the type: unsigned 32-bit kinds (Interval, Enumeration) are never parsed with a signed 32-bit parser, 64-bit hex never with a signed 64-bit parser", 8)
	type kind struct {
		method   string
		unsigned bool
		width    int64
	}
	kinds := []kind{{"Interval", true, 32}, {"Enum", true, 32}, {"Integer", false, 32}, {"LongInteger", false, 64}}
	for _, recv := range []string{"xmlReader", "jsonReader"} {
		for _, k := range kinds {
			fn := p.Func("ttlv", recv, k.method)
			key := "ttlv." + recv + "." + k.method + "/parser-domain"
			if fn == nil {
				r.Unk("C18.X1d", key, token.NoPos, "anchor missing")
				continue
			}
			sites := reachableParses(fn, nil, 0, recv+"."+k.method)
			if len(sites) == 0 {
				r.Trivial("C18.X1d", key, fn.Pos(), "no strconv parse (numbers come from encoding/json)")
				continue
			}
			bad := ""
			for _, s := range sites {
				if s.bits < 0 || s.base < 0 {
					bad = fmt.Sprintf("%s with a base/width the rule cannot resolve (%s)", s.fn, s.via)
					continue
				}
				switch {
				case s.base == 10 && k.unsigned && s.fn == "ParseInt" && s.bits <= k.width:
					bad = fmt.Sprintf("decimal values are parsed with strconv.ParseInt(_, 10, %d) (via %s) although the writers emit every value up to 2^%d-1 in decimal: the upper half of the range is written but cannot be read back", s.bits, s.via, k.width)
				case s.base == 16 && s.fn == "ParseInt" && s.bits <= k.width:
					bad = fmt.Sprintf("hexadecimal values are parsed with strconv.ParseInt(_, 16, %d) (via %s): bit patterns with the top bit set are rejected", s.bits, s.via)
				case s.bits < k.width:
					bad = fmt.Sprintf("values are parsed on %d bits (via %s) for a %d-bit type", s.bits, s.via, k.width)
				}
			}
			if bad != "" {
				r.Bad("C18.X1d", key, fn.Pos(), "%s.%s: %s", recv, k.method, bad)
			} else {
				r.OK("C18.X1d", key, fn.Pos(), "%d parse call(s) cover the %d-bit %s domain", len(sites), k.width, map[bool]string{true: "unsigned", false: "signed"}[k.unsigned])
			}
		}
	}
}

// ---------------------------------------------------------------- X4

// x4BinaryReaderTotal: every well-formed binary item is a value: the typed reads of the binary reader fail
// only through assertType (wrong tag/type/end of data) or Next (the following item is malformed).
func (c *lexCtx) x4BinaryReaderTotal() { c.x4BinaryReaderTotalAs("C18.X4") }

func (c *lexCtx) x4BinaryReaderTotalAs(rule string) {
	r, p := c.r, c.p
	r.Rule(rule, "the binary typed reads reject no value: their only errors are assertType and Next (Struct: also the nested reader's validation and the callback)", 10)
	for _, m := range []string{"Integer", "LongInteger", "BigInteger", "Enum", "Bool", "TextString", "ByteString", "DateTime", "Interval", "Bitmask", "Struct"} {
		fn := p.Func("ttlv", "ttlvReader", m)
		key := "ttlv.ttlvReader." + m + "/total"
		if fn == nil {
			r.Unk(rule, key, token.NoPos, "anchor missing")
			continue
		}
		bad := token.NoPos
		allInstrs(fn, func(in ssa.Instruction) {
			ret, ok := in.(*ssa.Return)
			if !ok {
				return
			}
			var sanctioned func(ev ssa.Value, d int) bool
			sanctioned = func(ev ssa.Value, d int) bool {
				if isNilConst(ev) {
					return true
				}
				if call, ok := ev.(*ssa.Call); ok {
					id := callID(&call.Call)
					if id.pkg == ttlvPath && id.recv == "ttlvReader" && (id.name == "assertType" || id.name == "Next") {
						return true
					}
				}
				if ex, ok := ev.(*ssa.Extract); ok {
					if call, ok := ex.Tuple.(*ssa.Call); ok {
						id := callID(&call.Call)
						if id.pkg == ttlvPath && id.recv == "ttlvReader" {
							return true // delegation to another typed read (Bitmask -> Integer)
						}
						if m == "Struct" && id.is(ttlvPath, "", "newTTLVReader") {
							return true // the nested reader's validation
						}
					}
				}
				if call, ok := ev.(*ssa.Call); ok && m == "Struct" && call.Call.StaticCallee() == nil && !call.Call.IsInvoke() {
					return true // the error of the callback that decodes the fields
				}
				// one error variable merged from sanctioned sources (single error exit)
				if ph, ok := ev.(*ssa.Phi); ok && d < 4 {
					for _, e := range ph.Edges {
						if !sanctioned(e, d+1) {
							return false
						}
					}
					return true
				}
				return false
			}
			if sanctioned(ret.Results[len(ret.Results)-1], 0) {
				return
			}
			bad = ret.Pos()
		})
		if bad.IsValid() {
			r.Bad(rule, key, bad, "ttlvReader.%s can fail on the value of a well-formed item: a value that the text readers accept and the binary writer emits is then rejected when the forwarded binary message is decoded again", m)
		} else {
			r.OK(rule, key, fn.Pos(), "fails only through assertType or Next")
		}
	}
}

// ---------------------------------------------------------------- L7 / L8

// l7SignPad: every writer that renders a big integer through bigIntToBytes uses the sign pad byte it returns.
func (c *lexCtx) l7SignPad() {
	r := c.r
	r.Rule("C04.L7", "every caller of bigIntToBytes uses the returned sign pad byte (0x00 / 0xFF): negative values keep their sign in every encoding", 2)
	b2b := c.p.Func("ttlv", "", "bigIntToBytes")
	if b2b == nil {
		r.Unk("C04.L7", "ttlv.bigIntToBytes", token.NoPos, "anchor missing")
		return
	}
	for _, fn := range c.p.OwnFuncs() {
		if idOf(fn).pkg != ttlvPath {
			continue
		}
		n := 0
		allInstrs(fn, func(in ssa.Instruction) {
			call, ok := in.(*ssa.Call)
			if !ok || call.Call.StaticCallee() != b2b {
				return
			}
			n++
			key := fmt.Sprintf("%s/bigIntToBytes#%d", fnKey(fn), n)
			padUsed, lenUsed := false, false
			for _, ref := range *call.Referrers() {
				if ex, ok := ref.(*ssa.Extract); ok && len(*ex.Referrers()) > 0 {
					switch ex.Index {
					case 1:
						padUsed = true
					case 2:
						lenUsed = true
					}
				}
			}
			switch {
			case padUsed:
				r.OK("C04.L7", key, call.Pos(), "pad byte and pad length of bigIntToBytes are both consumed")
			case lenUsed:
				r.Bad("C04.L7", key, call.Pos(), "%s pads the big integer by the length bigIntToBytes asks for but ignores the pad byte it returns: a negative value whose magnitude has its top bit set is written with 00 instead of FF and reads back as a positive number", fnKey(fn))
			default:
				r.Bad("C04.L7", key, call.Pos(), "%s ignores both the pad byte and the pad length of bigIntToBytes: the value is not sign-extended to the encoding's unit", fnKey(fn))
			}
		})
	}
}

// nonNilSlice: v is a non-nil slice whenever the enclosing function returns normally.
func nonNilSlice(p *Program, v ssa.Value, depth int) (bool, string) {
	if depth > 5 {
		return false, "too deep"
	}
	switch x := v.(type) {
	case *ssa.MakeSlice:
		return true, ""
	case *ssa.Convert:
		if b, ok := x.X.Type().Underlying().(*types.Basic); ok && b.Info()&types.IsString != 0 {
			return true, "" // []byte(s) allocates, also for the empty string
		}
		return nonNilSlice(p, x.X, depth+1)
	case *ssa.ChangeType:
		return nonNilSlice(p, x.X, depth+1)
	case *ssa.Slice:
		// s[k:...] with k > 0 cannot be evaluated on a nil slice without panicking; s[:] of an array pointer is non-nil
		if _, isArr := x.X.Type().Underlying().(*types.Pointer); isArr {
			return true, ""
		}
		if k, ok := constIntVal(x.Low); ok && k > 0 {
			return true, ""
		}
		return nonNilSlice(p, x.X, depth+1)
	case *ssa.Phi:
		for _, e := range x.Edges {
			if ok, why := nonNilSlice(p, e, depth+1); !ok {
				return false, why
			}
		}
		return true, ""
	case *ssa.Extract:
		return nonNilSlice(p, x.Tuple, depth+1)
	case *ssa.Const:
		if x.IsNil() {
			// a nil returned on the empty-reader path (len(buf) == 0) is excluded: typed reads run on validated readers (C02.R3)
			return false, "nil constant"
		}
	case *ssa.Call:
		id := callID(&x.Call)
		switch {
		case id.pkg == "encoding/hex" && id.name == "DecodeString", id.pkg == "encoding/base64" && id.name == "DecodeString", id.pkg == "bytes" && id.name == "Repeat":
			return true, ""
		case (id.pkg == "slices" || id.pkg == "bytes") && id.name == "Clone":
			return nonNilSlice(p, x.Call.Args[0], depth+1)
		case id.pkg == "encoding/hex" && id.name == "AppendDecode", id.pkg == "slices" && id.name == "Grow":
			ok, _ := nonNilSlice(p, x.Call.Args[0], depth+1)
			if ok {
				return true, ""
			}
			return false, id.String() + " returns its (nil) destination unchanged for an empty input"
		}
		if b, ok := x.Call.Value.(*ssa.Builtin); ok && b.Name() == "append" {
			ok, _ := nonNilSlice(p, x.Call.Args[0], depth+1)
			if ok {
				return true, ""
			}
			return false, "append to a nil slice stays nil when nothing is appended"
		}
		if sc := x.Call.StaticCallee(); sc != nil && strings.HasPrefix(idOf(sc).pkg, modPath) && sc.Blocks != nil {
			// every normal return of the callee yields a non-nil slice (first slice-typed result)
			all := true
			why := ""
			for _, b := range sc.Blocks {
				ret, ok := b.Instrs[len(b.Instrs)-1].(*ssa.Return)
				if !ok {
					continue
				}
				for _, rv := range ret.Results {
					if _, isSl := rv.Type().Underlying().(*types.Slice); !isSl {
						continue
					}
					if k, isC := rv.(*ssa.Const); isC && k.IsNil() {
						// error return (a non-nil error alongside) or the empty-reader guard
						errRet := false
						for _, o := range ret.Results {
							if isErrorType(o.Type()) {
								if ok, isC := o.(*ssa.Const); !isC || !ok.IsNil() {
									errRet = true
								}
							}
						}
						emptyGuard := false
						for _, dc := range dominatingConds(b) {
							if bo, ok := dc.cond.(*ssa.BinOp); ok && bo.Op == token.EQL && dc.outcome {
								if _, isLen := lenOperand(bo.X); isLen {
									if z, ok := constIntVal(bo.Y); ok && z == 0 {
										emptyGuard = true
									}
								}
							}
						}
						if errRet || emptyGuard {
							continue
						}
					}
					if ok, w := nonNilSlice(p, rv, depth+1); !ok {
						all, why = false, w
					}
					break
				}
			}
			return all, why
		}
		return false, "result of " + id.String() + " not known to be non-nil"
	}
	return false, fmt.Sprintf("%T not known to be non-nil", v)
}

func isErrorType(t types.Type) bool {
	n, ok := types.Unalias(t).(*types.Named)
	return ok && n.Obj().Pkg() == nil && n.Obj().Name() == "error"
}

// l8EmptyByteString: a present, empty byte string is decoded to a non-nil slice by all three readers (the encoder's
// omitempty drops nil slices, so a nil would make the element disappear on re-encoding).
func (c *lexCtx) l8EmptyByteString() {
	r := c.r
	r.Rule("C04.L8", "ByteString readers return a non-nil slice on success (a present empty value must not turn into an absent one)", 3)
	for _, recv := range []string{"ttlvReader", "xmlReader", "jsonReader"} {
		fn := c.p.Func("ttlv", recv, "ByteString")
		key := "ttlv." + recv + ".ByteString/non-nil"
		if fn == nil {
			r.Unk("C04.L8", key, token.NoPos, "anchor missing")
			continue
		}
		bad := ""
		nRet := 0
		for _, b := range fn.Blocks {
			ret, ok := b.Instrs[len(b.Instrs)-1].(*ssa.Return)
			if !ok || len(ret.Results) != 2 {
				continue
			}
			if k, isC := ret.Results[0].(*ssa.Const); isC && k.IsNil() {
				// must be an error return: the error result is not the nil constant
				if e, isC := ret.Results[1].(*ssa.Const); isC && e.IsNil() {
					bad = "returns (nil, nil)"
				}
				continue
			}
			nRet++
			if ok, why := nonNilSlice(c.p, ret.Results[0], 0); !ok {
				bad = why
			}
		}
		if bad != "" || nRet == 0 {
			if bad == "" {
				bad = "no success return found"
			}
			r.Bad("C04.L8", key, fn.Pos(), "%s.ByteString can return a nil slice for a present, empty byte string (%s): omitempty then drops the element when the message is re-encoded, so the three encodings are no longer interchangeable", recv, bad)
		} else {
			r.OK("C04.L8", key, fn.Pos(), "%d success return(s), each a non-nil slice (decode of a string, clone of a non-nil view, make)", nRet)
		}
	}
}

// possibleConsts: v is an integer constant, or a phi (of phis) of integer constants: the values it can take.
func possibleConsts(v ssa.Value, depth int) ([]int64, bool) {
	if k, ok := constIntVal(v); ok {
		return []int64{k}, true
	}
	if depth > 4 {
		return nil, false
	}
	ph, ok := v.(*ssa.Phi)
	if !ok {
		return nil, false
	}
	var out []int64
	for _, e := range ph.Edges {
		if e == ssa.Value(ph) {
			continue
		}
		ks, ok := possibleConsts(e, depth+1)
		if !ok {
			return nil, false
		}
		out = append(out, ks...)
	}
	return out, len(out) > 0
}

// quantityWidth: the width in bits of the KMIP quantity a text-reader method parses, when it is narrower than the
// Go integer carrying it (0 otherwise): item tags are three bytes.
func quantityWidth(fn *ssa.Function) int64 {
	top := fn
	for top.Parent() != nil {
		top = top.Parent()
	}
	id := idOf(top)
	if (id.recv == "xmlReader" || id.recv == "jsonReader") && id.name == "Tag" {
		return 24
	}
	return 0
}

// ---------------------------------------------------------------- X5 (C18)

// x5TextVerbatim: a text string is handed back exactly as it was spelled: the value returned by the XML/JSON
// TextString readers derives from the input without passing through a string-transforming call (the writers emit the
// string verbatim, so a reader that trims or folds it accepts an input that does not re-encode to itself).
func (c *lexCtx) x5TextVerbatim() {
	r := c.r
	r.Rule("C18.X5", "text strings are read back verbatim: no strings.* transformation between the input and the value returned by TextString", 2)
	for _, recv := range []string{"xmlReader", "jsonReader"} {
		fn := c.p.Func("ttlv", recv, "TextString")
		key := "ttlv." + recv + ".TextString/verbatim"
		if fn == nil {
			r.Unk("C18.X5", key, token.NoPos, "anchor missing")
			continue
		}
		bad := ""
		var origin func(v ssa.Value, d int)
		seen := map[ssa.Value]bool{}
		origin = func(v ssa.Value, d int) {
			if d > 8 || seen[v] || bad != "" {
				return
			}
			seen[v] = true
			switch x := v.(type) {
			case *ssa.Call:
				id := callID(&x.Call)
				switch {
				case id.pkg == "strings" || id.pkg == "bytes" || id.pkg == "unicode" || id.pkg == "regexp":
					bad = id.String()
				case x.Call.StaticCallee() != nil && strings.HasPrefix(id.pkg, modPath) && x.Call.StaticCallee().Blocks != nil:
					sc := x.Call.StaticCallee()
					for _, b := range sc.Blocks {
						if ret, ok := b.Instrs[len(b.Instrs)-1].(*ssa.Return); ok {
							for _, rv := range ret.Results {
								if bt, ok := rv.Type().Underlying().(*types.Basic); ok && bt.Info()&types.IsString != 0 {
									origin(rv, d+1)
								}
							}
						}
					}
				}
			case *ssa.Phi:
				for _, e := range x.Edges {
					origin(e, d+1)
				}
			case *ssa.Extract:
				origin(x.Tuple, d+1)
			case *ssa.TypeAssert:
				origin(x.X, d+1)
			case *ssa.ChangeType:
				origin(x.X, d+1)
			case *ssa.Convert:
				origin(x.X, d+1)
			case *ssa.BinOp:
				if x.Op == token.ADD {
					bad = "string concatenation"
				}
			case *ssa.Slice:
				bad = "substring"
			}
		}
		n := 0
		for _, b := range fn.Blocks {
			ret, ok := b.Instrs[len(b.Instrs)-1].(*ssa.Return)
			if !ok || len(ret.Results) != 2 {
				continue
			}
			if k, isC := ret.Results[0].(*ssa.Const); isC && k.Value != nil && k.Value.ExactString() == `""` {
				continue
			}
			n++
			origin(ret.Results[0], 0)
		}
		switch {
		case bad != "":
			r.Bad("C18.X5", key, fn.Pos(), "%s.TextString returns a value that went through %s: the writers emit text strings verbatim, so an accepted string with (for instance) leading or trailing white space re-encodes to a different string", recv, bad)
		case n == 0:
			r.Unk("C18.X5", key, fn.Pos(), "no success return found")
		default:
			r.OK("C18.X5", key, fn.Pos(), "%d success return(s): the string is the input's, untouched", n)
		}
	}
}

// roundTripProbe: the narrowing conversion cv of x only feeds `T(cv) ==/!= x` tests (the range-check idiom
// `int64(int32(n)) != n`); it is a test, not a value the reader returns.
func roundTripProbe(cv ssa.Value, x ssa.Value) bool {
	refs := cv.Referrers()
	if refs == nil || len(*refs) == 0 {
		return false
	}
	for _, ref := range *refs {
		back, ok := ref.(*ssa.Convert)
		if !ok || !types.Identical(back.Type(), x.Type()) {
			return false
		}
		br := back.Referrers()
		if br == nil || len(*br) == 0 {
			return false
		}
		for _, u := range *br {
			bo, ok := u.(*ssa.BinOp)
			if !ok || (bo.Op != token.EQL && bo.Op != token.NEQ) || (bo.X != x && bo.Y != x) {
				return false
			}
		}
	}
	return true
}

// ---------------------------------------------------------------- X6

// x6DelegatingEncoders: the reflective encoders that hand a value to its own TagEncodeTTLV skip it only when it
// is a nil interface or a nil pointer. Any other skip (a nil slice or map, a zero value) drops an element the
// decoder accepted and, for a mandatory field, produces a message the decoder rejects.
func (c *lexCtx) x6DelegatingEncoders() {
	r, p := c.r, c.p
	r.Rule("C18.X6", "reflective encoders delegating to TagEncodeTTLV skip only nil interfaces and nil pointers", 2)
	const kindInterface, kindPointer = 20, 22
	for _, fn := range pkgFuncs(p, "ttlv") {
		if fn.Parent() == nil || len(fn.Params) != 3 && len(fn.Params)+len(fn.FreeVars) < 3 {
			continue
		}
		var emit []ssa.Instruction
		allInstrs(fn, func(in ssa.Instruction) {
			call, ok := in.(*ssa.Call)
			if !ok || !call.Call.IsInvoke() || call.Call.Method.Name() != "TagEncodeTTLV" {
				return
			}
			// receiver obtained from reflect.Value.Interface()
			ta, ok := call.Call.Value.(*ssa.TypeAssert)
			if !ok {
				return
			}
			if src, ok := ta.X.(*ssa.Call); ok && callID(&src.Call).is("reflect", "Value", "Interface") {
				emit = append(emit, in)
			}
		})
		if len(emit) == 0 {
			continue
		}
		key := fnKey(fn) + "/skip-only-nil"
		paths, okP := enumeratePaths(fn, 512)
		if !okP {
			r.Unk("C18.X6", key, fn.Pos(), "too many paths")
			continue
		}
		bad := ""
		badPos := token.NoPos
		for _, path := range paths {
			through := false
			for _, b := range path {
				for _, in := range b.Instrs {
					for _, e := range emit {
						if in == e {
							through = true
						}
					}
				}
			}
			if through {
				continue
			}
			// a skip path: the edges taken must include IsNil() == true and Kind() == Interface|Pointer only
			nilEdge, kinds, other := false, []int64{}, ""
			infeasible := false
			for i := 0; i+1 < len(path); i++ {
				cond, isTrue, ok := edgeTaken(path[i], path[i+1])
				if !ok {
					continue
				}
				// a short-circuit value (`a && b` kept in a variable) is a phi: take the edge this path came through
				if ph, isPhi := cond.(*ssa.Phi); isPhi && ph.Block() == path[i] && i > 0 {
					if pi := predIndex(path[i], path[i-1]); pi >= 0 {
						cond = ph.Edges[pi]
					}
				}
				if k, isConst := cond.(*ssa.Const); isConst {
					if k.Value != nil && k.Value.Kind() == constant.Bool && constant.BoolVal(k.Value) != isTrue {
						infeasible = true
					}
					continue
				}
				switch x := cond.(type) {
				case *ssa.Call:
					id := callID(&x.Call)
					if id.is("reflect", "Value", "IsNil") {
						if isTrue {
							nilEdge = true
						}
						continue
					}
					if isTrue {
						other = id.String()
					}
				case *ssa.BinOp:
					var kc *ssa.Call
					var k int64
					okK := false
					for _, pr := range [][2]ssa.Value{{x.X, x.Y}, {x.Y, x.X}} {
						if cl, ok := pr[0].(*ssa.Call); ok && callID(&cl.Call).is("reflect", "Value", "Kind") {
							if kk, ok := constIntVal(pr[1]); ok {
								kc, k, okK = cl, kk, true
							}
						}
					}
					if kc == nil || !okK {
						continue
					}
					if (x.Op == token.EQL) == isTrue {
						kinds = append(kinds, k)
					}
				}
			}
			if infeasible {
				continue
			}
			last := path[len(path)-1]
			pos := last.Instrs[len(last.Instrs)-1].Pos()
			switch {
			case other != "":
				bad, badPos = "skips the value when "+other+"() holds", pos
			case !nilEdge:
				bad, badPos = "returns without encoding on a path that does not test IsNil()", pos
			case len(kinds) == 0:
				bad, badPos = "skips every nil value whatever its kind", pos
			default:
				for _, k := range kinds {
					if k != kindInterface && k != kindPointer {
						bad, badPos = fmt.Sprintf("skips a nil value of reflect.Kind %d (only Interface=20 and Pointer=22 denote an absent optional element; a nil slice or map is a present, empty value)", k), pos
					}
				}
			}
		}
		if bad != "" {
			r.Bad("C18.X6", key, badPos, "%s %s: an accepted message with an empty structure in that position is re-encoded without the element and the result is rejected by the decoder when the field is mandatory", fnKey(fn), bad)
		} else {
			r.OK("C18.X6", key, fn.Pos(), "%d path(s); the value is skipped only as a nil interface or nil pointer", len(paths))
		}
	}
}

// ---------------------------------------------------------------- X7

// x7JSONNumberRange: for the 64-bit quantities the JSON writer spells either as a number or as a hex string
// (Long Integer, Big Integer), the interval the reader accepts in number form contains the interval the writer emits
// in number form. Reader side: bounds tests on the result of json.Number.Int64() that dominate the successful
// return (none: every int64). Writer side: the tests that dominate the creation of the closure emitting decimal
// digits (on the int64 itself, big.Int.Cmp with a package variable initialised by big.NewInt(constant), IsInt64()).
func (c *lexCtx) x7JSONNumberRange() {
	r, p := c.r, c.p
	r.Rule("C18.X7", "JSON number form: the reader accepts every value the writer emits as a number (Long Integer, Big Integer)", 2)
	const minI, maxI = int64(-1 << 63), int64(1<<63 - 1)
	bigGlobalConst := func(v ssa.Value) (int64, bool) {
		ld, ok := v.(*ssa.UnOp)
		if !ok {
			return 0, false
		}
		g, ok := ld.X.(*ssa.Global)
		if !ok || g.Pkg == nil {
			return 0, false
		}
		var k int64
		found := false
		if init := g.Pkg.Func("init"); init != nil {
			allInstrs(init, func(in ssa.Instruction) {
				st, ok := in.(*ssa.Store)
				if !ok || st.Addr != ssa.Value(g) {
					return
				}
				if call, ok := st.Val.(*ssa.Call); ok && callID(&call.Call).is("math/big", "", "NewInt") {
					if kk, ok := constIntVal(call.Call.Args[0]); ok {
						k, found = kk, true
					}
				}
			})
		}
		return k, found
	}
	for _, name := range []string{"LongInteger", "BigInteger"} {
		key := "ttlv.json/" + name + "/number-range"
		rf, wf := p.Func("ttlv", "jsonReader", name), p.Func("ttlv", "jsonWriter", name)
		if rf == nil || wf == nil {
			r.Unk("C18.X7", key, token.NoPos, "anchor missing")
			continue
		}
		// reader: n = val.Int64(); bounds at the success return that uses n
		rlo, rhi := minI, maxI
		var nVal ssa.Value
		allInstrs(rf, func(in ssa.Instruction) {
			if call, ok := in.(*ssa.Call); ok && callID(&call.Call).is("encoding/json", "Number", "Int64") {
				for _, ref := range *call.Referrers() {
					if ex, ok := ref.(*ssa.Extract); ok && ex.Index == 0 {
						nVal = ex
					}
				}
			}
		})
		if nVal == nil {
			r.Unk("C18.X7", key, rf.Pos(), "the number branch of the reader (json.Number.Int64) was not found")
			continue
		}
		// the instruction that consumes n on the success path: a return of n, or big.NewInt(n)
		var use ssa.Instruction
		for _, ref := range *nVal.Referrers() {
			switch x := ref.(type) {
			case *ssa.Return:
				use = x
			case *ssa.Call:
				if callID(&x.Call).is("math/big", "", "NewInt") {
					use = x
				}
			case *ssa.Phi:
				use = x
			}
		}
		if use == nil {
			r.Unk("C18.X7", key, rf.Pos(), "the use of the parsed number on the success path was not found")
			continue
		}
		if lo, hi := boundedBy(nVal, use); lo != nil || hi != nil {
			if lo != nil {
				rlo = *lo
			}
			if hi != nil {
				rhi = *hi
			}
		}
		if rlo == minI && rhi == maxI {
			r.OK("C18.X7", key, rf.Pos(), "the reader accepts every int64 in number form")
			continue
		}
		// writer: the closure that emits decimal digits
		var mk ssa.Instruction
		allInstrs(wf, func(in ssa.Instruction) {
			mc, ok := in.(*ssa.MakeClosure)
			if !ok {
				return
			}
			dec := false
			allInstrs(mc.Fn.(*ssa.Function), func(i2 ssa.Instruction) {
				if call, ok := i2.(*ssa.Call); ok {
					id := callID(&call.Call)
					if id.is("strconv", "", "AppendInt") || id.is("math/big", "Int", "Append") || id.is("math/big", "Int", "String") || id.is("strconv", "", "FormatInt") {
						dec = true
					}
				}
			})
			if dec {
				mk = in
			}
		})
		if mk == nil {
			r.Unk("C18.X7", key, wf.Pos(), "the reader bounds the number form to [%d, %d] but the writer's decimal branch was not found", rlo, rhi)
			continue
		}
		wlo, whi, known := minI, maxI, true
		if name == "LongInteger" {
			if lo, hi := boundedBy(wf.Params[2], mk); lo != nil || hi != nil {
				if lo != nil {
					wlo = *lo
				}
				if hi != nil {
					whi = *hi
				}
			}
		} else {
			for _, dc := range dominatingConds(mk.Block()) {
				switch x := dc.cond.(type) {
				case *ssa.Call:
					// IsInt64() true: all of int64
					continue
				case *ssa.BinOp:
					call, ok := x.X.(*ssa.Call)
					if !ok || !callID(&call.Call).is("math/big", "Int", "Cmp") {
						continue
					}
					if z, ok := constIntVal(x.Y); !ok || z != 0 {
						known = false
						continue
					}
					k, ok := bigGlobalConst(call.Call.Args[1])
					if !ok {
						known = false
						continue
					}
					op := x.Op
					if !dc.outcome {
						switch op {
						case token.LSS:
							op = token.GEQ
						case token.LEQ:
							op = token.GTR
						case token.GTR:
							op = token.LEQ
						case token.GEQ:
							op = token.LSS
						default:
							known = false
							continue
						}
					}
					// value OP k
					switch op {
					case token.LSS:
						if k-1 < whi {
							whi = k - 1
						}
					case token.LEQ:
						if k < whi {
							whi = k
						}
					case token.GTR:
						if k+1 > wlo {
							wlo = k + 1
						}
					case token.GEQ:
						if k > wlo {
							wlo = k
						}
					}
				}
			}
		}
		switch {
		case !known:
			r.Unk("C18.X7", key, mk.Pos(), "the reader bounds the number form to [%d, %d]; the writer's number range could not be computed", rlo, rhi)
		case wlo < rlo || whi > rhi:
			r.Bad("C18.X7", key, posOr(mk.Pos(), wf.Pos()), "the JSON writer spells a %s in [%d, %d] as a number but the reader only accepts numbers in [%d, %d]: an accepted value in between is re-encoded to a document the decoder rejects", name, wlo, whi, rlo, rhi)
		default:
			r.OK("C18.X7", key, rf.Pos(), "writer emits numbers in [%d, %d], reader accepts [%d, %d]", wlo, whi, rlo, rhi)
		}
	}
}

func posOr(a, b token.Pos) token.Pos {
	if a.IsValid() {
		return a
	}
	return b
}

// trimCutset: strings.Trim/TrimLeft/TrimRight take a SET of characters, not a prefix. In the token readers a
// multi-character, non-whitespace cutset is the classic slip for TrimPrefix: TrimLeft(s, "0x") also eats the leading
// letters of names such as X_509CertificateIdentifier, which are then taken for malformed numbers.
func (c *lexCtx) trimCutset(rule string) {
	r := c.r
	n := 0
	for _, fn := range textReaderFuncs(c.p) {
		allInstrs(fn, func(in ssa.Instruction) {
			call, ok := in.(*ssa.Call)
			if !ok {
				return
			}
			id := callID(&call.Call)
			if (id.pkg != "strings" && id.pkg != "bytes") || (id.name != "Trim" && id.name != "TrimLeft" && id.name != "TrimRight") || len(call.Call.Args) != 2 {
				return
			}
			k, ok := call.Call.Args[1].(*ssa.Const)
			if !ok {
				return
			}
			set := constStringVal(k)
			if len(set) < 2 || strings.TrimSpace(set) == "" {
				return
			}
			n++
			r.Bad(rule, c.key(fn, rule+":cutset"), call.Pos(), "%s strips the character SET %q with %s.%s where a prefix is meant: every leading character of the set is removed, so a registered name that begins with one of them (X_509CertificateIdentifier, ...) loses its first letters and is no longer read back as its number", fnKey(fn), set, id.pkg, id.name)
		})
	}
	if n == 0 {
		r.OK(rule, "ttlv.readers/no-cutset-trim", token.NoPos, "no multi-character cutset trim in the token readers")
	}
}

// ---------------------------------------------------------------- X8

// x8DatesTotal: a date the XML/JSON readers have parsed from its RFC 3339 spelling is returned: nothing rejects it
// afterwards. KMIP date-times are signed POSIX times; the writers spell every year 1..9999 (dates before 1970
// included) and the binary codec carries them, so a range test after the parse makes the text forms refuse what the
// other encodings and the writers produce.
func (c *lexCtx) x8DatesTotal(rule string) {
	r, p := c.r, c.p
	r.Rule(rule, "a date parsed from RFC 3339 text is returned as is (no range rejection after a successful parse)", 2)
	for _, recv := range []string{"xmlReader", "jsonReader"} {
		fn := p.Func("ttlv", recv, "DateTime")
		key := "ttlv." + recv + ".DateTime/parsed-date-returned"
		if fn == nil {
			r.Unk(rule, key, token.NoPos, "anchor missing")
			continue
		}
		var parse *ssa.Call
		allInstrs(fn, func(in ssa.Instruction) {
			if call, ok := in.(*ssa.Call); ok && callID(&call.Call).is("time", "", "Parse") {
				parse = call
			}
		})
		if parse == nil {
			r.Unk(rule, key, fn.Pos(), "time.Parse call not found")
			continue
		}
		// the block reached when the parse error is nil
		var okBlock *ssa.BasicBlock
		for _, ref := range *parse.Referrers() {
			ex, ok := ref.(*ssa.Extract)
			if !ok || ex.Index != 1 {
				continue
			}
			for _, r2 := range *ex.Referrers() {
				bo, ok := r2.(*ssa.BinOp)
				if !ok || !isNilConst(bo.Y) {
					continue
				}
				for _, r3 := range *bo.Referrers() {
					if iff, ok := r3.(*ssa.If); ok {
						if bo.Op == token.NEQ {
							okBlock = iff.Block().Succs[1]
						} else if bo.Op == token.EQL {
							okBlock = iff.Block().Succs[0]
						}
					}
				}
			}
		}
		if okBlock == nil {
			r.Unk(rule, key, parse.Pos(), "the test of the parse error was not found")
			continue
		}
		bad := token.NoPos
		n := 0
		for _, b := range fn.Blocks {
			ret, ok := b.Instrs[len(b.Instrs)-1].(*ssa.Return)
			if !ok || len(ret.Results) != 2 || !okBlock.Dominates(b) {
				continue
			}
			n++
			switch e := ret.Results[1].(type) {
			case *ssa.Call:
				if callID(&e.Call).name != "Next" {
					bad = ret.Pos()
				}
			case *ssa.Const:
				if !isNilConst(e) {
					bad = ret.Pos()
				}
			default:
				bad = ret.Pos()
			}
		}
		switch {
		case bad.IsValid():
			r.Bad(rule, key, bad, "%s.DateTime can reject a date after it was parsed successfully from its RFC 3339 spelling (a range or sign test on the parsed time): dates the writers emit and the binary encoding carries — e.g. before 1970 — are refused by this text form only", recv)
		case n == 0:
			r.Unk(rule, key, fn.Pos(), "no return after the successful parse found")
		default:
			r.OK(rule, key, fn.Pos(), "%d return(s) after the successful parse, each returning the date with the result of Next()", n)
		}
	}
}

// plainJSONGuard: the raw copy `at` is dominated by the true edge of a call pred(s) where pred is a function of the
// package of the form `for each byte c of s { if <tests on c> { return false } } return true`, and for every byte
// value the tests let through, encoding/json writes that byte unchanged inside a string: 0x20..0x7E except the
// quote, the backslash, and <, >, & (escaped for HTML safety). The tests are followed for each of the 256 values.
func plainJSONGuard(at *ssa.Call) (string, bool) {
	var pred *ssa.Function
	for _, dc := range dominatingConds(at.Block()) {
		c, ok := dc.cond.(*ssa.Call)
		if !ok || !dc.outcome {
			continue
		}
		sc := c.Call.StaticCallee()
		if sc == nil || sc.Blocks == nil || idOf(sc).pkg != ttlvPath || len(sc.Params) != 1 {
			continue
		}
		if b, ok := sc.Params[0].Type().Underlying().(*types.Basic); !ok || b.Info()&types.IsString == 0 {
			continue
		}
		pred = sc
	}
	if pred == nil {
		return "", false
	}
	// the byte under test: s[i] with a non-constant index
	isByte := func(v ssa.Value) bool {
		if cv, ok := v.(*ssa.Convert); ok {
			v = cv.X
		}
		switch x := v.(type) { // string indexing: Index (or Lookup in older go/ssa)
		case *ssa.Lookup:
			return x.X == ssa.Value(pred.Params[0])
		case *ssa.Index:
			return x.X == ssa.Value(pred.Params[0])
		}
		return false
	}
	var byteBlock *ssa.BasicBlock
	allInstrs(pred, func(in ssa.Instruction) {
		if v, ok := in.(ssa.Value); ok && isByte(v) && byteBlock == nil {
			byteBlock = in.Block()
		}
	})
	if byteBlock == nil {
		return "", false
	}
	decide := func(cond ssa.Value, b int64) (bool, bool) {
		bo, ok := cond.(*ssa.BinOp)
		if !ok {
			return false, false
		}
		x, y, op := bo.X, bo.Y, bo.Op
		if _, isK := constIntVal(x); isK && isByte(y) {
			x, y = y, x
			op = map[token.Token]token.Token{token.LSS: token.GTR, token.LEQ: token.GEQ, token.GTR: token.LSS, token.GEQ: token.LEQ, token.EQL: token.EQL, token.NEQ: token.NEQ}[op]
		}
		k, isK := constIntVal(y)
		if !isK || !isByte(x) {
			return false, false
		}
		switch op {
		case token.LSS:
			return b < k, true
		case token.LEQ:
			return b <= k, true
		case token.GTR:
			return b > k, true
		case token.GEQ:
			return b >= k, true
		case token.EQL:
			return b == k, true
		case token.NEQ:
			return b != k, true
		}
		return false, false
	}
	safe := func(b int64) bool {
		return b >= 0x20 && b <= 0x7E && b != '"' && b != 0x5C && b != '<' && b != '>' && b != '&'
	}
	for b := int64(0); b < 256; b++ {
		// can the byte pass (reach the loop continuation / the final `return true`) ?
		passes := false
		on := map[*ssa.BasicBlock]bool{}
		var walk func(blk *ssa.BasicBlock, first bool)
		walk = func(blk *ssa.BasicBlock, first bool) {
			if on[blk] || passes {
				return
			}
			if !first && blk == byteBlock {
				passes = true // next iteration: this byte was let through
				return
			}
			on[blk] = true
			defer func() { on[blk] = false }()
			switch x := blk.Instrs[len(blk.Instrs)-1].(type) {
			case *ssa.Return:
				if k, ok := x.Results[0].(*ssa.Const); ok && k.Value != nil && k.Value.Kind() == constant.Bool && !constant.BoolVal(k.Value) {
					return // rejected
				}
				passes = true
			case *ssa.If:
				if val, ok := decide(x.Cond, b); ok {
					if val {
						walk(blk.Succs[0], false)
					} else {
						walk(blk.Succs[1], false)
					}
					return
				}
				walk(blk.Succs[0], false)
				walk(blk.Succs[1], false)
			default:
				for _, sc := range blk.Succs {
					walk(sc, false)
				}
			}
		}
		walk(byteBlock, true)
		if passes && !safe(b) {
			return "", false
		}
	}
	return "raw copy guarded by " + fnKey(pred) + ": for each of the 256 byte values its tests were followed, and every byte it lets through is one encoding/json copies unchanged (printable ASCII other than quote, backslash, <, >, &)", true
}
