package main

// Dominating-guard extraction on SSA (path-insensitive, by dominance).

import (
	"fmt"
	"go/constant"
	"go/token"
	"go/types"

	"golang.org/x/tools/go/ssa"
)

type domCond struct {
	cond    ssa.Value
	outcome bool
	at      *ssa.BasicBlock
}

// dominatingConds lists the branch conditions known to hold at block b: for
// every block A on b's dominator chain whose immediate dominator P ends in an
// If and reaches A only through one of its two edges.
func dominatingConds(b *ssa.BasicBlock) []domCond {
	var out []domCond
	for a := b; a != nil; a = a.Idom() {
		p := a.Idom()
		if p == nil || len(p.Instrs) == 0 {
			continue
		}
		iff, ok := p.Instrs[len(p.Instrs)-1].(*ssa.If)
		if !ok {
			continue
		}
		// a must be entered only from p's edge si (other preds, if any, must be dominated by a: loop back edges)
		for si, s := range p.Succs {
			if s != a || p.Succs[1-si] == a {
				continue
			}
			okPreds := true
			for _, pr := range a.Preds {
				if pr != p && !a.Dominates(pr) {
					okPreds = false
				}
			}
			if okPreds {
				out = append(out, domCond{iff.Cond, si == 0, p})
				out = append(out, expandShortCircuit(iff.Cond, si == 0, p, 0)...)
			}
		}
	}
	return withNilTestsNormalised(out)
}

// nilTestCache: one synthetic `x != nil` per `x == nil` (or `nil != x`) comparison, so identity tests keep working.
var nilTestCache = map[*ssa.BinOp]*ssa.BinOp{}

// withNilTestsNormalised adds, for every nil test written `x == nil` (or with nil on the left), the same fact in the
// form the rules read — `x != nil` with the opposite outcome. The synthetic comparison belongs to no block.
func withNilTestsNormalised(conds []domCond) []domCond {
	n := len(conds)
	for i := 0; i < n; i++ {
		dc := conds[i]
		bo, ok := dc.cond.(*ssa.BinOp)
		if !ok || (bo.Op != token.EQL && bo.Op != token.NEQ) {
			continue
		}
		x, y := bo.X, bo.Y
		if isNilConst(x) && !isNilConst(y) {
			x, y = y, x
		}
		if !isNilConst(y) || isNilConst(x) {
			continue
		}
		if bo.Op == token.NEQ && x == bo.X {
			continue // already in the canonical form
		}
		syn, ok := nilTestCache[bo]
		if !ok {
			syn = &ssa.BinOp{Op: token.NEQ, X: x, Y: y}
			nilTestCache[bo] = syn
		}
		outcome := dc.outcome
		if bo.Op == token.EQL {
			outcome = !outcome
		}
		conds = append(conds, domCond{syn, outcome, dc.at})
	}
	return withComparisonsRespelled(conds)
}

// spellCache: the synthetic respellings of one comparison, created once so that identity tests stay stable.
var spellCache = map[*ssa.BinOp][3]*ssa.BinOp{}

// withComparisonsRespelled adds, for every ordering or equality comparison among the facts, its three other spellings:
// `a < b` true is also `b > a` true, `a >= b` false and `b <= a` false. A rule that reads one spelling then reads them
// all; the synthetic comparisons belong to no block and come after the real ones.
func withComparisonsRespelled(conds []domCond) []domCond {
	mirror := map[token.Token]token.Token{token.LSS: token.GTR, token.GTR: token.LSS, token.LEQ: token.GEQ, token.GEQ: token.LEQ, token.EQL: token.EQL, token.NEQ: token.NEQ}
	negate := map[token.Token]token.Token{token.LSS: token.GEQ, token.GEQ: token.LSS, token.GTR: token.LEQ, token.LEQ: token.GTR, token.EQL: token.NEQ, token.NEQ: token.EQL}
	n := len(conds)
	for i := 0; i < n; i++ {
		dc := conds[i]
		bo, ok := dc.cond.(*ssa.BinOp)
		if !ok {
			continue
		}
		if _, isCmp := mirror[bo.Op]; !isCmp || bo.Block() == nil {
			continue // not a comparison, or already synthetic
		}
		sp, ok := spellCache[bo]
		if !ok {
			sp = [3]*ssa.BinOp{
				{Op: mirror[bo.Op], X: bo.Y, Y: bo.X},         // same outcome
				{Op: negate[bo.Op], X: bo.X, Y: bo.Y},         // opposite outcome
				{Op: mirror[negate[bo.Op]], X: bo.Y, Y: bo.X}, // opposite outcome
			}
			spellCache[bo] = sp
		}
		conds = append(conds, domCond{sp[0], dc.outcome, dc.at}, domCond{sp[1], !dc.outcome, dc.at}, domCond{sp[2], !dc.outcome, dc.at})
	}
	return conds
}

// sameSlice reports whether two values denote the same slice/string: the same
// SSA value, or loads of the same access path.
func sameSlice(a, b ssa.Value) bool {
	if a == b {
		return true
	}
	pa, pb := accessPath(a), accessPath(b)
	return pa != "" && pa == pb
}

// lenOperand: if v is len(x) returns x.
func lenOperand(v ssa.Value) (ssa.Value, bool) {
	c, ok := v.(*ssa.Call)
	if !ok {
		return nil, false
	}
	if b, ok := c.Call.Value.(*ssa.Builtin); ok && b.Name() == "len" && len(c.Call.Args) == 1 {
		return c.Call.Args[0], true
	}
	return nil, false
}

// lenLowerBound returns the largest k such that a dominating guard at in
// establishes len(x) >= k (0 when nothing is known).
func lenLowerBound(x ssa.Value, in ssa.Instruction) int64 {
	var best int64
	// x = y[:h] with a non-constant h: len(x) == h, so a lower bound of h is one of len(x)
	if sl, ok := x.(*ssa.Slice); ok && sl.High != nil {
		lowZero := sl.Low == nil
		if k, isK := constIntVal(sl.Low); sl.Low != nil && isK && k == 0 {
			lowZero = true
		}
		if _, isConst := sl.High.(*ssa.Const); lowZero && !isConst {
			if lo, _ := boundedBy(sl.High, in); lo != nil && *lo > best {
				best = *lo
			}
		}
	}
	for _, dc := range dominatingConds(in.Block()) {
		bo, ok := dc.cond.(*ssa.BinOp)
		if !ok {
			continue
		}
		var c int64
		var op token.Token
		if y, ok := lenOperand(bo.X); ok && sameSlice(y, x) {
			if cv, ok := constIntVal(bo.Y); ok {
				c, op = cv, bo.Op
			} else {
				continue
			}
		} else if y, ok := lenOperand(bo.Y); ok && sameSlice(y, x) {
			if cv, ok := constIntVal(bo.X); ok {
				c = cv
				// c op len  ==> len op' c
				switch bo.Op {
				case token.LSS:
					op = token.GTR
				case token.LEQ:
					op = token.GEQ
				case token.GTR:
					op = token.LSS
				case token.GEQ:
					op = token.LEQ
				default:
					op = bo.Op
				}
			} else {
				continue
			}
		} else {
			continue
		}
		if !dc.outcome {
			switch op {
			case token.LSS:
				op = token.GEQ
			case token.LEQ:
				op = token.GTR
			case token.GTR:
				op = token.LEQ
			case token.GEQ:
				op = token.LSS
			case token.EQL:
				op = token.NEQ
			case token.NEQ:
				op = token.EQL
			}
		}
		var lb int64
		switch op {
		case token.GEQ:
			lb = c
		case token.GTR:
			lb = c + 1
		case token.EQL:
			lb = c
		case token.NEQ:
			if c == 0 {
				lb = 1
			}
		}
		if lb > best {
			best = lb
		}
	}
	return best
}

// hasPrefixGuard: in is dominated by the true edge of strings.HasPrefix(s, "<const>")
// for the same string; returns the length of the longest such prefix.
func hasPrefixGuard(s ssa.Value, in ssa.Instruction) int {
	best := 0
	var scan func(cond ssa.Value, outcome bool)
	scan = func(cond ssa.Value, outcome bool) {
		if !outcome {
			return
		}
		c, ok := cond.(*ssa.Call)
		if !ok || !callID(&c.Call).is("strings", "", "HasPrefix") {
			return
		}
		if !sameSlice(c.Call.Args[0], s) && c.Call.Args[0] != s {
			return
		}
		if k, ok := c.Call.Args[1].(*ssa.Const); ok && k.Value != nil {
			if l := len(constStringVal(k)); l > best {
				best = l
			}
		}
	}
	for _, dc := range dominatingConds(in.Block()) {
		scan(dc.cond, dc.outcome)
	}
	// `a || b` guards: the block is reached from two If blocks; accept when every
	// predecessor edge is the true edge of a HasPrefix on the same string.
	if best == 0 {
		b := in.Block()
		for b != nil && len(b.Preds) == 1 && func() bool { _, isIf := b.Preds[0].Instrs[len(b.Preds[0].Instrs)-1].(*ssa.If); return !isIf }() {
			b = b.Preds[0]
		}
		if b != nil && len(b.Preds) >= 2 {
			minL := -1
			for _, pr := range b.Preds {
				cond, isTrue, ok := edgeTaken(pr, b)
				l := 0
				if ok && isTrue {
					if c, ok := cond.(*ssa.Call); ok && callID(&c.Call).is("strings", "", "HasPrefix") && (sameSlice(c.Call.Args[0], s) || c.Call.Args[0] == s) {
						if k, ok := c.Call.Args[1].(*ssa.Const); ok {
							l = len(constStringVal(k))
						}
					}
				}
				if minL < 0 || l < minL {
					minL = l
				}
			}
			if minL > 0 {
				best = minL
			}
		}
	}
	return best
}

func constStringVal(c *ssa.Const) string {
	if c.Value != nil && c.Value.Kind() == constant.String {
		return constant.StringVal(c.Value)
	}
	return ""
}

func isByteSliceOrString(t types.Type) bool {
	switch u := t.Underlying().(type) {
	case *types.Basic:
		return u.Info()&types.IsString != 0
	case *types.Slice:
		return true
	}
	return false
}

// impliesGE: the branch condition cond having the given outcome implies a >= b (signed integers).
func impliesGE(cond ssa.Value, outcome bool, a, b ssa.Value) bool {
	bo, ok := cond.(*ssa.BinOp)
	if !ok {
		return false
	}
	switch {
	case bo.X == a && bo.Y == b:
		return (bo.Op == token.GEQ && outcome) || (bo.Op == token.LSS && !outcome)
	case bo.X == b && bo.Y == a:
		return (bo.Op == token.LEQ && outcome) || (bo.Op == token.GTR && !outcome)
	}
	return false
}

// impliesLT: the branch condition cond having the given outcome implies a < b.
func impliesLT(cond ssa.Value, outcome bool, a, b ssa.Value) bool {
	bo, ok := cond.(*ssa.BinOp)
	if !ok {
		return false
	}
	switch {
	case bo.X == a && bo.Y == b:
		return (bo.Op == token.LSS && outcome) || (bo.Op == token.GEQ && !outcome)
	case bo.X == b && bo.Y == a:
		return (bo.Op == token.GTR && outcome) || (bo.Op == token.LEQ && !outcome)
	}
	return false
}

// expandShortCircuit: a condition kept in a variable (`ok := a && b; if ok`) is a phi of the constant false (edges
// on which an earlier operand failed) and the last operand; the phi being true means every operand was true, in
// particular the last one and the ones the constant edges branched on. Dually for `||` and false.
func expandShortCircuit(cond ssa.Value, outcome bool, at *ssa.BasicBlock, depth int) []domCond {
	ph, ok := cond.(*ssa.Phi)
	if !ok || depth > 3 {
		return nil
	}
	var out []domCond
	for i, e := range ph.Edges {
		if k, isK := e.(*ssa.Const); isK && k.Value != nil && k.Value.Kind() == constant.Bool {
			if constant.BoolVal(k.Value) == outcome {
				return nil // the phi can have this outcome through a constant edge: nothing follows
			}
			// the edge was not taken: the branch that leads to it had the other outcome
			pred := ph.Block().Preds[i]
			if iff, isIf := pred.Instrs[len(pred.Instrs)-1].(*ssa.If); isIf && len(pred.Succs) == 2 {
				// pred jumps to the phi block on one of its edges; the phi value for that edge is the constant
				if pred.Succs[0] == ph.Block() && pred.Succs[1] != ph.Block() {
					out = append(out, domCond{iff.Cond, false, at})
					out = append(out, expandShortCircuit(iff.Cond, false, at, depth+1)...)
				} else if pred.Succs[1] == ph.Block() && pred.Succs[0] != ph.Block() {
					out = append(out, domCond{iff.Cond, true, at})
					out = append(out, expandShortCircuit(iff.Cond, true, at, depth+1)...)
				}
			}
			continue
		}
		if b, isBool := e.Type().Underlying().(*types.Basic); !isBool || b.Kind() != types.Bool {
			return nil
		}
		out = append(out, domCond{e, outcome, at})
		out = append(out, expandShortCircuit(e, outcome, at, depth+1)...)
	}
	return out
}

// evalByteExpr evaluates an integer/boolean expression over one distinguished byte value (isByte tells which SSA
// value denotes it) for the concrete byte b: constants, conversions to (u)int8, bit operations, comparisons, !,
// bits.LeadingZeros8/Len8. ok=false when the expression involves anything else.
func evalByteExpr(v ssa.Value, isByte func(ssa.Value) bool, b int64, d int) (int64, bool) {
	return evalLeafExpr(v, func(x ssa.Value) (int64, bool) {
		if isByte(x) {
			return b, true
		}
		return 0, false
	}, d)
}

// evalLeafExpr is evalByteExpr over any number of distinguished values: leaf gives the concrete value of one.
func evalLeafExpr(v ssa.Value, leaf func(ssa.Value) (int64, bool), d int) (int64, bool) {
	if d > 8 {
		return 0, false
	}
	if k, ok := leaf(v); ok {
		return k, true
	}
	if k, ok := constIntVal(v); ok {
		return k, true
	}
	if k, ok := v.(*ssa.Const); ok && k.Value != nil && k.Value.Kind() == constant.Bool {
		if constant.BoolVal(k.Value) {
			return 1, true
		}
		return 0, true
	}
	bo := func(c bool) int64 {
		if c {
			return 1
		}
		return 0
	}
	switch x := v.(type) {
	case *ssa.Convert:
		val, ok := evalLeafExpr(x.X, leaf, d+1)
		if !ok {
			return 0, false
		}
		if bt, isB := x.Type().Underlying().(*types.Basic); isB {
			switch bt.Kind() {
			case types.Int8:
				return int64(int8(val)), true
			case types.Uint8:
				return int64(uint8(val)), true
			}
		}
		return val, true
	case *ssa.Call:
		if id := callID(&x.Call); id.pkg == "math/bits" && (id.name == "LeadingZeros8" || id.name == "Len8") && len(x.Call.Args) == 1 {
			val, ok := evalLeafExpr(x.Call.Args[0], leaf, d+1)
			if !ok {
				return 0, false
			}
			n := int64(0)
			for i := 7; i >= 0 && (val>>uint(i))&1 == 0; i-- {
				n++
			}
			if id.name == "Len8" {
				return 8 - n, true
			}
			return n, true
		}
	case *ssa.BinOp:
		l, ok1 := evalLeafExpr(x.X, leaf, d+1)
		rr, ok2 := evalLeafExpr(x.Y, leaf, d+1)
		if !ok1 || !ok2 {
			return 0, false
		}
		switch x.Op {
		case token.AND:
			return l & rr, true
		case token.OR:
			return l | rr, true
		case token.XOR:
			return l ^ rr, true
		case token.SHR:
			return l >> uint(rr), true
		case token.SHL:
			return l << uint(rr), true
		case token.EQL:
			return bo(l == rr), true
		case token.NEQ:
			return bo(l != rr), true
		case token.LSS:
			return bo(l < rr), true
		case token.LEQ:
			return bo(l <= rr), true
		case token.GTR:
			return bo(l > rr), true
		case token.GEQ:
			return bo(l >= rr), true
		}
	case *ssa.UnOp:
		if x.Op == token.NOT {
			val, ok := evalLeafExpr(x.X, leaf, d+1)
			return 1 - val, ok
		}
	}
	return 0, false
}

// condsHoldForByte: every condition of conds that can be evaluated over the byte has its recorded outcome for b
// (conditions about anything else are taken to hold).
func condsHoldForByte(conds []domCond, isByte func(ssa.Value) bool, b int64) bool {
	for _, dc := range conds {
		if val, ok := evalByteExpr(dc.cond, isByte, b, 0); ok && (val != 0) != dc.outcome {
			return false
		}
	}
	return true
}

// condsHoldFor: condsHoldForByte with a general leaf valuation.
func condsHoldFor(conds []domCond, leaf func(ssa.Value) (int64, bool)) bool {
	for _, dc := range conds {
		if val, ok := evalLeafExpr(dc.cond, leaf, 0); ok && (val != 0) != dc.outcome {
			return false
		}
	}
	return true
}

// bigNarrowRule: a *big.Int is narrowed with Int64()/Uint64() only where the value is known to fit — a dominating
// IsInt64()/IsUint64() on the same value, or a BitLen() bound. Int64() of a value with 64 significant bits silently
// returns its low 64 bits reinterpreted (2^64-1 becomes -1): the number written, or the key rebuilt, is another one.
func bigNarrowRule(r *Run, rule string) {
	r.Rule(rule, "(*big.Int).Int64/Uint64 only under IsInt64/IsUint64 (or a BitLen bound) on the same value", 1)
	ord := map[string]int{}
	for _, fn := range r.P.OwnFuncs() {
		allInstrs(fn, func(in ssa.Instruction) {
			call, ok := in.(*ssa.Call)
			if !ok {
				return
			}
			id := callID(&call.Call)
			if id.pkg != "math/big" || id.recv != "Int" || (id.name != "Int64" && id.name != "Uint64") || len(call.Call.Args) != 1 {
				return
			}
			v := call.Call.Args[0]
			k := fnKey(fn) + "/big." + id.name
			ord[k]++
			key := fmt.Sprintf("%s#%d", k, ord[k])
			fits := false
			conds := dominatingConds(call.Block())
			// the narrowing inside a closure: the guards that dominate the creation of the closure count as well
			if fv, isFree := v.(*ssa.FreeVar); isFree && fn.Parent() != nil {
				fi := -1
				for i, q := range fn.FreeVars {
					if q == fv {
						fi = i
					}
				}
				allInstrs(fn.Parent(), func(i2 ssa.Instruction) {
					if mc, ok := i2.(*ssa.MakeClosure); ok && mc.Fn == ssa.Value(fn) && fi >= 0 && fi < len(mc.Bindings) {
						v = mc.Bindings[fi]
						conds = append(conds, dominatingConds(mc.Block())...)
					}
				})
			}
			for _, dc := range conds {
				c, want := dc.cond, dc.outcome
				if u, ok := c.(*ssa.UnOp); ok && u.Op == token.NOT {
					c, want = u.X, !want
				}
				if g, ok := c.(*ssa.Call); ok && want && len(g.Call.Args) == 1 && sameSlice(g.Call.Args[0], v) {
					gid := callID(&g.Call)
					if gid.pkg == "math/big" && (gid.name == "Is"+id.name || (gid.name == "IsInt64" && id.name == "Int64")) {
						fits = true
					}
				}
				if bo, ok := c.(*ssa.BinOp); ok {
					if g, ok := bo.X.(*ssa.Call); ok && callID(&g.Call).is("math/big", "Int", "BitLen") && sameSlice(g.Call.Args[0], v) {
						if n, isK := constIntVal(bo.Y); isK {
							// BitLen() < n / <= n on the taken edge
							lim := int64(-1)
							switch {
							case bo.Op == token.LSS && want, bo.Op == token.GEQ && !want:
								lim = n - 1
							case bo.Op == token.LEQ && want, bo.Op == token.GTR && !want:
								lim = n
							}
							if lim >= 0 && lim <= 63 {
								fits = true // magnitude below 2^63: fits both
							}
						}
					}
				}
			}
			if fits {
				r.OK(rule, key, call.Pos(), "narrowed under a dominating range test")
			} else {
				r.Bad(rule, key, call.Pos(), "%s narrows a *big.Int with %s() without a dominating Is%s()/BitLen test on that value: a value with more significant bits (2^63..2^64-1 for Int64) is silently truncated or reinterpreted, so the number written or the key rebuilt differs from the one held", fnKey(fn), id.name, id.name)
			}
		})
	}
}
