package main

// C14 — key material survives registration, transport and extraction
// (structural clauses: nil-safety of the accessors; format <-> field agreement of
// decoder, accessors and register builders; version switch of the EC representation).

import (
	"fmt"
	"go/token"
	"go/types"
	"sort"
	"strings"

	"golang.org/x/tools/go/ssa"
)

func isKmipStructField(fa ssa.Value) (*types.Var, bool) {
	switch x := fa.(type) {
	case *ssa.FieldAddr:
		st := derefStruct(x.X.Type())
		if st == nil || typePkgPath(x.X.Type()) != modPath {
			return nil, false
		}
		return st.Field(x.Field), true
	case *ssa.Field:
		st, ok := x.X.Type().Underlying().(*types.Struct)
		if !ok || typePkgPath(x.X.Type()) != modPath {
			return nil, false
		}
		return st.Field(x.Field), true
	}
	return nil, false
}

// optionalPtr: v is a pointer loaded from a pointer-typed field of a kmip struct (nil when the element was absent),
// possibly converted or merged.
func optionalPtr(v ssa.Value, depth int) (string, bool) {
	if depth > 6 {
		return "", false
	}
	if _, ok := v.Type().Underlying().(*types.Pointer); !ok {
		return "", false
	}
	switch x := v.(type) {
	case *ssa.UnOp:
		if x.Op == token.MUL {
			if f, ok := isKmipStructField(x.X); ok {
				return f.Name(), true
			}
		}
	case *ssa.Field:
		if f, ok := isKmipStructField(x); ok {
			return f.Name(), true
		}
	case *ssa.ChangeType:
		return optionalPtr(x.X, depth+1)
	case *ssa.Convert:
		return optionalPtr(x.X, depth+1)
	case *ssa.Phi:
		for _, e := range x.Edges {
			if n, ok := optionalPtr(e, depth+1); ok {
				return n, true
			}
		}
	}
	return "", false
}

// nonNilAt: a dominating test establishes v != nil at instruction `at` (same SSA value, or same access path).
func nonNilAt(v ssa.Value, at ssa.Instruction) bool {
	same := func(a, b ssa.Value) bool {
		if a == b {
			return true
		}
		// look through conversions on both sides
		a2, b2 := stripPtrConv(a), stripPtrConv(b)
		if a2 == b2 {
			return true
		}
		pa, pb := accessPath(a2), accessPath(b2)
		return pa != "" && pa == pb
	}
	for _, dc := range dominatingConds(at.Block()) {
		bo, ok := dc.cond.(*ssa.BinOp)
		if !ok || !isNilConst(bo.Y) {
			continue
		}
		if !same(bo.X, v) {
			// a phi of two optional pointers tested after the merge
			continue
		}
		if (bo.Op == token.NEQ) == dc.outcome {
			return true
		}
	}
	return false
}

func stripPtrConv(v ssa.Value) ssa.Value {
	for {
		switch x := v.(type) {
		case *ssa.ChangeType:
			v = x.X
		case *ssa.Convert:
			v = x.X
		default:
			return v
		}
	}
}

func c14Scope(p *Program) []*ssa.Function {
	recv := map[string]bool{"SecretData": true, "Certificate": true, "SymmetricKey": true, "PublicKey": true, "PrivateKey": true, "KeyBlock": true, "SplitKey": true, "PGPKey": true, "OpaqueObject": true, "Template": true, "GetResponsePayload": true, "ExportResponsePayload": true}
	var out []*ssa.Function
	for _, fn := range p.OwnFuncs() {
		id := idOf(fn)
		if (id.pkg != modPath && id.pkg != modPath+"/payloads") || fn.Synthetic != "" || fn.Parent() != nil {
			continue
		}
		if !recv[id.recv] || takesDecoder(fn) {
			continue
		}
		enc := false
		for _, prm := range fn.Params {
			if typeName(prm.Type()) == "Encoder" {
				enc = true
			}
		}
		if enc || id.name == "ObjectType" || id.name == "Operation" {
			continue
		}
		out = append(out, fn)
	}
	sort.Slice(out, func(i, j int) bool { return fnKey(out[i]) < fnKey(out[j]) })
	return out
}

func runC14(r *Run, verifDir string) {

	r.Explain = append(r.Explain,
		"C14 is decided for its structural clauses: G1 (clause b for repository code) in every accessor of the managed objects and of the Get response, each dereference of a pointer loaded from an optional part of a decoded object (key value, plain key value, key material alternatives, the optional big integers of a transparent RSA key) is dominated by a nil test on the same access path; G2 the key-format tables agree: the field KeyMaterial.decode fills for a format is the field every accessor reads for that format and the field every register builder populates together with that format constant; G3 the register builders choose the EC representation by CompareVersions(client.Version(), V1_3) >= 0 with the 1.3 formats on the true edge; G4 the curve tables of builder and accessors are inverse over the same four curves; G5 a math/big call that panics on the magnitude or sign of its operand (FillBytes, Div, Mod, Quo, Rem, Sqrt, SetBit) is dominated, inside an accessor, by a BitLen/Cmp/Sign test of that operand.")
	r.Assume = append(r.Assume, "the decoder leaves a pointer field nil exactly when the element is absent (C01)", "path-insensitive dominance: a nil test must dominate the dereference on the same access path")
	r.NotCov = append(r.NotCov, "mathematical equality of extracted keys (big-integer bytes, DER marshalling, curve arithmetic): value level", "panics inside crypto/x509 and math/big on malformed but non-nil material")
	c14G1(r)
	tbl := c14DecodeTable(r)
	c14G2Accessors(r, tbl)
	c14G2Builders(r, tbl)
	c14G3(r)
	c14G4(r)
	c14G5(r)
	c14G6(r)
	c14G7(r)
	bigNarrowRule(r, "C14.G8")
	r.Import("C14.G9", "the binary writer emits a Big Integer only as the sign-extended two's complement of bigIntToBytes (key material of any magnitude keeps its value and sign)", 2, "C03", "C03.T3", func(k string) bool { return strings.Contains(k, "BigInteger") })
}

// ---------------------------------------------------------------- G1

func c14G1(r *Run) {
	p := r.P
	r.Rule("C14.G1", "accessors: every dereference of an optional part (field access, *p, method call on it) is dominated by a nil test", 10)
	for _, fn := range c14Scope(p) {
		ord := map[string]int{}
		report := func(kind string, field string, v ssa.Value, at ssa.Instruction, what string) {
			k := fmt.Sprintf("%s/%s:%s", fnKey(fn), kind, field)
			ord[k]++
			key := fmt.Sprintf("%s#%d", k, ord[k])
			if nonNilAt(v, at) {
				r.OK("C14.G1", key, at.Pos(), "%s of optional %s under a dominating nil test", kind, field)
			} else {
				r.Bad("C14.G1", key, at.Pos(), "%s: optional part %s is %s without a nil test in %s: an object that lacks it (metadata-only key block, wrapped key, partially populated transparent key) makes the accessor panic instead of returning an error", fnKey(fn), field, what, fnKey(fn))
			}
		}
		allInstrs(fn, func(in ssa.Instruction) {
			switch x := in.(type) {
			case *ssa.FieldAddr:
				if f, ok := optionalPtr(x.X, 0); ok {
					report("deref", f, x.X, in, "dereferenced (field access)")
				}
			case *ssa.UnOp:
				if x.Op == token.MUL {
					if f, ok := optionalPtr(x.X, 0); ok {
						// loading *ptr of an optional pointer (e.g. *mat.Bytes)
						if _, isPP := x.X.Type().Underlying().(*types.Pointer); isPP {
							report("deref", f, x.X, in, "dereferenced (*p)")
						}
					}
				}
			case *ssa.Call:
				sc := x.Call.StaticCallee()
				if sc != nil && sc.Signature.Recv() != nil && len(x.Call.Args) > 0 {
					if _, isPtrRecv := sc.Signature.Recv().Type().(*types.Pointer); isPtrRecv && !strings.HasPrefix(idOf(sc).pkg, modPath) {
						if f, ok := optionalPtr(x.Call.Args[0], 0); ok {
							report("method", f, x.Call.Args[0], in, "used as the receiver of "+callID(&x.Call).String())
						}
					}
				}
			}
		})
	}
}

// ---------------------------------------------------------------- G2

// switchCases enumerates, for a function with a `switch x { case C1, C2: ... }` on discriminant d, the constants
// admitted on each success path together with a per-path summary computed by visit.
type pathInfo struct {
	consts []int64
	blocks cfgPath
}

func discriminantPaths(fn *ssa.Function, isDisc func(ssa.Value) bool, universe []int64) []pathInfo {
	paths, ok := enumeratePaths(fn, 4096)
	if !ok {
		return nil
	}
	var out []pathInfo
	for _, path := range paths {
		if cls, _ := classifyPath(path); cls == pathError {
			continue
		}
		adm := map[int64]bool{}
		for _, u := range universe {
			adm[u] = true
		}
		for i := 0; i+1 < len(path); i++ {
			cond, isTrue, ok := edgeTaken(path[i], path[i+1])
			if !ok {
				continue
			}
			bo, ok := cond.(*ssa.BinOp)
			if !ok || (bo.Op != token.EQL && bo.Op != token.NEQ) || !isDisc(bo.X) {
				continue
			}
			k, ok := constIntVal(bo.Y)
			if !ok {
				continue
			}
			if (bo.Op == token.EQL) == isTrue {
				for c := range adm {
					if c != k {
						delete(adm, c)
					}
				}
			} else {
				delete(adm, k)
			}
		}
		var cs []int64
		for c := range adm {
			cs = append(cs, c)
		}
		sort.Slice(cs, func(i, j int) bool { return cs[i] < cs[j] })
		out = append(out, pathInfo{cs, path})
	}
	return out
}

type formatTable struct {
	field map[int64]string // key format constant -> KeyMaterial field
	name  map[int64]string
	all   []int64
}

func c14DecodeTable(r *Run) *formatTable {
	p := r.P
	r.Rule("C14.G2", "key-format tables agree: decoder destination = accessor source = builder field, for every key format", 13)
	reg := BuildRegistry(p)
	t := &formatTable{field: map[int64]string{}, name: map[int64]string{}}
	for _, e := range reg.Enums {
		if e.Type.Obj().Name() == "KeyFormatType" {
			for _, v := range e.Values {
				t.name[int64(v.Num)] = v.Name
				t.all = append(t.all, int64(v.Num))
			}
		}
	}
	fn := p.Func("", "KeyMaterial", "decode")
	if fn == nil || len(t.all) == 0 {
		r.Unk("C14.G2", "kmip.KeyMaterial.decode", token.NoPos, "anchor missing (decode function or KeyFormatType enumeration)")
		return t
	}
	var disc ssa.Value
	for _, prm := range fn.Params {
		if typeName(prm.Type()) == "KeyFormatType" {
			disc = prm
		}
	}
	cf := findCodec(p, fn, "Decoder")
	if disc == nil || cf == nil {
		r.Unk("C14.G2", "kmip.KeyMaterial.decode", fn.Pos(), "discriminant parameter / decoder shape not recognised")
		return t
	}
	m := NewModel(p, reg)
	for _, pi := range discriminantPaths(fn, func(v ssa.Value) bool { return v == disc }, t.all) {
		dest := ""
		for _, b := range pi.blocks {
			for _, ev := range cf.blockEvents(b, reg, m) {
				if ev.Kind == DTagAny || ev.Kind == DAny || ev.Kind == DOpt {
					dest = ev.Dest
				}
			}
		}
		if dest == "" || len(pi.consts) == len(t.all) {
			continue
		}
		for _, c := range pi.consts {
			if prev, ok := t.field[c]; ok && prev != dest {
				r.Bad("C14.G2", "decode/"+t.name[c], fn.Pos(), "key format %s is decoded into two different fields (%s, %s)", t.name[c], prev, dest)
			}
			t.field[c] = dest
		}
	}
	for _, c := range t.all {
		key := "decode/" + t.name[c]
		if f, ok := t.field[c]; ok {
			r.OK("C14.G2", key, fn.Pos(), "format %s -> KeyMaterial.%s", t.name[c], f)
		} else {
			r.Trivial("C14.G2", key, fn.Pos(), "format %s is not decoded by the library (error)", t.name[c])
		}
	}
	return t
}

// materialFieldsRead: KeyMaterial fields read in a block (Field on a KeyMaterial value / FieldAddr on a KeyMaterial variable),
// plus "Bytes" for a call of KeyBlock.GetBytes.
func materialFieldsRead(b *ssa.BasicBlock) []string {
	var out []string
	for _, in := range b.Instrs {
		switch x := in.(type) {
		case *ssa.Field:
			if typeName(x.X.Type()) == "KeyMaterial" {
				out = append(out, fname(x.X.Type().Underlying().(*types.Struct).Field(x.Field)))
			}
		case *ssa.FieldAddr:
			if typeName(x.X.Type()) == "KeyMaterial" {
				out = append(out, fname(derefStruct(x.X.Type()).Field(x.Field)))
			}
		case *ssa.Call:
			if callID(&x.Call).is(modPath, "KeyBlock", "GetBytes") {
				out = append(out, "Bytes")
			}
		}
	}
	return out
}

func c14G2Accessors(r *Run, t *formatTable) {
	p := r.P
	for _, acc := range [][2]string{{"PublicKey", "RSA"}, {"PublicKey", "ECDSA"}, {"PrivateKey", "RSA"}, {"PrivateKey", "ECDSA"}, {"SymmetricKey", "KeyMaterial"}, {"SecretData", "Data"}} {
		fn := p.Func("", acc[0], acc[1])
		if fn == nil {
			r.Unk("C14.G2", "accessor/"+acc[0]+"."+acc[1], token.NoPos, "anchor missing")
			continue
		}
		isDisc := func(v ssa.Value) bool {
			u, ok := v.(*ssa.UnOp)
			if !ok {
				return false
			}
			_, fld, ok := fieldAddrOf(u.X)
			return ok && fname(fld) == "KeyFormatType"
		}
		perFormat := map[int64]map[string]bool{}
		for _, pi := range discriminantPaths(fn, isDisc, t.all) {
			if len(pi.consts) == len(t.all) || len(pi.consts) == 0 {
				continue
			}
			reads := map[string]bool{}
			for _, b := range pi.blocks {
				for _, f := range materialFieldsRead(b) {
					reads[f] = true
				}
			}
			if len(reads) == 0 {
				continue
			}
			for _, c := range pi.consts {
				if perFormat[c] == nil {
					perFormat[c] = map[string]bool{}
					for f := range reads {
						perFormat[c][f] = true
					}
				} else {
					// keep the intersection over paths: fields read on every path for this format
					for f := range perFormat[c] {
						if !reads[f] {
							delete(perFormat[c], f)
						}
					}
				}
			}
		}
		var cs []int64
		for c := range perFormat {
			cs = append(cs, c)
		}
		sort.Slice(cs, func(i, j int) bool { return cs[i] < cs[j] })
		for _, c := range cs {
			key := fmt.Sprintf("accessor/%s.%s/%s", acc[0], acc[1], t.name[c])
			want, known := t.field[c]
			var got []string
			for f := range perFormat[c] {
				got = append(got, f)
			}
			sort.Strings(got)
			switch {
			case !known:
				r.Bad("C14.G2", key, fn.Pos(), "%s.%s handles key format %s, which KeyMaterial.decode does not decode", acc[0], acc[1], t.name[c])
			case !perFormat[c][want]:
				r.Bad("C14.G2", key, fn.Pos(), "for key format %s the decoder fills KeyMaterial.%s but %s.%s reads %v: the accessor looks at a part that is always empty for this format", t.name[c], want, acc[0], acc[1], got)
			default:
				r.OK("C14.G2", key, fn.Pos(), "format %s: reads KeyMaterial.%s, the field the decoder fills", t.name[c], want)
			}
		}
		if len(cs) == 0 {
			r.Unk("C14.G2", "accessor/"+acc[0]+"."+acc[1], fn.Pos(), "no key-format case recognised")
		}
	}
}

func c14G2Builders(r *Run, t *formatTable) {
	p := r.P
	n := 0
	for _, fn := range pkgFuncs(p, "kmipclient") {
		if idOf(fn).recv != "ExecRegisterWantType" || fn.Parent() != nil {
			continue
		}
		// (a) rawKeyBytes(..., format const, ...) call sites: Bytes
		ord := 0
		allInstrs(fn, func(in ssa.Instruction) {
			call, ok := in.(*ssa.Call)
			if !ok || !callID(&call.Call).is(cliPath, "ExecRegisterWantType", "rawKeyBytes") {
				return
			}
			for _, a := range call.Call.Args {
				if typeName(a.Type()) != "KeyFormatType" {
					continue
				}
				k, ok := constIntVal(a)
				if !ok {
					continue
				}
				n++
				ord++
				key := fmt.Sprintf("builder/%s/raw#%d:%s", fnKey(fn), ord, t.name[k])
				if t.field[k] == "Bytes" {
					r.OK("C14.G2", key, call.Pos(), "format %s registered with raw bytes, decoded into KeyMaterial.Bytes", t.name[k])
				} else {
					r.Bad("C14.G2", key, call.Pos(), "the builder registers raw bytes under key format %s, which the decoder reads into KeyMaterial.%s: the registered key cannot be extracted", t.name[k], t.field[k])
				}
			}
		})
		// (b) KeyBlock literals with a KeyFormatType store and KeyMaterial field stores, per path
		var fmtStores []*ssa.Store
		allInstrs(fn, func(in ssa.Instruction) {
			if st, ok := in.(*ssa.Store); ok {
				if _, fld, ok := fieldAddrOf(st.Addr); ok && fname(fld) == "KeyFormatType" && typeName(st.Addr.(*ssa.FieldAddr).X.Type()) == "KeyBlock" {
					fmtStores = append(fmtStores, st)
				}
			}
		})
		if len(fmtStores) == 0 || fnKey(fn) == "kmipclient.ExecRegisterWantType.rawKeyBytes" {
			continue
		}
		paths, ok := enumeratePaths(fn, 4096)
		if !ok {
			r.Unk("C14.G2", "builder/"+fnKey(fn), fn.Pos(), "too many paths")
			continue
		}
		seenPair := map[string]bool{}
		for _, path := range paths {
			on := map[*ssa.BasicBlock]int{}
			for i, b := range path {
				on[b] = i
			}
			for _, st := range fmtStores {
				if _, ok := on[st.Block()]; !ok {
					continue
				}
				// resolve the stored format along the path
				v := st.Val
				for d := 0; d < 6; d++ {
					ph, ok := v.(*ssa.Phi)
					if !ok {
						break
					}
					idx := on[ph.Block()]
					if idx == 0 {
						break
					}
					pi := predIndex(ph.Block(), path[idx-1])
					if pi < 0 {
						break
					}
					v = ph.Edges[pi]
				}
				k, ok := constIntVal(v)
				if !ok {
					continue
				}
				// material fields stored with a non-nil value on this path (in blocks up to the format store)
				fields := map[string]bool{}
				for _, b := range path {
					for _, in := range b.Instrs {
						s2, ok := in.(*ssa.Store)
						if !ok || isNilConst(s2.Val) {
							continue
						}
						if fa, ok := s2.Addr.(*ssa.FieldAddr); ok && typeName(fa.X.Type()) == "KeyMaterial" {
							fields[fname(derefStruct(fa.X.Type()).Field(fa.Field))] = true
						}
					}
				}
				var fs []string
				for f := range fields {
					fs = append(fs, f)
				}
				sort.Strings(fs)
				pair := fmt.Sprintf("%d|%s", k, strings.Join(fs, ","))
				if seenPair[pair] || len(fs) == 0 {
					continue
				}
				seenPair[pair] = true
				n++
				key := fmt.Sprintf("builder/%s/%s", fnKey(fn), t.name[k])
				want := t.field[k]
				if len(fs) == 1 && fs[0] == want {
					r.OK("C14.G2", key, st.Pos(), "format %s set together with KeyMaterial.%s", t.name[k], want)
				} else {
					r.Bad("C14.G2", key, st.Pos(), "on one path the builder sets key format %s but populates KeyMaterial.%v; the decoder fills KeyMaterial.%s for that format, so the key registered this way is not the key extracted", t.name[k], fs, want)
				}
			}
		}
	}
	if n < 10 {
		r.Unk("C14.G2", "builders", token.NoPos, "%d (format, material) pairs found in the register builders, at least 10 expected", n)
	}
}

// ---------------------------------------------------------------- G3

func c14G3(r *Run) {
	p := r.P
	r.Rule("C14.G3", "EC representation switches at 1.3: CompareVersions(client.Version(), V1_3) >= 0 selects the TransparentEC* formats", 2)
	for _, name := range []string{"EcdsaPrivateKey", "EcdsaPublicKey"} {
		fn := p.Func("kmipclient", "ExecRegisterWantType", name)
		key := "kmipclient.ExecRegisterWantType." + name + "/version-switch"
		if fn == nil {
			r.Unk("C14.G3", key, token.NoPos, "anchor missing")
			continue
		}
		var cmp *ssa.BinOp
		allInstrs(fn, func(in ssa.Instruction) {
			bo, ok := in.(*ssa.BinOp)
			if !ok {
				return
			}
			c, ok := bo.X.(*ssa.Call)
			if !ok {
				return
			}
			if f := c.Call.StaticCallee(); f != nil && f.Origin() != nil && f.Origin().Name() == "CompareVersions" {
				cmp = bo
			}
		})
		if cmp == nil {
			r.Bad("C14.G3", key, fn.Pos(), "the builder no longer chooses the EC representation from the negotiated version")
			continue
		}
		call := cmp.X.(*ssa.Call)
		k, _ := constIntVal(cmp.Y)
		// second argument: kmip.V1_3
		v13 := false
		if u, ok := call.Call.Args[1].(*ssa.UnOp); ok {
			if g, ok := u.X.(*ssa.Global); ok && g.Name() == "V1_3" {
				v13 = true
			}
		}
		fromClient := false
		if c2, ok := call.Call.Args[0].(*ssa.Call); ok && callID(&c2.Call).is(cliPath, "Client", "Version") {
			fromClient = true
		}
		// formats stored on the true edge
		var trueFormats, falseFormats []string
		reg := BuildRegistry(p)
		names := map[int64]string{}
		for _, e := range reg.Enums {
			if e.Type.Obj().Name() == "KeyFormatType" {
				for _, v := range e.Values {
					names[int64(v.Num)] = v.Name
				}
			}
		}
		allInstrs(fn, func(in ssa.Instruction) {
			ph, ok := in.(*ssa.Phi)
			if !ok || typeName(ph.Type()) != "KeyFormatType" {
				return
			}
			for i, e := range ph.Edges {
				kc, ok := constIntVal(e)
				if !ok {
					continue
				}
				pred := ph.Block().Preds[i]
				onTrue := false
				for _, dc := range dominatingConds(pred) {
					if dc.cond == ssa.Value(cmp) && dc.outcome {
						onTrue = true
					}
				}
				if pred == cmp.Block() {
					// the fall-through edge from the test block is the false edge when the true edge goes to the then-block
					onTrue = false
				}
				if onTrue {
					trueFormats = append(trueFormats, names[kc])
				} else {
					falseFormats = append(falseFormats, names[kc])
				}
			}
		})
		okDir := cmp.Op == token.GEQ && k == 0
		okFmt := len(trueFormats) == 1 && strings.HasPrefix(trueFormats[0], "TransparentEC") && !strings.HasPrefix(trueFormats[0], "TransparentECDSA") &&
			len(falseFormats) == 1 && strings.HasPrefix(falseFormats[0], "TransparentECDSA")
		switch {
		case !v13 || !fromClient:
			r.Bad("C14.G3", key, cmp.Pos(), "the version test does not compare the client's negotiated version with kmip.V1_3")
		case !okDir:
			r.Bad("C14.G3", key, cmp.Pos(), "the version test is `%s %d` instead of `>= 0`: the 1.3 representation is chosen for the wrong versions", cmp.Op, k)
		case !okFmt:
			r.Bad("C14.G3", key, cmp.Pos(), "formats selected: %v at >= 1.3, %v below; expected TransparentEC* at >= 1.3 and TransparentECDSA* below", trueFormats, falseFormats)
		default:
			r.OK("C14.G3", key, cmp.Pos(), "%s at >= 1.3, %s below", trueFormats[0], falseFormats[0])
		}
	}
}

// ---------------------------------------------------------------- G4

// curveCases extracts (RecommendedCurve constant <-> elliptic.PNNN function) pairs from a function.
func curveCases(fn *ssa.Function, byCurveConst bool) map[int64]string {
	out := map[int64]string{}
	if fn == nil {
		return out
	}
	allInstrs(fn, func(in ssa.Instruction) {
		if byCurveConst {
			// case RecommendedCurveX: curve = elliptic.PNNN()
			call, ok := in.(*ssa.Call)
			if !ok {
				return
			}
			id := callID(&call.Call)
			if id.pkg != "crypto/elliptic" || !strings.HasPrefix(id.name, "P") {
				return
			}
			for _, dc := range dominatingConds(call.Block()) {
				if bo, ok := dc.cond.(*ssa.BinOp); ok && dc.outcome && bo.Op == token.EQL && typeName(bo.X.Type()) == "RecommendedCurve" {
					if k, ok := constIntVal(bo.Y); ok {
						out[k] = id.name
					}
				}
			}
			return
		}
		// case elliptic.PNNN(): crv = RecommendedCurveX  -> a phi edge constant under `curve == elliptic.PNNN()`
		ph, ok := in.(*ssa.Phi)
		if !ok || typeName(ph.Type()) != "RecommendedCurve" {
			return
		}
		for i, e := range ph.Edges {
			k, ok := constIntVal(e)
			if !ok {
				continue
			}
			pred := ph.Block().Preds[i]
			conds := dominatingConds(pred)
			// the edge itself may be the true edge of the test in pred's dominator
			if c, isTrue, ok := edgeTaken(pred, ph.Block()); ok {
				conds = append(conds, domCond{c, isTrue, pred})
			}
			for _, dc := range conds {
				bo, ok := dc.cond.(*ssa.BinOp)
				if !ok || !dc.outcome || bo.Op != token.EQL {
					continue
				}
				for _, side := range []ssa.Value{bo.X, bo.Y} {
					if c, ok := side.(*ssa.Call); ok && callID(&c.Call).pkg == "crypto/elliptic" {
						if _, dup := out[k]; !dup {
							out[k] = callID(&c.Call).name
						}
					}
				}
			}
		}
	})
	return out
}

func c14G4(r *Run) {
	p := r.P
	r.Rule("C14.G4", "curve tables: the builder's curve -> KMIP map and the accessors' KMIP -> curve maps are inverse over the same curves", 3)
	b := curveCases(p.Func("kmipclient", "", "curveToKMIP"), false)
	for _, acc := range [][2]string{{"PublicKey", "ECDSA"}, {"PrivateKey", "ECDSA"}} {
		a := curveCases(p.Func("", acc[0], acc[1]), true)
		key := "curves/" + acc[0] + "." + acc[1]
		if len(a) == 0 || len(b) == 0 {
			r.Unk("C14.G4", key, token.NoPos, "curve switch not recognised (accessor %d cases, builder %d cases)", len(a), len(b))
			continue
		}
		bad := ""
		for k, fnA := range a {
			if fnB, ok := b[k]; !ok {
				bad = fmt.Sprintf("the accessor accepts curve constant %d (elliptic.%s) that the builder never produces", k, fnA)
			} else if fnA != fnB {
				bad = fmt.Sprintf("curve constant %d is produced from elliptic.%s by the builder but mapped to elliptic.%s by the accessor", k, fnB, fnA)
			}
		}
		for k, fnB := range b {
			if _, ok := a[k]; !ok {
				bad = fmt.Sprintf("the builder registers elliptic.%s as curve constant %d, which the accessor rejects", fnB, k)
			}
		}
		if bad != "" {
			r.Bad("C14.G4", key, token.NoPos, "%s", bad)
		} else {
			r.OK("C14.G4", key, token.NoPos, "%d curves, same constants both ways", len(a))
		}
	}
	// Bitlen covers the builder's curves with the curve's size
	bl := curveCasesBitlen(p.Func("", "RecommendedCurve", "Bitlen"))
	want := map[string]int64{"P224": 224, "P256": 256, "P384": 384, "P521": 521}
	bad := ""
	for k, fn := range b {
		if bl[k] != want[fn] {
			bad = fmt.Sprintf("Bitlen() of the constant for elliptic.%s is %d, expected %d", fn, bl[k], want[fn])
		}
	}
	if len(b) == 0 || len(bl) == 0 {
		r.Unk("C14.G4", "curves/Bitlen", token.NoPos, "Bitlen table not recognised")
	} else if bad != "" {
		r.Bad("C14.G4", "curves/Bitlen", token.NoPos, "%s", bad)
	} else {
		r.OK("C14.G4", "curves/Bitlen", token.NoPos, "Bitlen agrees with the size of the %d curves the builder supports", len(b))
	}
}

func curveCasesBitlen(fn *ssa.Function) map[int64]int64 {
	out := map[int64]int64{}
	if fn == nil {
		return out
	}
	paths, ok := enumeratePaths(fn, 100000)
	if !ok {
		return out
	}
	for _, path := range paths {
		last := path[len(path)-1]
		ret := last.Instrs[len(last.Instrs)-1].(*ssa.Return)
		v, ok := constIntVal(ret.Results[0])
		if !ok {
			continue
		}
		// the last true equality edge on the path names the constant
		for i := len(path) - 2; i >= 0; i-- {
			cond, isTrue, ok := edgeTaken(path[i], path[i+1])
			if !ok {
				continue
			}
			if bo, ok := cond.(*ssa.BinOp); ok && bo.Op == token.EQL && isTrue {
				if k, ok := constIntVal(bo.Y); ok {
					out[k] = v
				}
				break
			}
		}
	}
	return out
}

// ---------------------------------------------------------------- G5

// c14PanicCallees: standard-library calls that panic on a value-dependent condition of their operands. Inside an
// accessor the operands come from the server, so each call needs a dominating test that mentions the size/sign of
// the operand (a call of BitLen, Cmp, CmpAbs, Sign or len(x.Bytes()) on the same access path).
var c14PanicCallees = map[string]struct {
	operand int // index in Call.Args (receiver = 0) of the value whose magnitude decides the panic
	why     string
}{
	"math/big.Int.FillBytes": {0, "panics when the value does not fit the buffer"},
	"math/big.Int.Div":       {2, "panics on a zero divisor"},
	"math/big.Int.Mod":       {2, "panics on a zero divisor"},
	"math/big.Int.Quo":       {2, "panics on a zero divisor"},
	"math/big.Int.Rem":       {2, "panics on a zero divisor"},
	"math/big.Int.DivMod":    {2, "panics on a zero divisor"},
	"math/big.Int.QuoRem":    {2, "panics on a zero divisor"},
	"math/big.Int.Sqrt":      {1, "panics on a negative operand"},
	"math/big.Int.SetBit":    {1, "panics on a negative operand"},
}

func c14G5(r *Run) {
	r.Rule("C14.G5", "accessors: a standard-library call that panics on the magnitude of a server-supplied big integer (FillBytes, Div/Mod/Quo/Rem, Sqrt) is dominated by a size/sign test on that operand", 0)
	sizeProbe := map[string]bool{"BitLen": true, "Cmp": true, "CmpAbs": true, "Sign": true, "Bytes": true, "IsInt64": true, "IsUint64": true}
	n := 0
	for _, fn := range c14Scope(r.P) {
		ord := map[string]int{}
		allInstrs(fn, func(in ssa.Instruction) {
			c, ok := in.(*ssa.Call)
			if !ok {
				return
			}
			sc := c.Call.StaticCallee()
			if sc == nil {
				return
			}
			id := idOf(sc)
			ent, ok := c14PanicCallees[id.pkg+"."+id.recv+"."+id.name]
			if !ok || ent.operand >= len(c.Call.Args) {
				return
			}
			n++
			opnd := c.Call.Args[ent.operand]
			k := fmt.Sprintf("%s/%s.%s", fnKey(fn), id.recv, id.name)
			ord[k]++
			key := fmt.Sprintf("%s#%d", k, ord[k])
			guarded := false
			for _, dc := range dominatingConds(in.Block()) {
				// the condition (transitively through arithmetic/len/comparison) contains a probe call on the operand
				var has func(v ssa.Value, d int) bool
				has = func(v ssa.Value, d int) bool {
					if d > 6 || v == nil {
						return false
					}
					switch x := v.(type) {
					case *ssa.BinOp:
						return has(x.X, d+1) || has(x.Y, d+1)
					case *ssa.UnOp:
						return has(x.X, d+1)
					case *ssa.Convert:
						return has(x.X, d+1)
					case *ssa.Call:
						if pc := x.Call.StaticCallee(); pc != nil && len(x.Call.Args) > 0 {
							pid := idOf(pc)
							if pid.pkg == "math/big" && sizeProbe[pid.name] {
								for _, a := range x.Call.Args {
									if sameSlice(stripPtrConv(a), stripPtrConv(opnd)) {
										return true
									}
								}
							}
						}
						if b, ok := x.Call.Value.(*ssa.Builtin); ok && b.Name() == "len" {
							return has(x.Call.Args[0], d+1)
						}
					}
					return false
				}
				if has(dc.cond, 0) {
					guarded = true
				}
			}
			if guarded {
				r.OK("C14.G5", key, in.Pos(), "%s.%s under a dominating size/sign test of its operand", id.recv, id.name)
			} else {
				r.Bad("C14.G5", key, in.Pos(), "%s calls big.%s.%s, which %s, on key material without a dominating BitLen/Cmp/Sign test of that operand: a key of a size the code did not foresee (P-521 scalars need 66 bytes, a hostile value is larger than the curve order) makes the accessor panic instead of returning the key or an error", fnKey(fn), id.recv, id.name, ent.why)
			}
		})
	}
	if n == 0 {
		r.Trivial("C14.G5", "accessors/no-magnitude-panic-calls", token.NoPos, "no accessor calls a magnitude-sensitive math/big routine (FillBytes, Div, Mod, Quo, Rem, DivMod, QuoRem, Sqrt, SetBit)")
	}
}

// c14G6: the transport accessors (GetResponsePayload.PrivateKey, .PublicKey, .X509Certificate, ...) find the
// object's accessor through a type assertion to a structural interface. The assertion and the methods live in
// different packages; when a method's signature drifts the assertion silently stops matching and the accessor
// fails for every key. For each assertion of a kmip.Object-typed value to an interface: some object type implements
// it (when none does, a type that has the method names with another signature is named in the report).
func c14G6(r *Run) {
	p := r.P
	r.Rule("C14.G6", "structural interface assertions on transported objects are satisfied by the object types they name", 6)
	root := p.Pkg("")
	if root == nil {
		r.Unk("C14.G6", "kmip", token.NoPos, "package missing")
		return
	}
	objT, _ := root.Types.Scope().Lookup("Object").(*types.TypeName)
	if objT == nil {
		r.Unk("C14.G6", "kmip.Object", token.NoPos, "anchor missing")
		return
	}
	objI, _ := objT.Type().Underlying().(*types.Interface)
	var impls []types.Type
	for _, name := range root.Types.Scope().Names() {
		tn, ok := root.Types.Scope().Lookup(name).(*types.TypeName)
		if !ok || tn.IsAlias() {
			continue
		}
		if _, isI := tn.Type().Underlying().(*types.Interface); isI {
			continue
		}
		pt := types.NewPointer(tn.Type())
		if objI != nil && types.Implements(pt, objI) {
			impls = append(impls, pt)
		}
	}
	n := 0
	perFn := map[*ssa.Function]int{}
	for _, fn := range p.OwnFuncs() {
		if fn.Pkg == nil {
			continue
		}
		rel := relPkg(fn.Pkg.Pkg.Path())
		if rel != "payloads" && rel != "kmipclient" && rel != "" && rel != "." {
			continue
		}
		allInstrs(fn, func(in ssa.Instruction) {
			ta, ok := in.(*ssa.TypeAssert)
			if !ok {
				return
			}
			want, ok := ta.AssertedType.Underlying().(*types.Interface)
			if !ok || want.NumMethods() == 0 {
				return
			}
			if !types.Identical(ta.X.Type(), objT.Type()) {
				return
			}
			if _, named := types.Unalias(ta.AssertedType).(*types.Named); named && typePkgPath(ta.AssertedType) == modPath {
				return // a named interface of the module: implementers are checked by the compiler where they are used
			}
			n++
			perFn[fn]++
			key := fmt.Sprintf("%s/assert#%d", fnKey(fn), perFn[fn])
			some, drift := false, ""
			for _, it := range impls {
				if types.Implements(it, want) {
					some = true
					continue
				}
				ms := types.NewMethodSet(it)
				all := true
				for i := 0; i < want.NumMethods(); i++ {
					if ms.Lookup(want.Method(i).Pkg(), want.Method(i).Name()) == nil {
						all = false
					}
				}
				if all {
					drift = types.TypeString(it, func(*types.Package) string { return "" })
				}
			}
			names := []string{}
			for i := 0; i < want.NumMethods(); i++ {
				names = append(names, want.Method(i).Name())
			}
			switch {
			case !some && drift != "":
				r.Bad("C14.G6", key, ta.Pos(), "%s asserts the object to an interface with method(s) %s, and %s has method(s) of that name with another signature: the assertion silently fails, so the accessor reports that the object has no such method for every key of that type", fnKey(fn), strings.Join(names, ", "), drift)
			case !some:
				r.Bad("C14.G6", key, ta.Pos(), "%s asserts the object to an interface with method(s) %s that no object type implements: the accessor can never succeed", fnKey(fn), strings.Join(names, ", "))
			default:
				r.OK("C14.G6", key, ta.Pos(), "interface {%s} is implemented by an object type", strings.Join(names, ", "))
			}
		})
	}
	if n == 0 {
		r.Unk("C14.G6", "assertions", token.NoPos, "no structural assertion on a transported object found")
	}
}

// c14G7: the RSA accessor refuses a transparent private key only for parts crypto/rsa cannot do without (modulus,
// public and private exponent). The primes and the three CRT values are optional in KMIP (2.1.7.4) and for Go:
// rsa.PrivateKey.Precompute recomputes Dp, Dq and Qinv and tolerates absent primes, so a key registered from an
// rsa.PrivateKey that was never precomputed — or stored by a server that keeps only (N, E, D) — extracts fine. No
// error return of the accessor is controlled by the absence of one of those optional parts.
func c14G7(r *Run) {
	p := r.P
	r.Rule("C14.G7", "PrivateKey.RSA rejects a transparent key only for a missing mandatory part (not for absent primes or CRT values)", 1)
	fn := p.Func("", "PrivateKey", "RSA")
	key := "kmip.PrivateKey.RSA/optional-parts"
	if fn == nil {
		r.Unk("C14.G7", key, token.NoPos, "anchor missing")
		return
	}
	optional := map[string]bool{"P": true, "Q": true, "PrimeExponentP": true, "PrimeExponentQ": true, "CRTCoefficient": true}
	bad, what := token.NoPos, ""
	for _, b := range fn.Blocks {
		ret, ok := b.Instrs[len(b.Instrs)-1].(*ssa.Return)
		if !ok || len(ret.Results) != 2 || isNilConst(ret.Results[1]) {
			continue
		}
		if _, isCall := ret.Results[1].(*ssa.Call); !isCall {
			if _, isMI := ret.Results[1].(*ssa.MakeInterface); !isMI {
				continue
			}
		}
		// the tests that lead straight into this return (an `a == nil || b == nil` chain reaches it from several blocks)
		for _, pr := range b.Preds {
			cond, isTrue, ok := edgeTaken(pr, b)
			if !ok {
				continue
			}
			bo, ok := cond.(*ssa.BinOp)
			if !ok || !isNilConst(bo.Y) || (bo.Op == token.EQL) != isTrue || (bo.Op != token.EQL && bo.Op != token.NEQ) {
				continue
			}
			if ld, ok := bo.X.(*ssa.UnOp); ok && ld.Op == token.MUL {
				if fa, ok := ld.X.(*ssa.FieldAddr); ok {
					if _, fld, ok := fieldAddrOf(ld.X); ok && optional[fname(fld)] && typeName(fa.X.Type()) == "TransparentRSAPrivateKey" {
						bad, what = ret.Pos(), fname(fld)
					}
				}
			}
		}
	}
	if bad.IsValid() {
		r.Bad("C14.G7", key, bad, "PrivateKey.RSA returns an error when the optional part %s of a transparent RSA private key is absent: a valid key made of modulus and exponents only (an rsa.PrivateKey never precomputed, or a server that stores just N, E, D) is registered and transported but can no longer be extracted", what)
	} else {
		r.OK("C14.G7", key, fn.Pos(), "no error return is controlled by the absence of P, Q, PrimeExponentP, PrimeExponentQ or CRTCoefficient")
	}
}
