package main

// C02 — decoders never panic, hang, over-read or mutate on arbitrary input.

import (
	"fmt"
	"go/constant"
	"go/token"
	"go/types"
	"sort"
	"strings"

	"golang.org/x/tools/go/ssa"
)

// functions whose inputs are reflect.Type / struct tags only: their failures
// are plan failures, decided for every repository type by C01.P1.
var planTimeFuncs = map[string]string{
	"ttlv.decodeFunc":                     "dispatch on reflect.Type only",
	"ttlv.decodeFuncFor":                  "cache lookup by reflect.Type",
	"ttlv.buidStructDecodeFunc":           "struct plan from field types and tags",
	"ttlv.getFieldInfo":                   "struct tag",
	"ttlv.parseFieldInfo":                 "struct tag",
	"ttlv.getFieldTag":                    "struct tag / field name / field type",
	"ttlv.parseVersionRange":              "struct tag",
	"ttlv.parseVersion":                   "struct tag",
	"ttlv.applySetVersionDecode":          "field type",
	"ttlv.applyOmitEmptyDecode":           "wrapper construction",
	"ttlv.applyVersionRangeDecode":        "wrapper construction",
	"ttlv.buildPointerDecodeFunc":         "element type",
	"ttlv.buildSliceDecodeFunc":           "element type",
	"ttlv.buildTagDecodableDecodeFunc":    "type",
	"ttlv.buildPtrTagDecodableDecodeFunc": "type",
	"ttlv.buildEnumDecodeFunc":            "type",
	"ttlv.buildBitmaskDecodeFunc":         "type",
	"ttlv.getTagForType":                  "reflect.Type",
	"ttlv.getTagForValue":                 "reflect.Type of the destination",
	"ttlv.getTagByName":                   "registry lookup",
}

type c02ctx struct {
	r   *Run
	p   *Program
	D   map[*ssa.Function]bool
	fns []*ssa.Function
	ord map[string]int
}

func (c *c02ctx) key(fn *ssa.Function, kind string) string {
	k := fnKey(fn) + "/" + kind
	c.ord[k]++
	return fmt.Sprintf("%s#%d", k, c.ord[k])
}

func runC02(r *Run, verifDir string) {
	p := r.P
	c := &c02ctx{r: r, p: p, ord: map[string]int{}}
	c.D = repoReach(p, decodeRoots(p))
	for f := range c.D {
		c.fns = append(c.fns, f)
	}
	sort.Slice(c.fns, func(i, j int) bool {
		if fnKey(c.fns[i]) != fnKey(c.fns[j]) {
			return fnKey(c.fns[i]) < fnKey(c.fns[j])
		}
		return c.fns[i].Pos() < c.fns[j].Pos()
	})
	r.Extra["functions_analysed"] = len(c.fns)
	r.Explain = append(r.Explain,
		fmt.Sprintf("C02 is decided over the decode-side function set D (%d repository functions reachable, through the VTA call graph, from the three Unmarshal entry points, every Decoder/reader method, Stream.Recv and every hand-written decoder).", len(c.fns)),
		"R1: every explicit panic in D is an obligation, discharged only when its guard depends on reflect.Type/struct tags alone (plan panics, covered for all repository types by C01.P1). R2: every panicking type assertion in D is discharged only by a structural proof of the operand's dynamic type. R3: reader typestate — every ttlvReader value is validated (error checked) before it can be read or escape, Next ends in validate. R4: every indexing/slicing of input-derived data is dominated by a sufficient length guard, or covered by the validated-typestate invariant together with the per-type length table recognised in validate(). R5: no store/append through a slice that may alias the input. R6: every loop consumes input on every iteration or is a bounded range; every typed read advances. R7: no error of a reader method is dropped.")
	r.Assume = append(r.Assume, "VTA call graph over-approximates calls between repository functions; reflection-driven dispatch enters D through explicit roots (all plan closures, all methods taking *ttlv.Decoder)", "the standard library (encoding/xml, encoding/json, reflect.Set*, math/big) does not panic on the values it is handed; reflect kind mismatches are excluded for repository types by C01", "dominance-based (path-insensitive) guards; an idiom the rule cannot read is reported as undecided and fails the check")
	r.NotCov = append(r.NotCov, "panics inside encoding/xml, encoding/json, reflect", "memory exhaustion", "termination beyond the per-loop progress rule (no ranking functions)", "determinism is claimed under C20")

	c.r1Panics()
	c.r2Asserts()
	c.r3Typestate()
	c.r4Indexing()
	c.r5NoWrite()
	c.r6Loops()
	c.r7Errors()
	c.r8FailStop()
	c.r9LengthArith()
	c.r10Allocs()
}

func isPlanTime(fn *ssa.Function) (string, bool) {
	why, ok := planTimeFuncs[fnKey(fn)]
	return why, ok
}

// ---------------------------------------------------------------- R1

func (c *c02ctx) r1Panics() {
	r := c.r
	r.Rule("C02.R1", "explicit panic sites reachable while decoding: only type-plan panics (guard depends on reflect.Type / struct tags) are allowed", 8)
	for _, fn := range c.fns {
		allInstrs(fn, func(in ssa.Instruction) {
			pn, ok := in.(*ssa.Panic)
			if !ok {
				return
			}
			// the protocol checks the compiler generates around a range-over-func loop (iterator resumed after exit,
			// yield called after return): they guard the iterator, not the input
			if cm := pn.Block().Comment; strings.HasPrefix(cm, "rangefunc.") || strings.HasPrefix(cm, "yield-") || fn.Synthetic == "range-over-func yield" && !pn.Pos().IsValid() {
				return
			}
			key := c.key(fn, "panic")
			if why, ok := isPlanTime(fn); ok {
				r.OK("C02.R1", key, pn.Pos(), "plan-time panic (%s): decided for every repository type by C01.P1", why)
				return
			}
			switch fnKey(fn) {
			case "ttlv.Decoder.decodeValue":
				// panics when the destination is not a pointer: depends on the static type handed by the caller
				r.OK("C02.R1", key, pn.Pos(), "guard is value.Kind() != reflect.Pointer on the caller-supplied destination: a property of the destination's type, not of the input (all repository call sites pass pointers, C01.P1/P4)")
				return
			case "ttlv.Decoder.Any":
				r.OK("C02.R1", key, pn.Pos(), "panics when the destination type has no default tag: depends on the destination's type only (C01.P1)")
				return
			}
			if strings.HasPrefix(fnKey(fn), "ttlv.buildPtrTagDecodableDecodeFunc$") {
				r.OK("C02.R1", key, pn.Pos(), "guard is !v.CanAddr(): addressability is a property of where the type occurs (C01.P1 addressability obligation)")
				return
			}
			r.Bad("C02.R1", key, pn.Pos(), "panic reachable while decoding untrusted input in %s: the guard depends on the input, so a crafted message crashes the process (the server decodes in a goroutine without recover)", fnKey(fn))
		})
	}
}

// ---------------------------------------------------------------- R2

func (c *c02ctx) r2Asserts() {
	r, p := c.r, c.p
	r.Rule("C02.R2", "panicking type assertions reachable while decoding: the operand must provably have the asserted type", 7)
	reg := BuildRegistry(p)
	root := p.Pkg("")
	var opIface, objIface *types.Interface
	if o := root.Types.Scope().Lookup("OperationPayload"); o != nil {
		opIface, _ = o.Type().Underlying().(*types.Interface)
	}
	if o := root.Types.Scope().Lookup("Object"); o != nil {
		objIface, _ = o.Type().Underlying().(*types.Interface)
	}
	for _, fn := range c.fns {
		allInstrs(fn, func(in ssa.Instruction) {
			ta, ok := in.(*ssa.TypeAssert)
			if !ok || ta.CommaOk {
				return
			}
			key := c.key(fn, "assert")
			k := fnKey(fn)
			src := stripConv(ta.X)
			// (a) value loaded from a sync.Map that only ever stores that func type
			if cl, ok := ta.X.(*ssa.Extract); ok {
				if call, ok := cl.Tuple.(*ssa.Call); ok && cl.Index == 0 && (callID(&call.Call).is("sync", "Map", "Load") || callID(&call.Call).is("sync", "Map", "LoadOrStore") || callID(&call.Call).is("sync", "Map", "Swap")) {
					if g := globalOf(call.Call.Args[0]); g != nil {
						okAll, n := true, 0
						for _, f2 := range p.OwnFuncs() {
							allInstrs(f2, func(in2 ssa.Instruction) {
								c2, ok := in2.(*ssa.Call)
								if !ok || len(c2.Call.Args) == 0 || globalOf(c2.Call.Args[0]) != g {
									return
								}
								if id2 := callID(&c2.Call); !(id2.pkg == "sync" && id2.recv == "Map" && (id2.name == "Store" || id2.name == "LoadOrStore" || id2.name == "Swap" || id2.name == "CompareAndSwap")) {
									return
								}
								n++
								if mi, ok := c2.Call.Args[len(c2.Call.Args)-1].(*ssa.MakeInterface); !ok || !types.Identical(mi.X.Type(), ta.AssertedType) {
									okAll = false
								}
							})
						}
						if okAll && n > 0 {
							r.OK("C02.R2", key, ta.Pos(), "operand is loaded from %s, whose %d Store site(s) all store a %s", g.Name(), n, ta.AssertedType)
							return
						}
					}
				}
			}
			// (b) reflect.Value.Interface() asserted to an interface the plan was chosen by (Implements check)
			if call, ok := src.(*ssa.Call); ok && callID(&call.Call).is("reflect", "Value", "Interface") {
				if it, isI := ta.AssertedType.Underlying().(*types.Interface); isI && fn.Parent() != nil {
					if implementsGuarded(p, fn.Parent(), ta.AssertedType) {
						r.OK("C02.R2", key, ta.Pos(), "plan built only for types that implement %s (Implements check guards the builder)", typeName(ta.AssertedType))
						return
					}
					_ = it
				}
				// (c) reflect.New(T).Interface().(I) where T ranges over a registry whose entries all implement I
				if rv, ok := call.Call.Args[0].(*ssa.Call); ok && callID(&rv.Call).is("reflect", "", "New") {
					switch {
					case (k == "kmip.operationPayloadTypes.newRequest" || k == "kmip.operationPayloadTypes.newResponse") && opIface != nil:
						bad := 0
						for _, o := range reg.Ops {
							if !types.Implements(types.NewPointer(o.Req), opIface) || !types.Implements(types.NewPointer(o.Resp), opIface) {
								bad++
							}
						}
						if bad == 0 && len(reg.Ops) > 0 && len(reg.Problems) == 0 {
							r.OK("C02.R2", key, ta.Pos(), "T ranges over the %d registered payload types, all of which implement OperationPayload (C06.D1)", 2*len(reg.Ops))
							return
						}
					case k == "kmip.NewObjectForType" && objIface != nil:
						bad := 0
						for _, e := range reg.Objects {
							if !types.Implements(types.NewPointer(e.Type), objIface) {
								bad++
							}
						}
						if bad == 0 && len(reg.Objects) > 0 && len(reg.Problems) == 0 {
							r.OK("C02.R2", key, ta.Pos(), "T ranges over objectTypes, all of which implement Object (C06.D2)")
							return
						}
					}
				}
			}
			// (d) s[idx].F asserted to T where idx = slices.IndexFunc(s, pred) is known non-negative and pred answers true
			// only after its own comma-ok assertion of the element's field F to T succeeded
			if why, ok := selectedByPredicate(ta); ok {
				r.OK("C02.R2", key, ta.Pos(), "%s", why)
				return
			}
			r.Bad("C02.R2", key, ta.Pos(), "unchecked type assertion to %s on a value whose dynamic type is chosen by the input (%s): a crafted message panics", ta.AssertedType, k)
		})
	}
}

func globalOf(v ssa.Value) *ssa.Global {
	for i := 0; i < 4; i++ {
		switch x := v.(type) {
		case *ssa.Global:
			return x
		case *ssa.UnOp:
			v = x.X
		default:
			return nil
		}
	}
	return nil
}

// implementsGuarded: builder is applySetVersionDecode-like (checks Implements itself and
// panics otherwise), or every call site of builder is dominated by a true Implements(TypeFor[I]) edge.
func implementsGuarded(p *Program, builder *ssa.Function, iface types.Type) bool {
	isImplCall := func(v ssa.Value) bool {
		c, ok := v.(*ssa.Call)
		if !ok {
			return false
		}
		if !c.Call.IsInvoke() || c.Call.Method.Name() != "Implements" {
			return false
		}
		// argument: reflect.TypeFor[I](), or a package-level variable initialised once with it
		if t := typeForOperand(p, c.Call.Args[0]); t != nil {
			return types.Identical(t, iface)
		}
		return false
	}
	// in the builder itself: `if !T.Implements(I) { panic }` dominating the closure creation
	self := false
	allInstrs(builder, func(in ssa.Instruction) {
		if mc, ok := in.(*ssa.MakeClosure); ok {
			for _, dc := range dominatingConds(mc.Block()) {
				if dc.outcome && isImplCall(dc.cond) {
					self = true
				}
			}
		}
	})
	if self {
		return true
	}
	// all call sites
	n, okAll := 0, true
	for _, f := range p.OwnFuncs() {
		allInstrs(f, func(in ssa.Instruction) {
			c, ok := in.(*ssa.Call)
			if !ok || c.Call.StaticCallee() != builder {
				return
			}
			n++
			found := false
			for _, dc := range dominatingConds(c.Block()) {
				if dc.outcome && isImplCall(dc.cond) {
					found = true
				}
			}
			// `a && b` conditions: the call block is reached from the block testing b, itself reached on a's true edge
			if !found {
				okAll = false
			}
		})
	}
	return n > 0 && okAll
}

// typeForOperand: v is reflect.TypeFor[T]() or a load of a package-level variable whose only assignment (in the
// package initialiser) is such a call; returns T.
func typeForOperand(p *Program, v ssa.Value) types.Type {
	if a, ok := v.(*ssa.Call); ok {
		if f := a.Call.StaticCallee(); f != nil && f.Origin() != nil && f.Origin().Name() == "TypeFor" && len(f.TypeArgs()) == 1 {
			return f.TypeArgs()[0]
		}
		return nil
	}
	ld, ok := v.(*ssa.UnOp)
	if !ok {
		return nil
	}
	g, ok := ld.X.(*ssa.Global)
	if !ok || g.Pkg == nil {
		return nil
	}
	var found types.Type
	n := 0
	for _, fn := range p.OwnFuncs() {
		allInstrs(fn, func(in ssa.Instruction) {
			st, ok := in.(*ssa.Store)
			if !ok || st.Addr != ssa.Value(g) {
				return
			}
			n++
			if !isInitFunc(fn) {
				found = nil
				n += 100
				return
			}
			if t := typeForOperand(p, st.Val); t != nil {
				found = t
			}
		})
	}
	if init := g.Pkg.Func("init"); init != nil {
		allInstrs(init, func(in ssa.Instruction) {
			st, ok := in.(*ssa.Store)
			if !ok || st.Addr != ssa.Value(g) {
				return
			}
			n++
			if c, ok := st.Val.(*ssa.Call); ok {
				if f := c.Call.StaticCallee(); f != nil && f.Origin() != nil && f.Origin().Name() == "TypeFor" && len(f.TypeArgs()) == 1 {
					found = f.TypeArgs()[0]
				}
			}
		})
	}
	if n >= 1 && n < 100 {
		return found
	}
	return nil
}

// ---------------------------------------------------------------- R3

func (c *c02ctx) r3Typestate() {
	r, p := c.r, c.p
	r.Rule("C02.R3", "every ttlvReader value is validated (error checked) before it is read or escapes; Next ends in validate", 4)
	tt := p.SSAPkg("ttlv")
	if tt == nil || tt.Type(curTypeName(ttlvPath, "ttlvReader")) == nil {
		r.Unk("C02.R3", "ttlv.ttlvReader", token.NoPos, "anchor missing")
		return
	}
	rt := tt.Type(curTypeName(ttlvPath, "ttlvReader")).Type()
	n := 0
	copiedInto := map[*ssa.Alloc]bool{}
	// pre-pass: which allocs are merely the named-local copy of a composite-literal temporary
	for _, fn := range p.OwnFuncs() {
		allInstrs(fn, func(in ssa.Instruction) {
			al, ok := in.(*ssa.Alloc)
			if !ok || !types.Identical(al.Type().(*types.Pointer).Elem(), rt) {
				return
			}
			for _, ref := range *al.Referrers() {
				if ld, ok := ref.(*ssa.UnOp); ok && ld.Op == token.MUL && len(*ld.Referrers()) == 1 {
					if st, ok := (*ld.Referrers())[0].(*ssa.Store); ok {
						if a2, ok := st.Addr.(*ssa.Alloc); ok && a2 != al && types.Identical(a2.Type(), al.Type()) {
							copiedInto[a2] = true
						}
					}
				}
			}
		})
	}
	for _, fn := range p.OwnFuncs() {
		allInstrs(fn, func(in ssa.Instruction) {
			al, ok := in.(*ssa.Alloc)
			if !ok || !types.Identical(al.Type().(*types.Pointer).Elem(), rt) {
				return
			}
			// a composite-literal temporary that is only copied into a named local is the same reader object
			group := []*ssa.Alloc{al}
			for _, ref := range *al.Referrers() {
				if ld, ok := ref.(*ssa.UnOp); ok && ld.Op == token.MUL && len(*ld.Referrers()) == 1 {
					if st, ok := (*ld.Referrers())[0].(*ssa.Store); ok {
						if a2, ok := st.Addr.(*ssa.Alloc); ok && types.Identical(a2.Type(), al.Type()) {
							group = append(group, a2)
						}
					}
				}
			}
			if copiedInto[al] {
				return
			}
			// a copy of an already existing reader (value receiver, `r := *dec`) is not a construction: it inherits the
			// state of the reader it was copied from
			isCopy, hasFieldStore := false, false
			for _, g := range group {
				for _, ref := range *g.Referrers() {
					switch x := ref.(type) {
					case *ssa.Store:
						if x.Addr == ssa.Value(g) {
							switch v := x.Val.(type) {
							case *ssa.Parameter:
								isCopy = true
							case *ssa.UnOp:
								if _, fromAlloc := v.X.(*ssa.Alloc); !fromAlloc && v.Op == token.MUL {
									isCopy = true
								}
							}
						}
					case *ssa.FieldAddr:
						for _, r2 := range *x.Referrers() {
							if st, ok := r2.(*ssa.Store); ok && st.Addr == ssa.Value(x) {
								hasFieldStore = true
							}
						}
					}
				}
			}
			if isCopy && !hasFieldStore {
				return
			}
			n++
			key := c.key(fn, "ttlvReader-literal")
			// uses
			var validate *ssa.Call
			var escapes, reads []ssa.Instruction
			var refs []ssa.Instruction
			for _, g := range group {
				for _, ref := range *g.Referrers() {
					if ld, ok := ref.(*ssa.UnOp); ok && len(group) > 1 && g == al && ld.Op == token.MUL {
						continue // the copy
					}
					if st, ok := ref.(*ssa.Store); ok && len(group) > 1 && st.Addr == ssa.Value(g) && g != al {
						continue // the copy
					}
					refs = append(refs, ref)
				}
			}
			isObj := func(v ssa.Value) bool {
				for _, g := range group {
					if v == ssa.Value(g) {
						return true
					}
				}
				return false
			}
			for _, ref := range refs {
				switch x := ref.(type) {
				case *ssa.FieldAddr:
					// initialisation stores are fine
				case *ssa.Call:
					id := callID(&x.Call)
					if id.recv == "ttlvReader" && id.pkg == ttlvPath && len(x.Call.Args) > 0 && isObj(x.Call.Args[0]) {
						if id.name == "validate" {
							validate = x
						} else {
							reads = append(reads, x)
						}
					} else {
						escapes = append(escapes, x)
					}
				case *ssa.UnOp:
					// a copy passed as the value receiver of a reader method is a read by that method
					allRecv := x.Op == token.MUL && len(*x.Referrers()) > 0
					for _, r2 := range *x.Referrers() {
						c2, ok := r2.(*ssa.Call)
						if !ok || len(c2.Call.Args) == 0 || c2.Call.Args[0] != ssa.Value(x) {
							allRecv = false
							continue
						}
						id := callID(&c2.Call)
						if id.recv != "ttlvReader" || id.pkg != ttlvPath {
							allRecv = false
						}
					}
					if !allRecv {
						escapes = append(escapes, ref)
						break
					}
					for _, r2 := range *x.Referrers() {
						c2 := r2.(*ssa.Call)
						if callID(&c2.Call).name == "validate" {
							validate = c2
						} else {
							reads = append(reads, c2)
						}
					}
				case *ssa.MakeInterface, *ssa.Return, *ssa.Store, *ssa.ChangeInterface, *ssa.MakeClosure, *ssa.Phi:
					escapes = append(escapes, ref)
				case *ssa.DebugRef:
				default:
					escapes = append(escapes, ref)
				}
			}
			if validate == nil {
				// reasoned exception: only paddedLen() after len(buf) >= 8
				if len(escapes) == 0 {
					okAll := len(reads) > 0
					for _, rd := range reads {
						call := rd.(*ssa.Call)
						if callID(&call.Call).name != "paddedLen" {
							okAll = false
							continue
						}
						// buf value stored into the literal
						var bufVal ssa.Value
						for _, ref := range refs {
							if fa, ok := ref.(*ssa.FieldAddr); ok {
								for _, r2 := range *fa.Referrers() {
									if st, ok := r2.(*ssa.Store); ok {
										bufVal = st.Val
									}
								}
							}
						}
						if bufVal == nil || lenLowerBound(bufVal, rd) < 8 {
							okAll = false
						}
					}
					if okAll {
						r.OK("C02.R3", key, al.Pos(), "unvalidated reader used only for paddedLen() under len(buf) >= 8 and never escapes")
						return
					}
				}
				r.Bad("C02.R3", key, al.Pos(), "a ttlvReader is constructed in %s and read or handed out without validate(): header and declared length of its first item are never checked against the bytes available, so the accessors index out of range on a short buffer", fnKey(fn))
				return
			}
			// the validate error must be checked, and every escape dominated by the ok edge
			var okBlock *ssa.BasicBlock
			for _, ref := range *validate.Referrers() {
				if bo, ok := ref.(*ssa.BinOp); ok && bo.Op == token.NEQ && isNilConst(bo.Y) {
					for _, r2 := range *bo.Referrers() {
						if iff, ok := r2.(*ssa.If); ok {
							okBlock = iff.Block().Succs[1]
						}
					}
				}
			}
			if okBlock == nil {
				r.Bad("C02.R3", key, validate.Pos(), "the error of validate() is not checked before the reader is used")
				return
			}
			for _, e := range append(escapes, reads...) {
				if !okBlock.Dominates(e.Block()) {
					r.Bad("C02.R3", key, e.Pos(), "the reader is used or escapes on a path where validate() has not succeeded")
					return
				}
			}
			r.OK("C02.R3", key, al.Pos(), "validate() succeeds before the reader is read or escapes (%d uses)", len(escapes)+len(reads))
		})
	}
	if n < 2 {
		r.Unk("C02.R3", "ttlvReader/literals", token.NoPos, "only %d constructions of ttlvReader found; 2 confirmed on the repaired tree (newTTLVReader, computeNeededBytes)", n)
	}
	// the nested reader of a structure is confined to the parent's declared extent
	if sf := p.Func("ttlv", "ttlvReader", "Struct"); sf != nil {
		nSub, okSub := 0, true
		allInstrs(sf, func(in ssa.Instruction) {
			var bufArg ssa.Value
			switch x := in.(type) {
			case *ssa.Call:
				if callID(&x.Call).is(ttlvPath, "", "newTTLVReader") {
					bufArg = x.Call.Args[0]
				}
			case *ssa.Store:
				if _, fld, ok := fieldAddrOf(x.Addr); ok && fname(fld) == "buf" {
					if al, ok := x.Addr.(*ssa.FieldAddr).X.(*ssa.Alloc); ok && types.Identical(al.Type().(*types.Pointer).Elem(), rt) {
						bufArg = x.Val
					}
				}
			}
			if bufArg == nil {
				return
			}
			nSub++
			vc, ok := bufArg.(*ssa.Call)
			if !ok || !callID(&vc.Call).is(ttlvPath, "ttlvReader", "value") {
				okSub = false
			} else {
				// receiver: the enclosing reader itself, or (value receiver) a copy loaded from it
				rcv := vc.Call.Args[0]
				if ld, isLd := rcv.(*ssa.UnOp); isLd && ld.Op == token.MUL {
					rcv = ld.X
				}
				if rcv != ssa.Value(sf.Params[0]) {
					okSub = false
				}
			}
		})
		switch {
		case nSub == 0:
			r.Unk("C02.R3", "ttlv.ttlvReader.Struct/extent", sf.Pos(), "construction of the nested reader not recognised")
		case okSub:
			r.OK("C02.R3", "ttlv.ttlvReader.Struct/extent", sf.Pos(), "the nested reader is built from value(), i.e. exactly the declared extent of the enclosing structure")
		default:
			r.Bad("C02.R3", "ttlv.ttlvReader.Struct/extent", sf.Pos(), "the nested reader is not built from value(): children can be read from beyond the declared extent of the enclosing structure")
		}
	} else {
		r.Unk("C02.R3", "ttlv.ttlvReader.Struct/extent", token.NoPos, "anchor missing")
	}
	// inside validate() itself the typestate does not hold yet: every accessor it calls on its own reader (they index
	// the header unconditionally beyond the empty-buffer test) must come after the header-length test
	if vf := p.Func("ttlv", "ttlvReader", "validate"); vf != nil {
		n, bad := 0, token.NoPos
		what := ""
		allInstrs(vf, func(in ssa.Instruction) {
			call, ok := in.(*ssa.Call)
			if !ok || len(call.Call.Args) == 0 {
				return
			}
			id := callID(&call.Call)
			if id.pkg != ttlvPath || id.recv != "ttlvReader" {
				return
			}
			rcv := call.Call.Args[0]
			if ld, isLd := rcv.(*ssa.UnOp); isLd && ld.Op == token.MUL {
				rcv = ld.X
			}
			if rcv != ssa.Value(vf.Params[0]) {
				return
			}
			n++
			guarded := false
			for _, dc := range dominatingConds(call.Block()) {
				bo, ok := dc.cond.(*ssa.BinOp)
				if !ok {
					continue
				}
				y, isLen := lenOperand(bo.X)
				k, isK := constIntVal(bo.Y)
				if !isLen || !isK {
					continue
				}
				if u, ok := y.(*ssa.UnOp); ok {
					if _, fld, ok := fieldAddrOf(u.X); !ok || fname(fld) != "buf" {
						continue
					}
				} else {
					continue
				}
				// len(buf) < 8 false, len(buf) >= 8 true
				if (bo.Op == token.LSS && !dc.outcome && k >= 8) || (bo.Op == token.GEQ && dc.outcome && k >= 8) || (bo.Op == token.GTR && dc.outcome && k >= 7) || (bo.Op == token.LEQ && !dc.outcome && k >= 7) {
					guarded = true
				}
			}
			if !guarded {
				bad, what = call.Pos(), id.name
			}
		})
		// the value-length test is made against the PADDED length: Next() advances by 8+paddedLen()
		padOK, lenOnly := false, token.NoPos
		// padPass[cmp] = the outcome of cmp on which "bytes available >= paddedLen()" holds
		padPass := map[*ssa.BinOp]bool{}
		allInstrs(vf, func(in ssa.Instruction) {
			bo, ok := in.(*ssa.BinOp)
			if !ok || (bo.Op != token.LSS && bo.Op != token.GEQ && bo.Op != token.GTR && bo.Op != token.LEQ) {
				return
			}
			var lenSide, other ssa.Value
			lenLeft := false
			if y, isLen := lenOperand(bo.X); isLen {
				lenSide, other, lenLeft = y, bo.Y, true
			} else if y, isLen := lenOperand(bo.Y); isLen {
				lenSide, other = y, bo.X
			}
			if lenSide == nil {
				return
			}
			defer func() {
				if c, ok := other.(*ssa.Call); ok && callID(&c.Call).name == "paddedLen" {
					if sl, ok := lenSide.(*ssa.Slice); ok {
						if k, ok := constIntVal(sl.Low); ok && k == 8 {
							// avail < padded (fail when true) / avail >= padded (pass when true); mirrored when the length is on the right
							switch {
							case lenLeft && bo.Op == token.LSS, !lenLeft && bo.Op == token.GTR:
								padPass[bo] = false
							case lenLeft && bo.Op == token.GEQ, !lenLeft && bo.Op == token.LEQ:
								padPass[bo] = true
							}
						}
					}
				}
			}()
			// len(buf[8:]) only (a slice of the buffer from offset 8)
			sl, ok := lenSide.(*ssa.Slice)
			if !ok {
				return
			}
			if k, ok := constIntVal(sl.Low); !ok || k != 8 {
				return
			}
			if c, ok := other.(*ssa.Call); ok {
				switch callID(&c.Call).name {
				case "paddedLen":
					padOK = true
				case "len":
					lenOnly = bo.Pos()
				}
			}
		})
		// ... and every success exit for a non-empty buffer lies beyond the passing edge of that test
		if padOK && len(padPass) > 0 {
			passed := func(conds []domCond) bool {
				for _, dc := range conds {
					if bo, ok := dc.cond.(*ssa.BinOp); ok {
						if want, isPad := padPass[bo]; isPad && dc.outcome == want {
							return true
						}
						// the empty buffer (end of input) is the other legitimate success
						if y, isLen := lenOperand(bo.X); isLen {
							if k, isK := constIntVal(bo.Y); isK && k == 0 && ((bo.Op == token.EQL && dc.outcome) || (bo.Op == token.NEQ && !dc.outcome) || (bo.Op == token.GTR && !dc.outcome)) {
								if u, ok := y.(*ssa.UnOp); ok {
									if _, fld, ok := fieldAddrOf(u.X); ok && fname(fld) == "buf" {
										return true
									}
								}
							}
						}
					}
				}
				return false
			}
			unguarded := token.NoPos
			var visit func(v ssa.Value, at *ssa.BasicBlock, extra []domCond, pos token.Pos, d int)
			visit = func(v ssa.Value, at *ssa.BasicBlock, extra []domCond, pos token.Pos, d int) {
				if d > 4 {
					return
				}
				if ph, ok := v.(*ssa.Phi); ok {
					for i, e := range ph.Edges {
						pr := ph.Block().Preds[i]
						var ex []domCond
						if cnd, isTrue, ok := edgeTaken(pr, ph.Block()); ok {
							ex = append(ex, domCond{cnd, isTrue, pr})
						}
						visit(e, pr, ex, pos, d+1)
					}
					return
				}
				if isNilConst(v) && !passed(append(dominatingConds(at), extra...)) {
					unguarded = pos
				}
			}
			for _, b := range vf.Blocks {
				if ret, ok := b.Instrs[len(b.Instrs)-1].(*ssa.Return); ok && len(ret.Results) == 1 {
					visit(ret.Results[0], b, nil, ret.Pos(), 0)
				}
			}
			if unguarded.IsValid() {
				r.Bad("C02.R3", "ttlv.ttlvReader.validate/padded-extent-all-paths", unguarded, "validate() can accept a non-empty item on a path that has not found the bytes available >= paddedLen(): Next() — which advances by 8+paddedLen() — and the typed reads then slice beyond the buffer (panic in the read loop)")
			} else {
				r.OK("C02.R3", "ttlv.ttlvReader.validate/padded-extent-all-paths", vf.Pos(), "every success exit of validate() is an empty buffer or lies beyond the passing edge of the padded-extent test")
			}
		}
		if lenOnly.IsValid() && !padOK {
			r.Bad("C02.R3", "ttlv.ttlvReader.validate/padded-extent", lenOnly, "validate() compares the bytes available with the declared length, not with the padded length: an item whose padding is missing at the end of its enclosing structure passes, and Next() — which advances by 8+paddedLen() — slices beyond the buffer (panic in the read loop)")
		} else if padOK {
			r.OK("C02.R3", "ttlv.ttlvReader.validate/padded-extent", vf.Pos(), "the bytes available are compared with paddedLen()")
		}
		switch {
		case bad.IsValid():
			r.Bad("C02.R3", "ttlv.ttlvReader.validate/header-first", bad, "validate() calls %s() on its own reader before it has established len(buf) >= 8: the accessor indexes the header beyond an empty-buffer test only, so a remainder of 1-7 bytes (a structure whose declared length exceeds its children by a few bytes) panics with index out of range", what)
		case n > 0:
			r.OK("C02.R3", "ttlv.ttlvReader.validate/header-first", vf.Pos(), "%d accessor call(s) inside validate(), all after the header-length test", n)
		}
	}
	// Next ends in validate
	if next := p.Func("ttlv", "ttlvReader", "Next"); next != nil {
		ok := true
		allInstrs(next, func(in ssa.Instruction) {
			if ret, isRet := in.(*ssa.Return); isRet {
				call, isCall := ret.Results[0].(*ssa.Call)
				if !isCall || !callID(&call.Call).is(ttlvPath, "ttlvReader", "validate") {
					ok = false
				}
			}
		})
		if ok {
			r.OK("C02.R3", "ttlv.ttlvReader.Next/validate", next.Pos(), "Next returns validate() of the advanced reader: the typestate invariant (empty or validated) is re-established")
		} else {
			r.Bad("C02.R3", "ttlv.ttlvReader.Next/validate", next.Pos(), "Next does not end in validate(): the item after the current one is read unchecked")
		}
	} else {
		r.Unk("C02.R3", "ttlv.ttlvReader.Next/validate", token.NoPos, "anchor missing")
	}
}

// ---------------------------------------------------------------- R4

// validateFacts: per TTLV type constant, the length facts validate() establishes on its success paths.
type lenFact struct {
	eq   int64 // len == eq (or -1)
	min  int64 // len >= min
	mod  int64 // len % mod == 0 (0 = none)
	hdr8 bool  // header length checked first
}

func (c *c02ctx) validateFacts() (map[int64]lenFact, []string) {
	p := c.p
	fn := p.Func("ttlv", "ttlvReader", "validate")
	if fn == nil {
		return nil, []string{"anchor missing: ttlvReader.validate"}
	}
	paths, ok := enumeratePaths(fn, 4096)
	if !ok {
		return nil, []string{"validate has too many paths"}
	}
	isLenCall := func(v ssa.Value) bool {
		cl, ok := v.(*ssa.Call)
		return ok && callID(&cl.Call).is(ttlvPath, "ttlvReader", "len")
	}
	isTypeCall := func(v ssa.Value) bool {
		cl, ok := v.(*ssa.Call)
		return ok && callID(&cl.Call).is(ttlvPath, "ttlvReader", "Type")
	}
	facts := map[int64]lenFact{}
	first := map[int64]bool{}
	var problems []string
	for _, path := range paths {
		cls, _ := classifyPath(path)
		if cls != pathSuccess {
			continue
		}
		// must be the non-empty path: skip the `len(buf)==0 -> return nil` early exit
		admitted := map[int64]bool{}
		for t := int64(1); t <= 10; t++ {
			admitted[t] = true
		}
		f := lenFact{eq: -1}
		emptyExit := false
		infeasible := false
		var eqTable map[int64]int64 // per-type exact length established through a table on this path
		for i := 0; i+1 < len(path); i++ {
			cond, isTrue, ok := edgeTaken(path[i], path[i+1])
			if !ok {
				continue
			}
			bo, ok := cond.(*ssa.BinOp)
			if !ok {
				continue
			}
			// a width chosen by a switch on the type and kept in a variable (`width := 0; switch ty {...: width = 4}`;
			// `if width != 0 && length != width`): the phi is resolved along this path
			resolvePhi := func(v ssa.Value) ssa.Value {
				for d := 0; d < 4; d++ {
					ph, isPhi := v.(*ssa.Phi)
					if !isPhi {
						break
					}
					found := false
					for j := i; j >= 1; j-- {
						if path[j] == ph.Block() {
							if pi := predIndex(path[j], path[j-1]); pi >= 0 {
								v, found = ph.Edges[pi], true
							}
							break
						}
					}
					if !found {
						break
					}
				}
				return v
			}
			if rx, ry := resolvePhi(bo.X), resolvePhi(bo.Y); rx != bo.X || ry != bo.Y {
				kx, okx := constIntVal(rx)
				ky, oky := constIntVal(ry)
				if okx && oky {
					// both sides known on this path: an edge that contradicts them makes the path infeasible
					holds := false
					switch bo.Op {
					case token.EQL:
						holds = kx == ky
					case token.NEQ:
						holds = kx != ky
					case token.LSS:
						holds = kx < ky
					case token.LEQ:
						holds = kx <= ky
					case token.GTR:
						holds = kx > ky
					case token.GEQ:
						holds = kx >= ky
					}
					if holds != isTrue {
						infeasible = true
					}
					continue
				}
				if isLenCall(rx) && oky {
					switch {
					case bo.Op == token.NEQ && !isTrue, bo.Op == token.EQL && isTrue:
						f.eq = ky
						if ky > f.min {
							f.min = ky
						}
					case bo.Op == token.LSS && !isTrue:
						if ky > f.min {
							f.min = ky
						}
					}
					continue
				}
			}
			// table form: `want := lengthTable[ty]; want != 0 && dec.len() != want`
			if tbl, ok := tableLookupByType(p, bo.X, isTypeCall); ok {
				if z, isZ := constIntVal(bo.Y); isZ && z == 0 {
					nonZero := (bo.Op == token.NEQ && isTrue) || (bo.Op == token.EQL && !isTrue)
					for t := range admitted {
						if (tbl[t] != 0) != nonZero {
							delete(admitted, t)
						}
					}
				}
				continue
			}
			if isLenCall(bo.X) {
				if tbl, ok := tableLookupByType(p, bo.Y, isTypeCall); ok {
					if (bo.Op == token.NEQ && !isTrue) || (bo.Op == token.EQL && isTrue) {
						eqTable = tbl
					}
					continue
				}
			}
			cv, isConst := constIntVal(bo.Y)
			if !isConst {
				continue
			}
			// len(dec.buf) == 0 true edge: the empty reader
			if y, ok := lenOperand(bo.X); ok && strings.HasSuffix(accessPath(y), ".buf") {
				if bo.Op == token.EQL && cv == 0 && isTrue {
					emptyExit = true
				}
				if bo.Op == token.LSS && cv == 8 && !isTrue {
					f.hdr8 = true
				}
				continue
			}
			x := bo.X
			// l := dec.len() kept in a phi-free local: compare through the same call value
			if isTypeCall(x) || isTypeValue(x) {
				switch bo.Op {
				case token.EQL:
					if isTrue {
						for t := range admitted {
							if t != cv {
								delete(admitted, t)
							}
						}
					} else {
						delete(admitted, cv)
					}
				case token.NEQ:
					if !isTrue {
						for t := range admitted {
							if t != cv {
								delete(admitted, t)
							}
						}
					} else {
						delete(admitted, cv)
					}
				}
				continue
			}
			if isLenCall(x) {
				switch {
				case bo.Op == token.NEQ && !isTrue, bo.Op == token.EQL && isTrue:
					f.eq = cv
					if cv > f.min {
						f.min = cv
					}
				case bo.Op == token.EQL && !isTrue && cv == 0, bo.Op == token.NEQ && isTrue && cv == 0:
					if f.min < 1 {
						f.min = 1
					}
				case bo.Op == token.LSS && !isTrue:
					if cv > f.min {
						f.min = cv
					}
				}
				continue
			}
			// l % 8 != 0
			if rem, ok := x.(*ssa.BinOp); ok && rem.Op == token.REM && isLenCall(rem.X) {
				if m, ok := constIntVal(rem.Y); ok && cv == 0 {
					if (bo.Op == token.NEQ && !isTrue) || (bo.Op == token.EQL && isTrue) {
						f.mod = m
					}
				}
			}
		}
		if emptyExit || infeasible {
			continue
		}
		for t := range admitted {
			f := f
			if eqTable != nil && eqTable[t] != 0 {
				f.eq = eqTable[t]
				if f.eq > f.min {
					f.min = f.eq
				}
			}
			if !first[t] {
				first[t] = true
				facts[t] = f
			} else {
				// meet
				g := facts[t]
				if g.eq != f.eq {
					g.eq = -1
				}
				if f.min < g.min {
					g.min = f.min
				}
				if g.mod != f.mod {
					g.mod = 0
				}
				g.hdr8 = g.hdr8 && f.hdr8
				facts[t] = g
			}
		}
	}
	return facts, problems
}

// tableLookupByType: v is `T[ty]` with T a package-level array (or slice/map literal) of integer constants filled once at
// initialisation and ty the item's type; returns the table.
func tableLookupByType(p *Program, v ssa.Value, isTypeCall func(ssa.Value) bool) (map[int64]int64, bool) {
	ld, ok := v.(*ssa.UnOp)
	if !ok || ld.Op != token.MUL {
		return nil, false
	}
	ia, ok := ld.X.(*ssa.IndexAddr)
	if !ok {
		return nil, false
	}
	g, ok := ia.X.(*ssa.Global)
	if !ok {
		return nil, false
	}
	idx := ia.Index
	if cv, ok := idx.(*ssa.Convert); ok {
		idx = cv.X
	}
	if !isTypeCall(idx) && !isTypeValue(idx) {
		return nil, false
	}
	tbl := map[int64]int64{}
	okAll := true
	scan := func(fn *ssa.Function, isInit bool) {
		allInstrs(fn, func(in ssa.Instruction) {
			st, ok := in.(*ssa.Store)
			if !ok {
				return
			}
			// element stores straight into the global
			if ia2, ok := st.Addr.(*ssa.IndexAddr); ok && ia2.X == ssa.Value(g) {
				k, ok1 := constIntVal(ia2.Index)
				val, ok2 := constIntVal(st.Val)
				if !isInit || !ok1 || !ok2 {
					okAll = false
					return
				}
				tbl[k] = val
				return
			}
			if st.Addr != ssa.Value(g) {
				return
			}
			if !isInit {
				okAll = false
				return
			}
			// whole-value store of a composite literal built in a temporary
			ld, ok := st.Val.(*ssa.UnOp)
			if !ok {
				okAll = false
				return
			}
			tmp, ok := ld.X.(*ssa.Alloc)
			if !ok {
				okAll = false
				return
			}
			for _, ref := range *tmp.Referrers() {
				ia3, ok := ref.(*ssa.IndexAddr)
				if !ok {
					continue
				}
				k, ok1 := constIntVal(ia3.Index)
				for _, r2 := range *ia3.Referrers() {
					if s2, ok := r2.(*ssa.Store); ok && s2.Addr == ssa.Value(ia3) {
						val, ok2 := constIntVal(s2.Val)
						if !ok1 || !ok2 {
							okAll = false
							continue
						}
						tbl[k] = val
					}
				}
			}
		})
	}
	for _, fn := range p.OwnFuncs() {
		scan(fn, isInitFunc(fn))
	}
	if g.Pkg != nil {
		if init := g.Pkg.Func("init"); init != nil {
			scan(init, true)
		}
	}
	return tbl, okAll && len(tbl) > 0
}

// isTypeValue: a value derived from dec.Type() kept in a local (ty := dec.Type()).
func isTypeValue(v ssa.Value) bool {
	return typeName(v.Type()) == "Type" && typePkgPath(v.Type()) == ttlvPath
}

var ttlvTypeNames = map[int64]string{1: "Structure", 2: "Integer", 3: "LongInteger", 4: "BigInteger", 5: "Enumeration", 6: "Boolean", 7: "TextString", 8: "ByteString", 9: "DateTime", 10: "Interval"}

func (c *c02ctx) r4Indexing() {
	r := c.r
	r.Rule("C02.R4", "every index/slice of input-derived data, and every fixed-width read of an item value, is covered by a dominating length guard, the validated-typestate invariant, or the per-type length table of validate()", 30)
	facts, probs := c.validateFacts()
	for _, s := range probs {
		r.Unk("C02.R4", "ttlv.ttlvReader.validate/table", token.NoPos, "%s", s)
	}
	{
		var desc []string
		for t := int64(1); t <= 10; t++ {
			f := facts[t]
			d := ttlvTypeNames[t] + ":"
			switch {
			case f.eq >= 0:
				d += fmt.Sprintf("len==%d", f.eq)
			case f.min > 0 || f.mod > 0:
				d += fmt.Sprintf("len>=%d,len%%%d==0", f.min, f.mod)
			default:
				d += "any"
			}
			desc = append(desc, d)
		}
		r.Extra["validate_length_table"] = desc
	}
	accessor := map[string]bool{"ttlv.ttlvReader.Tag": true, "ttlv.ttlvReader.Type": true, "ttlv.ttlvReader.len": true, "ttlv.ttlvReader.value": true}
	for _, fn := range c.fns {
		k := fnKey(fn)
		if k == "ttlv.Stream.Recv" || k == "ttlv.computeNeededBytes" {
			continue // framing: decided by C07.S1/S3/S4
		}
		planWhy, plan := isPlanTime(fn)
		allInstrs(fn, func(in ssa.Instruction) {
			var x, lo, hi, idx ssa.Value
			kind := ""
			switch v := in.(type) {
			case *ssa.IndexAddr:
				x, idx, kind = v.X, v.Index, "index"
			case *ssa.Index:
				x, idx, kind = v.X, v.Index, "index"
			case *ssa.Slice:
				x, lo, hi, kind = v.X, v.Low, v.High, "slice"
			case *ssa.Call:
				// fixed-width consumers of an item value
				id := callID(&v.Call)
				if id.pkg == "encoding/binary" && (id.name == "Uint32" || id.name == "Uint64" || id.name == "Uint16") && len(v.Call.Args) == 2 {
					c.r4FixedWidth(fn, v, map[string]int64{"Uint16": 2, "Uint32": 4, "Uint64": 8}[id.name], v.Call.Args[1], facts)
				}
				return
			default:
				return
			}
			key := c.key(fn, kind)
			pos := in.Pos()
			// arrays addressed by constants (variadic argument packs, local arrays)
			if pa, ok := x.Type().Underlying().(*types.Pointer); ok {
				if arr, ok := pa.Elem().Underlying().(*types.Array); ok {
					if kind == "index" {
						if k, ok := constIntVal(idx); ok && k >= 0 && k < arr.Len() {
							r.Trivial("C02.R4", key, pos, "constant index %d into [%d]T", k, arr.Len())
							return
						}
					} else {
						lok := lo == nil
						if k, ok := constIntVal(lo); lo != nil && ok && k <= arr.Len() {
							lok = true
						}
						hok := hi == nil
						if k, ok := constIntVal(hi); hi != nil && ok && k <= arr.Len() {
							hok = true
						}
						if lok && hok {
							r.Trivial("C02.R4", key, pos, "slice of a fixed array within constant bounds")
							return
						}
					}
				}
			}
			if arr, ok := x.Type().Underlying().(*types.Array); ok && kind == "index" {
				if k, ok := constIntVal(idx); ok && k >= 0 && k < arr.Len() {
					r.Trivial("C02.R4", key, pos, "constant index into array value")
					return
				}
			}
			if plan {
				r.OK("C02.R4", key, pos, "plan-time code (%s): operands derive from reflect.Type/struct tags only; every repository type's plan is computed without failure by C01.P1", planWhy)
				return
			}
			if kind == "slice" && lo == nil && hi == nil {
				r.Trivial("C02.R4", key, pos, "full slice")
				return
			}
			if kind == "slice" {
				if k, ok := constIntVal(hi); (hi == nil || ok && k == 0) && lo == nil {
					r.Trivial("C02.R4", key, pos, "x[:0]")
					return
				}
			}
			// typestate: accessor methods guard len(buf)==0 and rely on validate()
			if accessor[k] && strings.HasSuffix(accessPath(x), ".buf") {
				if lenLowerBound(x, in) >= 1 {
					need := int64(8)
					why := "header bytes 0..7"
					if k == "ttlv.ttlvReader.value" {
						why = "bytes 8..8+len: validate() checked len(buf[8:]) >= paddedLen() >= len"
					}
					hdr := true
					for t := int64(1); t <= 10; t++ {
						if !facts[t].hdr8 {
							hdr = false
						}
					}
					if hdr {
						r.OK("C02.R4", key, pos, "reader is non-empty here (len(buf)==0 returns early) and therefore validated (R3): %s are present (needs >= %d)", why, need)
						return
					}
					r.Bad("C02.R4", key, pos, "accessor relies on the validated-reader invariant but validate() does not check len(buf) >= 8 before the header is read")
					return
				}
				r.Bad("C02.R4", key, pos, "accessor indexes the buffer without the len(buf)==0 early return: an exhausted reader panics")
				return
			}
			if k == "ttlv.ttlvReader.validate" && strings.HasSuffix(accessPath(x), ".buf") {
				if lenLowerBound(x, in) >= 8 {
					r.OK("C02.R4", key, pos, "dominated by len(buf) >= 8")
				} else {
					r.Bad("C02.R4", key, pos, "validate() slices the buffer before checking that the 8 header bytes are present")
				}
				return
			}
			if k == "ttlv.ttlvReader.Next" && strings.HasSuffix(accessPath(x), ".buf") && kind == "slice" {
				// buf[8+paddedLen():] — non-empty validated reader: validate() established len(buf[8:]) >= paddedLen()
				if c.nextCallersNonEmpty() {
					r.OK("C02.R4", key, pos, "Next advances a validated, non-empty reader (every intra-package caller runs assertType first): len(buf) >= 8+paddedLen() by validate()")
				} else {
					r.Bad("C02.R4", key, pos, "Next can run on an exhausted reader (a typed read reaches it without assertType): buf[8:] panics on an empty buffer")
				}
				return
			}
			// constant index with a dominating length guard
			if kind == "index" {
				if kc, ok := constIntVal(idx); ok {
					lb := lenLowerBound(x, in)
					if lb > kc {
						r.OK("C02.R4", key, pos, "index %d dominated by len >= %d", kc, lb)
						return
					}
					if c.producedNonEmpty(x, kc) {
						r.OK("C02.R4", key, pos, "index %d into the result of strings.Split/Fields-style producer with at least %d element(s)", kc, kc+1)
						return
					}
					// value()[7] etc. on an item value: the per-type table
					if w, ok := c.itemValueWidth(fn, x, kc+1, facts); ok {
						r.OK("C02.R4", key, pos, "%s", w)
						return
					}
					r.Bad("C02.R4", key, pos, "index %d of %s is not covered by a length guard: input with a shorter value panics (index out of range)", kc, describeVal(x))
					return
				}
				// a constant string (digit table) indexed by a masked or shifted small value
				if k, isK := x.(*ssa.Const); isK && isStringConst(k) {
					n := int64(len(constStringVal(k)))
					iv := idx
					if cv, ok := iv.(*ssa.Convert); ok {
						iv = cv.X
					}
					bound := int64(-1)
					if bo, ok := iv.(*ssa.BinOp); ok {
						if m, isM := constIntVal(bo.Y); isM {
							switch bo.Op {
							case token.AND:
								bound = m
							case token.SHR:
								if bt, ok := bo.X.Type().Underlying().(*types.Basic); ok && bt.Kind() == types.Uint8 && m >= 0 && m < 8 {
									bound = 255 >> uint(m)
								}
							case token.REM:
								if bt, ok := bo.X.Type().Underlying().(*types.Basic); ok && bt.Info()&types.IsUnsigned != 0 && m > 0 {
									bound = m - 1
								}
							}
						}
					}
					if bound >= 0 && bound < n {
						r.OK("C02.R4", key, pos, "constant string of %d bytes indexed by a value masked/shifted to at most %d", n, bound)
						return
					}
				}
				if c.loopIndexBounded(x, idx, in) {
					r.OK("C02.R4", key, pos, "loop index bounded by len of the indexed value")
					return
				}
				// a fixed-size array indexed by a value a dominating comparison keeps below its length
				if n := arrayLenOf(x); n > 0 {
					iv := idx
					if cv, ok := iv.(*ssa.Convert); ok {
						iv = cv.X
					}
					bound := int64(-1)
					if b, ok := iv.Type().Underlying().(*types.Basic); ok && b.Kind() == types.Uint8 {
						bound = 255
					}
					for _, dc := range dominatingConds(in.Block()) {
						bo, ok := dc.cond.(*ssa.BinOp)
						if !ok || (bo.X != iv && bo.X != idx) {
							continue
						}
						kk, ok := constIntVal(bo.Y)
						if !ok {
							continue
						}
						switch {
						case bo.Op == token.GTR && !dc.outcome, bo.Op == token.LEQ && dc.outcome:
							if bound < 0 || kk < bound {
								bound = kk
							}
						case bo.Op == token.GEQ && !dc.outcome, bo.Op == token.LSS && dc.outcome:
							if bound < 0 || kk-1 < bound {
								bound = kk - 1
							}
						}
					}
					if bound >= 0 && bound < n {
						r.OK("C02.R4", key, pos, "array of %d elements indexed by a value bounded by %d (dominating comparison / type range)", n, bound)
						return
					}
					// x - k on an unsigned value: without x >= k the subtraction wraps to a huge index
					if sub, ok := iv.(*ssa.BinOp); ok && sub.Op == token.SUB {
						if k, isK := constIntVal(sub.Y); isK && k > 0 {
							if bt, ok := sub.X.Type().Underlying().(*types.Basic); ok && bt.Info()&types.IsUnsigned != 0 {
								lowOK, upper := false, int64(-1)
								for _, dc := range dominatingConds(in.Block()) {
									bo, ok := dc.cond.(*ssa.BinOp)
									if !ok || bo.X != sub.X {
										continue
									}
									kk, ok := constIntVal(bo.Y)
									if !ok {
										continue
									}
									op := bo.Op
									if !dc.outcome {
										op = map[token.Token]token.Token{token.LSS: token.GEQ, token.LEQ: token.GTR, token.GTR: token.LEQ, token.GEQ: token.LSS, token.EQL: token.NEQ, token.NEQ: token.EQL}[op]
									}
									switch {
									case op == token.GEQ && kk >= k, op == token.GTR && kk >= k-1, op == token.NEQ && kk == 0 && k == 1:
										lowOK = true
									case op == token.LEQ:
										upper = kk - k
									case op == token.LSS:
										upper = kk - 1 - k
									}
								}
								if lowOK && upper >= 0 && upper < n {
									r.OK("C02.R4", key, pos, "array of %d elements indexed by x-%d with %d <= x <= %d established by dominating comparisons", n, k, k, upper+k)
								} else if !lowOK {
									r.Bad("C02.R4", key, pos, "an array is indexed by x-%d where x is unsigned and nothing establishes x >= %d: for smaller x the subtraction wraps around and the index is far out of range (panic), reachable while decoding", k, k)
								} else {
									r.Unk("C02.R4", key, pos, "index expression of %s not understood", describeVal(x))
								}
								return
							}
						}
					}
				}
				// the result of a -1-sentinel search over the indexed slice itself, used where it is known non-negative
				if call, ok := unspill(idx).(*ssa.Call); ok && len(call.Call.Args) >= 1 && sameSlice(call.Call.Args[0], x) {
					if lb, how, ok := indexLowerBound(idx, in.Block()); ok {
						if lb >= 0 {
							r.OK("C02.R4", key, pos, "index is the %s over the indexed slice, used only where it is >= %d: within bounds", how, lb)
						} else {
							r.Bad("C02.R4", key, pos, "index is the %s and may be -1 here: input without the searched element panics (index out of range)", how)
						}
						return
					}
				}
				r.Unk("C02.R4", key, pos, "index expression of %s not understood", describeVal(x))
				return
			}
			// slices s[k:] with constant k
			if kc, ok := constIntVal(lo); ok && hi == nil {
				if lb := lenLowerBound(x, in); lb >= kc {
					r.OK("C02.R4", key, pos, "s[%d:] dominated by len >= %d", kc, lb)
					return
				}
				if hp := hasPrefixGuard(x, in); int64(hp) >= kc {
					r.OK("C02.R4", key, pos, "s[%d:] under strings.HasPrefix(s, %d-byte constant)", kc, hp)
					return
				}
				if c.producedNonEmpty(x, kc-1) {
					r.OK("C02.R4", key, pos, "s[%d:] of a producer result with at least %d element(s)", kc, kc)
					return
				}
				r.Bad("C02.R4", key, pos, "slice [%d:] of %s without a dominating length guard", kc, describeVal(x))
				return
			}
			if lo == nil && hi != nil {
				// x[:n] with n == len-derived? accept n produced by len(x) arithmetic only when trivially bounded
				if y, ok := lenOperand(hi); ok && sameSlice(y, x) {
					r.Trivial("C02.R4", key, pos, "x[:len(x)]")
					return
				}
			}
			r.Unk("C02.R4", key, pos, "slice bounds of %s not understood (low=%v high=%v)", describeVal(x), lo, hi)
		})
	}
}

func describeVal(v ssa.Value) string {
	if ap := accessPath(v); ap != "" {
		return ap
	}
	if c, ok := v.(*ssa.Call); ok {
		return "result of " + callID(&c.Call).String()
	}
	return v.Name()
}

// producedNonEmpty: x is the direct result of strings.Split (non-empty separator): at least one element.
func (c *c02ctx) producedNonEmpty(x ssa.Value, k int64) bool {
	if k > 0 {
		return false
	}
	if cl, ok := x.(*ssa.Call); ok {
		id := callID(&cl.Call)
		if id.is("strings", "", "Split") {
			if sep, ok := cl.Call.Args[1].(*ssa.Const); ok && constStringVal(sep) != "" {
				return true
			}
		}
	}
	return false
}

// loopIndexBounded recognises `for i := range x`, `for i := 0; i < len(x); i++` and
// `for i := len(x)-1; i >= 0; i--`.
func (c *c02ctx) loopIndexBounded(x, idx ssa.Value, in ssa.Instruction) bool {
	for _, dc := range dominatingConds(in.Block()) {
		bo, ok := dc.cond.(*ssa.BinOp)
		if !ok || !dc.outcome {
			continue
		}
		if bo.Op == token.LSS && bo.X == idx {
			if y, ok := lenOperand(bo.Y); ok && sameSlice(y, x) {
				return true
			}
		}
		if bo.Op == token.GEQ && bo.X == idx {
			if z, ok := constIntVal(bo.Y); ok && z == 0 {
				if phi, ok := idx.(*ssa.Phi); ok {
					for _, e := range phi.Edges {
						if sub, ok := e.(*ssa.BinOp); ok && sub.Op == token.SUB {
							if y, ok := lenOperand(sub.X); ok && sameSlice(y, x) {
								if one, ok := constIntVal(sub.Y); ok && one == 1 {
									return true
								}
							}
						}
					}
				}
			}
		}
	}
	// range over the same slice: idx is the key of a `for i := range x` lowered to i < len(x)
	return false
}

// nextCallersNonEmpty: every call of ttlvReader.Next inside package ttlv, other than through the
// exported Decoder.Next, is dominated by a successful assertType on the same reader.
func (c *c02ctx) nextCallersNonEmpty() bool {
	ok := true
	n := 0
	for _, fn := range c.p.OwnFuncs() {
		id := idOf(fn)
		if id.pkg != ttlvPath || id.recv != "ttlvReader" {
			continue
		}
		allInstrs(fn, func(in ssa.Instruction) {
			call, isCall := in.(*ssa.Call)
			if !isCall || !callID(&call.Call).is(ttlvPath, "ttlvReader", "Next") {
				return
			}
			n++
			guarded := false
			for _, dc := range dominatingConds(call.Block()) {
				if bo, isB := dc.cond.(*ssa.BinOp); isB && bo.Op == token.NEQ && isNilConst(bo.Y) && !dc.outcome {
					if ac, isC := bo.X.(*ssa.Call); isC && callID(&ac.Call).is(ttlvPath, "ttlvReader", "assertType") {
						guarded = true
					}
				}
			}
			if !guarded {
				ok = false
			}
		})
	}
	return ok && n > 0
}

// typedReadType: the TTLV type constant asserted by assertType dominating `at` in fn.
func typedReadType(fn *ssa.Function, at ssa.Instruction) (int64, bool) {
	for _, dc := range dominatingConds(at.Block()) {
		if bo, isB := dc.cond.(*ssa.BinOp); isB && bo.Op == token.NEQ && isNilConst(bo.Y) && !dc.outcome {
			if ac, isC := bo.X.(*ssa.Call); isC && callID(&ac.Call).name == "assertType" && len(ac.Call.Args) >= 2 {
				if t, ok := constIntVal(ac.Call.Args[1]); ok {
					return t, true
				}
			}
		}
	}
	return 0, false
}

// itemValueWidth: x is dec.value() of a ttlvReader in a typed read whose asserted type has,
// per validate()'s table, at least `need` bytes.
func (c *c02ctx) itemValueWidth(fn *ssa.Function, x ssa.Value, need int64, facts map[int64]lenFact) (string, bool) {
	call, ok := x.(*ssa.Call)
	if !ok || !callID(&call.Call).is(ttlvPath, "ttlvReader", "value") {
		return "", false
	}
	var at ssa.Instruction = call
	t, ok := typedReadType(fn, at)
	if !ok {
		return "", false
	}
	f := facts[t]
	if f.min >= need || f.eq >= need {
		return fmt.Sprintf("item asserted to be %s, for which validate() enforces a declared length of at least %d (need %d)", ttlvTypeNames[t], max64(f.min, f.eq), need), true
	}
	return "", false
}

func max64(a, b int64) int64 {
	if a > b {
		return a
	}
	return b
}

func (c *c02ctx) r4FixedWidth(fn *ssa.Function, call *ssa.Call, width int64, arg ssa.Value, facts map[int64]lenFact) {
	r := c.r
	key := c.key(fn, "fixed-width")
	k := fnKey(fn)
	// bytes built locally: &[4]byte{...}[:]
	if sl, ok := arg.(*ssa.Slice); ok {
		if pa, ok := sl.X.Type().Underlying().(*types.Pointer); ok {
			if arr, ok := pa.Elem().Underlying().(*types.Array); ok && arr.Len() >= width && sl.Low == nil && sl.High == nil {
				r.Trivial("C02.R4", key, call.Pos(), "reads %d bytes from a local [%d]byte", width, arr.Len())
				return
			}
		}
		// dec.buf[4:8] in len(): typestate
		if lo, ok := constIntVal(sl.Low); ok {
			if hi, ok := constIntVal(sl.High); ok && hi-lo >= width {
				r.Trivial("C02.R4", key, call.Pos(), "reads %d bytes from a constant %d-byte window (the slice itself is an obligation above)", width, hi-lo)
				return
			}
		}
	}
	if w, ok := c.itemValueWidth(fn, arg, width, facts); ok {
		r.OK("C02.R4", key, call.Pos(), "%s", w)
		return
	}
	if vc, ok := arg.(*ssa.Call); ok && callID(&vc.Call).is(ttlvPath, "ttlvReader", "value") {
		t, okT := typedReadType(fn, call)
		tn := "an item whose type is not asserted"
		if okT {
			tn = "a " + ttlvTypeNames[t] + " item"
		}
		r.Bad("C02.R4", key, call.Pos(), "%s reads %d bytes from the value of %s, but nothing checks that the declared length is at least %d: an item with a shorter declared length (e.g. 0) panics in binary.BigEndian", k, width, tn, width)
		return
	}
	r.Unk("C02.R4", key, call.Pos(), "fixed-width read of %d bytes from %s not understood", width, describeVal(arg))
}

// ---------------------------------------------------------------- R5

func (c *c02ctx) r5NoWrite() {
	r, p := c.r, c.p
	r.Rule("C02.R5", "no store or append through a slice that may alias the input buffer", 2)
	// taint: loads of ttlvReader.buf, results of ttlvReader.value(), slices thereof, and parameters receiving them
	taintedParam := map[*ssa.Parameter]bool{}
	var tainted func(v ssa.Value, depth int) bool
	tainted = func(v ssa.Value, depth int) bool {
		if depth > 10 {
			return false
		}
		switch x := v.(type) {
		case *ssa.Parameter:
			return taintedParam[x]
		case *ssa.UnOp:
			if x.Op == token.MUL {
				if _, fld, ok := fieldAddrOf(x.X); ok && fname(fld) == "buf" && typeName(x.X.(*ssa.FieldAddr).X.Type()) == "ttlvReader" {
					return true
				}
			}
			return false
		case *ssa.Slice:
			return tainted(x.X, depth+1)
		case *ssa.Phi:
			for _, e := range x.Edges {
				if tainted(e, depth+1) {
					return true
				}
			}
			return false
		case *ssa.Call:
			id := callID(&x.Call)
			if id.is(ttlvPath, "ttlvReader", "value") {
				return true
			}
			// library functions that return a view of their argument keep the alias; only the
			// known copying functions produce fresh memory
			if _, isSlice := x.Type().Underlying().(*types.Slice); isSlice && !strings.HasPrefix(id.pkg, modPath) {
				fresh := id.is("slices", "", "Clone") || id.is("bytes", "", "Clone") || id.pkg == "encoding/hex" || id.is("bytes", "", "ToUpper") || id.is("bytes", "", "ToLower")
				if b, ok := x.Call.Value.(*ssa.Builtin); ok {
					if b.Name() == "append" && len(x.Call.Args) > 0 {
						return tainted(x.Call.Args[0], depth+1)
					}
					return false
				}
				if !fresh {
					for _, a := range x.Call.Args {
						if _, ok := a.Type().Underlying().(*types.Slice); ok && tainted(a, depth+1) {
							return true
						}
					}
				}
			}
			return false
		case *ssa.ChangeType:
			return tainted(x.X, depth+1)
		}
		return false
	}
	var ttlvFns []*ssa.Function
	for _, fn := range p.OwnFuncs() {
		if idOf(fn).pkg == ttlvPath {
			ttlvFns = append(ttlvFns, fn)
		}
	}
	for changed := true; changed; {
		changed = false
		for _, fn := range ttlvFns {
			allInstrs(fn, func(in ssa.Instruction) {
				call := callOf(in)
				if call == nil {
					return
				}
				callee := call.StaticCallee()
				if callee == nil || callee.Blocks == nil || idOf(callee).pkg != ttlvPath {
					return
				}
				for i, a := range call.Args {
					if i < len(callee.Params) && !taintedParam[callee.Params[i]] {
						if _, isSlice := a.Type().Underlying().(*types.Slice); isSlice && tainted(a, 0) {
							taintedParam[callee.Params[i]] = true
							changed = true
						}
					}
				}
			})
		}
	}
	nSrc := 0
	for _, fn := range ttlvFns {
		allInstrs(fn, func(in ssa.Instruction) {
			switch x := in.(type) {
			case *ssa.Store:
				ia, ok := x.Addr.(*ssa.IndexAddr)
				if !ok {
					return
				}
				if _, isSlice := ia.X.Type().Underlying().(*types.Slice); !isSlice {
					return
				}
				key := c.key(fn, "store-elem")
				if tainted(ia.X, 0) {
					if why, ok := aliasWriteDisjoint(ttlvFns, fn, ia.X, x, func(v ssa.Value) bool { return tainted(v, 0) }); ok {
						r.OK("C02.R5", key, x.Pos(), "%s", why)
						return
					}
					nSrc++
					r.Bad("C02.R5", key, x.Pos(), "%s writes an element of a slice that aliases the caller's input buffer: decoding mutates the input, and decoding the same bytes again gives a different result", fnKey(fn))
				} else if c.D[fn] {
					r.OK("C02.R5", key, x.Pos(), "element store into a slice that does not alias the input")
				}
			case *ssa.Call:
				if b, ok := x.Call.Value.(*ssa.Builtin); ok && (b.Name() == "append" || b.Name() == "copy") && len(x.Call.Args) > 0 {
					if tainted(x.Call.Args[0], 0) {
						r.Bad("C02.R5", c.key(fn, b.Name()), x.Pos(), "%s(%s, ...) on a slice aliasing the input buffer may write past the item into the following bytes of the input", b.Name(), describeVal(x.Call.Args[0]))
					}
				}
			}
		})
	}
	// copies on the way out: ByteString must clone, TextString converts
	for _, m := range []string{"ByteString"} {
		fn := p.Func("ttlv", "ttlvReader", m)
		if fn == nil {
			r.Unk("C02.R5", "ttlv.ttlvReader."+m+"/clone", token.NoPos, "anchor missing")
			continue
		}
		leaks := false
		allInstrs(fn, func(in ssa.Instruction) {
			if ret, ok := in.(*ssa.Return); ok && len(ret.Results) > 0 && tainted(ret.Results[0], 0) {
				leaks = true
			}
		})
		if leaks {
			r.Bad("C02.R5", "ttlv.ttlvReader."+m+"/clone", fn.Pos(), "%s returns a slice aliasing the input buffer: a later write by the caller (or by the transport reusing its buffer) changes the decoded value", m)
		} else {
			r.OK("C02.R5", "ttlv.ttlvReader."+m+"/clone", fn.Pos(), "%s returns a copy, not a view of the input", m)
		}
	}
	// BigInteger hands value() to bytesToBigInt: reported above through the tainted parameter if it is written
	nParams := 0
	for range taintedParam {
		nParams++
	}
	r.Extra["input_alias_params"] = nParams
}

// ---------------------------------------------------------------- R6

func (c *c02ctx) r6Loops() {
	r := c.r
	r.Rule("C02.R6", "every loop reachable while decoding consumes input on every iteration or is a bounded range; every typed read advances the reader", 10+30)
	consuming := func(call *ssa.CallCommon) bool {
		id := callID(call)
		switch {
		case id.pkg == ttlvPath && id.recv == "Decoder" && id.name != "Tag" && id.name != "Type":
			return true
		case id.pkg == ttlvPath && (id.recv == "reader" || id.recv == "ttlvReader" || id.recv == "xmlReader" || id.recv == "jsonReader") && id.name != "Tag" && id.name != "Type" && id.name != "value" && id.name != "rawTag" && id.name != "getMap" && id.name != "getValue" && id.name != "assertType":
			return true
		case id.pkg == "encoding/xml" && id.recv == "Decoder" && (id.name == "Token" || id.name == "Skip"):
			return true
		case call.IsInvoke() && call.Method.Name() == "Read":
			return true
		case id.pkg == ttlvPath && (id.recv == "Value" || id.recv == "Struct") && (id.name == "DecodeTTLV" || id.name == "TagDecodeTTLV"):
			return true
		}
		// calls of plan closures: func(*Decoder, int, reflect.Value) error
		if !call.IsInvoke() && call.StaticCallee() == nil {
			if sig, ok := call.Value.Type().Underlying().(*types.Signature); ok && sig.Params().Len() >= 1 {
				if typeName(sig.Params().At(0).Type()) == "Decoder" {
					return true
				}
			}
		}
		return false
	}
	for _, fn := range c.fns {
		if _, plan := isPlanTime(fn); plan {
			// loops over struct fields / tag parts: bounded by the type
			for _, b := range fn.Blocks {
				for _, s := range b.Succs {
					if s.Dominates(b) {
						r.Trivial("C02.R6", c.key(fn, "loop"), firstPos(s), "plan-time loop over the fields/annotations of a type")
					}
				}
			}
			continue
		}
		headers := map[*ssa.BasicBlock][]*ssa.BasicBlock{}
		for _, b := range fn.Blocks {
			for _, s := range b.Succs {
				if s.Dominates(b) {
					headers[s] = append(headers[s], b)
				}
			}
		}
		var hs []*ssa.BasicBlock
		for h := range headers {
			hs = append(hs, h)
		}
		sort.Slice(hs, func(i, j int) bool { return hs[i].Index < hs[j].Index })
		for _, h := range hs {
			key := c.key(fn, "loop")
			// natural loop body
			body := map[*ssa.BasicBlock]bool{h: true}
			var stack []*ssa.BasicBlock
			for _, l := range headers[h] {
				if !body[l] {
					body[l] = true
					stack = append(stack, l)
				}
			}
			for len(stack) > 0 {
				b := stack[len(stack)-1]
				stack = stack[:len(stack)-1]
				for _, pr := range b.Preds {
					if !body[pr] {
						body[pr] = true
						stack = append(stack, pr)
					}
				}
			}
			if reflectDescentLoop(h, body) {
				r.OK("C02.R6", key, firstPos(h), "loop descends the pointer nesting of a reflect.Value (value = value.Elem() while Kind()==Pointer): bounded by the depth of the destination's type")
				continue
			}
			if boundedCountingLoop(h, body) {
				r.OK("C02.R6", key, firstPos(h), "counting loop: induction variable compared with a bound fixed before the loop and stepped by a constant")
				continue
			}
			// range over a map or a string: one iteration per entry. For a map the order is random, so the body must
			// not have an order-dependent effect (an insertion under a transformed key, where two entries can collide
			// and the last one wins, or an append): the result of decoding has to be a function of the input
			if nx, isMap := rangeNextOf(h); nx != nil {
				if !isMap {
					r.OK("C02.R6", key, firstPos(h), "range over a string: one iteration per rune")
					continue
				}
				orderDep := token.NoPos
				for b := range body {
					for _, in := range b.Instrs {
						switch x := in.(type) {
						case *ssa.MapUpdate:
							k := x.Key
							if ex, ok := k.(*ssa.Extract); !ok || ex.Tuple != ssa.Value(nx) || ex.Index != 1 {
								orderDep = x.Pos()
							}
						case *ssa.Call:
							if b, ok := x.Call.Value.(*ssa.Builtin); ok && b.Name() == "append" {
								orderDep = x.Pos()
							}
						}
					}
				}
				if orderDep.IsValid() {
					r.Bad("C02.R6", key, orderDep, "%s ranges over a map and has an order-dependent effect in the loop (an insertion under a transformed key, or an append): Go randomises map iteration, so entries that collide after the transformation (or the order of the appended elements) make two decodes of the same bytes give different results", fnKey(fn))
				} else {
					r.OK("C02.R6", key, firstPos(h), "range over a map: one iteration per entry, no order-dependent effect in the body")
				}
				continue
			}
			// can the header reach itself inside the body avoiding blocks that contain a consuming call?
			blocked := map[*ssa.BasicBlock]bool{}
			for b := range body {
				for _, in := range b.Instrs {
					if call := callOf(in); call != nil && consuming(call) {
						// a read that reports an error makes progress only if its failure leaves the loop: when the
						// error edge stays inside (recorded, loop continues) a sticky error — a truncated or ill-formed
						// document — keeps the loop spinning without consuming anything
						if v, isVal := in.(ssa.Value); isVal && errorEdgeStaysInLoop(v, body) {
							continue
						}
						blocked[b] = true
					}
				}
			}
			if blocked[h] {
				r.OK("C02.R6", key, firstPos(h), "loop header consumes input on every iteration")
				continue
			}
			seen := map[*ssa.BasicBlock]bool{}
			var cyc bool
			var walk func(b *ssa.BasicBlock)
			walk = func(b *ssa.BasicBlock) {
				for _, s := range b.Succs {
					if !body[s] {
						continue
					}
					if s == h {
						cyc = true
						return
					}
					if blocked[s] || seen[s] {
						continue
					}
					seen[s] = true
					walk(s)
				}
			}
			walk(h)
			if cyc {
				r.Bad("C02.R6", key, firstPos(h), "loop in %s has an iteration path that consumes no input (no reader/Decoder/xml/io call): a crafted input can keep it spinning", fnKey(fn))
			} else {
				r.OK("C02.R6", key, firstPos(h), "every path around the loop passes through a call that consumes input or fails")
			}
		}
	}
	// typed reads advance: every non-error return of a typed reader method goes through Next (or another typed method of the same reader)
	for _, recv := range []string{"ttlvReader", "xmlReader", "jsonReader"} {
		for _, m := range []string{"Integer", "LongInteger", "BigInteger", "Enum", "Bool", "Struct", "TextString", "ByteString", "DateTime", "Interval", "Bitmask"} {
			fn := c.p.Func("ttlv", recv, m)
			key := "ttlv." + recv + "." + m + "/advances"
			if fn == nil {
				r.Unk("C02.R6", key, token.NoPos, "anchor missing")
				continue
			}
			paths, ok := enumeratePaths(fn, 4096)
			if !ok {
				r.Unk("C02.R6", key, fn.Pos(), "too many paths")
				continue
			}
			bad := false
			nOK := 0
			for _, path := range paths {
				cls, _ := classifyPath(path)
				if cls == pathError {
					continue
				}
				adv := false
				for _, b := range path {
					for _, in := range b.Instrs {
						if call, isCall := in.(*ssa.Call); isCall {
							id := callID(&call.Call)
							if id.pkg == ttlvPath && id.recv == recv && (id.name == "Next" || (id.name != m && (id.name == "Integer"))) {
								adv = true
							}
						}
					}
				}
				if adv {
					nOK++
				} else {
					bad = true
				}
			}
			if bad {
				r.Bad("C02.R6", key, fn.Pos(), "%s.%s has a successful return that does not advance the reader: the caller's loop sees the same item again", recv, m)
			} else {
				r.OK("C02.R6", key, fn.Pos(), "all %d non-error paths advance with Next()", nOK)
			}
		}
	}
}

func firstPos(b *ssa.BasicBlock) token.Pos {
	for _, in := range b.Instrs {
		if in.Pos().IsValid() {
			return in.Pos()
		}
	}
	for _, s := range b.Succs {
		for _, in := range s.Instrs {
			if in.Pos().IsValid() {
				return in.Pos()
			}
		}
	}
	return token.NoPos
}

// reflectDescentLoop: `for v.Kind() == reflect.Pointer { ...; v = v.Elem() }`.
func reflectDescentLoop(h *ssa.BasicBlock, body map[*ssa.BasicBlock]bool) bool {
	if len(h.Instrs) == 0 {
		return false
	}
	iff, ok := h.Instrs[len(h.Instrs)-1].(*ssa.If)
	if !ok {
		return false
	}
	bo, ok := iff.Cond.(*ssa.BinOp)
	if !ok || bo.Op != token.EQL {
		return false
	}
	kc, ok := bo.X.(*ssa.Call)
	if !ok || !callID(&kc.Call).is("reflect", "Value", "Kind") {
		return false
	}
	phi, ok := kc.Call.Args[0].(*ssa.Phi)
	if !ok || phi.Block() != h {
		return false
	}
	for i, e := range phi.Edges {
		if !body[h.Preds[i]] {
			continue
		}
		ec, ok := e.(*ssa.Call)
		if !ok || !callID(&ec.Call).is("reflect", "Value", "Elem") || ec.Call.Args[0] != ssa.Value(phi) {
			return false
		}
	}
	return true
}

// boundedCountingLoop: header tests a phi against a loop-invariant bound and the phi is
// stepped by a non-zero constant on every back edge (covers `for i := range n`, `for i := range x`,
// `for i := 0; i < n; i++`, `for i := n-1; i >= 0; i--`).
func boundedCountingLoop(h *ssa.BasicBlock, body map[*ssa.BasicBlock]bool) bool {
	if len(h.Instrs) == 0 {
		return false
	}
	iff, ok := h.Instrs[len(h.Instrs)-1].(*ssa.If)
	if !ok {
		// rotated loops: the test sits in the latch
		for b := range body {
			if i2, ok := b.Instrs[len(b.Instrs)-1].(*ssa.If); ok {
				for _, s := range b.Succs {
					if s == h {
						iff = i2
					}
				}
			}
		}
		if iff == nil {
			return false
		}
	}
	bo, ok := iff.Cond.(*ssa.BinOp)
	if !ok {
		return false
	}
	check := func(iv, bound ssa.Value) bool {
		phi, ok := iv.(*ssa.Phi)
		if !ok {
			// i+1 < n forms
			if b2, ok := iv.(*ssa.BinOp); ok && (b2.Op == token.ADD || b2.Op == token.SUB) {
				if p2, ok := b2.X.(*ssa.Phi); ok {
					phi = p2
				}
			}
			if phi == nil {
				return false
			}
		}
		if !body[phi.Block()] {
			return false
		}
		// bound is loop-invariant: defined outside the body, or a constant, or len() of an invariant
		inv := func(v ssa.Value) bool {
			if _, ok := v.(*ssa.Const); ok {
				return true
			}
			if in, ok := v.(ssa.Instruction); ok {
				if y, isLen := lenOperand(v); isLen {
					if yi, ok := y.(ssa.Instruction); ok && body[yi.Block()] {
						// len of something computed in the loop: accept only loads of the same unmodified local
						return false
					}
					return true
				}
				return !body[in.Block()]
			}
			return true // parameters, free vars
		}
		if !inv(bound) {
			return false
		}
		stepped := false
		for i, e := range phi.Edges {
			if !body[phi.Block().Preds[i]] {
				continue
			}
			b2, ok := e.(*ssa.BinOp)
			if !ok || (b2.Op != token.ADD && b2.Op != token.SUB) || b2.X != ssa.Value(phi) {
				return false
			}
			if k, ok := constIntVal(b2.Y); !ok || k == 0 {
				return false
			}
			stepped = true
		}
		return stepped
	}
	switch bo.Op {
	case token.LSS, token.LEQ, token.GTR, token.GEQ, token.NEQ:
		return check(bo.X, bo.Y) || check(bo.Y, bo.X)
	}
	return false
}

// ---------------------------------------------------------------- R7

func (c *c02ctx) r7Errors() {
	r := c.r
	r.Rule("C02.R7", "no error returned by a reader/Decoder method is dropped on the decode side", 60)
	errT := types.Universe.Lookup("error").Type()
	for _, fn := range c.fns {
		allInstrs(fn, func(in ssa.Instruction) {
			call, ok := in.(*ssa.Call)
			if !ok {
				return
			}
			id := callID(&call.Call)
			isReader := id.pkg == ttlvPath && (id.recv == "Decoder" || id.recv == "reader" || id.recv == "ttlvReader" || id.recv == "xmlReader" || id.recv == "jsonReader")
			nested := false
			if sc := call.Call.StaticCallee(); sc != nil && sc.Signature.Recv() != nil && strings.HasPrefix(id.pkg, modPath) && takesDecoder(sc) {
				nested = true
			}
			if !isReader && !nested {
				return
			}
			sig := call.Call.Signature()
			res := sig.Results()
			if res.Len() == 0 || !types.Identical(res.At(res.Len()-1).Type(), errT) {
				return
			}
			key := c.key(fn, "err:"+id.name)
			used := false
			if res.Len() == 1 {
				used = len(*call.Referrers()) > 0
			} else {
				for _, ref := range *call.Referrers() {
					if ex, ok := ref.(*ssa.Extract); ok && ex.Index == res.Len()-1 && len(*ex.Referrers()) > 0 {
						used = true
					}
					if _, ok := ref.(*ssa.Return); ok {
						used = true
					}
				}
			}
			if used {
				r.OK("C02.R7", key, call.Pos(), "error of %s is returned or tested", id.String())
			} else {
				r.Bad("C02.R7", key, call.Pos(), "the error of %s is dropped in %s: a malformed item is treated as decoded", id.String(), fnKey(fn))
			}
		})
	}
}

// ---------------------------------------------------------------- R8

// r8FailStop: a reader whose last operation failed is dead — Next() advances the buffer before
// validating it, so after an error the accessors index an unvalidated tail. Every use of a decoder
// that can follow a fallible call on the same decoder must be dominated by that call's err == nil edge.
func (c *c02ctx) r8FailStop() {
	r := c.r
	r.Rule("C02.R8", "fail-stop: no decoder/reader call can follow a failed call on the same decoder (each fallible call's error is tested, and later uses are dominated by the err == nil edge)", 100)
	errT := types.Universe.Lookup("error").Type()
	isReaderRecv := func(id funcID) bool {
		return id.pkg == ttlvPath && (id.recv == "Decoder" || id.recv == "reader" || id.recv == "ttlvReader" || id.recv == "xmlReader" || id.recv == "jsonReader")
	}
	for _, fn := range c.fns {
		type use struct {
			call *ssa.Call
			dec  ssa.Value
			id   funcID
		}
		var uses []use
		allInstrs(fn, func(in ssa.Instruction) {
			call, ok := in.(*ssa.Call)
			if !ok || len(call.Call.Args) == 0 {
				return
			}
			id := callID(&call.Call)
			if call.Call.IsInvoke() {
				if isReaderRecv(id) {
					uses = append(uses, use{call, call.Call.Value, id})
				}
				return
			}
			if isReaderRecv(id) {
				uses = append(uses, use{call, call.Call.Args[0], id})
				return
			}
			if sc := call.Call.StaticCallee(); sc != nil && strings.HasPrefix(id.pkg, modPath) {
				for _, a := range call.Call.Args {
					if typeName(a.Type()) == "Decoder" && typePkgPath(a.Type()) == ttlvPath {
						uses = append(uses, use{call, a, id})
						return
					}
				}
			}
		})
		if len(uses) < 2 {
			continue
		}
		for _, u1 := range uses {
			sig := u1.call.Call.Signature()
			res := sig.Results()
			if res.Len() == 0 || !types.Identical(res.At(res.Len()-1).Type(), errT) {
				continue
			}
			// the error value and its nil-edge
			var errVal ssa.Value = u1.call
			if res.Len() > 1 {
				errVal = nil
				for _, ref := range *u1.call.Referrers() {
					if ex, ok := ref.(*ssa.Extract); ok && ex.Index == res.Len()-1 {
						errVal = ex
					}
				}
			}
			var okBlock *ssa.BasicBlock
			if errVal != nil {
				for _, ref := range *errVal.(interface{ Referrers() *[]ssa.Instruction }).Referrers() {
					if bo, ok := ref.(*ssa.BinOp); ok && isNilConst(bo.Y) && (bo.Op == token.NEQ || bo.Op == token.EQL) {
						for _, r2 := range *bo.Referrers() {
							if iff, ok := r2.(*ssa.If); ok {
								if bo.Op == token.NEQ {
									okBlock = iff.Block().Succs[1]
								} else {
									okBlock = iff.Block().Succs[0]
								}
							}
						}
					}
				}
			}
			reach := reachableFrom(u1.call.Block())
			var offender *ssa.Call
			for _, u2 := range uses {
				if u2.call == u1.call || u2.dec != u1.dec {
					continue
				}
				after := false
				if u2.call.Block() == u1.call.Block() {
					after = instrIndex(u2.call) > instrIndex(u1.call)
					if !after {
						// same block earlier: reachable again only through a cycle
						for _, s := range u1.call.Block().Succs {
							if reachableFrom(s)[u1.call.Block()] {
								after = true
							}
						}
					}
				} else {
					after = reach[u2.call.Block()]
				}
				if !after {
					continue
				}
				if okBlock != nil && (okBlock.Dominates(u2.call.Block()) || okBlock == u2.call.Block()) {
					continue
				}
				// a loop header test such as `for d.Tag() == tag` re-entered after a checked call in the body
				if okBlock != nil && reachableOnlyThrough(u1.call.Block(), u2.call.Block(), okBlock) {
					continue
				}
				offender = u2.call
				break
			}
			key := c.key(fn, "failstop:"+u1.id.name)
			if offender != nil {
				r.Bad("C02.R8", key, offender.Pos(), "%s can run after %s failed on the same decoder (its error is not tested before): a failed read leaves the binary reader on an unvalidated tail, and the next accessor indexes out of range or reads beyond the enclosing structure", callID(&offender.Call).String(), u1.id.String())
			} else {
				r.OK("C02.R8", key, u1.call.Pos(), "later uses of the decoder are dominated by the err == nil edge of %s", u1.id.String())
			}
		}
	}
}

// reachableOnlyThrough: every path from a to b passes through via.
func reachableOnlyThrough(a, b, via *ssa.BasicBlock) bool {
	if a == via {
		return true
	}
	seen := map[*ssa.BasicBlock]bool{a: true}
	stack := []*ssa.BasicBlock{a}
	for len(stack) > 0 {
		x := stack[len(stack)-1]
		stack = stack[:len(stack)-1]
		for _, s := range x.Succs {
			if s == via || seen[s] {
				continue
			}
			if s == b {
				return false
			}
			seen[s] = true
			stack = append(stack, s)
		}
	}
	return true
}

// ---------------------------------------------------------------- R9

// r9LengthArith: the extent arithmetic of the binary reader is done in int without narrowing, and
// paddedLen() >= len() by construction — the facts validate()/value()/Next() and the framing rely on.
func (c *c02ctx) r9LengthArith() {
	r, p := c.r, c.p
	r.Rule("C02.R9", "extent arithmetic of the binary reader: no narrowing conversion, paddedLen() = len() rounded up to a multiple of 8 in int", 3)
	for _, name := range []string{"len", "paddedLen", "value", "Next", "validate"} {
		fn := p.Func("ttlv", "ttlvReader", name)
		key := "ttlv.ttlvReader." + name + "/conversions"
		if fn == nil {
			r.Unk("C02.R9", key, token.NoPos, "anchor missing")
			continue
		}
		bad := ""
		allInstrs(fn, func(in ssa.Instruction) {
			cv, ok := in.(*ssa.Convert)
			if !ok {
				return
			}
			from, ok1 := cv.X.Type().Underlying().(*types.Basic)
			to, ok2 := cv.Type().Underlying().(*types.Basic)
			if !ok1 || !ok2 || from.Info()&types.IsInteger == 0 || to.Info()&types.IsInteger == 0 {
				return
			}
			size := func(b *types.Basic) int {
				switch b.Kind() {
				case types.Int8, types.Uint8:
					return 8
				case types.Int16, types.Uint16:
					return 16
				case types.Int32, types.Uint32:
					return 32
				}
				return 64
			}
			narrow := size(to) < size(from) || (size(to) == size(from) && (to.Info()&types.IsUnsigned) != (from.Info()&types.IsUnsigned))
			if narrow {
				bad = fmt.Sprintf("%s -> %s at %s", from.Name(), to.Name(), p.pos(cv.Pos()))
			}
		})
		if bad != "" {
			r.Bad("C02.R9", key, fn.Pos(), "extent arithmetic narrows an integer (%s): a declared length near 2^32 wraps, the reader accepts a header whose value it cannot hold and later slices out of range", bad)
		} else {
			r.OK("C02.R9", key, fn.Pos(), "no narrowing integer conversion")
		}
	}
	// paddedLen idioms
	if fn := p.Func("ttlv", "ttlvReader", "paddedLen"); fn != nil {
		ok := false
		isLen := func(v ssa.Value) bool {
			cl, ok := v.(*ssa.Call)
			return ok && callID(&cl.Call).is(ttlvPath, "ttlvReader", "len")
		}
		allInstrs(fn, func(in ssa.Instruction) {
			ret, isRet := in.(*ssa.Return)
			if !isRet {
				return
			}
			bo, isB := ret.Results[0].(*ssa.BinOp)
			if !isB {
				return
			}
			// l + padForLen(l, 8)
			if bo.Op == token.ADD && isLen(bo.X) {
				if pc, isC := bo.Y.(*ssa.Call); isC && callID(&pc.Call).is(ttlvPath, "", "padForLen") && pc.Call.Args[0] == bo.X {
					if k, isK := constIntVal(pc.Call.Args[1]); isK && k == 8 {
						ok = true
					}
				}
			}
			// (l + 7) &^ 7 in int
			if bo.Op == token.AND_NOT {
				if k, isK := constIntVal(bo.Y); isK && k == 7 {
					if sum, isS := bo.X.(*ssa.BinOp); isS && sum.Op == token.ADD && isLen(sum.X) {
						if k2, isK2 := constIntVal(sum.Y); isK2 && k2 == 7 {
							ok = true
						}
					}
				}
			}
		})
		// whatever the idiom, the round-up must not be computed in a 32-bit type: the declared length is a full uint32
		narrowAt := token.NoPos
		allInstrs(fn, func(in ssa.Instruction) {
			bo, isB := in.(*ssa.BinOp)
			if !isB || (bo.Op != token.ADD && bo.Op != token.AND_NOT && bo.Op != token.MUL && bo.Op != token.SHL) {
				return
			}
			if b, isBasic := bo.Type().Underlying().(*types.Basic); isBasic {
				switch b.Kind() {
				case types.Int32, types.Uint32, types.Int16, types.Uint16, types.Int8, types.Uint8:
					narrowAt = bo.Pos()
				}
			}
		})
		if narrowAt.IsValid() {
			r.Bad("C02.R9", "ttlv.ttlvReader.paddedLen/roundup", narrowAt, "paddedLen() rounds the declared length up in a 32-bit type: for a length within 7 of 2^32 the sum wraps to a small value, the extent check passes and the reader slices beyond the buffer (or a huge announced message is taken for an 8-byte one)")
		} else if ok {
			r.OK("C02.R9", "ttlv.ttlvReader.paddedLen/roundup", fn.Pos(), "paddedLen() is len() rounded up to a multiple of 8, computed in int: paddedLen() >= len()")
		} else {
			r.Unk("C02.R9", "ttlv.ttlvReader.paddedLen/roundup", fn.Pos(), "paddedLen() is not one of the recognised round-up idioms (l + padForLen(l, 8), (l+7) &^ 7 on the int returned by len()): paddedLen() >= len() cannot be established")
		}
	}
}

// arrayLenOf: x is (a pointer to) a fixed-size array; its length, else 0.
func arrayLenOf(x ssa.Value) int64 {
	t := x.Type().Underlying()
	if p, ok := t.(*types.Pointer); ok {
		t = p.Elem().Underlying()
	}
	if a, ok := t.(*types.Array); ok {
		return a.Len()
	}
	return 0
}

// selectedByPredicate: ta asserts s[idx].F (no comma-ok) where idx is the non-negative result of
// slices.IndexFunc(s, pred) and every true answer of pred is the ok of a comma-ok assertion of its parameter's
// field F to the same type (or is dominated by that ok being true).
func selectedByPredicate(ta *ssa.TypeAssert) (string, bool) {
	ld, ok := unspill(ta.X).(*ssa.UnOp)
	if !ok || ld.Op != token.MUL {
		return "", false
	}
	fa, ok := ld.X.(*ssa.FieldAddr)
	if !ok {
		return "", false
	}
	ia, ok := fa.X.(*ssa.IndexAddr)
	if !ok {
		return "", false
	}
	call, ok := unspill(ia.Index).(*ssa.Call)
	if !ok || len(call.Call.Args) != 2 || !sameSlice(call.Call.Args[0], ia.X) {
		return "", false
	}
	if id := callID(&call.Call); id.pkg != "slices" || id.name != "IndexFunc" {
		return "", false
	}
	if lb, _, ok := indexLowerBound(ia.Index, ta.Block()); !ok || lb < 0 {
		return "", false
	}
	var pred *ssa.Function
	switch f := call.Call.Args[1].(type) {
	case *ssa.MakeClosure:
		pred, _ = f.Fn.(*ssa.Function)
	case *ssa.Function:
		pred = f
	}
	if pred == nil || pred.Blocks == nil || len(pred.Params) != 1 {
		return "", false
	}
	// the comma-ok assertions of param.F to T inside pred
	isProbe := func(v ssa.Value) bool {
		ex, ok := v.(*ssa.Extract)
		if !ok || ex.Index != 1 {
			return false
		}
		pt, ok := ex.Tuple.(*ssa.TypeAssert)
		if !ok || !pt.CommaOk || !types.Identical(pt.AssertedType, ta.AssertedType) {
			return false
		}
		// operand: the field F of the parameter (by value: Field; by address: load of FieldAddr of the spilled param)
		switch x := unspill(pt.X).(type) {
		case *ssa.Field:
			return x.Field == fa.Field && unspill(x.X) == ssa.Value(pred.Params[0])
		case *ssa.UnOp:
			if f2, ok := x.X.(*ssa.FieldAddr); ok && f2.Field == fa.Field {
				if al, ok := f2.X.(*ssa.Alloc); ok {
					for _, ref := range *al.Referrers() {
						if st, ok := ref.(*ssa.Store); ok && st.Addr == ssa.Value(al) && st.Val == ssa.Value(pred.Params[0]) {
							return true
						}
					}
				}
				return f2.X == ssa.Value(pred.Params[0])
			}
		}
		return false
	}
	var okVal func(v ssa.Value, at *ssa.BasicBlock, depth int) bool
	okVal = func(v ssa.Value, at *ssa.BasicBlock, depth int) bool {
		if depth > 4 {
			return false
		}
		if k, ok := v.(*ssa.Const); ok && k.Value != nil && k.Value.Kind() == constant.Bool {
			if !constant.BoolVal(k.Value) {
				return true
			}
			for _, dc := range dominatingConds(at) {
				if dc.outcome && isProbe(dc.cond) {
					return true
				}
			}
			return false
		}
		if isProbe(v) {
			return true
		}
		if ph, ok := v.(*ssa.Phi); ok {
			for i, e := range ph.Edges {
				if !okVal(e, ph.Block().Preds[i], depth+1) {
					return false
				}
			}
			return true
		}
		return false
	}
	for _, b := range pred.Blocks {
		if len(b.Instrs) == 0 {
			continue
		}
		ret, ok := b.Instrs[len(b.Instrs)-1].(*ssa.Return)
		if !ok {
			continue
		}
		if len(ret.Results) != 1 || !okVal(ret.Results[0], b, 0) {
			return "", false
		}
	}
	return "the element was selected by slices.IndexFunc with a predicate that answers true only when its own comma-ok assertion of the same field to " + typeName(ta.AssertedType) + " succeeded, and the index is known non-negative here", true
}

// rangeNextOf: the loop header h is driven by a range iterator over a map or string (ssa.Next in the header).
func rangeNextOf(h *ssa.BasicBlock) (*ssa.Next, bool) {
	for _, in := range h.Instrs {
		if nx, ok := in.(*ssa.Next); ok {
			if rg, ok := nx.Iter.(*ssa.Range); ok {
				_, isMap := rg.X.Type().Underlying().(*types.Map)
				return nx, isMap
			}
		}
	}
	return nil, false
}

// errorEdgeStaysInLoop: the error result of call is tested with `err != nil` (or == nil) and the branch taken on a
// non-nil error leads to a block of the loop body.
func errorEdgeStaysInLoop(call ssa.Value, body map[*ssa.BasicBlock]bool) bool {
	errT := types.Universe.Lookup("error").Type()
	var errVals []ssa.Value
	if types.Identical(call.Type(), errT) {
		errVals = append(errVals, call)
	}
	if refs := call.Referrers(); refs != nil {
		for _, ref := range *refs {
			if ex, ok := ref.(*ssa.Extract); ok && types.Identical(ex.Type(), errT) {
				errVals = append(errVals, ex)
			}
		}
	}
	for _, ev := range errVals {
		refs := ev.Referrers()
		if refs == nil {
			continue
		}
		for _, ref := range *refs {
			bo, ok := ref.(*ssa.BinOp)
			if !ok || !isNilConst(bo.Y) || (bo.Op != token.NEQ && bo.Op != token.EQL) {
				continue
			}
			for _, r2 := range *bo.Referrers() {
				iff, ok := r2.(*ssa.If)
				if !ok {
					continue
				}
				errSucc := iff.Block().Succs[0]
				if bo.Op == token.EQL {
					errSucc = iff.Block().Succs[1]
				}
				if body[errSucc] {
					// unless that block leaves at once (return / break to a block outside)
					if _, isRet := errSucc.Instrs[len(errSucc.Instrs)-1].(*ssa.Return); isRet {
						continue
					}
					stays := false
					for _, sc := range errSucc.Succs {
						if body[sc] {
							stays = true
						}
					}
					if stays {
						return true
					}
				}
			}
		}
	}
	return false
}

// aliasWriteDisjoint: fn stores into an element of its slice parameter prm, and some caller passes a slice that
// aliases the input. The store is harmless when the condition under which fn writes and the condition under which
// a caller hands over the input itself (rather than a copy) exclude each other. Both are predicates over the length
// and the first byte of the same slice (the sign bit of a big integer): they are evaluated for lengths 0..64 and
// 2^20 and the 256 byte values.
func aliasWriteDisjoint(fns []*ssa.Function, fn *ssa.Function, target ssa.Value, st *ssa.Store, tainted func(ssa.Value) bool) (string, bool) {
	prm, ok := target.(*ssa.Parameter)
	if !ok {
		return "", false
	}
	pi := -1
	for i, q := range fn.Params {
		if q == prm {
			pi = i
		}
	}
	if pi < 0 {
		return "", false
	}
	// valuation of "first byte of base" and "len(base)" for one concrete (length, first byte) pair
	leafOf := func(base ssa.Value, n, b int64) func(ssa.Value) (int64, bool) {
		return func(v ssa.Value) (int64, bool) {
			if ld, ok := v.(*ssa.UnOp); ok && ld.Op == token.MUL {
				if ia, ok := ld.X.(*ssa.IndexAddr); ok && ia.X == base {
					if k, ok := constIntVal(ia.Index); ok && k == 0 {
						return b, true
					}
				}
			}
			if call, ok := v.(*ssa.Call); ok {
				if bi, ok := call.Call.Value.(*ssa.Builtin); ok && bi.Name() == "len" && len(call.Call.Args) == 1 && call.Call.Args[0] == base {
					return n, true
				}
			}
			return 0, false
		}
	}
	lens := []int64{1 << 20}
	for n := int64(0); n <= 64; n++ {
		lens = append(lens, n)
	}
	writeConds := dominatingConds(st.Block())
	evaluable := false
	for _, dc := range writeConds {
		if _, ok := evalLeafExpr(dc.cond, leafOf(prm, 1, 0), 0); ok {
			evaluable = true
		}
	}
	if !evaluable {
		return "", false
	}
	nSites := 0
	for _, f := range fns {
		okAll := true
		allInstrs(f, func(in ssa.Instruction) {
			call := callOf(in)
			if call == nil || call.StaticCallee() != fn || pi >= len(call.Args) {
				return
			}
			a := call.Args[pi]
			if !tainted(a) {
				return
			}
			nSites++
			ph, isPhi := a.(*ssa.Phi)
			if !isPhi {
				okAll = false
				return
			}
			for i, e := range ph.Edges {
				if !tainted(e) {
					continue
				}
				pred := ph.Block().Preds[i]
				conds := dominatingConds(pred)
				if cnd, isTrue, ok := edgeTaken(pred, ph.Block()); ok {
					conds = append(conds, domCond{cnd, isTrue, pred})
					conds = append(conds, expandShortCircuit(cnd, isTrue, pred, 0)...)
				}
				for _, n := range lens {
					for b := int64(0); b < 256; b++ {
						if condsHoldFor(conds, leafOf(e, n, b)) && condsHoldFor(writeConds, leafOf(prm, n, b)) {
							okAll = false
						}
						if n == 0 {
							break // no first byte
						}
					}
				}
			}
		})
		if !okAll {
			return "", false
		}
	}
	if nSites == 0 {
		return "", false
	}
	return fmt.Sprintf("%s writes its parameter only under a condition on the first byte that every caller passing the input itself excludes (%d call site(s), both predicates evaluated for lengths 0..64, 2^20 and the 256 byte values): the input is never modified", fnKey(fn), nSites), true
}

// ---------------------------------------------------------------- R10
// r10Allocs: a decoder never sizes an allocation by a number it has read. make([]T, n) / make([]T, 0, n) with an
// input-chosen n panics for a negative n (makeslice: len out of range) and reserves memory for a huge one before a single
// item has been seen. A size is structural when it is a constant, the len/cap of something, or arithmetic over those.
func (c *c02ctx) r10Allocs() {
	r := c.r
	r.Rule("C02.R10", "no allocation in the decode path is sized by a number read from the input: sizes are constants, len/cap of a value, or arithmetic over those", 1)
	var structural func(v ssa.Value, d int) bool
	structural = func(v ssa.Value, d int) bool {
		if d > 6 {
			return false
		}
		if _, ok := constIntVal(v); ok {
			return true
		}
		switch x := v.(type) {
		case *ssa.Call:
			if b, ok := x.Call.Value.(*ssa.Builtin); ok {
				switch b.Name() {
				case "len", "cap":
					return true
				case "min", "max":
					for _, a := range x.Call.Args {
						if !structural(a, d+1) {
							return false
						}
					}
					return true
				}
			}
			id := callID(&x.Call)
			if id.pkg == "reflect" && (id.name == "Len" || id.name == "Cap" || id.name == "NumField" || id.name == "NumMethod") {
				return true
			}
			if id.name == "Len" && len(x.Call.Args) <= 1 {
				return true // (*bytes.Buffer).Len, (*big.Int).BitLen-like size accessors of a value already held
			}
		case *ssa.BinOp:
			switch x.Op {
			case token.ADD, token.SUB, token.MUL, token.QUO, token.REM, token.SHL, token.SHR, token.AND, token.AND_NOT:
				return structural(x.X, d+1) && structural(x.Y, d+1)
			}
		case *ssa.Convert:
			return structural(x.X, d+1)
		case *ssa.Phi:
			for _, e := range x.Edges {
				if e != v && !structural(e, d+1) {
					return false
				}
			}
			return true
		case *ssa.Parameter:
			// a size handed in by the caller: decided at the call sites
			fn := x.Parent()
			pi := -1
			for i, q := range fn.Params {
				if q == x {
					pi = i
				}
			}
			sites := 0
			okAll := true
			for _, f := range c.fns {
				allInstrs(f, func(in ssa.Instruction) {
					if call := callOf(in); call != nil && call.StaticCallee() == fn && pi < len(call.Args) {
						sites++
						if !structural(call.Args[pi], d+1) {
							okAll = false
						}
					}
				})
			}
			return sites > 0 && okAll
		}
		return false
	}
	n := 0
	for _, fn := range c.fns {
		if _, plan := isPlanTime(fn); plan {
			continue
		}
		allInstrs(fn, func(in ssa.Instruction) {
			var sizes []ssa.Value
			what := ""
			switch x := in.(type) {
			case *ssa.MakeSlice:
				sizes, what = []ssa.Value{x.Len, x.Cap}, "make"
			case *ssa.MakeMap:
				if x.Reserve != nil {
					sizes, what = []ssa.Value{x.Reserve}, "make(map)"
				}
			case *ssa.Call:
				id := callID(&x.Call)
				switch {
				case id.pkg == "slices" && id.name == "Grow" && len(x.Call.Args) == 2:
					sizes, what = []ssa.Value{x.Call.Args[1]}, "slices.Grow"
				case id.pkg == "reflect" && id.name == "MakeSlice" && len(x.Call.Args) == 3:
					sizes, what = []ssa.Value{x.Call.Args[1], x.Call.Args[2]}, "reflect.MakeSlice"
				case id.name == "Grow" && (id.pkg == "bytes" || id.pkg == "strings") && len(x.Call.Args) == 2:
					sizes, what = []ssa.Value{x.Call.Args[1]}, id.pkg+".Grow"
				}
			}
			if what == "" {
				return
			}
			n++
			key := c.key(fn, "alloc")
			if idOf(fn).is(ttlvPath, "Stream", "Recv") && what == "slices.Grow" {
				// the one sanctioned input-sized allocation: the receive buffer, whose growth is decided by C07.S3 (the
				// announced size has been compared with the configured maximum on every path) and C07.S6 (positive amount)
				r.OK("C02.R10", key, in.Pos(), "receive buffer growth: bounded by the configured maximum (C07.S3) and positive (C07.S6)")
				return
			}
			for _, sz := range sizes {
				if sz != nil && !structural(sz, 0) {
					r.Bad("C02.R10", key, in.Pos(), "%s in %s is sized by a value that is not a constant or the length of something already held (a number decoded from the input): a negative number panics (makeslice: len/cap out of range) and a huge one reserves that much memory before any item was read", what, fnKey(fn))
					return
				}
			}
			r.OK("C02.R10", key, in.Pos(), "%s sized structurally", what)
		})
	}
	r.Infof("C02.R10: %d allocation site(s) with a size operand in the decode path", n)
}
