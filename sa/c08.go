package main

// C08 — the server stays available whatever clients and handlers do.
// C16 — shutdown drains cleanly and connection hooks are paired.

import (
	"fmt"
	"go/token"
	"go/types"
	"strings"

	"golang.org/x/tools/go/ssa"
)

const srvPath = modPath + "/kmipserver"

func runC08(r *Run, verifDir string) {
	p := r.P
	c := &concCtx{r: r, p: p, rel: "kmipserver", ops: chanOps(p, "kmipserver"), rule: func(k string) string { return "C08." + k }}
	r.Explain = append(r.Explain,
		"C08 is decided structurally on package kmipserver: K1 a channel is closed only by the goroutine that is its sole sender (otherwise a send races with the close and panics, and the connection goroutines have no recover); K2 the per-message reply channel is buffered, so the write loop never blocks on a requester that has left (no leaked goroutine); K3 every invocation of an operation handler is inside a function whose entry defers a recover() that turns the panic into a failed batch item; K4 in the connection loop every path from a received request back to the loop head performs exactly one send, there is no `go` statement between the loop and the handler, and only the write loop writes to the stream — one response per request, in order, by construction; K5 a framed-but-undecodable request is forwarded without tearing the connection down and answered by exactly one invalid-message response; K6 every blocking channel operation has a <-ctx.Done() alternative (or cannot block) and terminate cancels the context first, so teardown releases every goroutine of the connection.")
	r.Assume = append(r.Assume, "the decode side does not panic (C02)", "Go memory model: a channel never closed cannot make a send panic")
	r.NotCov = append(r.NotCov, "deadlock-freedom and liveness under a scheduler (K6 shows each blocking point has a release, not that the system progresses)", "resource exhaustion with many connections", "panics raised by user middlewares and hooks", "timing")
	c.k1SoleSenderCloses()
	c.k2ReplyBuffered()
	c08K3Recover(r)
	c08K4OneResponse(r)
	c08K5InvalidMessage(r)
	c08K5Sentinels(r)
	c.k6Releasable()
	r.Rule("C08.K10", "the read and write loops tear the connection down on every stream-error exit", 2)
	c.kLoopErrorExits("C08.K10")
	c08K7AcceptLoop(r, "C08.K7")
	r.Import("C08.K13", "the connection goroutines decode client bytes with no recover(): every index/slice of input-derived data and every fixed-width read in the decoders is covered by a length guard, so no request can crash the process from the read loop", 30, "C02", "C02.R4", nil)
	c08K8NilItems(r)
	c08K9RequestsOnly(r)
	c08K3RecoveredError(r, "C08.K3")
	c08K12Deadlines(r)
	r.Rule("C08.K11", "terminate closes the stream on every path (early exits only through a sound idempotence test)", 1)
	terminateClosesStream(r, "C08.K11", "kmipserver")
}

// ---------------------------------------------------------------- K3

func c08K3Recover(r *Run) {
	p := r.P
	r.Rule("C08.K3", "every invocation of OperationHandler.HandleOperation is covered by a deferred recover() that produces a failed batch item", 2)
	n := 0
	for _, fn := range pkgFuncs(p, "kmipserver") {
		ord := 0
		allInstrs(fn, func(in ssa.Instruction) {
			call, ok := in.(*ssa.Call)
			if !ok || !call.Call.IsInvoke() || call.Call.Method.Name() != "HandleOperation" {
				return
			}
			n++
			ord++
			key := fmt.Sprintf("%s/HandleOperation#%d", fnKey(fn), ord)
			// a Defer in this function, dominating the call, of a closure that calls recover() and handleBatchItemError
			found, mapsToFailure := false, false
			allInstrs(fn, func(in2 ssa.Instruction) {
				d, ok := in2.(*ssa.Defer)
				if !ok || !dominatesInstr(d, call) {
					return
				}
				var cl *ssa.Function
				if mc, ok := d.Call.Value.(*ssa.MakeClosure); ok {
					cl, _ = mc.Fn.(*ssa.Function)
				}
				if cl == nil {
					return
				}
				rec, fail := false, false
				allInstrs(cl, func(in3 ssa.Instruction) {
					c3, ok := in3.(*ssa.Call)
					if !ok {
						return
					}
					if b, ok := c3.Call.Value.(*ssa.Builtin); ok && b.Name() == "recover" {
						rec = true
					}
					if strings.HasSuffix(callID(&c3.Call).name, "handleBatchItemError") {
						fail = true
					}
				})
				if rec {
					found = true
					mapsToFailure = fail
				}
			})
			switch {
			case !found:
				r.Bad("C08.K3", key, call.Pos(), "an operation handler is invoked in %s without a deferred recover() in force: a panicking handler kills the connection goroutine and with it the process", fnKey(fn))
			case !mapsToFailure:
				r.Bad("C08.K3", key, call.Pos(), "the recovered panic is not turned into a failed batch item (handleBatchItemError is not called)")
			default:
				r.OK("C08.K3", key, call.Pos(), "deferred recover() at entry maps the panic to a failed batch item")
			}
		})
	}
	if n == 0 {
		r.Unk("C08.K3", "kmipserver/HandleOperation", token.NoPos, "no invocation of HandleOperation found")
	}
}

// ---------------------------------------------------------------- K4

func c08K4OneResponse(r *Run) {
	p := r.P
	r.Rule("C08.K4", "one response per request, in order: exactly one send on every path from recv back to the loop head, no go statement on the way to the handler, the write loop is the only stream writer", 4)
	hc := p.Func("kmipserver", "Server", "handleConn")
	if hc == nil {
		r.Unk("C08.K4", "kmipserver.Server.handleConn", token.NoPos, "anchor missing")
		return
	}
	var recv *ssa.Call
	allInstrs(hc, func(in ssa.Instruction) {
		if call, ok := in.(*ssa.Call); ok && callID(&call.Call).is(srvPath, "conn", "recv") {
			recv = call
		}
	})
	if recv == nil {
		r.Unk("C08.K4", "kmipserver.Server.handleConn/recv", hc.Pos(), "call of conn.recv not found")
		return
	}
	hdr := recv.Block()
	// enumerate simple paths from the header back to the header
	type res struct{ sends, handlers int }
	var results []res
	var walk func(b *ssa.BasicBlock, seen map[*ssa.BasicBlock]bool, sends, handlers int)
	count := func(b *ssa.BasicBlock) (int, int) {
		s, h := 0, 0
		for _, in := range b.Instrs {
			if call, ok := in.(*ssa.Call); ok {
				id := callID(&call.Call)
				if id.is(srvPath, "conn", "send") {
					s++
				}
				if rid := resolvedCallID(&call.Call, 0); rid.name == "HandleRequest" && rid.recv == "RequestHandler" {
					h++
				}
			}
		}
		return s, h
	}
	walk = func(b *ssa.BasicBlock, seen map[*ssa.BasicBlock]bool, sends, handlers int) {
		s, h := count(b)
		sends += s
		handlers += h
		for _, nx := range b.Succs {
			if nx == hdr {
				results = append(results, res{sends, handlers})
				continue
			}
			if seen[nx] || !hdr.Dominates(nx) {
				continue
			}
			seen[nx] = true
			walk(nx, seen, sends, handlers)
			delete(seen, nx)
		}
	}
	walk(hdr, map[*ssa.BasicBlock]bool{hdr: true}, 0, 0)
	okLoop := len(results) > 0
	for _, x := range results {
		if x.sends != 1 || x.handlers != 1 {
			okLoop = false
		}
	}
	if okLoop {
		r.OK("C08.K4", "kmipserver.Server.handleConn/loop", recv.Pos(), "%d loop path(s): each runs the request handler once and sends exactly one response before waiting for the next request", len(results))
	} else {
		r.Bad("C08.K4", "kmipserver.Server.handleConn/loop", recv.Pos(), "a path around the connection loop does not perform exactly one handleRequest and one send (%v): a request is left unanswered, or answered twice", results)
	}
	// leaving paths send at most once
	// no `go` between the loop and the handlers
	nGo := 0
	for _, name := range [][2]string{{"Server", "handleConn"}, {"Server", "handleRequest"}, {"BatchExecutor", "HandleRequest"}, {"BatchExecutor", "handleRequest"}, {"BatchExecutor", "executeItemWithMiddleware"}, {"BatchExecutor", "executeItem"}} {
		fn := p.Func("kmipserver", name[0], name[1])
		if fn == nil {
			if name[1] == "handleRequest" && name[0] == "Server" {
				continue // a thin forwarder to the handler: absent when the loop invokes the handler directly
			}
			r.Unk("C08.K4", "kmipserver."+name[0]+"."+name[1]+"/no-go", token.NoPos, "anchor missing")
			continue
		}
		withClosures(fn, func(f *ssa.Function) {
			allInstrs(f, func(in ssa.Instruction) {
				if g, ok := in.(*ssa.Go); ok {
					nGo++
					r.Bad("C08.K4", fnKey(f)+"/go", g.Pos(), "a goroutine is spawned on the request path in %s: responses of one connection can be produced out of request order", fnKey(f))
				}
			})
		})
	}
	if nGo == 0 {
		r.OK("C08.K4", "kmipserver/request-path/no-go", hc.Pos(), "no go statement between the connection loop and the operation handlers: requests of a connection are processed sequentially")
	}
	// only writeloop calls stream.Send
	var writers []string
	for _, fn := range pkgFuncs(p, "kmipserver") {
		allInstrs(fn, func(in ssa.Instruction) {
			if call, ok := in.(*ssa.Call); ok && callID(&call.Call).is(ttlvPath, "Stream", "Send") {
				writers = append(writers, fnKey(fn))
			}
		})
	}
	if len(writers) == 1 && writers[0] == "kmipserver.conn.writeloop" {
		r.OK("C08.K4", "kmipserver/stream-writers", token.NoPos, "conn.writeloop is the only caller of Stream.Send")
	} else {
		r.Bad("C08.K4", "kmipserver/stream-writers", token.NoPos, "Stream.Send is called from %v: two writers can interleave the bytes of two responses", writers)
	}
	// send() hands over exactly one message per call
	if sf := p.Func("kmipserver", "conn", "send"); sf != nil {
		n := 0
		allInstrs(sf, func(in ssa.Instruction) {
			if sel, ok := in.(*ssa.Select); ok {
				for _, st := range sel.States {
					if chanClass(st.Chan.Type()) == "txMsg" {
						n++
					}
				}
			}
			if s, ok := in.(*ssa.Send); ok && chanClass(s.Chan.Type()) == "txMsg" {
				n++
			}
		})
		hasLoop := false
		for _, b := range sf.Blocks {
			for _, s := range b.Succs {
				if s.Dominates(b) {
					hasLoop = true
				}
			}
		}
		if n == 1 && !hasLoop {
			r.OK("C08.K4", "kmipserver.conn.send/once", sf.Pos(), "send hands its message to the write loop at most once")
		} else {
			r.Bad("C08.K4", "kmipserver.conn.send/once", sf.Pos(), "conn.send can hand a message to the write loop %d times (loop=%v)", n, hasLoop)
		}
	}
}

// ---------------------------------------------------------------- K5

func c08K5InvalidMessage(r *Run) {
	p := r.P
	r.Rule("C08.K5", "a framed but undecodable request is forwarded without teardown and answered with one invalid-message response", 2)
	// readloop: terminate only when !IsErrEncoding(err)
	rl := p.Func("kmipserver", "conn", "readloop")
	if rl == nil {
		r.Unk("C08.K5", "kmipserver.conn.readloop", token.NoPos, "anchor missing")
	} else {
		bad, n := false, 0
		allInstrs(rl, func(in ssa.Instruction) {
			call, ok := in.(*ssa.Call)
			if !ok || !callID(&call.Call).is(srvPath, "conn", "terminate") {
				return
			}
			n++
			guarded := false
			for _, dc := range dominatingConds(call.Block()) {
				if c2, ok := dc.cond.(*ssa.Call); ok && callID(&c2.Call).is(ttlvPath, "", "IsErrEncoding") && !dc.outcome {
					guarded = true
				}
			}
			if !guarded {
				bad = true
			}
		})
		// and the rx send carries the error
		carries := false
		allInstrs(rl, func(in ssa.Instruction) {
			if st, ok := in.(*ssa.Store); ok {
				if _, fld, ok := fieldAddrOf(st.Addr); ok && fname(fld) == "err" && typeName(st.Addr.(*ssa.FieldAddr).X.Type()) == "rxMsg" {
					carries = true
				}
			}
		})
		switch {
		case n == 0:
			r.Unk("C08.K5", "kmipserver.conn.readloop", rl.Pos(), "teardown call not found in readloop")
		case bad:
			r.Bad("C08.K5", "kmipserver.conn.readloop", rl.Pos(), "readloop tears the connection down on an encoding error: the client never receives the invalid-message response")
		case !carries:
			r.Bad("C08.K5", "kmipserver.conn.readloop", rl.Pos(), "readloop does not forward the decoding error to the connection goroutine")
		default:
			r.OK("C08.K5", "kmipserver.conn.readloop", rl.Pos(), "only non-encoding errors tear down; an encoding error is forwarded on rx together with the error")
		}
	}
	hc := p.Func("kmipserver", "Server", "handleConn")
	if hc == nil {
		r.Unk("C08.K5", "kmipserver.Server.handleConn", token.NoPos, "anchor missing")
		return
	}
	var hme, send *ssa.Call
	allInstrs(hc, func(in ssa.Instruction) {
		call, ok := in.(*ssa.Call)
		if !ok {
			return
		}
		enc := false
		for _, dc := range dominatingConds(call.Block()) {
			if c2, ok := dc.cond.(*ssa.Call); ok && callID(&c2.Call).is(ttlvPath, "", "IsErrEncoding") && dc.outcome {
				enc = true
			}
		}
		if !enc {
			return
		}
		id := callID(&call.Call)
		if rid := resolvedCallID(&call.Call, 0); rid.is(srvPath, "", "handleMessageError") {
			hme = call
		}
		if id.is(srvPath, "conn", "send") {
			send = call
		}
	})
	if hme == nil || send == nil {
		r.Bad("C08.K5", "kmipserver.Server.handleConn/invalid-message", hc.Pos(), "the connection loop does not answer an encoding error with handleMessageError + send")
		return
	}
	// the result reason: an argument of the call, or of the Errorf that builds its error argument
	reason := int64(-2)
	var findReason func(v ssa.Value, d int)
	findReason = func(v ssa.Value, d int) {
		if d > 3 {
			return
		}
		if typeName(v.Type()) == "ResultReason" {
			if k, ok := constIntVal(v); ok {
				reason = k
			}
		}
		if c, ok := v.(*ssa.Call); ok {
			for _, a := range c.Call.Args {
				findReason(a, d+1)
			}
		}
	}
	for _, a := range hme.Call.Args {
		findReason(a, 0)
	}
	want := int64(-1)
	if o := p.Pkg("").Types.Scope().Lookup("ResultReasonInvalidMessage"); o != nil {
		if cst, ok := o.(interface {
			Val() interface{ ExactString() string }
		}); ok {
			_ = cst
		}
	}
	reg := BuildRegistry(p)
	for _, e := range reg.Enums {
		if e.Type.Obj().Name() == "ResultReason" {
			for _, v := range e.Values {
				if v.Name == "InvalidMessage" {
					want = int64(v.Num)
				}
			}
		}
	}
	if send.Call.Args[1] != ssa.Value(hme) {
		r.Bad("C08.K5", "kmipserver.Server.handleConn/invalid-message", send.Pos(), "the response sent for an encoding error is not the one built by handleMessageError")
	} else if reason != want {
		r.Bad("C08.K5", "kmipserver.Server.handleConn/invalid-message", hme.Pos(), "an undecodable request is answered with result reason %d instead of Invalid Message (%d)", reason, want)
	} else {
		r.OK("C08.K5", "kmipserver.Server.handleConn/invalid-message", hme.Pos(), "encoding error -> handleMessageError(Invalid Message) -> one send, then the loop ends")
	}
}

// ================================================================ C16

func runC16(r *Run, verifDir string) {

	r.Explain = append(r.Explain,
		"C16 is decided structurally on kmipserver/server.go and conn.go: H1 the single `defer terminateHook` is dominated by the success edge of the connect hook, outside any loop, takes the context the connect hook returned, and handlers run synchronously in the same function (so it runs exactly once, after the last handler, and never for a failed connect hook); H2 every `go handleConn` is preceded by wg.Add(1) and handleConn's first action is `defer wg.Done()`; H3 Shutdown closes the listener, cancels the receive context, arms the grace timer (3 s, whose only effect is cancel), waits for the connection goroutines and only then cancels the root context and returns; Serve maps a closed listener to ErrShutdown; H4 the connection loop waits for requests on the receive context and every connection/handler context derives from the server's root context; H5 every goroutine the package spawns is joined before Shutdown returns.")
	r.NotCov = append(r.NotCov, "timing (the 3 s grace period as wall-clock behaviour)", "that each in-flight request is answered or cancelled under a real scheduler", "user hooks that block forever")
	c16H1(r)
	c16H2(r)
	c16H3(r)
	c16H4(r)
	c16H5(r)
	c08K7AcceptLoop(r, "C16.H6")
	r.Rule("C16.H7", "terminate closes the stream on every path (early exits only through a sound idempotence test): a connection whose context was cancelled by the grace period is still closed", 1)
	terminateClosesStream(r, "C16.H7", "kmipserver")
	r.Import("C16.H8", "nothing in the server parks on a channel operation that shutdown cannot release (every blocking select has the teardown case; no bare send/receive on a signalling channel)", 7, "C08", "C08.K6", func(k string) bool { return strings.HasPrefix(k, "kmipserver.") })
}

func c16H1(r *Run) {
	p := r.P
	r.Rule("C16.H1", "terminate hook deferred exactly once, on the success edge of the connect hook, with the context it returned; handlers run synchronously", 1)
	hc := p.Func("kmipserver", "Server", "handleConn")
	if hc == nil {
		r.Unk("C16.H1", "kmipserver.Server.handleConn/hooks", token.NoPos, "anchor missing")
		return
	}
	var connect *ssa.Call
	var defers []*ssa.Defer
	allInstrs(hc, func(in ssa.Instruction) {
		switch x := in.(type) {
		case *ssa.Call:
			if callID(&x.Call).is(srvPath, "Server", "connectHook") {
				connect = x
			}
		case *ssa.Defer:
			if callID(&x.Call).is(srvPath, "Server", "terminateHook") {
				defers = append(defers, x)
			}
		}
	})
	key := "kmipserver.Server.handleConn/hooks"
	switch {
	case connect == nil || len(defers) == 0:
		r.Bad("C16.H1", key, hc.Pos(), "connect hook call or deferred terminate hook not found in handleConn")
		return
	case len(defers) != 1:
		r.Bad("C16.H1", key, defers[1].Pos(), "the terminate hook is deferred %d times", len(defers))
		return
	}
	d := defers[0]
	// dominated by err == nil edge of the connect hook
	okEdge := false
	for _, dc := range dominatingConds(d.Block()) {
		if bo, ok := dc.cond.(*ssa.BinOp); ok && bo.Op == token.NEQ && isNilConst(bo.Y) && !dc.outcome {
			if ex, ok := bo.X.(*ssa.Extract); ok && ex.Tuple == ssa.Value(connect) && ex.Index == 1 {
				okEdge = true
			}
		}
	}
	inLoop := false
	for _, b := range hc.Blocks {
		for _, s := range b.Succs {
			if s.Dominates(b) && s.Dominates(d.Block()) && reachableFrom(d.Block())[s] && reachableFrom(d.Block())[d.Block()] && d.Block() != hc.Blocks[0] {
				// d.Block is inside the natural loop of header s iff it can reach the latch b without leaving through... approximate: d reaches itself
				_ = b
			}
		}
	}
	// d is in a loop iff its block is reachable from one of its own successors
	for _, s := range d.Block().Succs {
		if reachableFrom(s)[d.Block()] {
			inLoop = true
		}
	}
	ctxOK := false
	if ex, ok := d.Call.Args[1].(*ssa.Extract); ok && ex.Tuple == ssa.Value(connect) && ex.Index == 0 {
		ctxOK = true
	}
	switch {
	case !okEdge:
		r.Bad("C16.H1", key, d.Pos(), "the terminate hook is deferred on a path where the connect hook has not succeeded: it would run for a connection whose connect hook failed (or before it ran)")
	case inLoop:
		r.Bad("C16.H1", key, d.Pos(), "the terminate hook is deferred inside the request loop: it runs once per request instead of once per connection")
	case !ctxOK:
		r.Bad("C16.H1", key, d.Pos(), "the terminate hook does not receive the context returned by the connect hook")
	default:
		r.OK("C16.H1", key, d.Pos(), "single defer on the connect hook's success edge, outside the loop, with the hook's own context; runs when handleConn returns, i.e. after the last synchronous handler")
	}
}

func c16H2(r *Run) {
	p := r.P
	r.Rule("C16.H2", "every go handleConn is preceded by wg.Add(1); handleConn starts with defer wg.Done()", 2)
	n := 0
	var wrappers []*ssa.Function
	for _, g := range goSites(p, "kmipserver") {
		if g.target != "kmipserver.Server.handleConn" && g.inner != "kmipserver.Server.handleConn" {
			continue
		}
		if g.wrapper != nil {
			wrappers = append(wrappers, g.wrapper)
		}
		n++
		key := fnKey(g.fn) + "/go-handleConn"
		// previous wg.Add in the same block before the go
		add := false
		for _, in := range g.in.Block().Instrs {
			if in == ssa.Instruction(g.in) {
				break
			}
			if call, ok := in.(*ssa.Call); ok && callID(&call.Call).is("sync", "WaitGroup", "Add") {
				if k, ok := constIntVal(call.Call.Args[1]); ok && k == 1 {
					add = true
				}
			}
		}
		if add {
			r.OK("C16.H2", key, g.in.Pos(), "wg.Add(1) immediately before the goroutine is started")
		} else {
			r.Bad("C16.H2", key, g.in.Pos(), "the connection goroutine is started without a preceding wg.Add(1) in the same block: Shutdown's Wait can return while it is still starting")
		}
	}
	if n == 0 {
		r.Unk("C16.H2", "kmipserver/go-handleConn", token.NoPos, "no `go handleConn` found")
	}
	hc := p.Func("kmipserver", "Server", "handleConn")
	if hc == nil {
		r.Unk("C16.H2", "kmipserver.Server.handleConn/done", token.NoPos, "anchor missing")
		return
	}
	startsWithDone := func(fn *ssa.Function) bool {
		for _, in := range fn.Blocks[0].Instrs {
			if d, ok := in.(*ssa.Defer); ok {
				return callID(&d.Call).is("sync", "WaitGroup", "Done")
			}
			if _, ok := in.(*ssa.Call); ok {
				return false // a call before the defer
			}
		}
		return false
	}
	countDone := func(fn *ssa.Function) int {
		c := 0
		allInstrs(fn, func(in ssa.Instruction) {
			if cc := callOf(in); cc != nil && callID(cc).is("sync", "WaitGroup", "Done") {
				recv := cc.Args[0]
				if u, ok := recv.(*ssa.UnOp); ok && u.Op == token.MUL {
					recv = u.X
				}
				if fa, ok := recv.(*ssa.FieldAddr); ok && typeName(fa.X.Type()) == "Server" {
					c++
				}
			}
		})
		return c
	}
	// the goroutine's entry function is handleConn itself or a thin closure around it: exactly one of them announces
	// the end of the goroutine, as its first action
	first := startsWithDone(hc) && len(wrappers) == 0
	dones := countDone(hc)
	for _, w := range wrappers {
		if startsWithDone(w) && countDone(hc) == 0 {
			first = true
		} else if !(startsWithDone(hc) && countDone(w) == 0) {
			first = false
		}
		dones += countDone(w)
	}
	if len(wrappers) > 0 && startsWithDone(hc) && dones == 1 {
		first = true
	}
	if first && dones == 1 {
		r.OK("C16.H2", "kmipserver.Server.handleConn/done", hc.Pos(), "defer wg.Done() is the first action of the connection goroutine, before any call that could return early or panic")
	} else {
		r.Bad("C16.H2", "kmipserver.Server.handleConn/done", hc.Pos(), "the connection goroutine does not start with exactly one `defer wg.Done()` (in handleConn or in the closure that runs it; found %d): an early return or panic before it leaves Shutdown waiting forever, a second Done makes the counter negative", dones)
	}
}

func c16H3(r *Run) {
	p := r.P
	r.Rule("C16.H3", "Shutdown: listener.Close -> recvCancel -> grace timer -> wg.Wait -> cancel -> return; Serve returns ErrShutdown exactly on net.ErrClosed", 3)
	sd := p.Func("kmipserver", "Server", "Shutdown")
	if sd == nil {
		r.Unk("C16.H3", "kmipserver.Server.Shutdown/order", token.NoPos, "anchor missing")
		return
	}
	var seq []string
	var timerDur int64 = -1
	var timerFn *ssa.Function
	timerDirect := false
	fieldCall := func(call *ssa.Call) string {
		if u, ok := call.Call.Value.(*ssa.UnOp); ok {
			if _, fld, ok := fieldAddrOf(u.X); ok {
				return fname(fld)
			}
		}
		return ""
	}
	// the marker calls, in order, on every path from entry to a return (branches without markers, e.g. logging, are fine)
	classify := func(call *ssa.Call) string {
		id := callID(&call.Call)
		switch {
		case call.Call.IsInvoke() && call.Call.Method.Name() == "Close" && typeName(call.Call.Value.Type()) == "Listener":
			return "listener.Close"
		case fieldCall(call) == "recvCancel":
			return "recvCancel"
		case fieldCall(call) == "cancel":
			return "cancel"
		case id.is("time", "", "AfterFunc"):
			return "AfterFunc"
		case id.is("sync", "WaitGroup", "Wait"):
			return "wg.Wait"
		}
		return ""
	}
	var straight []*ssa.BasicBlock
	if len(sd.Blocks) == 1 || (len(sd.Blocks) == 2 && sd.Recover != nil) {
		straight = sd.Blocks[:1]
	} else {
		paths, okPaths := enumeratePaths(sd, 512)
		if !okPaths || len(paths) == 0 {
			r.Unk("C16.H3", "kmipserver.Server.Shutdown/order", sd.Pos(), "Shutdown has too many paths to enumerate")
			return
		}
		want := "listener.Close,recvCancel,AfterFunc,wg.Wait,cancel"
		var longest cfgPath
		for _, path := range paths {
			var ms []string
			for _, b := range path {
				for _, in := range b.Instrs {
					if call, ok := in.(*ssa.Call); ok {
						if m := classify(call); m != "" {
							ms = append(ms, m)
						}
					}
				}
			}
			if got := strings.Join(ms, ","); got != want {
				r.Bad("C16.H3", "kmipserver.Server.Shutdown/order", sd.Pos(), "a path through Shutdown runs %s; required on every path: listener.Close -> recvCancel -> AfterFunc -> wg.Wait -> cancel (returning before Wait leaves goroutines running; cancelling before Wait kills in-flight handlers instead of draining them)", strings.ReplaceAll(got, ",", " -> "))
				return
			}
			if len(path) > len(longest) {
				longest = path
			}
		}
		straight = longest
	}
	for _, in := range func() []ssa.Instruction {
		var all []ssa.Instruction
		for _, b := range straight {
			all = append(all, b.Instrs...)
		}
		return all
	}() {
		call, ok := in.(*ssa.Call)
		if !ok {
			continue
		}
		id := callID(&call.Call)
		switch {
		case call.Call.IsInvoke() && call.Call.Method.Name() == "Close" && typeName(call.Call.Value.Type()) == "Listener":
			seq = append(seq, "listener.Close")
		case fieldCall(call) == "recvCancel":
			seq = append(seq, "recvCancel")
		case fieldCall(call) == "cancel":
			seq = append(seq, "cancel")
		case id.is("time", "", "AfterFunc"):
			seq = append(seq, "AfterFunc")
			timerDur, _ = constIntVal(call.Call.Args[0])
			if mc, ok := call.Call.Args[1].(*ssa.MakeClosure); ok {
				timerFn, _ = mc.Fn.(*ssa.Function)
			}
			// the cancel function itself handed to the timer
			if u, ok := call.Call.Args[1].(*ssa.UnOp); ok {
				if _, fld, ok := fieldAddrOf(u.X); ok && fname(fld) == "cancel" {
					timerDirect = true
				}
			}
		case id.is("sync", "WaitGroup", "Wait"):
			seq = append(seq, "wg.Wait")
		}
	}
	got := strings.Join(seq, ",")
	if got == "listener.Close,recvCancel,AfterFunc,wg.Wait,cancel" {
		r.OK("C16.H3", "kmipserver.Server.Shutdown/order", sd.Pos(), "%s, then return", strings.ReplaceAll(got, ",", " -> "))
	} else {
		r.Bad("C16.H3", "kmipserver.Server.Shutdown/order", sd.Pos(), "Shutdown runs %s; required: listener.Close -> recvCancel -> AfterFunc -> wg.Wait -> cancel (cancelling before Wait kills in-flight handlers instead of draining them; returning before Wait leaves goroutines running)", strings.ReplaceAll(got, ",", " -> "))
	}
	// timer closure only cancels; duration 3s
	okTimer := (timerFn != nil || timerDirect) && timerDur == 3000000000
	if timerFn != nil {
		allInstrs(timerFn, func(in ssa.Instruction) {
			if call, ok := in.(*ssa.Call); ok && fieldCall(call) != "cancel" {
				okTimer = false
			}
		})
	}
	if okTimer {
		r.OK("C16.H3", "kmipserver.Server.Shutdown/grace", sd.Pos(), "grace timer of 3 s whose only action is srv.cancel()")
	} else {
		r.Bad("C16.H3", "kmipserver.Server.Shutdown/grace", sd.Pos(), "the forced-cancel timer is not `time.AfterFunc(3*time.Second, srv.cancel)` (duration %d ns)", timerDur)
	}
	// Serve
	sv := p.Func("kmipserver", "Server", "Serve")
	if sv == nil {
		r.Unk("C16.H3", "kmipserver.Server.Serve/ErrShutdown", token.NoPos, "anchor missing")
		return
	}
	okServe := false
	allInstrs(sv, func(in ssa.Instruction) {
		ret, ok := in.(*ssa.Return)
		if !ok {
			return
		}
		u, ok := ret.Results[0].(*ssa.UnOp)
		if !ok {
			return
		}
		if g, ok := u.X.(*ssa.Global); ok && g.Name() == "ErrShutdown" {
			for _, dc := range dominatingConds(ret.Block()) {
				if call, ok := dc.cond.(*ssa.Call); ok && dc.outcome && callID(&call.Call).is("errors", "", "Is") {
					if u2, ok := call.Call.Args[1].(*ssa.UnOp); ok {
						if g2, ok := u2.X.(*ssa.Global); ok && g2.Name() == "ErrClosed" {
							okServe = true
						}
					}
				}
			}
		}
	})
	if okServe {
		r.OK("C16.H3", "kmipserver.Server.Serve/ErrShutdown", sv.Pos(), "Accept error matching net.ErrClosed -> ErrShutdown")
	} else {
		r.Bad("C16.H3", "kmipserver.Server.Serve/ErrShutdown", sv.Pos(), "Serve does not return ErrShutdown exactly when the listener was closed")
	}
}

func c16H4(r *Run) {
	p := r.P
	r.Rule("C16.H4", "the connection loop waits on the receive context; connection contexts derive from the server's root context", 3)
	hc := p.Func("kmipserver", "Server", "handleConn")
	if hc == nil {
		r.Unk("C16.H4", "kmipserver.Server.handleConn", token.NoPos, "anchor missing")
		return
	}
	srvField := func(v ssa.Value) string {
		if u, ok := v.(*ssa.UnOp); ok {
			if _, fld, ok := fieldAddrOf(u.X); ok && typeName(u.X.(*ssa.FieldAddr).X.Type()) == "Server" {
				return fname(fld)
			}
		}
		return ""
	}
	allInstrs(hc, func(in ssa.Instruction) {
		call, ok := in.(*ssa.Call)
		if !ok {
			return
		}
		id := callID(&call.Call)
		if id.is(srvPath, "conn", "recv") {
			if srvField(call.Call.Args[1]) == "recvCtx" {
				r.OK("C16.H4", "kmipserver.Server.handleConn/recv-ctx", call.Pos(), "requests are awaited on srv.recvCtx: no new request is taken after recvCancel")
			} else {
				r.Bad("C16.H4", "kmipserver.Server.handleConn/recv-ctx", call.Pos(), "the connection loop does not wait on srv.recvCtx: Shutdown cannot stop a connection from taking new requests")
			}
		}
		if id.is(srvPath, "", "newConn") {
			if srvField(call.Call.Args[1]) == "ctx" {
				r.OK("C16.H4", "kmipserver.Server.handleConn/conn-ctx", call.Pos(), "connection context derives from srv.ctx: the forced cancel reaches every in-flight handler")
			} else {
				r.Bad("C16.H4", "kmipserver.Server.handleConn/conn-ctx", call.Pos(), "connection context does not derive from srv.ctx: the forced cancel after the grace period does not reach in-flight handlers")
			}
		}
	})
	// recv's ctx.Done() case terminates and returns an error
	rv := p.Func("kmipserver", "conn", "recv")
	if rv == nil {
		r.Unk("C16.H4", "kmipserver.conn.recv/ctx-done", token.NoPos, "anchor missing")
		return
	}
	okDone := false
	allInstrs(rv, func(in ssa.Instruction) {
		sel, ok := in.(*ssa.Select)
		if !ok {
			return
		}
		for _, st := range sel.States {
			if c, ok := st.Chan.(*ssa.Call); ok && isCtxDone(st.Chan) {
				if _, isParam := c.Call.Value.(*ssa.Parameter); isParam {
					okDone = true
				}
			}
		}
	})
	if okDone {
		r.OK("C16.H4", "kmipserver.conn.recv/ctx-done", rv.Pos(), "recv selects on the caller's context")
	} else {
		r.Bad("C16.H4", "kmipserver.conn.recv/ctx-done", rv.Pos(), "recv does not select on the caller's (receive) context")
	}
}

func c16H5(r *Run) {
	p := r.P
	r.Rule("C16.H5", "every goroutine spawned by the package is joined before Shutdown returns", 3)
	// is there a WaitGroup (or equivalent) in conn that Close waits on?
	closeFn := p.Func("kmipserver", "conn", "Close")
	waits := false
	if closeFn != nil {
		seen := map[*ssa.Function]bool{}
		var scan func(f *ssa.Function, d int)
		scan = func(f *ssa.Function, d int) {
			if f == nil || seen[f] || d > 3 || f.Blocks == nil {
				return
			}
			seen[f] = true
			allInstrs(f, func(in ssa.Instruction) {
				if d, ok := in.(*ssa.Defer); ok && callID(&d.Call).is("sync", "WaitGroup", "Wait") {
					waits = true
				}
				if call, ok := in.(*ssa.Call); ok {
					if callID(&call.Call).is("sync", "WaitGroup", "Wait") {
						waits = true
					}
					if sc := call.Call.StaticCallee(); sc != nil && idOf(sc).pkg == srvPath {
						scan(sc, d+1)
					}
				}
			})
		}
		scan(closeFn, 0)
		// ... and on every path: each return of Close is dominated by the Wait (directly or through a package
		// function that itself always waits); a fast path that returns before waiting lets handleConn announce
		// wg.Done while the loops are still running
		key := "kmipserver.conn.Close/waits-on-every-path"
		if waits {
			if pos, ok := alwaysWaits(closeFn, 0); ok {
				r.OK("C16.H5", key, closeFn.Pos(), "every return of conn.Close is dominated by the wait for the connection's goroutines")
			} else {
				r.Bad("C16.H5", key, pos, "conn.Close can return without having waited for the connection's read/write goroutines (a return not dominated by the WaitGroup wait): handleConn's deferred Close is what joins them before wg.Done, so Shutdown can return while they are still running")
			}
		}
	}
	// handleConn defers conn.Close, so whatever Close waits for is joined before wg.Done of the connection goroutine
	closeDeferred := false
	if hc := p.Func("kmipserver", "Server", "handleConn"); hc != nil {
		allInstrs(hc, func(in ssa.Instruction) {
			if d, ok := in.(*ssa.Defer); ok && callID(&d.Call).is(srvPath, "conn", "Close") {
				closeDeferred = true
			}
		})
	}
	// the connection object is released on every exit: the deferred Close dominates every return that follows newConn
	if hc := p.Func("kmipserver", "Server", "handleConn"); hc != nil {
		var mk ssa.Instruction
		var dfr *ssa.Defer
		allInstrs(hc, func(in ssa.Instruction) {
			if c, ok := in.(*ssa.Call); ok && callID(&c.Call).is(srvPath, "", "newConn") {
				mk = c
			}
			if d, ok := in.(*ssa.Defer); ok && callID(&d.Call).is(srvPath, "conn", "Close") {
				dfr = d
			}
		})
		key := "kmipserver.Server.handleConn/conn-released"
		switch {
		case mk == nil || dfr == nil:
			r.Unk("C16.H5", key, hc.Pos(), "newConn / deferred conn.Close not found in handleConn")
		default:
			bad := token.NoPos
			for _, b := range hc.Blocks {
				if len(b.Instrs) == 0 {
					continue
				}
				ret, ok := b.Instrs[len(b.Instrs)-1].(*ssa.Return)
				if !ok || !dominatesInstr(mk, ret) {
					continue
				}
				if !dominatesInstr(dfr, ret) {
					bad = ret.Pos()
				}
			}
			if bad.IsValid() {
				r.Bad("C16.H5", key, bad, "handleConn can return after newConn without the deferred conn.Close in force (e.g. when the connect hook fails): the connection's read/write goroutines and its socket outlive the connection goroutine, so Shutdown returns while they are still running and the client is never disconnected")
			} else {
				r.OK("C16.H5", key, dfr.Pos(), "conn.Close is deferred before any return that follows newConn")
			}
		}
	}
	// goroutines that announce themselves on a WaitGroup field of conn: `defer c.wg.Done()` at entry
	donesOnConnWG := func(target string) bool {
		var tf *ssa.Function
		for _, fn := range pkgFuncs(p, "kmipserver") {
			if fnKey(fn) == target {
				tf = fn
			}
		}
		if tf == nil || len(tf.Blocks) == 0 {
			return false
		}
		for _, in := range tf.Blocks[0].Instrs {
			if d, ok := in.(*ssa.Defer); ok {
				if callID(&d.Call).is("sync", "WaitGroup", "Done") {
					if _, fld, ok := fieldAddrOf(d.Call.Args[0]); ok && typeName(d.Call.Args[0].(*ssa.FieldAddr).X.Type()) == "conn" {
						_ = fld
						return true
					}
				}
				return false
			}
			if _, ok := in.(*ssa.Call); ok {
				return false
			}
		}
		return false
	}
	addCount := func(fn *ssa.Function) int64 {
		var n int64
		allInstrs(fn, func(in ssa.Instruction) {
			if call, ok := in.(*ssa.Call); ok && callID(&call.Call).is("sync", "WaitGroup", "Add") {
				if _, _, ok := fieldAddrOf(call.Call.Args[0]); ok && typeName(call.Call.Args[0].(*ssa.FieldAddr).X.Type()) == "conn" {
					if k, ok := constIntVal(call.Call.Args[1]); ok {
						n += k
					}
				}
			}
		})
		return n
	}
	spawnedOnWG := map[*ssa.Function]int64{}
	for _, g := range goSites(p, "kmipserver") {
		if donesOnConnWG(g.target) {
			spawnedOnWG[g.fn]++
		}
	}
	for _, g := range goSites(p, "kmipserver") {
		key := fnKey(g.fn) + "/go#" + strings.TrimPrefix(g.target, "kmipserver.")
		switch {
		case donesOnConnWG(g.target) && waits && closeDeferred && addCount(g.fn) == spawnedOnWG[g.fn]:
			r.OK("C16.H5", key, g.in.Pos(), "announces itself with defer c.wg.Done() (Add(%d) for %d goroutines), conn.Close waits on it, and handleConn defers conn.Close before its own wg.Done", addCount(g.fn), spawnedOnWG[g.fn])
		case donesOnConnWG(g.target):
			r.Bad("C16.H5", key, g.in.Pos(), "goroutine %s counts itself on the connection's WaitGroup but the accounting is broken (Add=%d, goroutines=%d, Close waits=%v, Close deferred by handleConn=%v)", g.target, addCount(g.fn), spawnedOnWG[g.fn], waits, closeDeferred)
		case g.target == "kmipserver.Server.handleConn" || g.inner == "kmipserver.Server.handleConn":
			r.OK("C16.H5", key, g.in.Pos(), "joined by srv.wg (H2) which Shutdown waits for")
		case strings.HasPrefix(g.target, "kmipserver.conn.") && waits:
			r.OK("C16.H5", key, g.in.Pos(), "conn.Close waits for the connection's loops, and handleConn defers conn.Close")
		case strings.HasPrefix(g.target, "kmipserver.conn."):
			r.Bad("C16.H5", key, g.in.Pos(), "goroutine %s is started per connection but nothing waits for it: conn.Close returns without joining it, so Shutdown can return while it is still running", g.target)
		default:
			r.Bad("C16.H5", key, g.in.Pos(), "goroutine %s is not joined by Shutdown", g.target)
		}
	}
}

// ---------------------------------------------------------------- K7

// c08K7AcceptLoop: the accept loop hands each accepted connection straight to its own goroutine; it performs no
// per-connection work (handshake, read, hook) that a silent or slow client could use to stall all other clients.
func c08K7AcceptLoop(r *Run, rule string) {
	p := r.P
	r.Rule(rule, "the accept loop only accepts, counts and spawns: the accepted connection flows nowhere but into `go handleConn`", 1)
	sv := p.Func("kmipserver", "Server", "Serve")
	if sv == nil {
		r.Unk(rule, "kmipserver.Server.Serve/accept-loop", token.NoPos, "anchor missing")
		return
	}
	var accept *ssa.Call
	allInstrs(sv, func(in ssa.Instruction) {
		if c, ok := in.(*ssa.Call); ok && c.Call.IsInvoke() && c.Call.Method.Name() == "Accept" {
			accept = c
		}
	})
	if accept == nil {
		r.Unk(rule, "kmipserver.Server.Serve/accept-loop", sv.Pos(), "Accept call not found")
		return
	}
	// values denoting the accepted connection
	isConn := map[ssa.Value]bool{}
	for _, ref := range *accept.Referrers() {
		if ex, ok := ref.(*ssa.Extract); ok && ex.Index == 0 {
			isConn[ex] = true
		}
	}
	for changed := true; changed; {
		changed = false
		allInstrs(sv, func(in ssa.Instruction) {
			v, ok := in.(ssa.Value)
			if !ok || isConn[v] {
				return
			}
			switch x := in.(type) {
			case *ssa.TypeAssert:
				if isConn[x.X] {
					isConn[v] = true
					changed = true
				}
			case *ssa.Extract:
				if isConn[x.Tuple] {
					isConn[v] = true
					changed = true
				}
			case *ssa.ChangeInterface:
				if isConn[x.X] {
					isConn[v] = true
					changed = true
				}
			case *ssa.MakeInterface:
				if isConn[x.X] {
					isConn[v] = true
					changed = true
				}
			case *ssa.Phi:
				for _, e := range x.Edges {
					if isConn[e] {
						isConn[v] = true
						changed = true
					}
				}
			case *ssa.UnOp:
				if x.Op == token.MUL && isConn[x.X] {
					isConn[v] = true
					changed = true
				}
			}
		})
		// a captured connection variable: the cell it is stored in denotes the connection too
		allInstrs(sv, func(in ssa.Instruction) {
			if st, ok := in.(*ssa.Store); ok && isConn[st.Val] && !isConn[st.Addr] {
				if _, isAlloc := st.Addr.(*ssa.Alloc); isAlloc {
					isConn[st.Addr] = true
					changed = true
				}
			}
		})
	}
	bad := token.NoPos
	what := ""
	spawned := false
	shared := false
	allInstrs(sv, func(in ssa.Instruction) {
		switch x := in.(type) {
		case *ssa.Go:
			for _, a := range x.Call.Args {
				if isConn[a] {
					spawned = true
				}
			}
			if mc, ok := x.Call.Value.(*ssa.MakeClosure); ok {
				for _, b := range mc.Bindings {
					if isConn[b] && thinWrapper(mc.Fn.(*ssa.Function)) != nil {
						spawned = true
					}
					// a captured variable must be the iteration's own: a cell allocated outside the accept loop and
					// assigned in it is shared by every connection goroutine (they read it when they get scheduled)
					if al, isCell := b.(*ssa.Alloc); isCell && isConn[b] && !blockInCycle(al.Block()) {
						bad = x.Pos()
						what = "go"
						shared = true
					}
				}
			}
		case *ssa.MakeClosure:
			// the connection may be captured only by the closure that is started as its goroutine
			for _, b := range x.Bindings {
				if !isConn[b] {
					continue
				}
				started := false
				for _, ref := range *x.Referrers() {
					if _, ok := ref.(*ssa.Go); ok {
						started = true
					}
				}
				if !started {
					bad = x.Pos()
					what = "a closure that is not started as the connection's goroutine"
				}
			}
		case *ssa.Call:
			uses := isConn[x.Call.Value]
			for _, a := range x.Call.Args {
				if isConn[a] {
					uses = true
				}
			}
			if uses {
				bad = x.Pos()
				what = callID(&x.Call).String()
			}
		case *ssa.Defer:
			for _, a := range x.Call.Args {
				if isConn[a] {
					bad = x.Pos()
					what = "defer " + callID(&x.Call).String()
				}
			}
		}
	})
	switch {
	case shared:
		r.Bad(rule, "kmipserver.Server.Serve/accept-loop", bad, "the connection goroutine captures a variable that is declared outside the accept loop and assigned in every iteration: goroutines started for connections accepted back to back read the same (latest) connection, one connection is served twice (its hooks run twice) and another is never served nor closed")
	case bad.IsValid():
		r.Bad(rule, "kmipserver.Server.Serve/accept-loop", bad, "the accept loop itself calls %s on the accepted connection before handing it to a goroutine: a client that stalls there (e.g. never sends its TLS ClientHello) blocks Accept for every other client", what)
	case !spawned:
		r.Bad(rule, "kmipserver.Server.Serve/accept-loop", sv.Pos(), "the accepted connection is not handed to its own goroutine")
	default:
		r.OK(rule, "kmipserver.Server.Serve/accept-loop", accept.Pos(), "the accepted connection is used only as the argument of `go handleConn`")
	}
}

// ---------------------------------------------------------------- K8

// c08K8NilItems: a pointer result that a caller on the connection goroutine dereferences without a nil test is never nil:
// for every call in package kmipserver whose pointer result is dereferenced unguarded, every library function that can be
// the callee (statically, or through the call graph for closures/function values) returns no nil constant for that result.
// (The connection goroutine has no recover: a nil dereference there ends the process.)
func c08K8NilItems(r *Run) {
	p := r.P
	r.Rule("C08.K8", "no nil item: a pointer result dereferenced by its caller without a nil test is never the nil constant in any library callee", 1)
	cg := p.CallGraph()
	isModPtr := func(t types.Type) bool {
		pt, ok := t.Underlying().(*types.Pointer)
		if !ok {
			return false
		}
		return strings.HasPrefix(typePkgPath(pt.Elem()), modPath) && derefStruct(t) != nil
	}
	nilGuarded := func(v ssa.Value, at ssa.Instruction) bool {
		for _, dc := range dominatingConds(at.Block()) {
			bo, ok := dc.cond.(*ssa.BinOp)
			if !ok || !isNilConst(bo.Y) || bo.X != v {
				continue
			}
			if (bo.Op == token.NEQ) == dc.outcome {
				return true
			}
		}
		return false
	}
	derefsParam := func(fn *ssa.Function, idx int) bool {
		if fn == nil || fn.Blocks == nil || idx >= len(fn.Params) {
			return false
		}
		prm := fn.Params[idx]
		found := false
		for _, ref := range *prm.Referrers() {
			switch x := ref.(type) {
			case *ssa.FieldAddr:
				if x.X == ssa.Value(prm) && !nilGuarded(prm, x) {
					found = true
				}
			case *ssa.UnOp:
				if x.Op == token.MUL && !nilGuarded(prm, x) {
					found = true
				}
			}
		}
		return found
	}
	// unguarded dereference of v (a pointer result) in its function
	derefSite := func(v ssa.Value) ssa.Instruction {
		var site ssa.Instruction
		for _, ref := range *v.Referrers() {
			switch x := ref.(type) {
			case *ssa.FieldAddr:
				if x.X == v && !nilGuarded(v, x) {
					site = x
				}
			case *ssa.UnOp:
				if x.Op == token.MUL && x.X == v && !nilGuarded(v, x) {
					site = x
				}
			case *ssa.Call:
				if sc := x.Call.StaticCallee(); sc != nil && strings.HasPrefix(idOf(sc).pkg, modPath) && !nilGuarded(v, x) {
					for i, a := range x.Call.Args {
						if a == v && derefsParam(sc, i) {
							site = x
						}
					}
				}
			}
		}
		return site
	}
	type req struct {
		fn  *ssa.Function
		idx int
	}
	seen := map[req]bool{}
	var require func(fn *ssa.Function, idx int, site ssa.Instruction, via string, depth int)
	nObl := 0
	require = func(fn *ssa.Function, idx int, site ssa.Instruction, via string, depth int) {
		if fn == nil || fn.Blocks == nil || depth > 4 || seen[req{fn, idx}] || !strings.HasPrefix(idOf(fn).pkg, modPath) {
			return
		}
		seen[req{fn, idx}] = true
		nObl++
		key := fmt.Sprintf("%s/result#%d-non-nil", fnKey(fn), idx)
		bad := token.NoPos
		checkVal := func(v ssa.Value, pos token.Pos) {
			switch x := v.(type) {
			case *ssa.Const:
				if x.IsNil() {
					bad = pos
				}
			case *ssa.Extract:
				if c, ok := x.Tuple.(*ssa.Call); ok {
					if sc := c.Call.StaticCallee(); sc != nil {
						require(sc, x.Index, site, via+" <- "+fnKey(fn), depth+1)
					} else if n := cg.Nodes[fn]; n != nil {
						for _, e := range n.Out {
							if e.Site == ssa.CallInstruction(c) {
								require(e.Callee.Func, x.Index, site, via+" <- "+fnKey(fn), depth+1)
							}
						}
					}
				}
			case *ssa.Call:
				if sc := x.Call.StaticCallee(); sc != nil {
					require(sc, 0, site, via+" <- "+fnKey(fn), depth+1)
				}
			}
		}
		for _, b := range fn.Blocks {
			ret, ok := b.Instrs[len(b.Instrs)-1].(*ssa.Return)
			if !ok || idx >= len(ret.Results) {
				continue
			}
			v := ret.Results[idx]
			if ld, ok := v.(*ssa.UnOp); ok && ld.Op == token.MUL {
				if cell, ok := ld.X.(*ssa.Alloc); ok {
					// named result spilled to a cell (deferred closure): every store into it
					for _, ref := range *cell.Referrers() {
						if st, ok := ref.(*ssa.Store); ok && st.Addr == ssa.Value(cell) {
							checkVal(st.Val, st.Pos())
						}
					}
					continue
				}
			}
			checkVal(v, ret.Pos())
		}
		if bad != token.NoPos {
			r.Bad("C08.K8", key, bad, "%s can return a nil %s, which %s dereferences without a nil test (%s): the dereference runs on the connection goroutine outside any recover, so one such request ends the server process", fnKey(fn), "result", via, p.pos(site.Pos()))
		} else {
			r.OK("C08.K8", key, fn.Pos(), "no return path yields the nil constant for the result dereferenced at %s", p.pos(site.Pos()))
		}
	}
	for _, fn := range pkgFuncs(p, "kmipserver") {
		allInstrs(fn, func(in ssa.Instruction) {
			c, ok := in.(*ssa.Call)
			if !ok {
				return
			}
			sig := c.Call.Signature()
			if sig == nil {
				return
			}
			for i := 0; i < sig.Results().Len(); i++ {
				if !isModPtr(sig.Results().At(i).Type()) {
					continue
				}
				var v ssa.Value = c
				if sig.Results().Len() > 1 {
					v = nil
					for _, ref := range *c.Referrers() {
						if ex, ok := ref.(*ssa.Extract); ok && ex.Index == i {
							v = ex
						}
					}
				}
				if v == nil {
					continue
				}
				site := derefSite(v)
				if site == nil {
					continue
				}
				if sc := c.Call.StaticCallee(); sc != nil {
					require(sc, i, site, fnKey(fn), 0)
				} else if n := cg.Nodes[fn]; n != nil {
					for _, e := range n.Out {
						if e.Site == ssa.CallInstruction(c) {
							require(e.Callee.Func, i, site, fnKey(fn), 0)
						}
					}
				}
			}
		})
	}
	if nObl == 0 {
		r.Unk("C08.K8", "kmipserver/unguarded-derefs", token.NoPos, "no pointer result dereferenced without a nil test found: the batch-item chain was not recognised")
	}
}

// ---------------------------------------------------------------- K9 / K3b

// c08K9RequestsOnly: the server's read loop hands a message to the connection loop only when it is a request (or an
// encoding error): the assertion to *RequestMessage is comma-ok and its failure edge, when no error is pending, does not
// reach the hand-off. (A well-formed *response* sent by a client would otherwise arrive as a nil request, which the
// handler dereferences on the connection goroutine.)
func c08K9RequestsOnly(r *Run) {
	p := r.P
	r.Rule("C08.K9", "the read loop forwards only request messages: a decodable message of another kind never reaches the handler as a nil request", 1)
	rl := p.Func("kmipserver", "conn", "readloop")
	key := "kmipserver.conn.readloop/requests-only"
	if rl == nil {
		r.Unk("C08.K9", key, token.NoPos, "anchor missing")
		return
	}
	var ta *ssa.TypeAssert
	var sendBlocks []*ssa.BasicBlock
	allInstrs(rl, func(in ssa.Instruction) {
		switch x := in.(type) {
		case *ssa.TypeAssert:
			if typeName(x.AssertedType) == "RequestMessage" {
				ta = x
			}
		case *ssa.Send:
			sendBlocks = append(sendBlocks, x.Block())
		case *ssa.Select:
			for _, st := range x.States {
				if st.Dir == types.SendOnly {
					sendBlocks = append(sendBlocks, x.Block())
				}
			}
		}
	})
	switch {
	case ta == nil || len(sendBlocks) == 0:
		r.Unk("C08.K9", key, rl.Pos(), "assertion to *RequestMessage or hand-off not found in the read loop")
		return
	case !ta.CommaOk:
		r.OK("C08.K9", key, ta.Pos(), "the assertion is not comma-ok: a message of another kind cannot be forwarded (C02 covers the panic side)")
		return
	}
	var okVal ssa.Value
	for _, ref := range *ta.Referrers() {
		if ex, ok := ref.(*ssa.Extract); ok && ex.Index == 1 {
			okVal = ex
		}
	}
	tested := false
	leak := false
	if okVal != nil {
		for _, ref := range *okVal.Referrers() {
			iff, isIf := ref.(*ssa.If)
			if !isIf {
				continue
			}
			tested = true
			// from the !ok edge the hand-off must not be reachable without going round the loop (through Recv)
			start := iff.Block().Succs[1]
			seen := map[*ssa.BasicBlock]bool{}
			var walk func(b *ssa.BasicBlock)
			walk = func(b *ssa.BasicBlock) {
				if seen[b] || b == ta.Block() {
					return
				}
				seen[b] = true
				for _, sb := range sendBlocks {
					if b == sb {
						leak = true
					}
				}
				for _, s := range b.Succs {
					walk(s)
				}
			}
			walk(start)
		}
	}
	switch {
	case !tested:
		r.Bad("C08.K9", key, ta.Pos(), "the read loop ignores whether the received message is a request: a well-formed response message sent by a client is forwarded as a nil request, which the request handler dereferences on the connection goroutine (no recover there: the process exits)")
	case leak:
		r.Bad("C08.K9", key, ta.Pos(), "a message that is not a request can still reach the hand-off to the connection loop")
	default:
		r.OK("C08.K9", key, ta.Pos(), "a decodable message that is not a request is dropped before the hand-off")
	}
}

// c08K3RecoveredError: the deferred recover that protects the operation handlers maps EVERY recovered value to a non-nil
// error before handing it to handleBatchItemError (which returns at once on a nil error, leaving the item reported as a
// success and the batch running on).
func c08K3RecoveredError(r *Run, rule string) {
	p := r.P
	n := 0
	for _, fn := range pkgFuncs(p, "kmipserver") {
		hasRecover := false
		allInstrs(fn, func(in ssa.Instruction) {
			if c, ok := in.(*ssa.Call); ok {
				if b, ok := c.Call.Value.(*ssa.Builtin); ok && b.Name() == "recover" {
					hasRecover = true
				}
			}
		})
		if !hasRecover {
			continue
		}
		allInstrs(fn, func(in ssa.Instruction) {
			c, ok := in.(*ssa.Call)
			if !ok || !strings.HasSuffix(resolvedCallID(&c.Call, 0).name, "handleBatchItemError") {
				return
			}
			n++
			key := fnKey(fn) + "/recovered-error-non-nil"
			errArg := c.Call.Args[len(c.Call.Args)-1]
			var mayNil func(v ssa.Value, d int) bool
			mayNil = func(v ssa.Value, d int) bool {
				if d > 6 {
					return true
				}
				switch x := v.(type) {
				case *ssa.Const:
					return x.IsNil()
				case *ssa.Phi:
					for _, e := range x.Edges {
						if e != v && mayNil(e, d+1) {
							return true
						}
					}
					return false
				case *ssa.Call:
					id := callID(&x.Call)
					if id.is("errors", "", "New") || id.is("fmt", "", "Errorf") || id.is(srvPath, "", "Errorf") {
						return false
					}
					// a library helper: every value it can return
					if sc := x.Call.StaticCallee(); sc != nil && sc.Blocks != nil && strings.HasPrefix(idOf(sc).pkg, modPath) && sc.Signature.Results().Len() == 1 {
						for _, b := range sc.Blocks {
							if ret, ok := b.Instrs[len(b.Instrs)-1].(*ssa.Return); ok {
								if mayNil(ret.Results[0], d+1) {
									return true
								}
							}
						}
						return false
					}
					return true
				case *ssa.MakeInterface:
					return false
				case *ssa.TypeAssert:
					return false // a value asserted out of a non-nil interface on its matching case
				case *ssa.Extract:
					if ta, ok := x.Tuple.(*ssa.TypeAssert); ok && x.Index == 0 {
						_ = ta
						return false
					}
					return true
				case *ssa.ChangeInterface:
					return mayNil(x.X, d+1)
				case *ssa.UnOp:
					// a local cell: every store into it
					if al, ok := x.X.(*ssa.Alloc); ok {
						stores := 0
						for _, ref := range *al.Referrers() {
							if st, ok := ref.(*ssa.Store); ok && st.Addr == ssa.Value(al) {
								stores++
								if mayNil(st.Val, d+1) {
									return true
								}
							}
						}
						return stores == 0
					}
					return true
				}
				return true
			}
			if mayNil(errArg, 0) {
				r.Bad(rule, key, c.Pos(), "%s can hand a nil error to handleBatchItemError for a recovered panic (a panic value of a kind the type switch does not cover): the item is then reported as a success and, under the Stop option, the batch goes on", fnKey(fn))
			} else {
				r.OK(rule, key, c.Pos(), "every recovered value is turned into a non-nil error")
			}
		})
	}
	if n == 0 {
		r.Unk(rule, "kmipserver/recovered-error", token.NoPos, "no recover() closure calling handleBatchItemError found")
	}
}

// c08K5Sentinels: handleConn classifies a receive error as "client closed" (errors.Is(err, io.EOF)) before it tests for
// an encoding error. The classification is only right when no encoding error matches io.EOF: no ttlv.Errorf / fmt.Errorf
// call in package ttlv wraps (%w) one of the io end-of-stream sentinels — unless handleConn tests IsErrEncoding first.
func c08K5Sentinels(r *Run) {
	p := r.P
	key := "ttlv/encoding-errors-do-not-match-EOF"
	hc := p.Func("kmipserver", "Server", "handleConn")
	// order of the two tests in handleConn
	encFirst := false
	if hc != nil {
		var eofTest, encTest *ssa.Call
		allInstrs(hc, func(in ssa.Instruction) {
			c, ok := in.(*ssa.Call)
			if !ok {
				return
			}
			id := callID(&c.Call)
			if id.is("errors", "", "Is") && len(c.Call.Args) == 2 {
				if u, ok := c.Call.Args[1].(*ssa.UnOp); ok {
					if g, ok := u.X.(*ssa.Global); ok && g.Pkg != nil && g.Pkg.Pkg.Path() == "io" && g.Name() == "EOF" {
						eofTest = c
					}
				}
			}
			if id.is(ttlvPath, "", "IsErrEncoding") {
				encTest = c
			}
		})
		if eofTest != nil && encTest != nil {
			// the EOF test is reached only on the not-an-encoding-error edge
			for _, dc := range dominatingConds(eofTest.Block()) {
				if dc.cond == ssa.Value(encTest) && !dc.outcome {
					encFirst = true
				}
			}
		}
		if eofTest == nil {
			encFirst = true // no EOF classification at all
		}
		// the connection loop itself must not take a decode error of the codec for a peer close: an errors.Is test
		// against a sentinel of the module that is not on the not-an-encoding-error side of IsErrEncoding
		allInstrs(hc, func(in ssa.Instruction) {
			c, ok := in.(*ssa.Call)
			if !ok || !callID(&c.Call).is("errors", "", "Is") || len(c.Call.Args) != 2 {
				return
			}
			u, ok := c.Call.Args[1].(*ssa.UnOp)
			if !ok {
				return
			}
			g, ok := u.X.(*ssa.Global)
			if !ok || g.Pkg == nil || !strings.HasPrefix(g.Pkg.Pkg.Path(), modPath) {
				return
			}
			after := false
			if encTest != nil {
				for _, dc := range dominatingConds(c.Block()) {
					if dc.cond == ssa.Value(encTest) && !dc.outcome {
						after = true
					}
				}
			}
			if !after {
				r.Bad("C08.K5", "kmipserver.Server.handleConn/decode-error-as-close", c.Pos(), "handleConn tests the receive error against %s.%s, a decode error of the codec, before classifying encoding errors: a correctly framed request that ends before a mandatory element is taken for a client that went away and dropped without the single invalid-message response", relPkg(g.Pkg.Pkg.Path()), g.Name())
			}
		})
	}
	bad := token.NoPos
	n := 0
	for _, fn := range p.OwnFuncs() {
		if idOf(fn).pkg != ttlvPath {
			continue
		}
		allInstrs(fn, func(in ssa.Instruction) {
			c, ok := in.(*ssa.Call)
			if !ok {
				return
			}
			id := callID(&c.Call)
			if !(id.is(ttlvPath, "", "Errorf") || id.is("fmt", "", "Errorf")) || len(c.Call.Args) < 2 {
				return
			}
			k, ok := c.Call.Args[0].(*ssa.Const)
			if !ok || !isStringConst(k) || !strings.Contains(k.Value.ExactString(), "%w") {
				return
			}
			n++
			// variadic arguments: the backing array's stores
			if sl, ok := c.Call.Args[1].(*ssa.Slice); ok {
				if al, ok := sl.X.(*ssa.Alloc); ok {
					for _, ref := range *al.Referrers() {
						if ia, ok := ref.(*ssa.IndexAddr); ok {
							for _, r2 := range *ia.Referrers() {
								if st, ok := r2.(*ssa.Store); ok {
									v := st.Val
									if mi, ok := v.(*ssa.MakeInterface); ok {
										v = mi.X
									}
									if ci, ok := v.(*ssa.ChangeInterface); ok {
										v = ci.X
									}
									if u, ok := v.(*ssa.UnOp); ok {
										if g, ok := u.X.(*ssa.Global); ok && g.Pkg != nil && g.Pkg.Pkg.Path() == "io" && (g.Name() == "EOF" || g.Name() == "ErrUnexpectedEOF" || g.Name() == "ErrClosedPipe") {
											bad = c.Pos()
										}
									}
								}
							}
						}
					}
				}
			}
		})
	}
	switch {
	case bad.IsValid() && !encFirst:
		r.Bad("C08.K5", key, bad, "an encoding error of package ttlv wraps an io end-of-stream sentinel (%%w): handleConn tests errors.Is(err, io.EOF) before IsErrEncoding, so a framed request that ends before a mandatory field is taken for a clean client close and dropped without the single invalid-message response")
	default:
		r.OK("C08.K5", key, token.NoPos, "no encoding error wraps an io end-of-stream sentinel (%d wrapping Errorf call(s) inspected), or IsErrEncoding is tested first", n)
	}
}

// alwaysWaits: every return of fn is dominated by a sync.WaitGroup.Wait call (or a deferred one in the entry
// block), directly or in a package function with the same property. Returns the first offending return.
func alwaysWaits(fn *ssa.Function, depth int) (token.Pos, bool) {
	if fn == nil || fn.Blocks == nil || depth > 2 {
		return token.NoPos, false
	}
	var waitsAt []ssa.Instruction
	for _, in := range fn.Blocks[0].Instrs {
		if d, ok := in.(*ssa.Defer); ok && callID(&d.Call).is("sync", "WaitGroup", "Wait") {
			return token.NoPos, true
		}
	}
	allInstrs(fn, func(in ssa.Instruction) {
		call, ok := in.(*ssa.Call)
		if !ok {
			return
		}
		if callID(&call.Call).is("sync", "WaitGroup", "Wait") {
			waitsAt = append(waitsAt, in)
			return
		}
		if sc := call.Call.StaticCallee(); sc != nil && idOf(sc).pkg == srvPath && sc != fn {
			if _, ok := alwaysWaits(sc, depth+1); ok {
				waitsAt = append(waitsAt, in)
			}
		}
	})
	for _, b := range fn.Blocks {
		if len(b.Instrs) == 0 {
			continue
		}
		ret, ok := b.Instrs[len(b.Instrs)-1].(*ssa.Return)
		if !ok {
			continue
		}
		dom := false
		for _, w := range waitsAt {
			if dominatesInstr(w, ret) {
				dom = true
			}
		}
		if !dom {
			pos := ret.Pos()
			if !pos.IsValid() {
				pos = fn.Pos()
			}
			return pos, false
		}
	}
	return token.NoPos, true
}

// blockInCycle: b can reach itself (it is part of a loop).
func blockInCycle(b *ssa.BasicBlock) bool {
	seen := map[*ssa.BasicBlock]bool{}
	var walk func(x *ssa.BasicBlock) bool
	walk = func(x *ssa.BasicBlock) bool {
		for _, s := range x.Succs {
			if s == b {
				return true
			}
			if !seen[s] {
				seen[s] = true
				if walk(s) {
					return true
				}
			}
		}
		return false
	}
	return walk(b)
}

// c08K12Deadlines: a deadline armed on a connection for a bounded phase (the TLS handshake) is lifted again in both
// directions before the connection is used for requests: SetDeadline arms the read AND the write side, so lifting
// only the read deadline leaves every response written after the period fail with an i/o timeout.
func c08K12Deadlines(r *Run) {
	p := r.P
	r.Rule("C08.K12", "a deadline armed on a connection is lifted again in the direction(s) it was armed for", 1)
	isZeroTime := func(v ssa.Value) bool {
		if k, ok := v.(*ssa.Const); ok && k.Value == nil {
			return true
		}
		if ld, ok := v.(*ssa.UnOp); ok && ld.Op == token.MUL {
			if al, ok := ld.X.(*ssa.Alloc); ok {
				for _, ref := range *al.Referrers() {
					switch ref.(type) {
					case *ssa.Store, *ssa.FieldAddr:
						return false
					}
				}
				return true
			}
		}
		return false
	}
	n := 0
	for _, fn := range pkgFuncs(p, "kmipserver") {
		type ev struct {
			in    ssa.Instruction
			kinds string // "R", "W" or "RW"
			zero  bool
		}
		var evs []ev
		allInstrs(fn, func(in ssa.Instruction) {
			c := callOf(in)
			if c == nil {
				return
			}
			name := ""
			if c.IsInvoke() {
				name = c.Method.Name()
			} else {
				name = callID(c).name
			}
			kinds := map[string]string{"SetDeadline": "RW", "SetReadDeadline": "R", "SetWriteDeadline": "W"}[name]
			if kinds == "" || len(c.Args) == 0 {
				return
			}
			evs = append(evs, ev{in, kinds, isZeroTime(c.Args[len(c.Args)-1])})
		})
		for _, a := range evs {
			if a.zero {
				continue
			}
			n++
			key := fmt.Sprintf("%s/deadline#%d", fnKey(fn), n)
			cleared := map[byte]bool{}
			for _, z := range evs {
				if z.zero && dominatesInstr(a.in, z.in) {
					for i := 0; i < len(z.kinds); i++ {
						cleared[z.kinds[i]] = true
					}
				}
			}
			missing := ""
			for i := 0; i < len(a.kinds); i++ {
				if !cleared[a.kinds[i]] {
					missing += map[byte]string{'R': "read", 'W': "write"}[a.kinds[i]] + " "
				}
			}
			if missing == "" {
				r.OK("C08.K12", key, a.in.Pos(), "armed deadline lifted again in every direction")
			} else {
				r.Bad("C08.K12", key, a.in.Pos(), "%s arms a deadline on the connection that is never lifted for the %sside: once it has expired every operation in that direction fails with an i/o timeout — requests are still executed but their responses are not delivered (or an idle client is disconnected)", fnKey(fn), missing)
			}
		}
	}
	if n == 0 {
		r.OK("C08.K12", "kmipserver/no-deadline", token.NoPos, "no deadline is armed on a connection")
	}
}
