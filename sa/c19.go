package main

// C19 — middleware chains run in order and are re-entrant.

import (
	"fmt"
	"go/token"
	"go/types"
	"strings"

	"golang.org/x/tools/go/ssa"
)

// isMiddlewareSliceField: a struct field whose type is a slice of a named func type *Middleware.
func isMiddlewareSlice(t types.Type) bool {
	sl, ok := t.Underlying().(*types.Slice)
	if !ok {
		return false
	}
	n, ok := types.Unalias(sl.Elem()).(*types.Named)
	if !ok {
		return false
	}
	if _, isSig := n.Underlying().(*types.Signature); !isSig {
		return false
	}
	return strings.HasSuffix(n.Obj().Name(), "Middleware")
}

type chain struct {
	k        *ssa.Function // the continuation closure
	field    *types.Var    // the middleware slice field
	idx      ssa.Value     // index value used to select the stage
	stage    *ssa.Call     // call of the selected middleware
	cmp      *ssa.BinOp    // idx < len(slice), or one of its three other spellings
	cmpPos   ssa.Value     // the position operand of cmp
	cmpStage bool          // outcome of cmp on which a stage remains (true for `idx < len`, false for `idx >= len`)
	core     *ssa.Call     // call of the innermost handler
	off      int           // index of the context parameter of k (1 when k is a method: the continuation is a bound method value)
	pos      int           // method form: index of the receiver's field holding the chain position (-1 otherwise)
	// endAtBuild: the end of the chain is decided when the continuation is built — the builder returns the core
	// handler itself (a bound method) once position >= len(chain), and a stage continuation otherwise
	endAtBuild bool
}

// findChains discovers the continuation closures of the repository.
func findChains(p *Program) []*chain {
	var out []*chain
	for _, fn := range p.OwnFuncs() {
		if fn.Parent() == nil && fn.Signature.Recv() == nil {
			continue
		}
		id := idOf(fn)
		if id.pkg != cliPath && id.pkg != srvPath {
			continue
		}
		if fn.Synthetic != "" {
			continue
		}
		var c *chain
		allInstrs(fn, func(in ssa.Instruction) {
			ia, ok := in.(*ssa.IndexAddr)
			if !ok {
				return
			}
			ld, ok := ia.X.(*ssa.UnOp)
			if !ok {
				return
			}
			_, fld, ok := fieldAddrOf(ld.X)
			if !ok || !isMiddlewareSlice(fld.Type()) {
				return
			}
			// the element is loaded and called
			for _, ref := range *ia.Referrers() {
				el, ok := ref.(*ssa.UnOp)
				if !ok {
					continue
				}
				for _, r2 := range *el.Referrers() {
					if call, ok := r2.(*ssa.Call); ok && call.Call.Value == ssa.Value(el) {
						c = &chain{k: fn, field: fld, idx: ia.Index, stage: call, pos: -1}
						if fn.Parent() == nil && fn.Signature.Recv() != nil {
							c.off = 1
							if _, fi, ok := recvFieldRead(fn, ia.Index); ok {
								c.pos = fi
							}
						}
					}
				}
			}
		})
		if c == nil {
			continue
		}
		allInstrs(fn, func(in ssa.Instruction) {
			switch x := in.(type) {
			case *ssa.BinOp:
				// position < len(chain), written any of the four ways; cmpStage: the outcome on which a stage remains
				isChainLen := func(v ssa.Value) bool {
					if y, ok := lenOperand(v); ok {
						if ld, ok := y.(*ssa.UnOp); ok {
							if _, f2, ok := fieldAddrOf(ld.X); ok && f2 == c.field {
								return true
							}
						}
					}
					return false
				}
				switch {
				case x.Op == token.LSS && isChainLen(x.Y):
					c.cmp, c.cmpPos, c.cmpStage = x, x.X, true
				case x.Op == token.GTR && isChainLen(x.X):
					c.cmp, c.cmpPos, c.cmpStage = x, x.Y, true
				case x.Op == token.GEQ && isChainLen(x.Y):
					c.cmp, c.cmpPos, c.cmpStage = x, x.X, false
				case x.Op == token.LEQ && isChainLen(x.X):
					c.cmp, c.cmpPos, c.cmpStage = x, x.Y, false
				}
			case *ssa.Call:
				if x == c.stage {
					return
				}
				sc := x.Call.StaticCallee()
				if sc != nil && sc != fn && sc.Signature.Recv() != nil && (idOf(sc).pkg == cliPath || idOf(sc).pkg == srvPath) && len(x.Call.Args) >= 3 && len(fn.Params) >= 2+c.off &&
					(x.Call.Args[1] == ssa.Value(fn.Params[c.off]) || x.Call.Args[2] == ssa.Value(fn.Params[c.off+1]) || len(x.Call.Args) == 3) {
					c.core = x
				}
			}
		})
		out = append(out, c)
	}
	return out
}

// recvFieldRead: v reads a field of fn's receiver (value receiver: Field of the parameter or a load through its
// spill cell; pointer receiver: load of FieldAddr of the parameter). Returns the receiver parameter and the field index.
func recvFieldRead(fn *ssa.Function, v ssa.Value) (*ssa.Parameter, int, bool) {
	if len(fn.Params) == 0 || fn.Signature.Recv() == nil {
		return nil, 0, false
	}
	recv := fn.Params[0]
	switch x := v.(type) {
	case *ssa.Field:
		if unspill(x.X) == ssa.Value(recv) {
			return recv, x.Field, true
		}
	case *ssa.UnOp:
		if x.Op != token.MUL {
			return nil, 0, false
		}
		fa, ok := x.X.(*ssa.FieldAddr)
		if !ok {
			return nil, 0, false
		}
		if fa.X == ssa.Value(recv) {
			return recv, fa.Field, true
		}
		if al, ok := fa.X.(*ssa.Alloc); ok {
			for _, ref := range *al.Referrers() {
				if st, ok := ref.(*ssa.Store); ok && st.Addr == ssa.Value(al) && st.Val == ssa.Value(recv) {
					return recv, fa.Field, true
				}
			}
		}
	}
	return nil, 0, false
}

// structFieldValue: the value field fi of the struct value v was built with (v is a load of a local composite
// literal); zero=true when the literal leaves the field at its zero value.
func structFieldValue(v ssa.Value, fi int) (val ssa.Value, zero bool, ok bool) {
	al, isAl := v.(*ssa.Alloc) // pointer receiver: the address of the literal itself
	if !isAl {
		ld, isLd := v.(*ssa.UnOp)
		if !isLd || ld.Op != token.MUL {
			return nil, false, false
		}
		al, isAl = ld.X.(*ssa.Alloc)
		if !isAl {
			return nil, false, false
		}
	}
	n := 0
	for _, ref := range *al.Referrers() {
		fa, isFA := ref.(*ssa.FieldAddr)
		if !isFA || fa.Field != fi {
			continue
		}
		for _, r2 := range *fa.Referrers() {
			if st, isSt := r2.(*ssa.Store); isSt && st.Addr == ssa.Value(fa) {
				val = st.Val
				n++
			}
		}
	}
	switch n {
	case 0:
		return nil, true, true
	case 1:
		return val, false, true
	}
	return nil, false, false
}

// cursorVar: the variable (FreeVar pointer) the index is loaded from, or nil if the index is a parameter/constant.
func cursorVar(idx ssa.Value) *ssa.FreeVar {
	if u, ok := idx.(*ssa.UnOp); ok && u.Op == token.MUL {
		if fv, ok := u.X.(*ssa.FreeVar); ok {
			return fv
		}
	}
	return nil
}

func runC19(r *Run, verifDir string) {
	p := r.P
	r.Explain = append(r.Explain,
		"C19 is decided on the three continuation closures of the library (client Roundtrip, server HandleRequest, server executeItemWithMiddleware), discovered as closures that index a []…Middleware field and call the element: W1 the position used to select the stage is invariant over invocations of a continuation value (a parameter, a constant, or a captured variable never stored to once the continuation exists) — a cursor advanced by the continuation makes a second invocation resume deeper and skip inner stages; W2 the context and message handed to the stage and to the core handler are the continuation's own parameters, and the callee's results are returned unchanged; W3 stage k is element k, its continuation is the one for k+1, the core runs exactly when the position is not below len(chain), the first continuation starts at 0, and registration appends in argument order; W4 the chain slices are written only by the registration functions and constructors, so concurrent requests share an immutable chain.")
	r.NotCov = append(r.NotCov, "behaviour of user-written stages")
	chains := findChains(p)
	r.Rule("C19.W1", "re-entrancy: the chain position of a continuation is never written once the continuation exists", 3)
	r.Rule("C19.W2", "forwarding: stage and core receive the continuation's own context and message; results returned unchanged", 3)
	r.Rule("C19.W3", "order: stage k gets the continuation for k+1, core runs iff position >= len(chain), first position is 0, registration appends in order", 6)
	r.Rule("C19.W4", "the middleware slices are written only by registration functions and constructors", 3)
	r.Rule("C19.W5", "an invocation of a continuation runs the remainder of the chain exactly once on every path", 3)
	r.Rule("C19.W6", "a continuation returns the results of the stage or core handler it ran, unchanged", 3)
	folds := findFoldChains(r)
	if len(chains)+folds < 3 {
		r.Unk("C19.W1", "chains", token.NoPos, "%d middleware continuations found; 3 confirmed on the pinned tree", len(chains)+folds)
	}
	for _, c := range chains {
		key := fnKey(c.k)
		// ---- W1
		if fv := cursorVar(c.idx); fv != nil {
			stores := 0
			var where token.Pos
			// stores through the free variable in K and its nested closures
			withClosures(c.k, func(f *ssa.Function) {
				allInstrs(f, func(in ssa.Instruction) {
					if st, ok := in.(*ssa.Store); ok {
						if fv2, ok := st.Addr.(*ssa.FreeVar); ok && fv2.Name() == fv.Name() {
							stores++
							where = st.Pos()
						}
					}
				})
			})
			// stores to the bound cell in the parent after the closure was made
			parent := c.k.Parent()
			var cell ssa.Value
			var mk *ssa.MakeClosure
			allInstrs(parent, func(in ssa.Instruction) {
				if mc, ok := in.(*ssa.MakeClosure); ok && mc.Fn == ssa.Value(c.k) {
					mk = mc
					for i, f2 := range c.k.FreeVars {
						if f2 == fv {
							cell = mc.Bindings[i]
						}
					}
				}
			})
			if cell != nil {
				allInstrs(parent, func(in ssa.Instruction) {
					if st, ok := in.(*ssa.Store); ok && st.Addr == cell && mk != nil && !dominatesInstr(st, mk) {
						stores++
						where = st.Pos()
					}
				})
			}
			if stores > 0 {
				r.Bad("C19.W1", key, where, "the continuation %s advances a chain position it shares with all its other invocations (captured variable %s is written %d time(s)): a middleware that calls next twice (retry) resumes after the stages already visited, so inner middlewares are skipped on the second call", key, fv.Name(), stores)
			} else {
				r.OK("C19.W1", key, c.k.Pos(), "position %s is captured per continuation and never written after the continuation is created", fv.Name())
			}
		} else if c.pos >= 0 {
			// method form: the continuation is a bound method value, the position a field of its receiver
			stores := 0
			var where token.Pos
			_, isPtr := c.k.Params[0].Type().Underlying().(*types.Pointer)
			for _, fn := range r.P.OwnFuncs() {
				if !isPtr && fn != c.k {
					continue
				}
				allInstrs(fn, func(in ssa.Instruction) {
					st, ok := in.(*ssa.Store)
					if !ok {
						return
					}
					fa, ok := st.Addr.(*ssa.FieldAddr)
					if !ok || fa.Field != c.pos || !types.Identical(derefType(fa.X.Type()), derefType(c.k.Params[0].Type())) {
						return
					}
					if _, fresh := fa.X.(*ssa.Alloc); fresh && fn != c.k {
						return
					}
					if al, fresh := fa.X.(*ssa.Alloc); fresh && fn == c.k {
						// a fresh link built inside the continuation (the one for position+1) is not this continuation's position
						spill := false
						for _, ref := range *al.Referrers() {
							if s2, ok := ref.(*ssa.Store); ok && s2.Addr == ssa.Value(al) && s2.Val == ssa.Value(c.k.Params[0]) {
								spill = true
							}
						}
						if !spill {
							return
						}
					}
					stores++
					where = st.Pos()
				})
			}
			if stores > 0 {
				r.Bad("C19.W1", key, where, "the continuation %s writes the chain position held in its receiver (%d store(s)): a middleware that calls next twice (retry) resumes after the stages already visited", key, stores)
			} else {
				r.OK("C19.W1", key, c.k.Pos(), "position is a field of the continuation's receiver, bound when the method value is taken and never written afterwards")
			}
		} else if _, isParam := c.idx.(*ssa.Parameter); isParam {
			r.OK("C19.W1", key, c.k.Pos(), "position is a parameter of the continuation")
		} else if _, isConst := c.idx.(*ssa.Const); isConst {
			r.OK("C19.W1", key, c.k.Pos(), "position is a constant")
		} else {
			r.Unk("C19.W1", key, c.k.Pos(), "origin of the chain position not recognised")
		}
		// ---- W2
		ownParams := func(call *ssa.Call, first int) bool {
			if call == nil || len(call.Call.Args) < first+2 || len(c.k.Params) < 2+c.off {
				return false
			}
			return call.Call.Args[first] == ssa.Value(c.k.Params[c.off]) && call.Call.Args[first+1] == ssa.Value(c.k.Params[c.off+1])
		}
		returnsUnchanged := func(call *ssa.Call) bool {
			ok := false
			for _, ref := range *call.Referrers() {
				if ex, isEx := ref.(*ssa.Extract); isEx {
					for _, r2 := range *ex.Referrers() {
						if _, isRet := r2.(*ssa.Return); isRet {
							ok = true
						}
					}
				}
			}
			return ok
		}
		if c.core == nil {
			c.endAtBuild = builderEndsChain(c)
		}
		switch {
		case c.core == nil && !c.endAtBuild:
			r.Unk("C19.W2", key, c.k.Pos(), "innermost handler call not recognised")
		case c.endAtBuild && ownParams(c.stage, 1) && returnsUnchanged(c.stage):
			r.OK("C19.W2", key, c.stage.Pos(), "the stage receives (ctx, msg) of this continuation and its results are returned as they are; the innermost continuation is the core handler itself")
		case c.endAtBuild:
			r.Bad("C19.W2", key, c.stage.Pos(), "the stage is not given the continuation's own context and message, or its results are not returned unchanged")
		case !ownParams(c.stage, 1):
			r.Bad("C19.W2", key, c.stage.Pos(), "the stage is not given the continuation's own context and message (a captured outer variable is passed instead): a message or context substituted by the previous middleware is ignored")
		case func() bool {
			// extra arguments of the core must not be cells shared by all invocations of the continuation
			for _, a := range c.core.Call.Args[3:] {
				if _, isFV := a.(*ssa.FreeVar); isFV {
					return true
				}
			}
			return false
		}():
			r.Bad("C19.W2", key, c.core.Pos(), "the core handler is handed a variable captured from the enclosing function (shared by every invocation of the continuation): re-entrant executions write their results into the same cell, so a middleware that calls next twice gets the later execution's result for both calls")
		case !ownParams(c.core, 1):
			r.Bad("C19.W2", key, c.core.Pos(), "the core handler is not given the continuation's own context and message: what the last middleware passed on is ignored")
		case !returnsUnchanged(c.stage) || !returnsUnchanged(c.core):
			r.Bad("C19.W2", key, c.k.Pos(), "the continuation does not return its callee's results unchanged")
		case func() bool {
			// the core works on the message it is given, not on a copy of the request saved in the context before
			// the chain started
			sc := c.core.Call.StaticCallee()
			if sc == nil || sc.Blocks == nil {
				return false
			}
			found := false
			allInstrs(sc, func(in ssa.Instruction) {
				call, ok := in.(*ssa.Call)
				if !ok || call.Call.StaticCallee() == nil || !strings.HasPrefix(idOf(call.Call.StaticCallee()).pkg, modPath) {
					return
				}
				res := call.Call.Signature().Results()
				takesCtxOnly := len(call.Call.Args) == 1 && typeName(call.Call.Args[0].Type()) == "Context"
				for i := 0; i < res.Len(); i++ {
					tn := typeName(res.At(i).Type())
					if takesCtxOnly && (tn == "RequestHeader" || tn == "RequestMessage" || tn == "RequestBatchItem") {
						found = true
					}
				}
			})
			return found
		}():
			r.Bad("C19.W2", key, c.core.Pos(), "the core handler reads (parts of) the request from a copy saved in the context before the chain started instead of from the message it is given: a message substituted or edited by a middleware is paired with the original header")
		default:
			r.OK("C19.W2", key, c.stage.Pos(), "stage and core receive (ctx, msg) of this continuation; results are returned as they are")
		}
		// ---- W3 (per chain)
		w3 := ""
		// continuation handed to the stage
		nextArg := c.stage.Call.Args[0]
		if ct, ok := nextArg.(*ssa.ChangeType); ok {
			nextArg = ct.X
		}
		switch na := nextArg.(type) {
		case *ssa.MakeClosure:
			// method form: a bound method value of this very method on a link whose position is position+1
			w, _ := na.Fn.(*ssa.Function)
			switch {
			case c.pos < 0 || w == nil || w.Object() == nil || w.Object() != c.k.Object() || len(na.Bindings) != 1:
				w3 = "the continuation handed to the stage is not recognised"
			default:
				val, zero, ok := structFieldValue(na.Bindings[0], c.pos)
				sum, isSum := val.(*ssa.BinOp)
				one := int64(0)
				if isSum {
					one, _ = constIntVal(sum.Y)
				}
				if !ok || zero || !isSum || sum.Op != token.ADD || one != 1 || (sum.X != c.idx && accessPath(sum.X) != accessPath(c.idx)) {
					w3 = "the stage's continuation is not the one for position+1"
				}
			}
		case *ssa.Call:
			// builder(idx+1): the builder is the function variable holding the enclosing closure, or (method form)
			// the function that creates this continuation, called with the same receiver
			if sc := na.Call.StaticCallee(); sc != nil && sc != c.k.Parent() {
				w3 = "the next continuation is built by a function other than the one that builds this continuation"
				break
			}
			if len(na.Call.Args) < 1 || len(na.Call.Args) > 2 {
				w3 = "the next continuation is built by a call the rule does not recognise"
				break
			}
			sum, ok := na.Call.Args[len(na.Call.Args)-1].(*ssa.BinOp)
			one, _ := constIntVal(func() ssa.Value {
				if ok {
					return sum.Y
				}
				return nil
			}())
			if !ok || sum.Op != token.ADD || one != 1 || accessPath(sum.X) != accessPath(c.idx) && sum.X != c.idx {
				w3 = "the stage's continuation is not the one for position+1"
			}
		default:
			// old idiom: the closure itself, with the cursor incremented by one before the call
			if fv := cursorVar(c.idx); fv != nil {
				inc := false
				allInstrs(c.k, func(in ssa.Instruction) {
					if st, ok := in.(*ssa.Store); ok && st.Addr == ssa.Value(fv) {
						if b, ok := st.Val.(*ssa.BinOp); ok && b.Op == token.ADD {
							if k, ok := constIntVal(b.Y); ok && k == 1 && dominatesInstr(st, c.stage) {
								inc = true
							}
						}
					}
				})
				if !inc {
					w3 = "the stage's continuation does not advance to position+1"
				}
			} else {
				w3 = "the continuation handed to the stage is not recognised"
			}
		}
		// stage under idx < len, core on the other edge
		if w3 == "" && c.endAtBuild {
			// checked by builderEndsChain: stage continuation built only under position < len(chain), core otherwise
		} else if w3 == "" {
			if c.cmp == nil || (c.cmpPos != c.idx && accessPath(c.cmpPos) != accessPath(c.idx)) {
				w3 = "no `position < len(chain)` test selects between stage and core"
			} else {
				stageOK, coreOK := false, false
				for _, dc := range dominatingConds(c.stage.Block()) {
					if dc.cond == ssa.Value(c.cmp) && dc.outcome == c.cmpStage {
						stageOK = true
					}
				}
				if c.core != nil {
					for _, dc := range dominatingConds(c.core.Block()) {
						if dc.cond == ssa.Value(c.cmp) && dc.outcome != c.cmpStage {
							coreOK = true
						}
					}
				}
				if !stageOK || !coreOK {
					w3 = "stage and core are not selected by the two edges of `position < len(chain)`: the core handler can run too early or a stage be skipped"
				}
			}
		}
		if w3 != "" {
			r.Bad("C19.W3", key, c.stage.Pos(), "%s", w3)
		} else {
			r.OK("C19.W3", key, c.stage.Pos(), "element[position] is called with the continuation for position+1; the core runs when position >= len(chain)")
		}
		// ---- W5: an invocation of the continuation runs the remainder exactly once — every path from the entry of
		// the continuation to a return goes through exactly one of {stage call, core call}
		if c.core != nil || c.endAtBuild {
			paths, okP := enumeratePaths(c.k, 256)
			badPos, badN := token.NoPos, 0
			for _, path := range paths {
				n, inf := 0, false
				for i := range path {
					if _, _, _, x := edgeOnPath(path, i); x {
						inf = true
					}
				}
				if inf {
					continue
				}
				for _, b := range path {
					for _, in := range b.Instrs {
						if in == ssa.Instruction(c.stage) || (c.core != nil && in == ssa.Instruction(c.core)) {
							n++
						}
					}
				}
				if n != 1 {
					badN = n
					last := path[len(path)-1]
					badPos = last.Instrs[len(last.Instrs)-1].Pos()
				}
			}
			switch {
			case !okP:
				r.Unk("C19.W5", key, c.k.Pos(), "too many paths through the continuation")
			case badPos.IsValid() || badN != 0:
				r.Bad("C19.W5", key, badPos, "the continuation %s can return after running the remainder of the chain %d time(s) instead of once (a path to a return that does not go through exactly one stage or core call): a middleware's call of next then does not execute the inner stages and the core handler the number of times it asked for", key, badN)
			default:
				r.OK("C19.W5", key, c.k.Pos(), "%d path(s), each through exactly one stage or core call", len(paths))
			}
		}
		// ---- W6: what the remainder of the chain returned is what the continuation returns — each result of every
		// return is the corresponding result of the stage or core call (possibly merged by a phi)
		{
			var passes func(v ssa.Value, i int, d int) bool
			passes = func(v ssa.Value, i int, d int) bool {
				if d > 4 {
					return false
				}
				switch x := v.(type) {
				case *ssa.Extract:
					return x.Index == i && (x.Tuple == ssa.Value(c.stage) || (c.core != nil && x.Tuple == ssa.Value(c.core)))
				case *ssa.Call:
					// single-result chains
					return i == 0 && (x == c.stage || x == c.core)
				case *ssa.Phi:
					for _, e := range x.Edges {
						if !passes(e, i, d+1) {
							return false
						}
					}
					return true
				case *ssa.UnOp:
					// a named result (or a local) spilled to a cell: every value stored into the cell passes
					if al, ok := x.X.(*ssa.Alloc); ok && x.Op == token.MUL {
						n := 0
						for _, ref := range *al.Referrers() {
							if st, ok := ref.(*ssa.Store); ok && st.Addr == ssa.Value(al) {
								n++
								if !passes(st.Val, i, d+1) {
									return false
								}
							}
						}
						return n > 0
					}
				}
				return false
			}
			bad := token.NoPos
			nRet := 0
			for _, b := range c.k.Blocks {
				ret, ok := b.Instrs[len(b.Instrs)-1].(*ssa.Return)
				if !ok {
					continue
				}
				nRet++
				for i, res := range ret.Results {
					if !passes(res, i, 0) {
						bad = ret.Pos()
					}
				}
			}
			if bad.IsValid() {
				r.Bad("C19.W6", key, bad, "the continuation %s does not return the results of the stage (or core handler) it ran as they are: a response returned together with an error, or an error replaced on the way out, never reaches the middleware that called next — predecessors no longer observe what their successor returned", key)
			} else if nRet > 0 {
				r.OK("C19.W6", key, c.k.Pos(), "%d return(s), each handing back the stage's / core handler's own results", nRet)
			}
		}
		// first position is 0
		c19Start(r, c)
	}
	c19Registration(r)
}

// c19Start: the chain is entered at position 0.
func c19Start(r *Run, c *chain) {
	key := fnKey(c.k) + "/start"
	// outermost enclosing function
	top := c.k
	for top.Parent() != nil {
		top = top.Parent()
	}
	fv := cursorVar(c.idx)
	ok, why := false, ""
	// new idiom: builder(0) in top; old idiom: cursor cell initialised to 0 in top
	// method form: the builder is a declared function (the continuation's parent); its entry call is elsewhere
	if par := c.k.Parent(); par != nil && par.Parent() == nil {
		for _, fn := range r.P.OwnFuncs() {
			allInstrs(fn, func(in ssa.Instruction) {
				x, isCall := in.(*ssa.Call)
				if !isCall || x.Call.StaticCallee() != par || fn == c.k || len(x.Call.Args) == 0 {
					return
				}
				if k, isK := constIntVal(x.Call.Args[len(x.Call.Args)-1]); isK {
					for _, ref := range *x.Referrers() {
						if c2, isC := ref.(*ssa.Call); isC && c2.Call.Value == ssa.Value(x) {
							if k == 0 {
								ok = true
							} else {
								why = fmt.Sprintf("the chain is entered at position %d", k)
							}
						}
					}
				}
			})
		}
	}
	if c.pos >= 0 {
		// method form: every call of the continuation method from outside itself starts the chain
		for _, fn := range r.P.OwnFuncs() {
			if fn == c.k {
				continue
			}
			allInstrs(fn, func(in ssa.Instruction) {
				x, isCall := in.(*ssa.Call)
				if !isCall || x.Call.StaticCallee() != c.k || len(x.Call.Args) == 0 {
					return
				}
				val, zero, okV := structFieldValue(x.Call.Args[0], c.pos)
				k, isK := int64(0), zero
				if okV && !zero {
					k, isK = constIntVal(val)
				}
				switch {
				case okV && isK && k == 0:
					ok = true
				case okV && isK:
					why = fmt.Sprintf("the chain is entered at position %d", k)
				default:
					why = "the chain is entered at a position that is not the constant 0"
				}
			})
		}
	}
	allInstrs(top, func(in ssa.Instruction) {
		switch x := in.(type) {
		case *ssa.Call:
			if x.Call.StaticCallee() == nil && !x.Call.IsInvoke() && len(x.Call.Args) == 1 {
				if k, isK := constIntVal(x.Call.Args[0]); isK {
					// result is then invoked as a continuation
					for _, ref := range *x.Referrers() {
						if c2, isC := ref.(*ssa.Call); isC && c2.Call.Value == ssa.Value(x) {
							if k == 0 {
								ok = true
							} else {
								why = fmt.Sprintf("the chain is entered at position %d", k)
							}
						}
					}
				}
			}
		case *ssa.Store:
			if fv != nil {
				if al, isA := x.Addr.(*ssa.Alloc); isA && al.Comment == fv.Name() {
					if k, isK := constIntVal(x.Val); isK {
						if k == 0 {
							ok = true
						} else {
							why = fmt.Sprintf("the chain position starts at %d", k)
						}
					}
				}
			}
		}
	})
	if why != "" {
		r.Bad("C19.W3", key, top.Pos(), "%s: the first middleware(s) never run", why)
	} else if ok {
		r.OK("C19.W3", key, top.Pos(), "the chain is entered at position 0")
	} else {
		r.Unk("C19.W3", key, top.Pos(), "entry position of the chain not recognised")
	}
}

func c19Registration(r *Run) {
	p := r.P
	// registration functions; besides them only the construction of a fresh object may set a chain
	allowed := map[string]bool{"kmipserver.BatchExecutor.Use": true, "kmipserver.BatchExecutor.BatchItemUse": true, "kmipclient.WithMiddlewares$1": true}
	n := 0
	for _, rel := range []string{"kmipclient", "kmipserver"} {
		for _, fn := range pkgFuncs(p, rel) {
			ord := 0
			allInstrs(fn, func(in ssa.Instruction) {
				st, ok := in.(*ssa.Store)
				if !ok {
					return
				}
				_, fld, ok := fieldAddrOf(st.Addr)
				if !ok || !isMiddlewareSlice(fld.Type()) {
					return
				}
				n++
				ord++
				key := fmt.Sprintf("%s/store-%s#%d", fnKey(fn), fname(fld), ord)
				_, fresh := st.Addr.(*ssa.FieldAddr).X.(*ssa.Alloc) // a struct literal being constructed
				if !allowed[fnKey(fn)] && !fresh {
					r.Bad("C19.W4", key, st.Pos(), "%s writes the middleware chain %s outside the registration functions: requests in flight can observe a chain changing under them", fnKey(fn), fname(fld))
					return
				}
				// registration appends in argument order: append(load same field, param...)
				if call, ok := st.Val.(*ssa.Call); ok {
					if b, ok := call.Call.Value.(*ssa.Builtin); ok && b.Name() == "append" {
						base := call.Call.Args[0]
						sameField := false
						if u, ok := base.(*ssa.UnOp); ok {
							if _, f2, ok := fieldAddrOf(u.X); ok && f2 == fld {
								sameField = true
							}
						}
						_, isParam := call.Call.Args[1].(*ssa.Parameter)
						if !isParam {
							if u, ok := call.Call.Args[1].(*ssa.UnOp); ok {
								_, isParam = u.X.(*ssa.FreeVar)
							}
						}
						if sameField && isParam {
							r.OK("C19.W4", key, st.Pos(), "%s = append(%s, new...): registration order is preserved", fname(fld), fname(fld))
							r.OK("C19.W3", key+"/order", st.Pos(), "appends the new middlewares after the existing ones, in argument order")
							return
						}
						r.Bad("C19.W3", key+"/order", st.Pos(), "registration does not append the new middlewares after the existing ones in argument order")
						return
					}
				}
				// the chain owns its backing array: a caller's slice (a parameter or a captured parameter of the
				// registration function) is never stored as the chain itself
				direct := st.Val
				if ct, ok := direct.(*ssa.ChangeType); ok {
					direct = ct.X
				}
				callerSlice := false
				// (a parameter of an unexported constructor helper stands for what its callers pass)
				for _, src := range paramSources(p, direct, 0) {
					if ct, ok := src.(*ssa.ChangeType); ok {
						src = ct.X
					}
					if _, ok := src.(*ssa.Parameter); ok {
						callerSlice = true
					}
					if u, ok := src.(*ssa.UnOp); ok {
						if _, ok := u.X.(*ssa.FreeVar); ok {
							callerSlice = true
						}
					}
					if _, ok := src.(*ssa.FreeVar); ok {
						callerSlice = true
					}
				}
				if callerSlice {
					r.Bad("C19.W4", key, st.Pos(), "%s stores the caller's slice as the middleware chain %s without copying it: the chain shares its backing array with the caller (and with other clients built from the same base slice), so a later append or write changes which middlewares a live chain runs", fnKey(fn), fname(fld))
					return
				}
				r.OK("C19.W4", key, st.Pos(), "chain set by constructor/clone %s", fnKey(fn))
			})
		}
	}
	if n < 3 {
		r.Unk("C19.W4", "middleware-slices/stores", token.NoPos, "%d stores to middleware slices found", n)
	}
}

func derefType(t types.Type) types.Type {
	if p, ok := t.Underlying().(*types.Pointer); ok {
		return p.Elem()
	}
	return t
}

// findFoldChains recognises, and decides, the other common way to compose a chain: folding it innermost first —
//
//	next := core
//	for _, mw := range slices.Backward(chain) {   // or: for i := len(chain)-1; i >= 0; i--
//		inner := next
//		next = func(ctx, msg) { return mw(inner, ctx, msg) }
//	}
//	return next(ctx, msg)
//
// W1: the stage and its continuation are per-iteration cells stored once and never written again; W2/W5: the
// continuation is a single call of the stage with its continuation and its own two parameters, returned unchanged;
// W3: the iteration runs from the last registered middleware to the first, the fold starts from the core handler and
// the outermost continuation is the one invoked. Returns the number of fold chains found.
func findFoldChains(r *Run) int {
	p := r.P
	n := 0
	for _, k := range p.OwnFuncs() {
		if k.Parent() == nil || len(k.Params) != 2 || len(k.FreeVars) != 2 {
			continue
		}
		if pk := idOf(k).pkg; pk != cliPath && pk != srvPath {
			continue
		}
		// body: one call of *mwCell(*innerCell, ctx, msg), results returned
		var calls []*ssa.Call
		other := false
		allInstrs(k, func(in ssa.Instruction) {
			switch x := in.(type) {
			case *ssa.Call:
				calls = append(calls, x)
			case *ssa.Store, *ssa.Go, *ssa.Defer, *ssa.MapUpdate, *ssa.Send:
				other = true
			}
		})
		if len(calls) != 1 || len(k.Blocks) != 1 {
			continue
		}
		call := calls[0]
		mwLd, ok := call.Call.Value.(*ssa.UnOp)
		if !ok || len(call.Call.Args) != 3 {
			continue
		}
		mwFV, ok := mwLd.X.(*ssa.FreeVar)
		if !ok {
			continue
		}
		nm, isNamed := types.Unalias(mwLd.Type()).(*types.Named)
		if !isNamed || !strings.HasSuffix(nm.Obj().Name(), "Middleware") {
			continue
		}
		inLd, ok := call.Call.Args[0].(*ssa.UnOp)
		if !ok {
			continue
		}
		inFV, ok := inLd.X.(*ssa.FreeVar)
		if !ok {
			continue
		}
		n++
		key := fnKey(k)
		// ---- W2 / W5
		fwd := call.Call.Args[1] == ssa.Value(k.Params[0]) && call.Call.Args[2] == ssa.Value(k.Params[1])
		retOK := false
		if ret, ok := k.Blocks[0].Instrs[len(k.Blocks[0].Instrs)-1].(*ssa.Return); ok && len(ret.Results) == 2 {
			e0, ok0 := ret.Results[0].(*ssa.Extract)
			e1, ok1 := ret.Results[1].(*ssa.Extract)
			retOK = ok0 && ok1 && e0.Tuple == ssa.Value(call) && e1.Tuple == ssa.Value(call) && e0.Index == 0 && e1.Index == 1
		}
		switch {
		case !fwd:
			r.Bad("C19.W2", key, call.Pos(), "the stage is not given the continuation's own context and message: a message or context substituted by the previous middleware is ignored")
		case !retOK || other:
			r.Bad("C19.W2", key, k.Pos(), "the continuation does not return its callee's results unchanged")
		default:
			r.OK("C19.W2", key, call.Pos(), "fold form: the stage receives (its continuation, ctx, msg) of this continuation; results are returned as they are")
		}
		r.OK("C19.W5", key, k.Pos(), "fold form: a single block with exactly one call of the stage")
		// ---- the builder
		b := k.Parent()
		var mk *ssa.MakeClosure
		allInstrs(b, func(in ssa.Instruction) {
			if mc, ok := in.(*ssa.MakeClosure); ok && mc.Fn == ssa.Value(k) {
				mk = mc
			}
		})
		if mk == nil || len(mk.Bindings) != 2 {
			r.Unk("C19.W1", key, k.Pos(), "fold form: creation of the continuation not found")
			continue
		}
		var mwCell, inCell ssa.Value
		for i, fv := range k.FreeVars {
			if fv == mwFV {
				mwCell = mk.Bindings[i]
			}
			if fv == inFV {
				inCell = mk.Bindings[i]
			}
		}
		// single store into a cell; returns the stored value
		single := func(cell ssa.Value) (ssa.Value, int) {
			al, ok := cell.(*ssa.Alloc)
			if !ok {
				return nil, -1
			}
			var val ssa.Value
			cnt := 0
			for _, ref := range *al.Referrers() {
				if st, ok := ref.(*ssa.Store); ok && st.Addr == cell {
					val = st.Val
					cnt++
				}
			}
			return val, cnt
		}
		mwVal, nMw := single(mwCell)
		inVal, nIn := single(inCell)
		if nMw != 1 || nIn != 1 {
			r.Bad("C19.W1", key, mk.Pos(), "fold form: the stage or its continuation is kept in a variable that is written %d/%d time(s) (not a per-iteration cell assigned once): continuations created in different iterations, or invoked several times, do not each keep their own stage and remainder", nMw, nIn)
		} else {
			r.OK("C19.W1", key, mk.Pos(), "fold form: stage and continuation are per-iteration cells assigned once before the continuation is created")
		}
		// inner = current value of the accumulator `next`
		var nextCell ssa.Value
		if ld, ok := inVal.(*ssa.UnOp); ok && ld.Op == token.MUL {
			nextCell = ld.X
		}
		// the accumulator is then replaced by the new continuation
		accOK := false
		allInstrs(b, func(in ssa.Instruction) {
			st, ok := in.(*ssa.Store)
			if !ok || nextCell == nil || st.Addr != nextCell {
				return
			}
			v := st.Val
			if ct, ok := v.(*ssa.ChangeType); ok {
				v = ct.X
			}
			if v == ssa.Value(mk) {
				accOK = true
			}
		})
		// the stage: an element of the middleware slice, visited from last to first
		top := b
		order := ""
		if b.Synthetic == "range-over-func yield" && b.Parent() != nil {
			top = b.Parent()
			// mw = second yield parameter; the sequence = slices.Backward(<middleware slice field>)
			if len(b.Params) == 2 && mwVal == ssa.Value(b.Params[1]) {
				allInstrs(top, func(in ssa.Instruction) {
					c, ok := in.(*ssa.Call)
					if !ok || len(c.Call.Args) != 1 {
						return
					}
					mcl, ok := c.Call.Args[0].(*ssa.MakeClosure)
					if !ok || mcl.Fn != ssa.Value(b) {
						return
					}
					seq, ok := c.Call.Value.(*ssa.Call)
					if !ok {
						return
					}
					id := callID(&seq.Call)
					if len(seq.Call.Args) == 1 && isMiddlewareSlice(seq.Call.Args[0].Type()) {
						switch {
						case id.pkg == "slices" && id.name == "Backward":
							order = "backward"
						case id.pkg == "slices" && (id.name == "All" || id.name == "Values"):
							order = "forward"
						}
					}
				})
			}
		} else if ld, ok := mwVal.(*ssa.UnOp); ok && ld.Op == token.MUL {
			if ia, ok := ld.X.(*ssa.IndexAddr); ok && isMiddlewareSlice(ia.X.Type()) {
				// index loop: the induction variable decreases (phi with an edge idx-1) and starts at len-1
				idx := ia.Index
				if ph, ok := idx.(*ssa.Phi); ok {
					dec, startLast := false, false
					for _, e := range ph.Edges {
						if bo, ok := e.(*ssa.BinOp); ok {
							if k1, isK := constIntVal(bo.Y); isK && k1 == 1 && bo.Op == token.SUB {
								if bo.X == ssa.Value(ph) {
									dec = true
								} else if _, isLen := lenOperand(bo.X); isLen {
									startLast = true
								}
							}
							if k1, isK := constIntVal(bo.Y); isK && k1 == 1 && bo.Op == token.ADD && bo.X == ssa.Value(ph) {
								order = "forward"
							}
						}
					}
					if dec && startLast {
						order = "backward"
					}
				} else if bo, ok := idx.(*ssa.BinOp); ok && bo.Op == token.ADD {
					// rotated `for range` loops index with phi+1: ascending
					order = "forward"
				}
			}
		}
		// the fold starts from the core and its result is what the top function invokes
		coreOK, callOK := false, false
		if al, ok := nextCell.(*ssa.FreeVar); ok && b != top {
			// the accumulator lives in the top function: find the binding
			allInstrs(top, func(in ssa.Instruction) {
				if mcl, ok := in.(*ssa.MakeClosure); ok && mcl.Fn == ssa.Value(b) {
					for i, fv := range b.FreeVars {
						if fv == al {
							nextCell = mcl.Bindings[i]
						}
					}
				}
			})
			// re-check the accumulator store inside the yield closure against the free variable
			allInstrs(b, func(in ssa.Instruction) {
				if st, ok := in.(*ssa.Store); ok && st.Addr == ssa.Value(al) {
					v := st.Val
					if ct, ok := v.(*ssa.ChangeType); ok {
						v = ct.X
					}
					if v == ssa.Value(mk) {
						accOK = true
					}
				}
			})
		}
		if cell, ok := nextCell.(*ssa.Alloc); ok {
			for _, ref := range *cell.Referrers() {
				switch x := ref.(type) {
				case *ssa.Store:
					v := x.Val
					if ct, ok := v.(*ssa.ChangeType); ok {
						v = ct.X
					}
					if mcl, ok := v.(*ssa.MakeClosure); ok {
						if f, ok := mcl.Fn.(*ssa.Function); ok && f.Object() != nil && strings.Contains(f.Synthetic, "bound method") {
							coreOK = true
						}
					}
				case *ssa.UnOp:
					for _, r2 := range *x.Referrers() {
						if c2, ok := r2.(*ssa.Call); ok && c2.Call.Value == ssa.Value(x) && c2.Parent() == top && len(c2.Call.Args) == 2 {
							callOK = true
						}
					}
				}
			}
		}
		// accumulator kept in an SSA register (nothing captures it): a phi of the core and of the new continuation
		if ph, ok := inVal.(*ssa.Phi); ok && nextCell == nil {
			for _, e := range ph.Edges {
				v := e
				if ct, ok := v.(*ssa.ChangeType); ok {
					v = ct.X
				}
				if v == ssa.Value(mk) {
					accOK = true
				}
				if mcl, ok := v.(*ssa.MakeClosure); ok {
					if f, ok := mcl.Fn.(*ssa.Function); ok && f.Object() != nil && strings.Contains(f.Synthetic, "bound method") {
						coreOK = true
					}
				}
			}
			for _, ref := range *ph.Referrers() {
				if c2, ok := ref.(*ssa.Call); ok && c2.Call.Value == ssa.Value(ph) && len(c2.Call.Args) == 2 {
					callOK = true
				}
			}
		}
		w3 := ""
		switch {
		case order == "forward":
			w3 = "the chain is folded over the middlewares in registration order, so the LAST registered middleware ends up outermost: the stages run in reverse registration order"
		case order != "backward":
			w3 = "fold form: the order in which the middlewares are visited is not recognised (expected slices.Backward or a descending index loop)"
		case !accOK:
			w3 = "fold form: the new continuation does not replace the accumulator it wrapped"
		case !coreOK:
			w3 = "fold form: the fold does not start from the core handler (a bound method of the package)"
		case !callOK:
			w3 = "fold form: the outermost continuation is not what the function invokes"
		}
		if w3 == "" {
			r.OK("C19.W3", key, mk.Pos(), "fold form: middlewares wrapped from the last registered to the first around the core handler; the outermost continuation is invoked")
			r.OK("C19.W3", key+"/start", top.Pos(), "fold form: the outermost continuation wraps the first registered middleware")
		} else if strings.HasPrefix(w3, "fold form: the order") {
			r.Unk("C19.W3", key, mk.Pos(), "%s", w3)
		} else {
			r.Bad("C19.W3", key, mk.Pos(), "%s", w3)
		}
	}
	return n
}

// builderEndsChain: the function that builds the continuation c.k returns, under `position >= len(chain)`, the core
// handler itself as the continuation (a bound method of the package), and builds c.k only on the other edge.
func builderEndsChain(c *chain) bool {
	b := c.k.Parent()
	if b == nil {
		return false
	}
	var mk *ssa.MakeClosure
	allInstrs(b, func(in ssa.Instruction) {
		if mc, ok := in.(*ssa.MakeClosure); ok && mc.Fn == ssa.Value(c.k) {
			mk = mc
		}
	})
	if mk == nil {
		return false
	}
	// the position as the builder sees it: the value bound to the free variable the continuation indexes with
	var pos ssa.Value
	if fv := cursorVar(c.idx); fv != nil {
		for i, f2 := range c.k.FreeVars {
			if f2 == fv {
				pos = mk.Bindings[i]
			}
		}
	} else if fv, ok := c.idx.(*ssa.FreeVar); ok {
		for i, f2 := range c.k.FreeVars {
			if f2 == fv {
				pos = mk.Bindings[i]
			}
		}
	}
	isPos := func(v ssa.Value) bool {
		if pos == nil {
			return false
		}
		if v == pos {
			return true
		}
		// captured by reference: the cell holds the builder's parameter
		if al, ok := pos.(*ssa.Alloc); ok {
			if ld, ok := v.(*ssa.UnOp); ok && ld.X == ssa.Value(al) {
				return true
			}
			for _, ref := range *al.Referrers() {
				if st, ok := ref.(*ssa.Store); ok && st.Addr == ssa.Value(al) && st.Val == v {
					return true
				}
			}
		}
		return false
	}
	endEdge := func(dc domCond) (bool, bool) { // (is the end test, outcome means "at the end")
		bo, ok := dc.cond.(*ssa.BinOp)
		if !ok || !isPos(bo.X) {
			return false, false
		}
		y, isLen := lenOperand(bo.Y)
		if !isLen {
			return false, false
		}
		ld, ok := y.(*ssa.UnOp)
		if !ok {
			return false, false
		}
		if _, f2, ok := fieldAddrOf(ld.X); !ok || f2 != c.field {
			return false, false
		}
		switch bo.Op {
		case token.GEQ:
			return true, dc.outcome
		case token.LSS:
			return true, !dc.outcome
		}
		return false, false
	}
	coreRet, stageOK := false, false
	for _, blk := range b.Blocks {
		ret, ok := blk.Instrs[len(blk.Instrs)-1].(*ssa.Return)
		if !ok || len(ret.Results) != 1 {
			continue
		}
		v := ret.Results[0]
		if ct, ok := v.(*ssa.ChangeType); ok {
			v = ct.X
		}
		mcl, ok := v.(*ssa.MakeClosure)
		if !ok {
			continue
		}
		f, _ := mcl.Fn.(*ssa.Function)
		for _, dc := range dominatingConds(blk) {
			isEnd, atEnd := endEdge(dc)
			if !isEnd {
				continue
			}
			if atEnd && f != nil && strings.Contains(f.Synthetic, "bound method") && f.Object() != nil {
				coreRet = true
			}
			if !atEnd && mcl == mk {
				stageOK = true
			}
		}
	}
	return coreRet && stageOK
}
