package main

// C17 — tag, enumeration and bit-mask names form a stable bijection.
// Finite and exhaustive: every registry entry is an obligation.

import (
	"bufio"
	"encoding/xml"
	"fmt"
	"go/ast"
	"go/constant"
	"go/token"
	"go/types"
	"io"
	"os"
	"path/filepath"
	"regexp"
	"sort"
	"strconv"
	"strings"

	"golang.org/x/tools/go/ssa"
)

var nameRe = regexp.MustCompile(`^[A-Za-z][A-Za-z0-9_]*$`)

type refRow struct {
	scope string
	num   int64
	name  string
}

func readRegistryRef(path string) ([]refRow, error) {
	f, err := os.Open(path)
	if err != nil {
		return nil, err
	}
	defer f.Close()
	var out []refRow
	sc := bufio.NewScanner(f)
	for sc.Scan() {
		ln := sc.Text()
		if ln == "" || strings.HasPrefix(ln, "#") {
			continue
		}
		parts := strings.Split(ln, "\t")
		if len(parts) != 3 {
			return nil, fmt.Errorf("%s: bad row %q", path, ln)
		}
		n, err := strconv.ParseInt(parts[1], 0, 64)
		if err != nil {
			return nil, fmt.Errorf("%s: bad number in %q", path, ln)
		}
		out = append(out, refRow{parts[0], n, parts[2]})
	}
	return out, sc.Err()
}

// registryRows flattens the current static registry in reference-file form.
func registryRows(reg *Registry) []refRow {
	var rows []refRow
	for _, t := range reg.Tags {
		rows = append(rows, refRow{"tag", t.Num, t.Name})
	}
	for _, e := range reg.Enums {
		for _, v := range e.Values {
			rows = append(rows, refRow{"enum:" + reg.TagName(e.Tag), int64(v.Num), v.Name})
		}
	}
	for _, m := range reg.Masks {
		for i, n := range m.Names {
			rows = append(rows, refRow{"mask:" + reg.TagName(m.Tag), int64(1) << uint(i), n})
		}
	}
	sort.SliceStable(rows, func(i, j int) bool {
		if rows[i].scope != rows[j].scope {
			return rows[i].scope < rows[j].scope
		}
		return rows[i].num < rows[j].num
	})
	return rows
}

func normName(s string) string {
	var b strings.Builder
	for _, r := range strings.ToLower(s) {
		if (r >= 'a' && r <= 'z') || (r >= '0' && r <= '9') {
			b.WriteRune(r)
		}
	}
	return b.String()
}

func runC17(r *Run, verifDir string) {
	p := r.P
	reg := BuildRegistry(p)
	r.Extra["level"] = "proof"
	r.Explain = append(r.Explain,
		"C17 is decided exhaustively over the static registry M1 (every tag, enumeration value and mask flag registered by the init functions, evaluated from source literals with go/types constant values; no code is run).",
		"N1: per scope the number->name and name->number maps built by the Register* semantics are mutually inverse. N2: every row of the pinned reference ref/registry.tsv is present unchanged (additions allowed). N3: names are lexically safe for XML element names, JSON strings and the readers' hex/decimal/name cascade. N4: every enum/mask type's MarshalText/UnmarshalText is wired to its own tag. N5: ttlv.Type names injective. N6: registration happens only in init functions from constants.")
	r.Assume = append(r.Assume,
		"go/types constant evaluation is correct",
		"M1's reading of ttlv.RegisterTag/RegisterEnum/RegisterBitmask (which maps they write, 1<<i for mask flags) — re-probed structurally on every run",
		"ref/registry.tsv is the reviewed KMIP 1.0-1.4 registry (generated from the pinned tree, cross-checked against the element/enum names used by the 410 OASIS XML vectors shipped in kmiptest/testdata)")
	r.NotCov = append(r.NotCov, "round trips of single items through the XML/JSON codecs (C04)", "user code calling the exported Register* functions at run time")

	r.Rule("C17.M1", "model conformance probes of the Register* functions and literal shapes", 1)
	if len(reg.Problems) == 0 {
		r.OK("C17.M1", "probes", token.NoPos, "all model probes hold (%d register calls read)", len(reg.RegCalls))
	}
	for i, pr := range reg.Problems {
		r.Unk("C17.M1", fmt.Sprintf("probe#%d", i), token.NoPos, "%s", pr)
	}

	// ---------------- N1 bijection
	r.Rule("C17.N1", "number<->name maps are mutually inverse per scope (tags, each enumeration, each mask)", 292+500+22)
	{
		byName := map[string][]TagEntry{}
		byNum := map[int64][]TagEntry{}
		for _, t := range reg.Tags {
			byName[t.Name] = append(byName[t.Name], t)
			byNum[t.Num] = append(byNum[t.Num], t)
		}
		for _, t := range reg.Tags {
			key := fmt.Sprintf("tag/%s", t.NumExpr)
			switch {
			case t.Name == "":
				r.Bad("C17.N1", key, t.Pos, "tag 0x%06X has an empty name", t.Num)
			case len(byName[t.Name]) > 1:
				r.Bad("C17.N1", key, t.Pos, "tag name %q is registered for %d numbers: tagByName depends on map iteration order of the init loop", t.Name, len(byName[t.Name]))
			case len(byNum[t.Num]) > 1:
				r.Bad("C17.N1", key, t.Pos, "tag number 0x%06X has %d names", t.Num, len(byNum[t.Num]))
			case t.Num <= 0 || t.Num > 0xFFFFFF:
				r.Bad("C17.N1", key, t.Pos, "tag number 0x%X does not fit in 3 bytes", t.Num)
			default:
				r.OK("C17.N1", key, t.Pos, "0x%06X <-> %q unique both ways", t.Num, t.Name)
			}
		}
	}
	// enumerations: merge registrations per tag (RegisterEnum merges)
	{
		type ev struct {
			e *EnumReg
			v EnumValue
		}
		byTag := map[int64][]ev{}
		typesPerTag := map[int64][]*EnumReg{}
		for _, e := range reg.Enums {
			typesPerTag[e.Tag] = append(typesPerTag[e.Tag], e)
			for _, v := range e.Values {
				byTag[e.Tag] = append(byTag[e.Tag], ev{e, v})
			}
		}
		for _, e := range reg.Enums {
			tkey := "enum/" + e.Type.Obj().Name()
			if len(typesPerTag[e.Tag]) > 1 {
				r.Bad("C17.N1", tkey, e.Pos, "tag %s carries %d enum registrations: value tables merge and tagByType is ambiguous", reg.TagName(e.Tag), len(typesPerTag[e.Tag]))
			} else if _, ok := reg.TagByNum[e.Tag]; !ok {
				r.Bad("C17.N1", tkey, e.Pos, "enumeration %s registered under tag 0x%06X which has no name", e.Type.Obj().Name(), e.Tag)
			} else if b, ok := e.Type.Underlying().(*types.Basic); !ok || b.Kind() != types.Uint32 {
				r.Bad("C17.N1", tkey, e.Pos, "enumeration type %s is not uint32", e.Type)
			} else {
				r.OK("C17.N1", tkey, e.Pos, "type %s <-> tag %s, single registration", e.Type.Obj().Name(), reg.TagName(e.Tag))
			}
			for _, v := range e.Values {
				key := fmt.Sprintf("enum/%s/%s", e.Type.Obj().Name(), v.Name)
				if v.ConstObj != nil {
					key = fmt.Sprintf("enum/%s/%s", e.Type.Obj().Name(), v.ConstObj.Name())
				}
				nName, nNum := 0, 0
				for _, o := range byTag[e.Tag] {
					if o.v.Name == v.Name {
						nName++
					}
					if o.v.Num == v.Num {
						nNum++
					}
				}
				switch {
				case v.Name == "":
					r.Bad("C17.N1", key, v.Pos, "value 0x%08X of %s has an empty name (written as hex, never by name)", v.Num, e.Type.Obj().Name())
				case nName > 1:
					r.Bad("C17.N1", key, v.Pos, "name %q denotes %d values of %s: enumsByName depends on map iteration order", v.Name, nName, e.Type.Obj().Name())
				case nNum > 1:
					r.Bad("C17.N1", key, v.Pos, "value 0x%08X of %s has %d names", v.Num, e.Type.Obj().Name(), nNum)
				case v.Num > 0xFFFFFFFF:
					r.Bad("C17.N1", key, v.Pos, "value does not fit uint32")
				default:
					r.OK("C17.N1", key, v.Pos, "0x%08X <-> %q unique both ways in %s", v.Num, v.Name, reg.TagName(e.Tag))
				}
			}
		}
	}
	// masks
	for _, m := range reg.Masks {
		tn := m.Type.Obj().Name()
		if len(m.Names) > 31 {
			r.Bad("C17.N1", "mask/"+tn, m.Pos, "%d flag names do not fit a positive int32", len(m.Names))
		}
		// constants of the mask type declared in its package
		consts := map[int64]*types.Const{}
		scope := m.Type.Obj().Pkg().Scope()
		for _, n := range scope.Names() {
			if c, ok := scope.Lookup(n).(*types.Const); ok && types.Identical(c.Type(), m.Type) {
				if v, ok := constant.Int64Val(constant.ToInt(c.Val())); ok {
					consts[v] = c
				}
			}
		}
		seen := map[string]int{}
		for _, n := range m.Names {
			seen[n]++
		}
		for i, n := range m.Names {
			key := fmt.Sprintf("mask/%s/bit%d", tn, i)
			bit := int64(1) << uint(i)
			c := consts[bit]
			switch {
			case n == "":
				r.Bad("C17.N1", key, m.NamePos[i], "flag bit %d of %s has an empty name", i, tn)
			case seen[n] > 1:
				r.Bad("C17.N1", key, m.NamePos[i], "flag name %q used for %d bits of %s", n, seen[n], tn)
			case c == nil:
				r.Bad("C17.N1", key, m.NamePos[i], "flag %q is registered at bit %d (0x%08X) but no constant of type %s has that value", n, i, bit, tn)
			case !strings.HasSuffix(normName(c.Name()), normName(n)):
				r.Bad("C17.N1", key, m.NamePos[i], "flag %q is registered at bit %d but the constant with value 0x%08X is %s: registration order and constant order disagree", n, i, bit, c.Name())
			default:
				r.OK("C17.N1", key, m.NamePos[i], "bit %d = 0x%08X <-> %q = %s", i, bit, n, c.Name())
			}
		}
		for v, c := range consts {
			idx := -1
			for i := range m.Names {
				if int64(1)<<uint(i) == v {
					idx = i
				}
			}
			if idx < 0 {
				r.Bad("C17.N1", fmt.Sprintf("mask/%s/const/%s", tn, c.Name()), c.Pos(), "constant %s = 0x%X of mask type %s has no registered flag name", c.Name(), v, tn)
			}
		}
	}

	// ---------------- N2 pinned registry
	r.Rule("C17.N2", "every (scope, number, name) of the pinned KMIP 1.0-1.4 registry ref/registry.tsv is present unchanged", 800)
	refPath := filepath.Join(verifDir, "ref", "registry.tsv")
	ref, err := readRegistryRef(refPath)
	if err != nil {
		r.Unk("C17.N2", "ref", token.NoPos, "cannot read reference: %v", err)
	} else {
		cur := map[string]map[int64]string{}
		curPos := map[string]token.Pos{}
		for _, row := range registryRows(reg) {
			if cur[row.scope] == nil {
				cur[row.scope] = map[int64]string{}
			}
			cur[row.scope][row.num] = row.name
		}
		for _, t := range reg.Tags {
			curPos[fmt.Sprintf("tag/%d", t.Num)] = t.Pos
		}
		for _, e := range reg.Enums {
			for _, v := range e.Values {
				curPos[fmt.Sprintf("enum:%s/%d", reg.TagName(e.Tag), v.Num)] = v.Pos
			}
		}
		for _, m := range reg.Masks {
			for i := range m.Names {
				curPos[fmt.Sprintf("mask:%s/%d", reg.TagName(m.Tag), int64(1)<<uint(i))] = m.NamePos[i]
			}
		}
		for _, row := range ref {
			key := fmt.Sprintf("%s/0x%X", row.scope, row.num)
			pos := curPos[fmt.Sprintf("%s/%d", row.scope, row.num)]
			got, ok := cur[row.scope][row.num]
			switch {
			case !ok:
				// maybe the scope was renamed (its tag name changed)
				r.Bad("C17.N2", key, pos, "pinned entry %s 0x%X %q is no longer registered", row.scope, row.num, row.name)
			case got != row.name:
				r.Bad("C17.N2", key, pos, "pinned entry %s 0x%X is named %q in the registry of record but %q in this tree", row.scope, row.num, row.name, got)
			default:
				r.OK("C17.N2", key, pos, "%s 0x%X = %q as pinned", row.scope, row.num, row.name)
			}
		}
		extra := 0
		refSet := map[string]bool{}
		for _, row := range ref {
			refSet[fmt.Sprintf("%s/%d", row.scope, row.num)] = true
		}
		for _, row := range registryRows(reg) {
			if !refSet[fmt.Sprintf("%s/%d", row.scope, row.num)] {
				extra++
			}
		}
		if extra > 0 {
			r.Infof("C17.N2: %d registry entries are not in the pinned reference (additions are allowed)", extra)
		}
	}

	// ---------------- N3 lexical safety
	r.Rule("C17.N3", "names match [A-Za-z][A-Za-z0-9_]* (valid XML element name, no JSON escaping, no mask separator, never read as hex/decimal)", 800)
	for _, row := range registryRows(reg) {
		key := fmt.Sprintf("%s/0x%X", row.scope, row.num)
		if row.name == "" {
			continue // reported by N1
		}
		if !nameRe.MatchString(row.name) || strings.HasPrefix(row.name, "0x") || strings.HasPrefix(row.name, "0X") {
			r.Bad("C17.N3", key, token.NoPos, "name %q is not lexically safe (must match %s and not start with 0x)", row.name, nameRe)
		} else if row.scope == "tag" && row.name == "TTLV" {
			r.Bad("C17.N3", key, token.NoPos, "tag name TTLV collides with the XML element used for unnamed tags")
		} else {
			r.OK("C17.N3", key, token.NoPos, "%q safe", row.name)
		}
	}

	// ---------------- N4 text marshalers
	r.Rule("C17.N4", "each registered enum/mask type's MarshalText/UnmarshalText is wired to its own tag", 50)
	for _, e := range reg.Enums {
		c17TextMarshalers(r, e.Type, e.Tag, e.Pos, "marshalText", "unmarshalText", reg)
	}
	for _, m := range reg.Masks {
		c17TextMarshalers(r, m.Type, m.Tag, m.Pos, "", "maskUnmarshalText", reg)
	}
	c17MarshalTextFallback(r)

	// ---------------- N5 ttlv.Type names
	r.Rule("C17.N5", "ttlv.Type <-> name table is injective and covers the ten types", 10)
	if tt := p.Pkg("ttlv"); tt != nil {
		if cl, _ := findPkgVarLit(tt, "typesName"); cl != nil {
			names := map[string]int{}
			nums := map[int64]int{}
			type ent struct {
				n   int64
				s   string
				pos token.Pos
				ex  string
			}
			var ents []ent
			for _, el := range cl.Elts {
				kv, ok := el.(*ast.KeyValueExpr)
				if !ok {
					continue
				}
				n, ok1 := constInt(tt.TypesInfo, kv.Key)
				s, ok2 := constStr(tt.TypesInfo, kv.Value)
				if !ok1 || !ok2 {
					r.Unk("C17.N5", "typesName/"+types.ExprString(kv.Key), kv.Pos(), "non-constant entry")
					continue
				}
				names[s]++
				nums[n]++
				ents = append(ents, ent{n, s, kv.Pos(), types.ExprString(kv.Key)})
			}
			for _, e := range ents {
				if names[e.s] > 1 || nums[e.n] > 1 || e.s == "" || !nameRe.MatchString(e.s) {
					r.Bad("C17.N5", "typesName/"+e.ex, e.pos, "type name %q / code %d not unique or not lexically safe (revMap panics at init on duplicates)", e.s, e.n)
				} else {
					r.OK("C17.N5", "typesName/"+e.ex, e.pos, "%d <-> %q", e.n, e.s)
				}
			}
		} else {
			r.Unk("C17.N5", "typesName", token.NoPos, "anchor missing: ttlv.typesName literal")
		}
	}

	// ---------------- N6 registration only at init
	r.Rule("C17.N6", "Register* functions are called only from init functions, with constant arguments", 78)
	for i, rc := range reg.RegCalls {
		key := fmt.Sprintf("%s/%s#%d", strings.TrimPrefix(rc.Pkg, modPath), rc.Callee, i)
		_ = key
	}
	c20RegisterOnlyInInit(r, reg, "C17.N6")

	// ---------------- N7 masks are bit sets, not numbers
	r.Rule("C17.N7", "mask renderers and parsers never order-compare a mask value (<, <=, >, >=): bit 31 makes an int32 mask negative", 1)
	nCmp, nFn := 0, 0
	for _, fn := range p.OwnFuncs() {
		id := idOf(fn)
		top := fn
		for top.Parent() != nil {
			top = top.Parent()
		}
		tn := idOf(top).name
		if !(id.pkg == ttlvPath || id.pkg == modPath) || !(strings.Contains(tn, "Bitmask") || strings.Contains(strings.ToLower(tn), "mask")) {
			continue
		}
		if top.TypeParams().Len() > 0 && len(top.TypeArgs()) == 0 {
			continue // the uninstantiated generic body: its instances are analysed
		}
		nFn++
		ord := 0
		allInstrs(fn, func(in ssa.Instruction) {
			bo, ok := in.(*ssa.BinOp)
			if !ok || !(bo.Op == token.LSS || bo.Op == token.LEQ || bo.Op == token.GTR || bo.Op == token.GEQ) {
				return
			}
			isMask := func(v ssa.Value) bool {
				t := v.Type()
				if reg.MaskForType(t) != nil {
					return true
				}
				// a value of the function's mask parameter type (signed 32-bit named type or type parameter instance)
				if b, ok := t.Underlying().(*types.Basic); ok && b.Kind() == types.Int32 {
					for _, prm := range top.Params {
						if types.Identical(prm.Type(), t) {
							if _, isNamed := t.(*types.Named); isNamed {
								return true
							}
						}
					}
					// derived from the mask parameter by bit operations
					var derives func(x ssa.Value, d int) bool
					derives = func(x ssa.Value, d int) bool {
						if d > 5 {
							return false
						}
						switch y := x.(type) {
						case *ssa.Parameter:
							return reg.MaskForType(y.Type()) != nil || (y.Parent() == top && func() bool {
								bb, ok := y.Type().Underlying().(*types.Basic)
								return ok && bb.Kind() == types.Int32 && y.Name() != "tag"
							}())
						case *ssa.BinOp:
							if y.Op == token.AND || y.Op == token.OR || y.Op == token.XOR || y.Op == token.AND_NOT || y.Op == token.SUB {
								return derives(y.X, d+1) || derives(y.Y, d+1)
							}
						case *ssa.Phi:
							for _, e := range y.Edges {
								if e != x && derives(e, d+1) {
									return true
								}
							}
						case *ssa.Convert:
							if bb, ok := y.Type().Underlying().(*types.Basic); ok && bb.Info()&types.IsUnsigned != 0 {
								return false // converted to unsigned: ordering is harmless
							}
							return derives(y.X, d+1)
						case *ssa.ChangeType:
							return derives(y.X, d+1)
						case *ssa.UnOp:
							return derives(y.X, d+1)
						}
						return false
					}
					return derives(v, 0)
				}
				return false
			}
			if !isMask(bo.X) && !isMask(bo.Y) {
				return
			}
			nCmp++
			ord++
			r.Bad("C17.N7", fmt.Sprintf("%s/mask-order-compare#%d", fnKey(fn), ord), bo.Pos(), "%s compares a bit mask with %s: a mask with bit 31 set is a negative int32, so the comparison stops or skips the rendering/parsing of every flag (the text forms carry an empty value and read back 0)", fnKey(fn), bo.Op)
		})
	}
	if nCmp == 0 {
		r.OK("C17.N7", "masks/no-order-compare", token.NoPos, "%d mask rendering/parsing function(s): no ordering comparison on a mask value", nFn)
	}

	c17N9(r)
	c17N11(r)
	errorsNotCarried(r, "C17.N12")
	{
		lc := &lexCtx{r: r, p: r.P, ord: map[string]int{}}
		lc.l1Hex("C17.N10")
		lc.trimCutset("C17.N10")
	}
	// ---------------- N8 re-registration keeps both directions in step
	r.Rule("C17.N8", "RegisterEnum creates its two per-tag maps only when absent, both under the same condition (a second registration merges)", 1)
	if re := p.Func("ttlv", "", "RegisterEnum"); re != nil && re.Blocks != nil {
		type creation struct {
			mapT    string
			guarded bool
			pos     token.Pos
		}
		var cs []creation
		allInstrs(re, func(in ssa.Instruction) {
			mu, ok := in.(*ssa.MapUpdate)
			if !ok {
				return
			}
			if _, isMake := mu.Value.(*ssa.MakeMap); !isMake {
				return
			}
			g := globalRoot(mu.Map, 0)
			if g == nil {
				return
			}
			guarded := false
			for _, dc := range dominatingConds(mu.Block()) {
				bo, ok := dc.cond.(*ssa.BinOp)
				if !ok || !isNilConst(bo.Y) {
					continue
				}
				if lk, ok := bo.X.(*ssa.Lookup); ok && globalRoot(lk.X, 0) == g && (bo.Op == token.EQL) == dc.outcome {
					guarded = true
				}
			}
			cs = append(cs, creation{types.TypeString(mu.Map.Type(), func(*types.Package) string { return "" }), guarded, mu.Pos()})
		})
		switch {
		case len(cs) < 2:
			r.Unk("C17.N8", "ttlv.RegisterEnum/per-tag-maps", re.Pos(), "creation of the two per-tag maps not recognised (%d found)", len(cs))
		default:
			same := true
			for _, c := range cs[1:] {
				if c.guarded != cs[0].guarded {
					same = false
				}
			}
			if same && !cs[0].guarded {
				r.Bad("C17.N8", "ttlv.RegisterEnum/per-tag-maps", cs[0].pos, "RegisterEnum replaces the per-tag maps on every registration instead of creating them only when absent: a second registration for the same tag (a vendor extension value) wipes the pinned names, so the writers fall back to hexadecimal and the readers reject the standard names")
			} else if same {
				r.OK("C17.N8", "ttlv.RegisterEnum/per-tag-maps", re.Pos(), "%d per-tag maps, all created under the same condition (only when absent: %v)", len(cs), cs[0].guarded)
			} else {
				r.Bad("C17.N8", "ttlv.RegisterEnum/per-tag-maps", cs[0].pos, "RegisterEnum keeps one of its per-tag maps across registrations and recreates the other: after a second registration for the same tag (a vendor extension value) the value->name map still holds the standard names while the name->value map has lost them, so names the writers emit can no longer be read")
			}
		}
	} else {
		r.Unk("C17.N8", "ttlv.RegisterEnum/per-tag-maps", token.NoPos, "anchor missing")
	}

	// thorough: cross-check the reference against the OASIS vectors (data only)
	if r.Tier == "thorough" {
		c17CrossCheckVectors(r, reg)
	}
}

// c20RegisterOnlyInInit is shared by C17.N6 and C20.E2.
func c20RegisterOnlyInInit(r *Run, reg *Registry, rule string) {
	perCallee := map[string]int{}
	for _, rc := range reg.RegCalls {
		perCallee[rc.Callee+"@"+rc.Pkg+"."+rc.InFunc]++
		key := fmt.Sprintf("%s.%s/%s#%d", strings.TrimPrefix(strings.TrimPrefix(rc.Pkg, modPath), "/"), rc.InFunc, rc.Callee, perCallee[rc.Callee+"@"+rc.Pkg+"."+rc.InFunc])
		if rc.InFunc == "init" {
			r.OK(rule, key, rc.Pos, "%s called from init", rc.Callee)
		} else {
			r.Bad(rule, key, rc.Pos, "%s is called from %s, not from an init function: the process-wide registry would change after start-up", rc.Callee, rc.InFunc)
		}
	}
}

func c17TextMarshalers(r *Run, named *types.Named, tag int64, pos token.Pos, marshalHelper, unmarshalHelper string, reg *Registry) {
	p := r.P
	tn := named.Obj().Name()
	pkgPath := named.Obj().Pkg().Path()
	rel := strings.TrimPrefix(strings.TrimPrefix(pkgPath, modPath), "/")
	um := p.FuncDecl(rel, tn, "UnmarshalText")
	ma := p.FuncDecl(rel, tn, "MarshalText")
	pk := p.ByPath[pkgPath]
	key := "text/" + tn
	if um == nil || ma == nil || pk == nil {
		r.Bad("C17.N4", key, pos, "type %s registered under %s has no MarshalText/UnmarshalText pair", tn, reg.TagName(tag))
		return
	}
	// UnmarshalText must have a pointer receiver and call the helper with the type's own tag.
	if _, isPtr := um.Recv.List[0].Type.(*ast.StarExpr); !isPtr {
		r.Bad("C17.N4", key, um.Pos(), "(%s).UnmarshalText has a value receiver: the parsed value is lost", tn)
		return
	}
	found := false
	var gotTag int64
	ast.Inspect(um.Body, func(n ast.Node) bool {
		call, ok := n.(*ast.CallExpr)
		if !ok {
			return true
		}
		f := calleeOf(pk.TypesInfo, call)
		if f == nil || f.Name() != unmarshalHelper || f.Pkg().Path() != pkgPath || len(call.Args) != 3 {
			return true
		}
		if v, ok := constInt(pk.TypesInfo, call.Args[1]); ok {
			// first argument must be the receiver
			if id, ok := call.Args[0].(*ast.Ident); ok && len(um.Recv.List[0].Names) == 1 && pk.TypesInfo.Uses[id] == pk.TypesInfo.Defs[um.Recv.List[0].Names[0]] {
				found, gotTag = true, v
			}
		}
		return true
	})
	if !found {
		r.Unk("C17.N4", key, um.Pos(), "(*%s).UnmarshalText does not call %s(receiver, <constant tag>, text): idiom not recognised", tn, unmarshalHelper)
		return
	}
	if gotTag != tag {
		r.Bad("C17.N4", key, um.Pos(), "(*%s).UnmarshalText resolves names under tag %s but the type is registered under %s", tn, reg.TagName(gotTag), reg.TagName(tag))
		return
	}
	// MarshalText: calls marshalText(receiver) (enums) or ttlv.BitmaskStr(receiver, sep) (masks)
	okM := false
	ast.Inspect(ma.Body, func(n ast.Node) bool {
		call, ok := n.(*ast.CallExpr)
		if !ok {
			return true
		}
		f := calleeOf(pk.TypesInfo, call)
		if f == nil || len(call.Args) < 1 {
			return true
		}
		id, isId := call.Args[0].(*ast.Ident)
		if !isId || len(ma.Recv.List[0].Names) != 1 || pk.TypesInfo.Uses[id] != pk.TypesInfo.Defs[ma.Recv.List[0].Names[0]] {
			return true
		}
		if marshalHelper != "" && f.Name() == marshalHelper && f.Pkg().Path() == pkgPath {
			okM = true
		}
		if marshalHelper == "" && isFunc(f, modPath+"/ttlv", "BitmaskStr") {
			okM = true
		}
		return true
	})
	if !okM {
		r.Unk("C17.N4", key, ma.Pos(), "(%s).MarshalText does not format its receiver through the registry helper: idiom not recognised", tn)
		return
	}
	r.OK("C17.N4", key, um.Pos(), "%s: MarshalText via registry, UnmarshalText under its own tag %s", tn, reg.TagName(tag))
}

// marshalText must fall back to hex exactly when the registry has no name.
func c17MarshalTextFallback(r *Run) {
	p := r.P
	fd := p.FuncDecl("", "", "marshalText")
	pk := p.Pkg("")
	if fd == nil || pk == nil {
		r.Unk("C17.N4", "marshalText", token.NoPos, "anchor missing: kmip.marshalText")
		return
	}
	var callsEnumStr, hexUnderEmpty bool
	ast.Inspect(fd.Body, func(n ast.Node) bool {
		switch x := n.(type) {
		case *ast.CallExpr:
			if isFunc(calleeOf(pk.TypesInfo, x), modPath+"/ttlv", "EnumStr") {
				callsEnumStr = true
			}
		case *ast.IfStmt:
			be, ok := x.Cond.(*ast.BinaryExpr)
			if !ok || be.Op != token.EQL {
				return true
			}
			if s, ok := constStr(pk.TypesInfo, be.Y); !ok || s != "" {
				return true
			}
			ast.Inspect(x.Body, func(m ast.Node) bool {
				if c, ok := m.(*ast.CallExpr); ok {
					for _, a := range c.Args {
						if s, ok := constStr(pk.TypesInfo, a); ok && strings.Contains(s, "0x%08X") {
							hexUnderEmpty = true
						}
					}
				}
				return true
			})
		}
		return true
	})
	if callsEnumStr && hexUnderEmpty {
		r.OK("C17.N4", "marshalText", fd.Pos(), "marshalText writes the registry name and falls back to 0x%%08X exactly when the name is empty")
	} else {
		r.Unk("C17.N4", "marshalText", fd.Pos(), "marshalText: name-or-hex fallback idiom not recognised (EnumStr=%v hexUnderEmpty=%v)", callsEnumStr, hexUnderEmpty)
	}
}

// c17CrossCheckVectors parses the OASIS XML vectors shipped with the repo *as
// data* and checks every element name, type attribute and enumeration / mask
// name resolves in the static registry (independent source for ref/registry.tsv).
func c17CrossCheckVectors(r *Run, reg *Registry) {
	p := r.P
	root := filepath.Join(p.Repo, "kmiptest", "testdata")
	typeNames := map[string]bool{"Structure": true, "Integer": true, "LongInteger": true, "BigInteger": true, "Enumeration": true, "Boolean": true, "TextString": true, "ByteString": true, "DateTime": true, "Interval": true}
	allEnumNames := map[string]bool{}
	enumByTag := map[string]map[string]bool{}
	for _, e := range reg.Enums {
		tn := reg.TagName(e.Tag)
		if enumByTag[tn] == nil {
			enumByTag[tn] = map[string]bool{}
		}
		for _, v := range e.Values {
			allEnumNames[v.Name] = true
			enumByTag[tn][v.Name] = true
		}
	}
	maskNames := map[string]bool{}
	for _, m := range reg.Masks {
		for _, n := range m.Names {
			maskNames[n] = true
		}
	}
	files, elems, enums, unresolved := 0, 0, 0, 0
	var unresolvedSamples []string
	_ = filepath.Walk(root, func(path string, info os.FileInfo, err error) error {
		if err != nil || info.IsDir() || !strings.HasSuffix(path, ".xml") {
			return nil
		}
		f, err := os.Open(path)
		if err != nil {
			return nil
		}
		defer f.Close()
		files++
		dec := xml.NewDecoder(f)
		for {
			tok, err := dec.Token()
			if err == io.EOF {
				break
			}
			if err != nil {
				r.Infof("C17.X: %s: xml: %v", r.P.pos(token.NoPos)+path, err)
				break
			}
			se, ok := tok.(xml.StartElement)
			if !ok || se.Name.Local == "KMIP" {
				continue
			}
			elems++
			name := se.Name.Local
			var ty, val string
			for _, a := range se.Attr {
				switch a.Name.Local {
				case "type":
					ty = a.Value
				case "value":
					val = a.Value
				}
			}
			miss := func(what string) {
				unresolved++
				if len(unresolvedSamples) < 10 {
					rel, _ := filepath.Rel(p.Repo, path)
					unresolvedSamples = append(unresolvedSamples, rel+": "+what)
				}
			}
			if name != "TTLV" {
				if _, ok := reg.TagByName[name]; !ok {
					miss("element " + name)
				}
			}
			if ty != "" && !typeNames[ty] {
				miss("type " + ty)
			}
			if ty == "Enumeration" && val != "" && !strings.HasPrefix(val, "0x") && !strings.HasPrefix(val, "$") {
				if _, err := strconv.ParseUint(val, 10, 32); err != nil {
					enums++
					if set, ok := enumByTag[name]; ok {
						if !set[val] {
							miss("enum value " + name + "=" + val)
						}
					} else if !allEnumNames[val] {
						miss("enum value " + name + "=" + val)
					}
				}
			}
			if ty == "Integer" && val != "" && !strings.HasPrefix(val, "$") {
				if _, err := strconv.ParseInt(val, 10, 64); err != nil && !strings.HasPrefix(val, "0x") {
					for _, part := range strings.Fields(val) {
						if !maskNames[part] && !strings.HasPrefix(part, "0x") {
							if _, err := strconv.ParseInt(part, 10, 64); err != nil {
								miss("mask flag " + name + "=" + part)
							}
						}
					}
				}
			}
		}
		return nil
	})
	r.Extra["oasis_vector_crosscheck"] = map[string]any{"files": files, "elements": elems, "named_enum_values": enums, "unresolved": unresolved, "unresolved_samples": unresolvedSamples}
	r.Infof("C17 cross-reference (data only): %d OASIS XML files, %d elements, %d named enumeration values, %d unresolved against the static registry", files, elems, enums, unresolved)
}

// c17N9: whatever is rendered in hexadecimal by the name/number renderers is an unsigned quantity. A signed operand
// prints a sign for the values with the top bit set ("0x-80000000"), a spelling no reader of the library accepts.
// Decided on the syntax tree with types: every fmt.Sprintf/Appendf/Fprintf of packages ttlv and kmip with a constant
// format; each %x/%X verb's operand must not have a signed integer type.
func c17N9(r *Run) {
	p := r.P
	r.Rule("C17.N9", "hexadecimal renderings take unsigned operands (no sign can appear in a 0x... spelling)", 5)
	for _, pkg := range p.RepoPkgs() {
		rel := relPkg(pkg.PkgPath)
		if rel != "ttlv" && rel != "" && rel != "." {
			continue
		}
		ord := map[string]int{}
		for _, f := range pkg.Syntax {
			fname := p.Fset.Position(f.Pos()).Filename
			if strings.HasSuffix(fname, "_test.go") {
				continue
			}
			var encl string
			ast.Inspect(f, func(n ast.Node) bool {
				if fd, ok := n.(*ast.FuncDecl); ok {
					encl = fd.Name.Name
				}
				ce, ok := n.(*ast.CallExpr)
				if !ok {
					return true
				}
				sel, ok := ce.Fun.(*ast.SelectorExpr)
				if !ok {
					return true
				}
				obj, ok := pkg.TypesInfo.Uses[sel.Sel].(*types.Func)
				if !ok || obj.Pkg() == nil || obj.Pkg().Path() != "fmt" {
					return true
				}
				fmtIdx := -1
				switch obj.Name() {
				case "Sprintf":
					fmtIdx = 0
				case "Appendf", "Fprintf":
					fmtIdx = 1
				}
				if fmtIdx < 0 || len(ce.Args) <= fmtIdx || ce.Ellipsis.IsValid() {
					return true
				}
				tv, ok := pkg.TypesInfo.Types[ce.Args[fmtIdx]]
				if !ok || tv.Value == nil || tv.Value.Kind() != constant.String {
					return true
				}
				format := constant.StringVal(tv.Value)
				// walk the verbs
				argi := fmtIdx + 1
				for i := 0; i < len(format); i++ {
					if format[i] != '%' {
						continue
					}
					i++
					for i < len(format) && strings.ContainsRune("+-# 0123456789.", rune(format[i])) {
						i++
					}
					if i >= len(format) {
						break
					}
					verb := format[i]
					if verb == '%' {
						continue
					}
					if format[i-1] == '*' || verb == '*' || verb == '[' {
						return true // width from arguments / explicit indexes: not used by the library
					}
					if (verb == 'x' || verb == 'X') && argi < len(ce.Args) {
						key := fmt.Sprintf("%s.%s/hex-operand", rel, encl)
						ord[key]++
						key = fmt.Sprintf("%s#%d", key, ord[key])
						t := pkg.TypesInfo.TypeOf(ce.Args[argi])
						if b, ok := t.Underlying().(*types.Basic); ok && b.Info()&types.IsInteger != 0 && b.Info()&types.IsUnsigned == 0 {
							r.Bad("C17.N9", key, ce.Args[argi].Pos(), "%s renders a signed value (%s) in hexadecimal: a value with its top bit set is written with a minus sign (0x-80000000), which none of the readers accepts, so what is written by number is not read back", encl, t.String())
						} else {
							r.OK("C17.N9", key, ce.Args[argi].Pos(), "operand type %s", t.String())
						}
					}
					argi++
				}
				return true
			})
		}
	}
}

// c17N11: an unregistered name denotes nothing. The by-name lookups (EnumByName, BitmaskByStr) return a nil error
// only with a value found in the registry: every return whose error is nil returns the first result of a comma-ok
// map lookup (or, after the r5codec-style rewrite `enumsByName[tag][name]`, of the two-level lookup) and is reached
// on the ok edge. A tolerance such as `if name == "" { return 0, nil }` makes the empty name denote 0 — Success in
// the Result Status scope.
func c17N11(r *Run) {
	p := r.P
	r.Rule("C17.N11", "by-name lookups return a nil error only with a value found in the registry", 2)
	for _, name := range []string{"EnumByName", "BitmaskByStr"} {
		fn := p.Func("ttlv", "", name)
		key := "ttlv." + name + "/found-only"
		if fn == nil {
			r.Unk("C17.N11", key, token.NoPos, "anchor missing")
			continue
		}
		bad, n := token.NoPos, 0
		for _, b := range fn.Blocks {
			ret, ok := b.Instrs[len(b.Instrs)-1].(*ssa.Return)
			if !ok || len(ret.Results) != 2 || !isNilConst(ret.Results[1]) {
				continue
			}
			n++
			found := false
			v := ret.Results[0]
			if cv, isCv := v.(*ssa.Convert); isCv {
				v = cv.X
			}
			if ex, isEx := v.(*ssa.Extract); isEx && ex.Index == 0 {
				if lk, isLk := ex.Tuple.(*ssa.Lookup); isLk && lk.CommaOk {
					for _, dc := range dominatingConds(b) {
						if e2, ok := dc.cond.(*ssa.Extract); ok && e2.Tuple == ssa.Value(lk) && e2.Index == 1 && dc.outcome {
							found = true
						}
					}
				}
			}
			if !found {
				bad = ret.Pos()
			}
		}
		switch {
		case bad.IsValid():
			r.Bad("C17.N11", key, bad, "%s can return a nil error with a value that was not found in the registry (a default for an empty or unknown name): the XML/JSON readers and UnmarshalText then accept an unregistered name as that number — the empty name as 0, which is Success in the Result Status scope", name)
		case n == 0:
			r.Unk("C17.N11", key, fn.Pos(), "no successful return found")
		default:
			r.OK("C17.N11", key, fn.Pos(), "%d successful return(s), each the value of a comma-ok registry lookup on its ok edge", n)
		}
	}
}

// errorsNotCarried: in package ttlv an error is looked at in the iteration that produced it. An error variable that
// lives across the iterations of a loop and is assigned from a call inside it is overwritten by the next iteration:
// only the last part's verdict survives, so "NoSuchFlag Sign" reads as Sign and an unregistered name denotes a number.
func errorsNotCarried(r *Run, rule string) {
	r.Rule(rule, "no error value is carried around a loop of package ttlv (each parse or lookup error is tested in the iteration that produced it)", 1)
	n, nLoops := 0, 0
	for _, fn := range pkgFuncs(r.P, "ttlv") {
		for _, hdr := range fn.Blocks {
			isHdr := false
			for _, pr := range hdr.Preds {
				if hdr.Dominates(pr) {
					isHdr = true
				}
			}
			if !isHdr {
				continue
			}
			nLoops++
			for _, in := range hdr.Instrs {
				ph, ok := in.(*ssa.Phi)
				if !ok {
					break
				}
				if !isErrorType(ph.Type()) {
					continue
				}
				// a back edge bringing a freshly produced error (not the phi itself, not nil)
				var produced func(v ssa.Value, d int) bool
				produced = func(v ssa.Value, d int) bool {
					if d > 4 || v == ssa.Value(ph) || isNilConst(v) {
						return false
					}
					if p2, ok := v.(*ssa.Phi); ok {
						for _, e := range p2.Edges {
							if produced(e, d+1) {
								return true
							}
						}
						return false
					}
					return true
				}
				for i, e := range ph.Edges {
					knownNil := false
					for _, dc := range dominatingConds(hdr.Preds[i]) {
						if bo, ok := dc.cond.(*ssa.BinOp); ok && bo.X == e && isNilConst(bo.Y) && ((bo.Op == token.NEQ && !dc.outcome) || (bo.Op == token.EQL && dc.outcome)) {
							knownNil = true // tested in this iteration: the value that goes round is nil
						}
					}
					if hdr.Dominates(hdr.Preds[i]) && !knownNil && produced(e, 0) {
						// harmless when the carried value is never read after the loop or in a later iteration
						if ph.Referrers() == nil || len(*ph.Referrers()) == 0 {
							continue
						}
						n++
						r.Bad(rule, fmt.Sprintf("%s/carried-error#%d", fnKey(fn), n), posOr(ph.Pos(), fn.Pos()), "%s keeps an error in a variable that lives across the iterations of a loop and assigns it inside the loop: the error of one part is overwritten by the next part's result before it is tested, so a rejected part (an unregistered name, a malformed number) is silently dropped unless it is the last one", fnKey(fn))
					}
				}
			}
		}
	}
	if n == 0 {
		r.OK(rule, "ttlv/carried-error", token.NoPos, "%d loop(s) of package ttlv, none carrying an error value from one iteration to the next", nLoops)
	}
}
