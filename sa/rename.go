package main

// Rename resolution.
//
// The rules name their anchors (functions, methods, unexported types) the way the reference tree
// does. A behaviour-preserving rename of an unexported helper must not turn into "anchor missing",
// so before any rule runs the current tree's inventory of functions and named types is compared with
// the inventory frozen in ref/functions.tsv: a reference entry that no longer exists is matched with
// a current entry that did not exist, when package, (canonical) receiver and (canonical) signature
// agree and the sets of callees are similar, and the match is unique. idOf/typeName then report the
// reference name for such an entity ("canonical name"), and Program.Func/FuncDecl translate a
// reference name into the current one. Every resolution is reported in the evidence.

import (
	"bufio"
	"fmt"
	"go/types"
	"os"
	"path/filepath"
	"regexp"
	"sort"
	"strings"

	"golang.org/x/tools/go/ssa"
)

type invEntry struct {
	kind    string // F or T
	pkg     string
	recv    string
	name    string
	sig     string // F: signature; T: underlying description
	callees []string
}

func (e invEntry) key() string { return e.kind + "\t" + e.pkg + "\t" + e.recv + "\t" + e.name }

var (
	renameFn      = map[funcID]funcID{}     // current -> reference
	renameFnInv   = map[funcID]funcID{}     // reference -> current
	renameType    = map[[2]string]string{}  // (pkg, current name) -> reference name
	renameTypeInv = map[[2]string]string{}  // (pkg, reference name) -> current name
	renameVar     = map[[2]string]string{}  // (pkg, current name) -> reference name
	renameVarInv  = map[[2]string]string{}  // (pkg, reference name) -> current name
	renameField   = map[*types.Var]string{} // current struct field -> reference name
	renameNotes   []string
)

func canonFuncID(id funcID) funcID {
	if len(renameType) > 0 && id.recv != "" {
		if r, ok := renameType[[2]string{id.pkg, id.recv}]; ok {
			id.recv = r
		}
	}
	if r, ok := renameFn[id]; ok {
		return r
	}
	return id
}

func canonTypeName(pkg, name string) string {
	if r, ok := renameType[[2]string{pkg, name}]; ok {
		return r
	}
	return name
}

// curTypeName: the current name of the type the reference tree calls refName.
func curTypeName(pkg, refName string) string {
	if c, ok := renameTypeInv[[2]string{pkg, refName}]; ok {
		return c
	}
	return refName
}

// fname: the (reference-tree) name of a struct field.
func fname(v *types.Var) string {
	if v == nil {
		return ""
	}
	if r, ok := renameField[v]; ok {
		return r
	}
	return v.Name()
}

// curVarName: the current name of the package-level variable the reference tree calls refName.
func curVarName(pkg, refName string) string {
	if c, ok := renameVarInv[[2]string{pkg, refName}]; ok {
		return c
	}
	return refName
}

func canonVarName(pkg, name string) string {
	if r, ok := renameVar[[2]string{pkg, name}]; ok {
		return r
	}
	return name
}

func rawIDOf(fn *ssa.Function) funcID {
	if fn == nil {
		return funcID{}
	}
	o := fn
	if fn.Origin() != nil {
		o = fn.Origin()
	}
	id := funcID{name: o.Name()}
	if o.Pkg != nil {
		id.pkg = o.Pkg.Pkg.Path()
	} else if o.Object() != nil && o.Object().Pkg() != nil {
		id.pkg = o.Object().Pkg().Path()
	}
	if sig := o.Signature; sig != nil && sig.Recv() != nil {
		id.recv = rawTypeName(sig.Recv().Type())
	}
	return id
}

func rawTypeName(t types.Type) string {
	t = types.Unalias(t)
	if p, ok := t.(*types.Pointer); ok {
		t = types.Unalias(p.Elem())
	}
	if n, ok := t.(*types.Named); ok {
		return n.Obj().Name()
	}
	return t.String()
}

func rawCallID(c *ssa.CallCommon) funcID {
	if c.IsInvoke() {
		return funcID{pkg: typePkgPath(c.Value.Type()), recv: rawTypeName(c.Value.Type()), name: c.Method.Name()}
	}
	if fn := c.StaticCallee(); fn != nil {
		return rawIDOf(fn)
	}
	return funcID{}
}

// inventory lists the package-level functions, methods and named types of the module's packages.
func inventory(p *Program) []invEntry {
	var out []invEntry
	seen := map[*ssa.Function]bool{}
	qual := func(pk *types.Package) string { return pk.Name() }
	addFn := func(fn *ssa.Function) {
		if fn == nil || seen[fn] || fn.Synthetic != "" || fn.Blocks == nil || fn.Name() == "init" || strings.HasPrefix(fn.Name(), "init#") {
			return
		}
		seen[fn] = true
		id := rawIDOf(fn)
		sig := fn.Signature
		e := invEntry{kind: "F", pkg: id.pkg, recv: id.recv, name: id.name}
		anon := func(t *types.Tuple) *types.Tuple {
			var vs []*types.Var
			for i := 0; i < t.Len(); i++ {
				vs = append(vs, types.NewVar(0, nil, "", t.At(i).Type()))
			}
			return types.NewTuple(vs...)
		}
		e.sig = types.TypeString(types.NewSignatureType(nil, nil, nil, anon(sig.Params()), anon(sig.Results()), sig.Variadic()), qual)
		cs := map[string]bool{}
		withClosures(fn, func(f *ssa.Function) {
			allInstrs(f, func(in ssa.Instruction) {
				c := callOf(in)
				if c == nil || isBuiltinCall(c) {
					return
				}
				cid := rawCallID(c)
				if cid.name == "" || strings.Contains(cid.name, "$") {
					return
				}
				cs[cid.pkg+"."+cid.recv+"."+cid.name] = true
			})
		})
		for c := range cs {
			e.callees = append(e.callees, c)
		}
		sort.Strings(e.callees)
		out = append(out, e)
	}
	for _, pk := range p.RepoPkgs() {
		sp := p.ssaPkg[pk.PkgPath]
		if sp == nil {
			continue
		}
		var names []string
		for n := range sp.Members {
			names = append(names, n)
		}
		sort.Strings(names)
		for _, n := range names {
			switch m := sp.Members[n].(type) {
			case *ssa.Function:
				addFn(m)
			case *ssa.Global:
				if strings.HasPrefix(n, "init$") {
					continue
				}
				out = append(out, invEntry{kind: "V", pkg: pk.PkgPath, name: n, sig: strings.ReplaceAll(types.TypeString(m.Type().(*types.Pointer).Elem(), qual), "\t", " ")})
			case *ssa.Type:
				nt, ok := m.Type().(*types.Named)
				if !ok {
					continue
				}
				e := invEntry{kind: "T", pkg: pk.PkgPath, name: n}
				under := types.TypeString(nt.Underlying(), qual)
				e.sig = strings.ReplaceAll(under, "\t", " ")
				for _, ty := range []types.Type{nt, types.NewPointer(nt)} {
					ms := p.SSA.MethodSets.MethodSet(ty)
					for i := 0; i < ms.Len(); i++ {
						fn := p.SSA.MethodValue(ms.At(i))
						if fn != nil && fn.Synthetic == "" {
							addFn(fn)
						}
					}
				}
				for i := 0; i < nt.NumMethods(); i++ {
					e.callees = append(e.callees, nt.Method(i).Name())
				}
				sort.Strings(e.callees)
				out = append(out, e)
				if st, ok := nt.Underlying().(*types.Struct); ok && st.NumFields() > 0 {
					se := invEntry{kind: "S", pkg: pk.PkgPath, name: n}
					for i := 0; i < st.NumFields(); i++ {
						ft := strings.NewReplacer("\t", " ", ",", ";").Replace(types.TypeString(st.Field(i).Type(), qual))
						se.callees = append(se.callees, st.Field(i).Name()+":"+ft)
					}
					out = append(out, se)
				}
			}
		}
	}
	sort.Slice(out, func(i, j int) bool { return out[i].key() < out[j].key() })
	return out
}

func writeInventory(p *Program, path string) error {
	var b strings.Builder
	b.WriteString("# kind\tpkg\trecv\tname\tsignature-or-underlying\tcallees-or-methods (reference inventory for rename resolution; regenerate with kmipsa -gen functions)\n")
	for _, e := range inventory(p) {
		fmt.Fprintf(&b, "%s\t%s\t%s\t%s\t%s\t%s\n", e.kind, e.pkg, e.recv, e.name, e.sig, strings.Join(e.callees, ","))
	}
	return os.WriteFile(path, []byte(b.String()), 0o644)
}

func readInventory(path string) ([]invEntry, error) {
	f, err := os.Open(path)
	if err != nil {
		return nil, err
	}
	defer f.Close()
	var out []invEntry
	sc := bufio.NewScanner(f)
	sc.Buffer(make([]byte, 1<<20), 1<<24)
	for sc.Scan() {
		l := sc.Text()
		if l == "" || strings.HasPrefix(l, "#") {
			continue
		}
		f := strings.Split(l, "\t")
		if len(f) < 6 {
			return nil, fmt.Errorf("%s: malformed line %q", path, l)
		}
		e := invEntry{kind: f[0], pkg: f[1], recv: f[2], name: f[3], sig: f[4]}
		if f[5] != "" {
			e.callees = strings.Split(f[5], ",")
		}
		out = append(out, e)
	}
	return out, sc.Err()
}

func jaccard(a, b []string) float64 {
	if len(a) == 0 && len(b) == 0 {
		return 1
	}
	m := map[string]bool{}
	for _, x := range a {
		m[x] = true
	}
	inter := 0
	for _, x := range b {
		if m[x] {
			inter++
		}
	}
	return float64(inter) / float64(len(a)+len(b)-inter)
}

var identRe = regexp.MustCompile(`[A-Za-z_][A-Za-z_0-9]*`)

// resolveRenames fills the rename maps from the reference inventory.
func resolveRenames(p *Program, verifDir string) error {
	ref, err := readInventory(filepath.Join(verifDir, "ref", "functions.tsv"))
	if err != nil {
		return err
	}
	cur := inventory(p)
	refBy, curBy := map[string]invEntry{}, map[string]invEntry{}
	for _, e := range ref {
		refBy[e.key()] = e
	}
	for _, e := range cur {
		curBy[e.key()] = e
	}
	// ---- types
	var missT, newT []invEntry
	for _, e := range ref {
		if _, ok := curBy[e.key()]; !ok && e.kind == "T" {
			missT = append(missT, e)
		}
	}
	for _, e := range cur {
		if _, ok := refBy[e.key()]; !ok && e.kind == "T" {
			newT = append(newT, e)
		}
	}
	for _, r := range missT {
		var cands []invEntry
		for _, c := range newT {
			if c.pkg != r.pkg {
				continue
			}
			sameUnder := c.sig == r.sig || strings.ReplaceAll(c.sig, c.name, r.name) == r.sig
			if (sameUnder && (len(r.callees) == 0 || jaccard(r.callees, c.callees) >= 0.5)) || (len(r.callees) >= 2 && jaccard(r.callees, c.callees) >= 0.8) {
				cands = append(cands, c)
			}
		}
		if len(cands) == 1 {
			c := cands[0]
			renameType[[2]string{c.pkg, c.name}] = r.name
			renameTypeInv[[2]string{r.pkg, r.name}] = c.name
			renameNotes = append(renameNotes, fmt.Sprintf("type %s.%s of the reference tree is now named %s (same package, same underlying type / method set)", relOrRoot(r.pkg), r.name, c.name))
		}
	}
	// ---- struct fields: a struct with the same number of fields, the same types position by position, whose names
	// differ in some positions, has had those fields renamed
	for _, r := range ref {
		if r.kind != "S" {
			continue
		}
		curName := curTypeName(r.pkg, r.name)
		pk := p.ByPath[r.pkg]
		if pk == nil {
			continue
		}
		obj := pk.Types.Scope().Lookup(curName)
		if obj == nil {
			continue
		}
		st, ok := obj.Type().Underlying().(*types.Struct)
		if !ok {
			continue
		}
		qual := func(pk *types.Package) string { return pk.Name() }
		var curF []string
		for i := 0; i < st.NumFields(); i++ {
			curF = append(curF, strings.NewReplacer("\t", " ", ",", ";").Replace(types.TypeString(st.Field(i).Type(), qual)))
		}
		refNames := map[string]bool{}
		var refT []string
		var refN []string
		for _, f := range r.callees {
			i := strings.Index(f, ":")
			refN = append(refN, f[:i])
			refT = append(refT, f[i+1:])
			refNames[f[:i]] = true
		}
		curNames := map[string]bool{}
		for i := 0; i < st.NumFields(); i++ {
			curNames[st.Field(i).Name()] = true
		}
		if len(refN) == st.NumFields() {
			same := true
			for i := range refT {
				if canonSigTypes(refT[i]) != canonSigTypes(curF[i]) {
					same = false
				}
			}
			if same {
				for i := range refN {
					if refN[i] != st.Field(i).Name() && !curNames[refN[i]] && !refNames[st.Field(i).Name()] {
						renameField[st.Field(i)] = refN[i]
						renameNotes = append(renameNotes, fmt.Sprintf("field %s.%s.%s of the reference tree is now named %s (same position and type)", relOrRoot(r.pkg), r.name, refN[i], st.Field(i).Name()))
					}
				}
				continue
			}
		}
		// fields added, removed or reordered: a reference field that disappeared and a new field of the same type, both unique
		for i, rn := range refN {
			if curNames[rn] {
				continue
			}
			var cand *types.Var
			n := 0
			for j := 0; j < st.NumFields(); j++ {
				if !refNames[st.Field(j).Name()] && canonSigTypes(curF[j]) == canonSigTypes(refT[i]) {
					cand = st.Field(j)
					n++
				}
			}
			nRef := 0
			for k, rn2 := range refN {
				if !curNames[rn2] && canonSigTypes(refT[k]) == canonSigTypes(refT[i]) {
					nRef++
				}
			}
			if n == 1 && nRef == 1 {
				renameField[cand] = rn
				renameNotes = append(renameNotes, fmt.Sprintf("field %s.%s.%s of the reference tree is now named %s (same type, unique)", relOrRoot(r.pkg), r.name, rn, cand.Name()))
			}
		}
	}
	// ---- package-level variables: same package, same type, unique
	var missV, newV []invEntry
	for _, e := range ref {
		if _, ok := curBy[e.key()]; !ok && e.kind == "V" {
			missV = append(missV, e)
		}
	}
	for _, e := range cur {
		if _, ok := refBy[e.key()]; !ok && e.kind == "V" {
			newV = append(newV, e)
		}
	}
	for _, r := range missV {
		var cands []invEntry
		for _, c := range newV {
			if c.pkg == r.pkg && c.sig == r.sig {
				cands = append(cands, c)
			}
		}
		nSame := 0
		for _, r2 := range missV {
			if r2.pkg == r.pkg && r2.sig == r.sig {
				nSame++
			}
		}
		if len(cands) == 1 && nSame == 1 {
			c := cands[0]
			renameVar[[2]string{c.pkg, c.name}] = r.name
			renameVarInv[[2]string{r.pkg, r.name}] = c.name
			renameNotes = append(renameNotes, fmt.Sprintf("package-level variable %s.%s of the reference tree is now named %s (same package and type)", relOrRoot(r.pkg), r.name, c.name))
		}
	}
	canonSig := func(pkg, sig string) string {
		if len(renameType) == 0 {
			return sig
		}
		return identRe.ReplaceAllStringFunc(sig, func(w string) string {
			for k, v := range renameType {
				if k[1] == w {
					return v
				}
			}
			return w
		})
	}
	canonCallee := func(s string) string {
		// pkg.recv.name with pkg containing dots and slashes: split from the right
		i := strings.LastIndex(s, ".")
		if i < 0 {
			return s
		}
		name := s[i+1:]
		rest := s[:i]
		j := strings.LastIndex(rest, ".")
		if j < 0 {
			return s
		}
		id := canonFuncID(funcID{pkg: rest[:j], recv: rest[j+1:], name: name})
		return id.pkg + "." + id.recv + "." + id.name
	}
	// ---- functions (two rounds so that renamed callees are seen under their reference names)
	for round := 0; round < 2; round++ {
		var missF, newF []invEntry
		curCanon := map[string]bool{}
		for _, e := range cur {
			if e.kind != "F" {
				continue
			}
			id := canonFuncID(funcID{e.pkg, e.recv, e.name})
			curCanon["F\t"+id.pkg+"\t"+id.recv+"\t"+id.name] = true
		}
		for _, e := range ref {
			if e.kind == "F" && !curCanon[e.key()] {
				missF = append(missF, e)
			}
		}
		for _, e := range cur {
			if e.kind != "F" {
				continue
			}
			if _, done := renameFn[funcID{e.pkg, canonTypeName(e.pkg, e.recv), e.name}]; done {
				continue
			}
			k := "F\t" + e.pkg + "\t" + canonTypeName(e.pkg, e.recv) + "\t" + e.name
			if _, ok := refBy[k]; !ok {
				newF = append(newF, e)
			}
		}
		for _, r := range missF {
			type sc struct {
				e invEntry
				s float64
			}
			var cands []sc
			for _, c := range newF {
				if c.pkg != r.pkg || canonTypeName(c.pkg, c.recv) != r.recv || canonSig(c.pkg, c.sig) != r.sig {
					continue
				}
				cc := make([]string, len(c.callees))
				for i, x := range c.callees {
					cc[i] = canonCallee(x)
				}
				// a recursive function calls itself under its new name
				self := r.pkg + "." + r.recv + "." + r.name
				for i, x := range cc {
					if x == c.pkg+"."+canonTypeName(c.pkg, c.recv)+"."+c.name {
						cc[i] = self
					}
				}
				cands = append(cands, sc{c, jaccard(r.callees, cc)})
			}
			sort.Slice(cands, func(i, j int) bool { return cands[i].s > cands[j].s })
			ok := false
			switch {
			case len(cands) == 1:
				ok = cands[0].s >= 0.3
			case len(cands) > 1:
				ok = cands[0].s >= 0.5 && cands[0].s > cands[1].s
			}
			if ok {
				c := cands[0].e
				from := funcID{c.pkg, canonTypeName(c.pkg, c.recv), c.name}
				to := funcID{r.pkg, r.recv, r.name}
				if _, dup := renameFn[from]; dup {
					continue
				}
				renameFn[from] = to
				renameFnInv[to] = funcID{c.pkg, c.recv, c.name}
				renameNotes = append(renameNotes, fmt.Sprintf("function %s of the reference tree is now named %s (same package, receiver and signature; callee similarity %.2f)", to.String(), c.name, cands[0].s))
			}
		}
	}
	sort.Strings(renameNotes)
	return nil
}

// canonSigTypes rewrites the names of renamed types inside a type string to their reference names.
func canonSigTypes(sig string) string {
	if len(renameType) == 0 {
		return sig
	}
	return identRe.ReplaceAllStringFunc(sig, func(w string) string {
		for k, v := range renameType {
			if k[1] == w {
				return v
			}
		}
		return w
	})
}

func relOrRoot(pkg string) string {
	r := relPkg(pkg)
	if r == "" {
		return "kmip"
	}
	return r
}
