package main

import (
	"fmt"
	"go/constant"
	"go/token"
	"go/types"
	"strings"

	"golang.org/x/tools/go/ssa"
)

// ---- callee identification (always through resolved objects, never by text)

// staticCallee returns the statically known callee of a call instruction
// (function, method with static receiver, or closure), or nil for dynamic calls.
func staticCallee(c *ssa.CallCommon) *ssa.Function {
	return c.StaticCallee()
}

// funcID describes a function for matching: package path, receiver type name
// ("" for plain functions), name.
type funcID struct{ pkg, recv, name string }

func idOf(fn *ssa.Function) funcID {
	if fn == nil {
		return funcID{}
	}
	return canonFuncID(rawIDOf(fn))
}

// typeName: the (reference-tree) name of a named type, looking through one pointer.
func typeName(t types.Type) string {
	t = types.Unalias(t)
	if p, ok := t.(*types.Pointer); ok {
		t = types.Unalias(p.Elem())
	}
	if n, ok := t.(*types.Named); ok {
		if len(renameType) > 0 && n.Obj().Pkg() != nil {
			return canonTypeName(n.Obj().Pkg().Path(), n.Obj().Name())
		}
		return n.Obj().Name()
	}
	return t.String()
}

func typePkgPath(t types.Type) string {
	t = types.Unalias(t)
	if p, ok := t.(*types.Pointer); ok {
		t = types.Unalias(p.Elem())
	}
	if n, ok := t.(*types.Named); ok && n.Obj().Pkg() != nil {
		return n.Obj().Pkg().Path()
	}
	return ""
}

// callID identifies the target of a call: static callee, or interface method
// (pkg/recv of the interface type, method name).
func callID(c *ssa.CallCommon) funcID {
	if c.IsInvoke() {
		return funcID{pkg: typePkgPath(c.Value.Type()), recv: typeName(c.Value.Type()), name: c.Method.Name()}
	}
	if fn := c.StaticCallee(); fn != nil {
		return idOf(fn)
	}
	return funcID{}
}

func (id funcID) is(pkg, recv, name string) bool {
	return id.pkg == pkg && id.recv == recv && id.name == name
}

func (id funcID) String() string {
	s := id.pkg
	if i := strings.LastIndex(s, "/"); i >= 0 {
		s = s[i+1:]
	}
	if id.recv != "" {
		return fmt.Sprintf("%s.(%s).%s", s, id.recv, id.name)
	}
	return s + "." + id.name
}

func relPkg(path string) string {
	return strings.TrimPrefix(strings.TrimPrefix(path, modPath), "/")
}

// fnKey is a stable construct key for a function: pkg.Recv.Name or pkg.Name$1.
func fnKey(fn *ssa.Function) string {
	if fn == nil {
		return "?"
	}
	name := fn.Name()
	if fn.Parent() != nil {
		return fnKey(fn.Parent()) + "$" + strings.TrimPrefix(name, fn.Parent().Name()+"$")
	}
	id := idOf(fn)
	p := relPkg(id.pkg)
	if p == "" {
		p = "kmip"
	}
	if id.recv != "" {
		return p + "." + id.recv + "." + id.name
	}
	return p + "." + id.name
}

// ---- values

func constIntVal(v ssa.Value) (int64, bool) {
	c, ok := v.(*ssa.Const)
	if !ok || c.Value == nil {
		return 0, false
	}
	x := constant.ToInt(c.Value)
	if x.Kind() != constant.Int {
		return 0, false
	}
	if i, ok := constant.Int64Val(x); ok {
		return i, true
	}
	if u, ok := constant.Uint64Val(x); ok {
		return int64(u), true
	}
	return 0, false
}

func isNilConst(v ssa.Value) bool {
	c, ok := v.(*ssa.Const)
	return ok && c.Value == nil
}

// stripConv removes value-preserving wrappers.
func stripConv(v ssa.Value) ssa.Value {
	for {
		switch x := v.(type) {
		case *ssa.ChangeType:
			v = x.X
		case *ssa.Convert:
			v = x.X
		case *ssa.ChangeInterface:
			v = x.X
		case *ssa.MakeInterface:
			v = x.X
		default:
			return v
		}
	}
}

// fieldAddrOf: if v is &base.F returns base and the field.
func fieldAddrOf(v ssa.Value) (ssa.Value, *types.Var, bool) {
	fa, ok := v.(*ssa.FieldAddr)
	if !ok {
		return nil, nil, false
	}
	st := derefStruct(fa.X.Type())
	if st == nil {
		return nil, nil, false
	}
	return fa.X, st.Field(fa.Field), true
}

func derefStruct(t types.Type) *types.Struct {
	t = types.Unalias(t)
	if p, ok := t.Underlying().(*types.Pointer); ok {
		t = p.Elem()
	}
	st, _ := t.Underlying().(*types.Struct)
	return st
}

// accessPath renders a value as root.field.field when it is a chain of
// FieldAddr/Field/loads from a parameter, free variable or global; "" otherwise.
func accessPath(v ssa.Value) string {
	switch x := v.(type) {
	case *ssa.Parameter:
		return x.Name()
	case *ssa.FreeVar:
		return x.Name()
	case *ssa.Global:
		return x.Name()
	case *ssa.FieldAddr:
		b := accessPath(x.X)
		st := derefStruct(x.X.Type())
		if b == "" || st == nil {
			return ""
		}
		return b + "." + fname(st.Field(x.Field))
	case *ssa.Field:
		b := accessPath(x.X)
		st, _ := x.X.Type().Underlying().(*types.Struct)
		if b == "" || st == nil {
			return ""
		}
		return b + "." + fname(st.Field(x.Field))
	case *ssa.UnOp:
		if x.Op == token.MUL {
			return accessPath(x.X)
		}
	case *ssa.Alloc:
		// a local variable: name from its comment when it is a named local
		if x.Comment != "" && !strings.Contains(x.Comment, " ") {
			return "%" + x.Comment
		}
	case *ssa.Extract, *ssa.Call:
		// an SSA temporary is immutable: its register name identifies it within the function
		return "%" + v.Name()
	}
	return ""
}

// ---- CFG

// reachableFrom returns the set of blocks reachable from b (inclusive).
func reachableFrom(b *ssa.BasicBlock) map[*ssa.BasicBlock]bool {
	seen := map[*ssa.BasicBlock]bool{}
	var walk func(*ssa.BasicBlock)
	walk = func(x *ssa.BasicBlock) {
		if seen[x] {
			return
		}
		seen[x] = true
		for _, s := range x.Succs {
			walk(s)
		}
	}
	walk(b)
	return seen
}

// instrIndex returns the index of instr in its block.
func instrIndex(in ssa.Instruction) int {
	for i, x := range in.Block().Instrs {
		if x == in {
			return i
		}
	}
	return -1
}

// dominatesInstr: a executes before b on every path from entry to b.
func dominatesInstr(a, b ssa.Instruction) bool {
	if a.Block() == b.Block() {
		return instrIndex(a) < instrIndex(b)
	}
	return a.Block().Dominates(b.Block())
}

// allInstrs calls f for every instruction of fn (not of nested closures).
func allInstrs(fn *ssa.Function, f func(ssa.Instruction)) {
	for _, b := range fn.Blocks {
		for _, in := range b.Instrs {
			f(in)
		}
	}
}

// withClosures calls f for fn and, recursively, every anonymous function in it.
func withClosures(fn *ssa.Function, f func(*ssa.Function)) {
	f(fn)
	for _, a := range fn.AnonFuncs {
		withClosures(a, f)
	}
}

func callOf(in ssa.Instruction) *ssa.CallCommon {
	switch c := in.(type) {
	case *ssa.Call:
		return &c.Call
	case *ssa.Defer:
		return &c.Call
	case *ssa.Go:
		return &c.Call
	}
	return nil
}

// ---- simple paths

type cfgPath []*ssa.BasicBlock

// enumeratePaths lists simple paths (each block at most once) from the entry
// block to every block ending in Return. ok=false if more than limit.
func enumeratePaths(fn *ssa.Function, limit int) (paths []cfgPath, ok bool) {
	if len(fn.Blocks) == 0 {
		return nil, true
	}
	ok = true
	on := map[*ssa.BasicBlock]bool{}
	var cur cfgPath
	var walk func(b *ssa.BasicBlock)
	walk = func(b *ssa.BasicBlock) {
		if !ok || on[b] {
			return
		}
		on[b] = true
		cur = append(cur, b)
		if len(b.Instrs) > 0 {
			if _, isRet := b.Instrs[len(b.Instrs)-1].(*ssa.Return); isRet {
				if len(paths) >= limit {
					ok = false
				} else {
					paths = append(paths, append(cfgPath(nil), cur...))
				}
			}
		}
		for _, s := range b.Succs {
			walk(s)
		}
		cur = cur[:len(cur)-1]
		on[b] = false
	}
	walk(fn.Blocks[0])
	return paths, ok
}

// edgeTaken reports, for an If-terminated block b followed by next on a path,
// whether the true edge was taken.
func edgeTaken(b, next *ssa.BasicBlock) (cond ssa.Value, isTrue bool, ok bool) {
	if len(b.Instrs) == 0 {
		return nil, false, false
	}
	iff, isIf := b.Instrs[len(b.Instrs)-1].(*ssa.If)
	if !isIf || len(b.Succs) != 2 {
		return nil, false, false
	}
	if b.Succs[0] == next && b.Succs[1] != next {
		return iff.Cond, true, true
	}
	if b.Succs[1] == next && b.Succs[0] != next {
		return iff.Cond, false, true
	}
	return nil, false, false
}

// predIndex returns the index of pred among b.Preds.
func predIndex(b, pred *ssa.BasicBlock) int {
	for i, p := range b.Preds {
		if p == pred {
			return i
		}
	}
	return -1
}

// unspill looks through the heap cell go/ssa creates for a variable captured by a
// closure: a load of an Alloc that is stored exactly once yields the stored value.
func unspill(v ssa.Value) ssa.Value {
	for i := 0; i < 4; i++ {
		u, ok := v.(*ssa.UnOp)
		if !ok || u.Op != token.MUL {
			return v
		}
		al, ok := u.X.(*ssa.Alloc)
		if !ok {
			return v
		}
		var stored ssa.Value
		n := 0
		for _, ref := range *al.Referrers() {
			if st, ok := ref.(*ssa.Store); ok && st.Addr == ssa.Value(al) {
				stored = st.Val
				n++
			}
		}
		if n != 1 {
			return v
		}
		v = stored
	}
	return v
}

func isBuiltinCall(c *ssa.CallCommon) bool {
	_, ok := c.Value.(*ssa.Builtin)
	return ok
}

// resolvedCallID looks through thin forwarding functions of the module: when the static callee's whole body is one
// call whose result it returns (a method that only forwards to another function or to an interface method), the
// identity of that inner call is returned instead. A refactor that inlines or introduces such a forwarder does not
// change what is called.
func resolvedCallID(c *ssa.CallCommon, depth int) funcID {
	id := callID(c)
	sc := c.StaticCallee()
	if sc == nil || depth > 2 || sc.Blocks == nil || !strings.HasPrefix(id.pkg, modPath) {
		return id
	}
	// straight-line body ending in `return K(...)` (or a lone call statement for functions without result); other
	// calls may only build K's arguments
	if len(sc.Blocks) > 2 { // entry (+ optional recover block)
		return id
	}
	var inner *ssa.CallCommon
	other := false
	var calls []*ssa.Call
	for _, in := range sc.Blocks[0].Instrs {
		switch x := in.(type) {
		case *ssa.Call:
			calls = append(calls, x)
		case *ssa.Go, *ssa.Defer, *ssa.Send, *ssa.Select, *ssa.MapUpdate, *ssa.If:
			other = true
		case *ssa.Return:
			if len(x.Results) >= 1 {
				if k, ok := x.Results[0].(*ssa.Call); ok {
					inner = &k.Call
				} else if ex, ok := x.Results[0].(*ssa.Extract); ok {
					if k, ok := ex.Tuple.(*ssa.Call); ok {
						inner = &k.Call
					}
				}
			} else if len(calls) == 1 {
				inner = &calls[0].Call
			}
		}
	}
	if other || inner == nil {
		return id
	}
	return resolvedCallID(inner, depth+1)
}

// edgeOnPath is edgeTaken for the step path[i] -> path[i+1], looking through a condition that is a phi of a
// short-circuit expression kept in a variable: the phi is replaced by the operand of the edge the path came through.
// infeasible reports that the operand is a boolean constant contradicting the edge taken.
func edgeOnPath(path cfgPath, i int) (cond ssa.Value, isTrue bool, ok bool, infeasible bool) {
	if i+1 >= len(path) {
		return nil, false, false, false
	}
	cond, isTrue, ok = edgeTaken(path[i], path[i+1])
	if !ok {
		return
	}
	if ph, isPhi := cond.(*ssa.Phi); isPhi && ph.Block() == path[i] && i > 0 {
		if pi := predIndex(path[i], path[i-1]); pi >= 0 {
			cond = ph.Edges[pi]
		}
	}
	if k, isConst := cond.(*ssa.Const); isConst && k.Value != nil && k.Value.Kind() == constant.Bool {
		return cond, isTrue, false, constant.BoolVal(k.Value) != isTrue
	}
	return cond, isTrue, true, false
}

// paramSources: when v is a parameter of an unexported function, the values passed for it at every static call site
// in the module (one level, then recursively up to depth 3); otherwise v itself. Lets a rule about "what is stored into
// field F" look through a constructor helper.
func paramSources(p *Program, v ssa.Value, depth int) []ssa.Value {
	prm, ok := v.(*ssa.Parameter)
	if !ok || depth > 3 {
		return []ssa.Value{v}
	}
	fn := prm.Parent()
	if fn == nil || fn.Object() == nil || fn.Object().Exported() {
		return []ssa.Value{v}
	}
	pi := -1
	for i, q := range fn.Params {
		if q == prm {
			pi = i
		}
	}
	var out []ssa.Value
	for _, f := range p.OwnFuncs() {
		allInstrs(f, func(in ssa.Instruction) {
			if c := callOf(in); c != nil && c.StaticCallee() == fn && pi >= 0 && pi < len(c.Args) {
				out = append(out, paramSources(p, c.Args[pi], depth+1)...)
			}
		})
	}
	if len(out) == 0 {
		return []ssa.Value{v}
	}
	return out
}
