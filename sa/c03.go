package main

// C03 — binary encoder output conforms to the KMIP TTLV wire format
// (structural clauses: header layout, type codes, fixed lengths and padding).

import (
	"bufio"
	"fmt"
	"go/ast"
	"go/token"
	"go/types"
	"os"
	"path/filepath"
	"strconv"
	"strings"

	"golang.org/x/tools/go/ssa"
)

type ttlvTypeRow struct {
	name string
	code int64
	flen int64 // -1 variable
	pad  string
}

func readTypeRef(path string) ([]ttlvTypeRow, error) {
	f, err := os.Open(path)
	if err != nil {
		return nil, err
	}
	defer f.Close()
	var out []ttlvTypeRow
	sc := bufio.NewScanner(f)
	for sc.Scan() {
		ln := sc.Text()
		if strings.TrimSpace(ln) == "" || strings.HasPrefix(ln, "#") {
			continue
		}
		p := strings.Split(ln, "\t")
		if len(p) != 4 {
			return nil, fmt.Errorf("%s: bad row %q", path, ln)
		}
		code, err := strconv.ParseInt(p[1], 0, 64)
		if err != nil {
			return nil, err
		}
		fl := int64(-1)
		if p[2] != "variable" {
			if fl, err = strconv.ParseInt(p[2], 10, 64); err != nil {
				return nil, err
			}
		}
		out = append(out, ttlvTypeRow{p[0], code, fl, p[3]})
	}
	return out, sc.Err()
}

// appendedBytes follows a []byte value back to base, summing the bytes appended
// by binary.BigEndian.AppendUintNN and append(b, <k constants>...). ok=false if
// the chain is not understood.
func appendedBytes(v, base ssa.Value) (int64, bool) {
	var total int64
	for depth := 0; depth < 16; depth++ {
		if v == base {
			return total, true
		}
		c, ok := v.(*ssa.Call)
		if !ok {
			return 0, false
		}
		id := callID(&c.Call)
		if id.pkg == "encoding/binary" && strings.HasPrefix(id.name, "AppendUint") && len(c.Call.Args) == 3 {
			n, err := strconv.Atoi(strings.TrimPrefix(id.name, "AppendUint"))
			if err != nil {
				return 0, false
			}
			total += int64(n / 8)
			v = c.Call.Args[1]
			continue
		}
		if b, ok := c.Call.Value.(*ssa.Builtin); ok && b.Name() == "append" && len(c.Call.Args) == 2 {
			sl, ok := c.Call.Args[1].(*ssa.Slice)
			if !ok || sl.Low != nil || sl.High != nil {
				return 0, false
			}
			pa, ok := sl.X.Type().Underlying().(*types.Pointer)
			if !ok {
				return 0, false
			}
			arr, ok := pa.Elem().Underlying().(*types.Array)
			if !ok {
				return 0, false
			}
			total += arr.Len()
			v = c.Call.Args[0]
			continue
		}
		return 0, false
	}
	return 0, false
}

func runC03(r *Run, verifDir string) {
	p := r.P
	r.Explain = append(r.Explain,
		"C03 is decided for its structural clauses only: T1 the ten type codes and names equal KMIP 1.4 §9.1.1 (ref/ttlv_types.tsv) and the reader accepts exactly 1..10; T2 each fixed-width writer passes the table's (type, length) and its closure appends exactly length+padding = 8 bytes (byte-count abstract domain over AppendUintNN / append of constants); T3 the variable-width writers pass as length the len of the very value they append and pad with padForLen(thatLen, 8) on the table's side; T4 header order tag(3 bytes from bits 16/8/0), type(1), length(4) before any value byte, and the structure length is back-patched at the placeholder with len(after)-offset-4; T5 the reader's per-type length table (recognised in validate(), C02) equals the writer's; T6 bigIntToBytes examines the top bit of the first byte on every non-zero path (both signs), a necessary condition for a correct sign word.")
	r.Assume = append(r.Assume, "ref/ttlv_types.tsv is KMIP 1.4 §9.1.1.2-9.1.1.4 (item types, lengths, padding), written by hand")
	r.NotCov = append(r.NotCov, "the arithmetic inside padForLen and bigIntToBytes", "equality of scalar values read by an independent parser (needs an executable oracle)", "that an independent generator's encodings decode to the same tree")

	valueStorageFresh(r, "C03.T10")
	c03T11(r)
	ref, err := readTypeRef(filepath.Join(verifDir, "ref", "ttlv_types.tsv"))
	r.Rule("C03.T1", "ttlv.Type codes and names equal the specification table; the reader accepts exactly codes 1..10", 11)
	if err != nil {
		r.Unk("C03.T1", "ref", token.NoPos, "cannot read reference: %v", err)
		return
	}
	tt := p.Pkg("ttlv")
	byName := map[string]ttlvTypeRow{}
	byCode := map[int64]ttlvTypeRow{}
	for _, row := range ref {
		byName[row.name] = row
		byCode[row.code] = row
	}
	// typesName literal
	if cl, _ := findPkgVarLit(tt, "typesName"); cl != nil {
		seen := map[string]bool{}
		for _, el := range cl.Elts {
			kv, ok := el.(*ast.KeyValueExpr)
			if !ok {
				continue
			}
			code, ok1 := constInt(tt.TypesInfo, kv.Key)
			name, ok2 := constStr(tt.TypesInfo, kv.Value)
			key := "type/" + types.ExprString(kv.Key)
			if !ok1 || !ok2 {
				r.Unk("C03.T1", key, kv.Pos(), "non-constant entry")
				continue
			}
			seen[name] = true
			row, ok := byName[name]
			switch {
			case !ok:
				r.Bad("C03.T1", key, kv.Pos(), "type name %q is not a KMIP item type", name)
			case row.code != code:
				r.Bad("C03.T1", key, kv.Pos(), "item type %s has code %d in the specification but %d here", name, row.code, code)
			default:
				r.OK("C03.T1", key, kv.Pos(), "%s = %d", name, code)
			}
		}
		for _, row := range ref {
			if !seen[row.name] {
				r.Bad("C03.T1", "type/missing/"+row.name, cl.Pos(), "item type %s (%d) is missing", row.name, row.code)
			}
		}
	} else {
		r.Unk("C03.T1", "typesName", token.NoPos, "anchor missing")
	}
	// reader accepts exactly 1..10: for each of the 256 values of the type byte, follow validate() from the point
	// where the type is read, deciding the branches that compare the type with a constant and taking both sides of
	// every other branch: a code outside 1..10 must reach an error return on every such path, a code inside must
	// be able to reach the nil return
	if vf := p.Func("ttlv", "ttlvReader", "validate"); vf != nil {
		badOut, badIn, undec := int64(-1), int64(-1), ""
		var start *ssa.BasicBlock
		allInstrs(vf, func(in ssa.Instruction) {
			if v, ok := in.(ssa.Value); ok && isTypeValue(v) && start == nil {
				if _, isBin := in.(*ssa.BinOp); !isBin {
					start = in.Block()
				}
			}
		})
		if start == nil {
			undec = "the type of the item is not read in validate()"
		}
		decide := func(cond ssa.Value, ty int64) (bool, bool) {
			bo, ok := cond.(*ssa.BinOp)
			if !ok {
				return false, false
			}
			x, y, op := bo.X, bo.Y, bo.Op
			if _, isK := constIntVal(x); isK && isTypeValue(y) {
				x, y = y, x
				switch op {
				case token.LSS:
					op = token.GTR
				case token.LEQ:
					op = token.GEQ
				case token.GTR:
					op = token.LSS
				case token.GEQ:
					op = token.LEQ
				}
			}
			k, isK := constIntVal(y)
			if !isK || !isTypeValue(x) {
				return false, false
			}
			if _, isConv := x.(*ssa.Convert); isConv {
				return false, false
			}
			switch op {
			case token.LSS:
				return ty < k, true
			case token.LEQ:
				return ty <= k, true
			case token.GTR:
				return ty > k, true
			case token.GEQ:
				return ty >= k, true
			case token.EQL:
				return ty == k, true
			case token.NEQ:
				return ty != k, true
			}
			return false, false
		}
		for ty := int64(0); ty < 256 && start != nil; ty++ {
			canNil, canErrOnly := false, true
			on := map[*ssa.BasicBlock]bool{}
			var walk func(b, from *ssa.BasicBlock)
			walk = func(b, from *ssa.BasicBlock) {
				if on[b] {
					return
				}
				on[b] = true
				defer func() { on[b] = false }()
				last := b.Instrs[len(b.Instrs)-1]
				switch x := last.(type) {
				case *ssa.Return:
					v := x.Results[0]
					if ph, ok := v.(*ssa.Phi); ok && ph.Block() == b && from != nil {
						if pi := predIndex(b, from); pi >= 0 {
							v = ph.Edges[pi]
						}
					}
					if isNilConst(v) {
						canNil, canErrOnly = true, false
					} else if _, isPhi := v.(*ssa.Phi); isPhi {
						canNil, canErrOnly = true, false // not resolved: assume it may be nil
					}
				case *ssa.If:
					if val, ok := decide(x.Cond, ty); ok {
						if val {
							walk(b.Succs[0], b)
						} else {
							walk(b.Succs[1], b)
						}
						return
					}
					walk(b.Succs[0], b)
					walk(b.Succs[1], b)
				default:
					for _, sc := range b.Succs {
						walk(sc, b)
					}
				}
			}
			walk(start, nil)
			if ty >= 1 && ty <= 10 {
				if !canNil && badIn < 0 {
					badIn = ty
				}
			} else if !canErrOnly && badOut < 0 {
				badOut = ty
			}
		}
		switch {
		case undec != "":
			r.Unk("C03.T1", "ttlv.ttlvReader.validate/range", vf.Pos(), "%s", undec)
		case badOut >= 0:
			r.Bad("C03.T1", "ttlv.ttlvReader.validate/range", vf.Pos(), "the reader does not reject type code %d: validate() can return nil for it (only 1..10 are KMIP item types)", badOut)
		case badIn >= 0:
			r.Bad("C03.T1", "ttlv.ttlvReader.validate/range", vf.Pos(), "the reader rejects type code %d (%s), a KMIP item type the writer emits", badIn, ttlvTypeNames[badIn])
		default:
			r.OK("C03.T1", "ttlv.ttlvReader.validate/range", vf.Pos(), "type codes outside 1..10 reach an error return on every path, each of 1..10 can reach the nil return (256 values followed through validate())")
		}
	} else {
		r.Unk("C03.T1", "ttlv.ttlvReader.validate/range", token.NoPos, "anchor missing")
	}

	// ---------------- T2 fixed-width writers
	r.Rule("C03.T2", "fixed-width writers: (type, length) as specified and exactly length+padding = 8 bytes appended", 6)
	writerOf := map[string]string{"Integer": "Integer", "LongInteger": "LongInteger", "Enum": "Enumeration", "Bool": "Boolean", "DateTime": "DateTime", "Interval": "Interval"}
	writerLens := map[int64]int64{}
	for _, m := range []string{"Integer", "LongInteger", "Enum", "Bool", "DateTime", "Interval"} {
		key := "ttlv.ttlvWriter." + m
		fn := p.Func("ttlv", "ttlvWriter", m)
		if fn == nil {
			r.Unk("C03.T2", key, token.NoPos, "anchor missing")
			continue
		}
		var ea *ssa.Call
		allInstrs(fn, func(in ssa.Instruction) {
			if c, ok := in.(*ssa.Call); ok && callID(&c.Call).is(ttlvPath, "ttlvWriter", "encodeAppend") {
				ea = c
			}
		})
		if ea == nil {
			r.Unk("C03.T2", key, fn.Pos(), "call to encodeAppend not found")
			continue
		}
		ty, ok1 := constIntVal(ea.Call.Args[2])
		ln, ok2 := constIntVal(ea.Call.Args[3])
		mc, ok3 := ea.Call.Args[4].(*ssa.MakeClosure)
		if !ok1 || !ok2 || !ok3 {
			r.Unk("C03.T2", key, ea.Pos(), "type/length/closure arguments are not constants")
			continue
		}
		row := byName[writerOf[m]]
		cl := mc.Fn.(*ssa.Function)
		var total int64 = -1
		okCount := true
		allInstrs(cl, func(in ssa.Instruction) {
			if ret, ok := in.(*ssa.Return); ok {
				n, ok := appendedBytes(ret.Results[0], cl.Params[0])
				if !ok {
					okCount = false
				} else if total >= 0 && total != n {
					okCount = false
				} else {
					total = n
				}
			}
		})
		writerLens[ty] = ln
		switch {
		case ty != row.code:
			r.Bad("C03.T2", key, ea.Pos(), "%s writes type code %d; %s is %d", m, ty, row.name, row.code)
		case ln != row.flen:
			r.Bad("C03.T2", key, ea.Pos(), "%s writes length %d; a %s item has length %d", m, ln, row.name, row.flen)
		case !okCount:
			r.Unk("C03.T2", key, cl.Pos(), "bytes appended by the value closure could not be counted")
		case total != 8:
			r.Bad("C03.T2", key, cl.Pos(), "%s appends %d value+padding bytes for a declared length of %d; items are padded to a multiple of 8 bytes (expected 8)", m, total, ln)
		default:
			r.OK("C03.T2", key, ea.Pos(), "type %d, length %d, %d bytes appended", ty, ln, total)
		}
	}
	// Bitmask delegates to Integer
	if bf := p.Func("ttlv", "ttlvWriter", "Bitmask"); bf != nil {
		del := false
		allInstrs(bf, func(in ssa.Instruction) {
			if c, ok := in.(*ssa.Call); ok && callID(&c.Call).is(ttlvPath, "ttlvWriter", "Integer") {
				del = true
			}
		})
		if !del {
			r.Bad("C03.T2", "ttlv.ttlvWriter.Bitmask", bf.Pos(), "Bitmask no longer delegates to Integer: masks are Integer items on the wire")
		}
	}

	// ---------------- T3 variable-width writers
	r.Rule("C03.T3", "variable-width writers: declared length = len of the appended value; padding = padForLen(len, 8) on the specified side", 3)
	for _, m := range []string{"TextString", "ByteString"} {
		key := "ttlv.ttlvWriter." + m
		fn := p.Func("ttlv", "ttlvWriter", m)
		if fn == nil {
			r.Unk("C03.T3", key, token.NoPos, "anchor missing")
			continue
		}
		var ea *ssa.Call
		allInstrs(fn, func(in ssa.Instruction) {
			if c, ok := in.(*ssa.Call); ok && callID(&c.Call).is(ttlvPath, "ttlvWriter", "encodeAppendRightPadded") {
				ea = c
			}
		})
		var a []ssa.Value
		if ea == nil {
			// the helper inlined into the writer: encodeAppend(tag, type, length, f) followed by pad(padLen, padVal)
			var app, pd *ssa.Call
			allInstrs(fn, func(in ssa.Instruction) {
				if c, ok := in.(*ssa.Call); ok {
					switch id := callID(&c.Call); {
					case id.is(ttlvPath, "ttlvWriter", "encodeAppend"):
						app = c
					case id.is(ttlvPath, "ttlvWriter", "pad"):
						pd = c
					}
				}
			})
			if app == nil || pd == nil || !dominatesInstr(app, pd) || len(pd.Call.Args) < 2 {
				r.Bad("C03.T3", key, fn.Pos(), "%s does not write through encodeAppendRightPadded: text and byte strings are right-padded", m)
				continue
			}
			ea = app
			a = append(append([]ssa.Value{}, app.Call.Args...), pd.Call.Args[1:]...)
		} else {
			a = ea.Call.Args
		}
		// arguments by role (enc, tag, type code, length, pad length, [pad byte], value closure), whatever their number
		var tyArg, lenArg, padArg, pvArg, fnArg ssa.Value
		for i, x := range a {
			if i < 2 {
				continue // receiver and tag
			}
			switch {
			case typeName(x.Type()) == "Type" && tyArg == nil:
				tyArg = x
			case func() bool { _, isF := x.Type().Underlying().(*types.Signature); return isF }():
				fnArg = x
			case func() bool { pc, ok := x.(*ssa.Call); return ok && callID(&pc.Call).is(ttlvPath, "", "padForLen") }():
				padArg = x
			case func() bool { _, ok := lenOperand(x); return ok }() && lenArg == nil:
				lenArg = x
			case func() bool { b, ok := x.Type().Underlying().(*types.Basic); return ok && (b.Kind() == types.Uint8) }():
				pvArg = x
			}
		}
		ty := int64(-1)
		if tyArg != nil {
			ty, _ = constIntVal(tyArg)
		}
		val := fn.Params[2]
		lenOK := false
		if lenArg != nil {
			if y, ok := lenOperand(lenArg); ok && unspill(y) == ssa.Value(val) {
				lenOK = true
			}
		}
		padOK := false
		if pc, ok := padArg.(*ssa.Call); ok {
			if y, ok := lenOperand(pc.Call.Args[0]); ok && unspill(y) == ssa.Value(val) {
				if k, ok := constIntVal(pc.Call.Args[1]); ok && k == 8 {
					padOK = true
				}
			}
		}
		// the pad byte: an explicit constant argument, or (no such parameter) what the helper's pad call writes, checked below
		pv, pvOK := int64(0), true
		if pvArg != nil {
			pv, pvOK = constIntVal(pvArg)
		}
		appOK := false
		if mc, ok := fnArg.(*ssa.MakeClosure); ok {
			cl := mc.Fn.(*ssa.Function)
			allInstrs(cl, func(in ssa.Instruction) {
				if c, ok := in.(*ssa.Call); ok {
					if b, ok := c.Call.Value.(*ssa.Builtin); ok && b.Name() == "append" && c.Call.Args[0] == ssa.Value(cl.Params[0]) {
						// appended value is the captured parameter
						src := c.Call.Args[1]
						if u, ok := src.(*ssa.UnOp); ok {
							if fv, ok := u.X.(*ssa.FreeVar); ok && fv.Name() == val.Name() {
								appOK = true
							}
						}
					}
				}
			})
		}
		row := byName[m]
		switch {
		case ty != row.code:
			r.Bad("C03.T3", key, ea.Pos(), "%s writes type code %d, expected %d", m, ty, row.code)
		case !lenOK:
			r.Bad("C03.T3", key, ea.Pos(), "the declared length is not len() of the value being written (e.g. it includes the padding)")
		case !padOK:
			r.Bad("C03.T3", key, ea.Pos(), "the padding is not padForLen(len(value), 8)")
		case !pvOK || pv != 0:
			r.Bad("C03.T3", key, ea.Pos(), "the padding byte is not zero")
		case !appOK:
			r.Unk("C03.T3", key, ea.Pos(), "value closure not recognised as append(b, value...)")
		default:
			r.OK("C03.T3", key, ea.Pos(), "length = len(value), right padding = padForLen(len(value), 8) zero bytes")
		}
	}
	// right-padded helper: encodeAppend then pad; left-padded helper: pad inside the value, before f
	if h := p.Func("ttlv", "ttlvWriter", "encodeAppendRightPadded"); h != nil {
		var first, second string
		allInstrs(h, func(in ssa.Instruction) {
			if c, ok := in.(*ssa.Call); ok {
				n := callID(&c.Call).name
				if n == "encodeAppend" || n == "pad" {
					if first == "" {
						first = n
					} else if second == "" {
						second = n
					}
				}
			}
		})
		if first != "encodeAppend" || second != "pad" {
			r.Bad("C03.T3", "ttlv.ttlvWriter.encodeAppendRightPadded", h.Pos(), "right padding is not written after the value (order: %s, %s)", first, second)
		}
	}
	{
		key := "ttlv.ttlvWriter.BigInteger"
		fn := p.Func("ttlv", "ttlvWriter", "BigInteger")
		if fn == nil {
			r.Unk("C03.T3", key, token.NoPos, "anchor missing")
		} else {
			var ea, cv *ssa.Call
			// one way out: every big integer goes through bigIntToBytes (two's complement, sign word). A second
			// emission in the method (a fast path for "small" values, ...) writes some values without it
			nEmit := 0
			allInstrs(fn, func(in ssa.Instruction) {
				if c, ok := in.(*ssa.Call); ok {
					if id := callID(&c.Call); id.pkg == ttlvPath && id.recv == "ttlvWriter" && (strings.HasPrefix(id.name, "encodeAppend") || id.name == "writeType") {
						nEmit++
					}
				}
			})
			if nEmit == 2 && int64FastPath(fn) {
				r.OK("C03.T3", key+"/single-emission", fn.Pos(), "two emissions: the general one fed by bigIntToBytes and a fast path taken under value.IsInt64() that writes the 8 bytes of uint64(value.Int64()) — the two's complement of a value that fits 64 signed bits, sign included")
			} else if nEmit > 1 {
				r.Bad("C03.T3", key+"/single-emission", fn.Pos(), "BigInteger emits the item in %d places: only the route through bigIntToBytes(value, 8) writes the two's complement with its sign word; a value taking another route (e.g. a fast path for values that fit 64 bits: 2^63 <= v < 2^64 then has its top bit set and reads back negative) is not what was handed to the encoder", nEmit)
			} else {
				r.OK("C03.T3", key+"/single-emission", fn.Pos(), "one emission, fed by bigIntToBytes")
			}
			allInstrs(fn, func(in ssa.Instruction) {
				if c, ok := in.(*ssa.Call); ok {
					if callID(&c.Call).is(ttlvPath, "ttlvWriter", "encodeAppendLeftPadded") {
						ea = c
					}
					if callID(&c.Call).is(ttlvPath, "", "bigIntToBytes") {
						cv = c
					}
				}
			})
			if ea == nil && cv != nil {
				// the left padding written inline: encodeAppend(tag, BigInteger, len(bytes)+padLen, func(b) { padLen x padVal; bytes })
				var app *ssa.Call
				allInstrs(fn, func(in ssa.Instruction) {
					if c, ok := in.(*ssa.Call); ok && callID(&c.Call).is(ttlvPath, "ttlvWriter", "encodeAppend") {
						app = c
					}
				})
				extOf := func(v ssa.Value, idx int) bool {
					v = unspill(v)
					ex, ok := v.(*ssa.Extract)
					return ok && ex.Tuple == ssa.Value(cv) && ex.Index == idx
				}
				okInline := false
				why := "no encodeAppend call"
				if app != nil {
					a := app.Call.Args
					tyv, _ := constIntVal(a[2])
					mult, _ := constIntVal(cv.Call.Args[1])
					lenOK := false
					if sum, ok := a[3].(*ssa.BinOp); ok && sum.Op == token.ADD {
						if y, ok := lenOperand(sum.X); ok && extOf(y, 0) && extOf(sum.Y, 2) {
							lenOK = true
						}
						if y, ok := lenOperand(sum.Y); ok && extOf(y, 0) && extOf(sum.X, 2) {
							lenOK = true // padLen + len(bytes)
						}
					}
					padFirst := false
					if mc, ok := a[len(a)-1].(*ssa.MakeClosure); ok {
						cl := mc.Fn.(*ssa.Function)
						bound := func(fv ssa.Value, idx int) bool {
							for i, f := range cl.FreeVars {
								if ssa.Value(f) == fv || func() bool { u, ok := fv.(*ssa.UnOp); return ok && u.X == ssa.Value(f) }() {
									return extOf(mc.Bindings[i], idx) || func() bool {
										// captured by reference: the cell holds the extract
										if al, ok := mc.Bindings[i].(*ssa.Alloc); ok {
											for _, ref := range *al.Referrers() {
												if st, ok := ref.(*ssa.Store); ok && extOf(st.Val, idx) {
													return true
												}
											}
										}
										return false
									}()
								}
							}
							return false
						}
						var padApp, bytesApp *ssa.Call
						allInstrs(cl, func(in ssa.Instruction) {
							c, ok := in.(*ssa.Call)
							if !ok {
								return
							}
							if b, ok := c.Call.Value.(*ssa.Builtin); !ok || b.Name() != "append" || len(c.Call.Args) < 2 {
								return
							}
							src := c.Call.Args[1]
							// append(b, padVal): the variadic slice holds the pad byte
							if sl, ok := src.(*ssa.Slice); ok {
								if al, ok := sl.X.(*ssa.Alloc); ok {
									for _, ref := range *al.Referrers() {
										if ia, ok := ref.(*ssa.IndexAddr); ok {
											for _, r2 := range *ia.Referrers() {
												if st, ok := r2.(*ssa.Store); ok && bound(st.Val, 1) {
													padApp = c
												}
											}
										}
									}
								}
							}
							if bound(src, 0) {
								bytesApp = c
							}
						})
						inLoop := func(c *ssa.Call) bool {
							if c == nil {
								return false
							}
							for _, sc := range c.Block().Succs {
								if sc == c.Block() || reachableFrom(sc)[c.Block()] {
									return true
								}
							}
							return false
						}
						after := func(a, b *ssa.Call) bool { // b's block is not reachable from a's successors
							for _, sc := range a.Block().Succs {
								if sc == b.Block() || reachableFrom(sc)[b.Block()] {
									return false
								}
							}
							return true
						}
						padFirst = padApp != nil && bytesApp != nil && inLoop(padApp) && !inLoop(bytesApp) && after(bytesApp, padApp)
					}
					switch {
					case tyv != byName["BigInteger"].code:
						why = "wrong type code"
					case mult != 8:
						why = "big integers are not extended to a multiple of 8 bytes"
					case !lenOK:
						why = "the declared length is not len(bytes)+padLen"
					case !padFirst:
						why = "the value closure does not append padLen times the pad byte before the bytes"
					default:
						okInline = true
					}
				}
				if okInline {
					r.OK("C03.T3", key, app.Pos(), "length = len(bytes)+padLen; the value closure writes padLen sign bytes, then the bytes of bigIntToBytes(value, 8)")
				} else {
					r.Bad("C03.T3", key, fn.Pos(), "BigInteger does not write bigIntToBytes(value, 8) left-padded with its sign bytes (%s)", why)
				}
			} else if ea == nil || cv == nil {
				r.Bad("C03.T3", key, fn.Pos(), "BigInteger does not write bigIntToBytes(value, 8) through encodeAppendLeftPadded")
			} else {
				ext := func(v ssa.Value, idx int) bool {
					v = unspill(v)
					ex, ok := v.(*ssa.Extract)
					return ok && ex.Tuple == ssa.Value(cv) && ex.Index == idx
				}
				a := ea.Call.Args // enc, tag, typ, length, padLen, padVal, f
				ty, _ := constIntVal(a[2])
				mult, _ := constIntVal(cv.Call.Args[1])
				lenOK := false
				if sum, ok := a[3].(*ssa.BinOp); ok && sum.Op == token.ADD {
					if y, ok := lenOperand(sum.X); ok && ext(y, 0) && ext(sum.Y, 2) {
						lenOK = true
					}
					if y, ok := lenOperand(sum.Y); ok && ext(y, 0) && ext(sum.X, 2) {
						lenOK = true // padLen + len(bytes)
					}
				}
				switch {
				case ty != byName["BigInteger"].code:
					r.Bad("C03.T3", key, ea.Pos(), "BigInteger writes type code %d", ty)
				case mult != 8:
					r.Bad("C03.T3", key, cv.Pos(), "big integers are extended to a multiple of %d bytes instead of 8", mult)
				case !lenOK:
					r.Bad("C03.T3", key, ea.Pos(), "the declared length is not len(bytes)+padLen: sign padding is part of a big integer's value")
				case !ext(a[4], 2) || !ext(a[5], 1):
					r.Bad("C03.T3", key, ea.Pos(), "the sign padding passed to the writer is not the (padVal, padLen) computed by bigIntToBytes")
				default:
					r.OK("C03.T3", key, ea.Pos(), "length = len(bytes)+padLen with left sign padding from bigIntToBytes(value, 8)")
				}
			}
		}
	}

	// ---------------- T4 header order and back-patch
	r.Rule("C03.T4", "item header is written tag(3), type(1), length(4) before the value; structure length back-patched at the placeholder", 4)
	c03Order(r, "encodeAppend", []string{"writeTag", "writeType", "writeLength", "<value>"})
	c03Order(r, "Struct", []string{"writeTag", "writeType", "writeLength", "<value>"})
	c03WriteTag(r)
	c03BackPatch(r)

	// ---------------- T5 writer <-> reader lengths
	r.Rule("C03.T5", "the reader's fixed-length table equals the writer's", 6)
	c2 := &c02ctx{r: r, p: p, ord: map[string]int{}}
	facts, probs := c2.validateFacts()
	for _, s := range probs {
		r.Unk("C03.T5", "validate/table", token.NoPos, "%s", s)
	}
	for _, row := range ref {
		if row.flen < 0 {
			continue
		}
		key := "length/" + row.name
		f := facts[row.code]
		w, haveW := writerLens[row.code]
		switch {
		case !haveW:
			r.Unk("C03.T5", key, token.NoPos, "writer length for %s not found", row.name)
		case f.eq != w:
			r.Bad("C03.T5", key, token.NoPos, "the writer emits %s items of length %d but the reader's validate() requires %d (-1 = unchecked)", row.name, w, f.eq)
		case w != row.flen:
			r.Bad("C03.T5", key, token.NoPos, "%s length %d differs from the specification's %d", row.name, w, row.flen)
		default:
			r.OK("C03.T5", key, token.NoPos, "%s: writer %d = reader %d = specification %d", row.name, w, f.eq, row.flen)
		}
	}

	// ---------------- T6 sign word decision
	r.Rule("C03.T6", "bigIntToBytes tests the top bit of the first byte on every non-zero path (both signs)", 1)
	c03SignWord(r)
	c03SignDecode(r)

	// ---------------- T7 padding computed from the returned bytes
	r.Rule("C03.T7", "bigIntToBytes: the pad length is padForLen(len(b), padding) of the very slice it returns, or a whole sign word", 1)
	c03PadOfReturned(r)

	// ---------------- T8 the binary writer only grows its buffer by appending
	r.Rule("C03.T8", "every byte of the binary output is written: the writer's buffer grows only through append/AppendUintNN, never by reslicing beyond its length", 5)
	c03AppendOnly(r)
}

func c03Order(r *Run, method string, want []string) {
	p := r.P
	fn := p.Func("ttlv", "ttlvWriter", method)
	key := "ttlv.ttlvWriter." + method + "/order"
	if fn == nil {
		r.Unk("C03.T4", key, token.NoPos, "anchor missing")
		return
	}
	var got []string
	if len(fn.Blocks) != 1 {
		r.Unk("C03.T4", key, fn.Pos(), "header writer is not straight-line code")
		return
	}
	for _, in := range fn.Blocks[0].Instrs {
		c, ok := in.(*ssa.Call)
		if !ok {
			continue
		}
		id := callID(&c.Call)
		switch {
		case id.pkg == ttlvPath && id.recv == "ttlvWriter" && (id.name == "writeTag" || id.name == "writeType" || id.name == "writeLength"):
			got = append(got, id.name)
		case c.Call.StaticCallee() == nil && !c.Call.IsInvoke() && !isBuiltinCall(&c.Call):
			got = append(got, "<value>") // call of the value/children closure
		}
	}
	if strings.Join(got, ",") == strings.Join(want, ",") {
		r.OK("C03.T4", key, fn.Pos(), "%s", strings.Join(got, " -> "))
	} else {
		r.Bad("C03.T4", key, fn.Pos(), "item header written in order %s; the wire format is %s", strings.Join(got, " -> "), strings.Join(want, " -> "))
	}
}

func c03WriteTag(r *Run) {
	p := r.P
	fn := p.Func("ttlv", "ttlvWriter", "writeTag")
	key := "ttlv.ttlvWriter.writeTag"
	if fn == nil {
		r.Unk("C03.T4", key, token.NoPos, "anchor missing")
		return
	}
	shifts := map[int64]int64{} // array index -> shift
	n := int64(-1)
	allInstrs(fn, func(in ssa.Instruction) {
		st, ok := in.(*ssa.Store)
		if !ok {
			return
		}
		ia, ok := st.Addr.(*ssa.IndexAddr)
		if !ok {
			return
		}
		idx, ok := constIntVal(ia.Index)
		if !ok {
			return
		}
		if pa, ok := ia.X.Type().Underlying().(*types.Pointer); ok {
			if arr, ok := pa.Elem().Underlying().(*types.Array); ok {
				n = arr.Len()
			}
		}
		cv, ok := st.Val.(*ssa.Convert)
		if !ok {
			return
		}
		switch x := cv.X.(type) {
		case *ssa.Parameter:
			shifts[idx] = 0
		case *ssa.BinOp:
			if x.Op == token.SHR {
				if k, ok := constIntVal(x.Y); ok {
					shifts[idx] = k
				}
			}
		}
	})
	if n == 3 && shifts[0] == 16 && shifts[1] == 8 && shifts[2] == 0 && len(shifts) == 3 {
		r.OK("C03.T4", key, fn.Pos(), "three bytes: tag>>16, tag>>8, tag")
	} else {
		r.Bad("C03.T4", key, fn.Pos(), "the tag is not written as three big-endian bytes (array length %d, shifts %v)", n, shifts)
	}
}

func c03BackPatch(r *Run) {
	p := r.P
	fn := p.Func("ttlv", "ttlvWriter", "Struct")
	key := "ttlv.ttlvWriter.Struct/backpatch"
	if fn == nil {
		r.Unk("C03.T4", key, token.NoPos, "anchor missing")
		return
	}
	var wTag, wType, wLen, child, patch *ssa.Call
	allInstrs(fn, func(in ssa.Instruction) {
		c, ok := in.(*ssa.Call)
		if !ok {
			return
		}
		id := callID(&c.Call)
		switch {
		case id.is(ttlvPath, "ttlvWriter", "writeTag"):
			wTag = c
		case id.is(ttlvPath, "ttlvWriter", "writeType"):
			wType = c
		case id.is(ttlvPath, "ttlvWriter", "writeLength"):
			wLen = c
		case c.Call.StaticCallee() == nil && !c.Call.IsInvoke() && !isBuiltinCall(&c.Call):
			child = c
		case id.pkg == "encoding/binary" && (id.name == "AppendUint32" || id.name == "PutUint32"):
			patch = c
		}
	})
	if wType == nil || wLen == nil || child == nil || patch == nil {
		r.Bad("C03.T4", key, fn.Pos(), "Struct does not have the shape: header with placeholder length, children, back-patch of the length")
		return
	}
	isBufLoad := func(v ssa.Value) (*ssa.UnOp, bool) {
		u, ok := v.(*ssa.UnOp)
		if !ok || u.Op != token.MUL {
			return nil, false
		}
		_, fld, ok := fieldAddrOf(u.X)
		return u, ok && fname(fld) == "buf"
	}
	// integer expressions as a*A + b*B + c, A = len(buf) between the type byte and the placeholder ("offset of the
	// placeholder"), B = len(buf) after the children
	type lin struct{ a, b, c int64 }
	var eval func(v ssa.Value, d int) (lin, bool)
	eval = func(v ssa.Value, d int) (lin, bool) {
		if d > 8 {
			return lin{}, false
		}
		if k, ok := constIntVal(v); ok {
			return lin{0, 0, k}, true
		}
		switch x := v.(type) {
		case *ssa.Convert:
			return eval(x.X, d+1)
		case *ssa.BinOp:
			l, ok1 := eval(x.X, d+1)
			rr, ok2 := eval(x.Y, d+1)
			if !ok1 || !ok2 {
				return lin{}, false
			}
			switch x.Op {
			case token.ADD:
				return lin{l.a + rr.a, l.b + rr.b, l.c + rr.c}, true
			case token.SUB:
				return lin{l.a - rr.a, l.b - rr.b, l.c - rr.c}, true
			}
		case *ssa.Call:
			if y, isLen := lenOperand(x); isLen {
				if ld, ok := isBufLoad(y); ok {
					switch {
					case dominatesInstr(child, ld):
						return lin{0, 1, 0}, true
					case dominatesInstr(wLen, ld) && dominatesInstr(ld, child):
						return lin{1, 0, 4}, true
					case dominatesInstr(wType, ld) && dominatesInstr(ld, wLen):
						return lin{1, 0, 0}, true
					case wTag != nil && dominatesInstr(wTag, ld) && dominatesInstr(ld, wType):
						return lin{1, 0, -1}, true // the type byte is still to come
					case wTag != nil && dominatesInstr(ld, wTag):
						return lin{1, 0, -4}, true // start of the item: 3 tag bytes and the type byte are still to come (their sizes are the header clause of this rule)
					}
				}
			}
		}
		return lin{}, false
	}
	// destination: a window of the buffer as it is AFTER the children (an earlier view may point into an array the
	// children's appends have left behind), starting at the placeholder
	dstIdx, valIdx := 1, 2
	dst, ok := patch.Call.Args[dstIdx].(*ssa.Slice)
	okDst, stale := false, false
	if ok {
		if ld, isLoad := isBufLoad(dst.X); isLoad {
			if !dominatesInstr(child, ld) {
				stale = true
			}
			pos := dst.Low
			if callID(&patch.Call).name == "AppendUint32" {
				// AppendUint32(buf[:A], v) writes at A (within capacity: the placeholder is there)
				pos = dst.High
				if dst.Low != nil {
					pos = nil
				}
			}
			if pos != nil {
				if l, ok := eval(pos, 0); ok && l == (lin{1, 0, 0}) {
					okDst = true
				}
			}
		} else {
			stale = true
		}
	}
	okVal := false
	if l, ok := eval(patch.Call.Args[valIdx], 0); ok && l == (lin{-1, 1, -4}) {
		okVal = true
	}
	pl, _ := constIntVal(wLen.Call.Args[1])
	switch {
	case stale:
		r.Bad("C03.T4", key, patch.Pos(), "the structure length is patched through a view of the buffer taken before the children were written: once an append has moved the buffer to a larger array the patch lands in the old one and the structure is emitted with its placeholder length")
	case !okDst:
		r.Bad("C03.T4", key, patch.Pos(), "the structure length is not patched at the offset recorded just before the placeholder was written")
	case !okVal:
		r.Bad("C03.T4", key, patch.Pos(), "the patched structure length is not len(buffer after the children) - offset - 4")
	case pl != 0:
		r.Bad("C03.T4", key, wLen.Pos(), "placeholder length is not 0")
	default:
		r.OK("C03.T4", key, patch.Pos(), "length placeholder at off = len(buf) after tag+type; patched in the current buffer with len(buf)-off-4 after the children")
	}
}

func c03SignWord(r *Run) {
	p := r.P
	fn := p.Func("ttlv", "", "bigIntToBytes")
	key := "ttlv.bigIntToBytes/top-bit"
	if fn == nil {
		r.Unk("C03.T6", key, token.NoPos, "anchor missing")
		return
	}
	paths, ok := enumeratePaths(fn, 4096)
	if !ok {
		r.Unk("C03.T6", key, fn.Pos(), "too many paths")
		return
	}
	// a block "tests the top bit" when its If condition depends on (b[0] >> 7) or (b[0] & 0x80)
	testsTop := func(b *ssa.BasicBlock) bool {
		if len(b.Instrs) == 0 {
			return false
		}
		iff, ok := b.Instrs[len(b.Instrs)-1].(*ssa.If)
		if !ok {
			return false
		}
		var dep func(v ssa.Value, d int) bool
		dep = func(v ssa.Value, d int) bool {
			if d > 6 {
				return false
			}
			bo, ok := v.(*ssa.BinOp)
			if !ok {
				if cv, ok := v.(*ssa.Convert); ok {
					return dep(cv.X, d+1)
				}
				return false
			}
			if bo.Op == token.SHR || bo.Op == token.AND {
				if k, ok := constIntVal(bo.Y); ok && (bo.Op == token.SHR && k == 7 || bo.Op == token.AND && k == 0x80) {
					if u, ok := bo.X.(*ssa.UnOp); ok {
						if ia, ok := u.X.(*ssa.IndexAddr); ok {
							if i0, ok := constIntVal(ia.Index); ok && i0 == 0 {
								return true
							}
						}
					}
				}
			}
			return dep(bo.X, d+1) || dep(bo.Y, d+1)
		}
		return dep(iff.Cond, 0)
	}
	nNZ, bad := 0, 0
	for _, path := range paths {
		// the zero path returns before touching b[0]: recognised by the Sign() == 0 true edge
		zero := false
		for i := 0; i+1 < len(path); i++ {
			cond, isTrue, ok := edgeTaken(path[i], path[i+1])
			if !ok {
				continue
			}
			if bo, ok := cond.(*ssa.BinOp); ok && bo.Op == token.EQL && isTrue {
				if c, ok := bo.X.(*ssa.Call); ok && callID(&c.Call).is("math/big", "Int", "Sign") {
					if k, ok := constIntVal(bo.Y); ok && k == 0 {
						zero = true
					}
				}
			}
		}
		if zero {
			continue
		}
		nNZ++
		tested := false
		for _, b := range path {
			if testsTop(b) {
				tested = true
			}
		}
		if !tested {
			bad++
		}
	}
	switch {
	case nNZ == 0:
		r.Unk("C03.T6", key, fn.Pos(), "no non-zero path recognised")
	case bad > 0:
		r.Bad("C03.T6", key, fn.Pos(), "%d of %d non-zero paths through bigIntToBytes never examine the top bit of the first byte: for that sign a number whose leading bit disagrees with its sign is written without a sign word and reads back with the opposite sign", bad, nNZ)
	default:
		r.OK("C03.T6", key, fn.Pos(), "all %d non-zero paths (negative and positive) test the top bit of b[0] before deciding on a sign word", nNZ)
	}
}

func c03PadOfReturned(r *Run) {
	p := r.P
	fn := p.Func("ttlv", "", "bigIntToBytes")
	key := "ttlv.bigIntToBytes/pad-of-returned"
	if fn == nil {
		r.Unk("C03.T7", key, token.NoPos, "anchor missing")
		return
	}
	var padParam ssa.Value = fn.Params[1]
	isPadding := func(v ssa.Value) bool {
		if v == padParam {
			return true
		}
		if ph, ok := v.(*ssa.Phi); ok { // `if padding < 1 { padding = 1 }`
			for _, e := range ph.Edges {
				if e == padParam {
					return true
				}
			}
		}
		return false
	}
	nRet, bad := 0, ""
	allInstrs(fn, func(in ssa.Instruction) {
		ret, ok := in.(*ssa.Return)
		if !ok || len(ret.Results) != 3 {
			return
		}
		b, padLen := ret.Results[0], ret.Results[2]
		if sl, ok := b.(*ssa.Slice); ok {
			if pa, ok := sl.X.Type().Underlying().(*types.Pointer); ok {
				if arr, ok := pa.Elem().Underlying().(*types.Array); ok && arr.Len() == 0 {
					return // the zero case: empty bytes, a whole word of padding
				}
			}
		}
		nRet++
		var edges []ssa.Value
		if ph, ok := padLen.(*ssa.Phi); ok {
			edges = ph.Edges
		} else {
			edges = []ssa.Value{padLen}
		}
		for _, e := range edges {
			if isPadding(e) {
				continue
			}
			pc, ok := e.(*ssa.Call)
			if !ok || !callID(&pc.Call).is(ttlvPath, "", "padForLen") {
				bad = "the pad length is neither padForLen(len(b), padding) nor a whole word"
				continue
			}
			y, ok := lenOperand(pc.Call.Args[0])
			if !ok || y != b {
				bad = "the pad length is computed from the length of a different byte slice than the one returned: value plus padding is no longer a multiple of the word size when the two lengths differ"
			}
			if !isPadding(pc.Call.Args[1]) {
				bad = "padForLen is not called with the requested word size"
			}
		}
	})
	switch {
	case nRet == 0:
		r.Unk("C03.T7", key, fn.Pos(), "non-zero return not found")
	case bad != "":
		r.Bad("C03.T7", key, fn.Pos(), "%s", bad)
	default:
		r.OK("C03.T7", key, fn.Pos(), "padLen = padForLen(len(b), padding) for the returned b, or padding itself")
	}
}

// c03AppendOnly: stores to ttlvWriter.buf and reslices of it.
func c03AppendOnly(r *Run) {
	p := r.P
	n := 0
	for _, fn := range p.OwnFuncs() {
		id := idOf(fn)
		if id.pkg != ttlvPath {
			continue
		}
		inWriter := id.recv == "ttlvWriter" || (fn.Parent() != nil && idOf(fn.Parent()).recv == "ttlvWriter")
		ord := 0
		allInstrs(fn, func(in ssa.Instruction) {
			switch x := in.(type) {
			case *ssa.Store:
				_, fld, ok := fieldAddrOf(x.Addr)
				if !ok || fname(fld) != "buf" || typeName(x.Addr.(*ssa.FieldAddr).X.Type()) != "ttlvWriter" {
					return
				}
				n++
				ord++
				key := fmt.Sprintf("%s/store-buf#%d", fnKey(fn), ord)
				v := x.Val
				okV, why := false, ""
				switch c := v.(type) {
				case *ssa.Call:
					cid := callID(&c.Call)
					if b, ok := c.Call.Value.(*ssa.Builtin); ok && b.Name() == "append" {
						okV, why = true, "append"
					} else if cid.pkg == "encoding/binary" && strings.HasPrefix(cid.name, "AppendUint") {
						okV, why = true, cid.name
					} else if c.Call.StaticCallee() == nil && !c.Call.IsInvoke() {
						okV, why = true, "value closure (func([]byte) []byte, itself checked by T2/T3)"
					}
				case *ssa.Slice:
					if k, ok := constIntVal(c.High); ok && k == 0 && c.Low == nil {
						okV, why = true, "buf[:0]"
					}
				}
				if okV {
					r.OK("C03.T8", key, x.Pos(), "buffer updated by %s", why)
				} else {
					r.Bad("C03.T8", key, x.Pos(), "the writer's buffer is replaced by something other than an append: bytes can become part of the output without having been written (stale content of a reused buffer after Clear)")
				}
			case *ssa.Slice:
				if !inWriter || x.High == nil {
					return
				}
				if _, isSlice := x.X.Type().Underlying().(*types.Slice); !isSlice {
					return
				}
				if k, ok := constIntVal(x.High); ok && k == 0 {
					return
				}
				// allowed: buf[:off] where off is a len() taken earlier (back-patch)
				if y, ok := lenOperand(x.High); ok {
					_ = y
					return
				}
				// allowed: a window that is only overwritten in place (destination of PutUintNN / copy, or of an
				// AppendUintNN whose result is dropped): nothing it covers becomes output that was not output before
				onlyOverwritten := len(*x.Referrers()) > 0
				for _, ref := range *x.Referrers() {
					c, ok := ref.(*ssa.Call)
					if !ok {
						onlyOverwritten = false
						continue
					}
					cid := callID(&c.Call)
					switch {
					case cid.pkg == "encoding/binary" && strings.HasPrefix(cid.name, "PutUint"):
					case cid.pkg == "encoding/binary" && strings.HasPrefix(cid.name, "AppendUint") && len(*c.Referrers()) == 0:
					default:
						if b, isB := c.Call.Value.(*ssa.Builtin); isB && b.Name() == "copy" && c.Call.Args[0] == ssa.Value(x) {
							continue
						}
						onlyOverwritten = false
					}
				}
				if onlyOverwritten {
					return
				}
				ord++
				r.Bad("C03.T8", fmt.Sprintf("%s/reslice#%d", fnKey(fn), ord), x.Pos(), "a byte slice is resliced to a computed length in the binary writer: extending a slice exposes bytes that were never written")
			}
		})
	}
	if n < 5 {
		r.Unk("C03.T8", "ttlvWriter.buf/stores", token.NoPos, "%d stores to ttlvWriter.buf found, expected at least 5", n)
	}
}

// ---------------------------------------------------------------- T9 (decode side of the sign)

// c03SignDecode: bytesToBigInt treats its input as positive exactly when the top bit of the first byte is clear. The
// branch condition is a pure function of that byte, so it is evaluated for all 256 values.
func c03SignDecode(r *Run) {
	p := r.P
	r.Rule("C03.T9", "bytesToBigInt: the value is read as non-negative exactly when the top bit of its first byte is clear (condition evaluated for all 256 byte values)", 1)
	fn := p.Func("ttlv", "", "bytesToBigInt")
	key := "ttlv.bytesToBigInt/sign-test"
	if fn == nil {
		r.Unk("C03.T9", key, token.NoPos, "anchor missing")
		return
	}
	isFirstByte := func(v ssa.Value) bool {
		u, ok := v.(*ssa.UnOp)
		if !ok || u.Op != token.MUL {
			return false
		}
		ia, ok := u.X.(*ssa.IndexAddr)
		if !ok {
			return false
		}
		k, ok := constIntVal(ia.Index)
		return ok && k == 0
	}
	// evaluate an integer/boolean expression over the first byte
	var eval func(v ssa.Value, b int64, d int) (int64, bool)
	eval = func(v ssa.Value, b int64, d int) (int64, bool) {
		if d > 8 {
			return 0, false
		}
		if isFirstByte(v) {
			return b, true
		}
		if k, ok := constIntVal(v); ok {
			return k, true
		}
		switch x := v.(type) {
		case *ssa.Convert:
			val, ok := eval(x.X, b, d+1)
			if !ok {
				return 0, false
			}
			if bt, isB := x.Type().Underlying().(*types.Basic); isB {
				switch bt.Kind() {
				case types.Int8:
					return int64(int8(val)), true
				case types.Uint8:
					return int64(uint8(val)), true
				}
			}
			return val, true
		case *ssa.Call:
			if id := callID(&x.Call); id.pkg == "math/bits" && (id.name == "LeadingZeros8" || id.name == "Len8") && len(x.Call.Args) == 1 {
				val, ok := eval(x.Call.Args[0], b, d+1)
				if !ok {
					return 0, false
				}
				n := int64(0)
				for i := 7; i >= 0 && (val>>uint(i))&1 == 0; i-- {
					n++
				}
				if id.name == "Len8" {
					return 8 - n, true
				}
				return n, true
			}
		case *ssa.BinOp:
			l, ok1 := eval(x.X, b, d+1)
			rr, ok2 := eval(x.Y, b, d+1)
			if !ok1 || !ok2 {
				return 0, false
			}
			bo := func(c bool) int64 {
				if c {
					return 1
				}
				return 0
			}
			switch x.Op {
			case token.AND:
				return l & rr, true
			case token.OR:
				return l | rr, true
			case token.XOR:
				return l ^ rr, true
			case token.SHR:
				return l >> uint(rr), true
			case token.SHL:
				return l << uint(rr), true
			case token.EQL:
				return bo(l == rr), true
			case token.NEQ:
				return bo(l != rr), true
			case token.LSS:
				return bo(l < rr), true
			case token.LEQ:
				return bo(l <= rr), true
			case token.GTR:
				return bo(l > rr), true
			case token.GEQ:
				return bo(l >= rr), true
			}
		case *ssa.UnOp:
			if x.Op == token.NOT {
				val, ok := eval(x.X, b, d+1)
				return 1 - val, ok
			}
		}
		return 0, false
	}
	// the If that separates the plain SetBytes branch (non-negative) from the two's-complement branch
	for _, blk := range fn.Blocks {
		iff, ok := blk.Instrs[len(blk.Instrs)-1].(*ssa.If)
		if !ok {
			continue
		}
		if _, ok := eval(iff.Cond, 0, 0); !ok {
			continue
		}
		// which successor is the non-negative branch: the one that returns without negating (no Neg / Not / Sub call)
		negates := func(b *ssa.BasicBlock) bool {
			found := false
			for x := range reachableFrom(b) {
				for _, in := range x.Instrs {
					if c, ok := in.(*ssa.Call); ok {
						n := callID(&c.Call).name
						if n == "Neg" || n == "Not" || n == "Sub" {
							found = true
						}
					}
					if u, ok := in.(*ssa.UnOp); ok && u.Op == token.XOR {
						found = true
					}
				}
			}
			return found
		}
		posOnTrue := !negates(blk.Succs[0]) && negates(blk.Succs[1])
		posOnFalse := negates(blk.Succs[0]) && !negates(blk.Succs[1])
		if !posOnTrue && !posOnFalse {
			continue
		}
		for b := int64(0); b < 256; b++ {
			val, _ := eval(iff.Cond, b, 0)
			positive := (val != 0) == posOnTrue
			if positive != (b < 128) {
				r.Bad("C03.T9", key, condPos(iff, fn), "bytesToBigInt reads a value whose first byte is 0x%02X as %s: the sign is the top bit of the first byte (0x80 and above is negative), so that value decodes to a different number than the one encoded", b, map[bool]string{true: "non-negative", false: "negative"}[positive])
				return
			}
		}
		r.OK("C03.T9", key, iff.Pos(), "the sign test equals (first byte < 0x80) for all 256 byte values")
		return
	}
	r.Unk("C03.T9", key, fn.Pos(), "no branch on the first byte separating the non-negative from the two's-complement path was found")
}

// condPos: a position for a branch: the If has none in go/ssa, so take the condition's, else the function's.
func condPos(iff *ssa.If, fn *ssa.Function) token.Pos {
	if p := iff.Cond.Pos(); p.IsValid() {
		return p
	}
	if in, ok := iff.Cond.(ssa.Instruction); ok {
		for _, op := range in.Operands(nil) {
			if op != nil && *op != nil && (*op).Pos().IsValid() {
				return (*op).Pos()
			}
		}
	}
	return fn.Pos()
}

// int64FastPath: the extra emission of ttlvWriter.BigInteger is `if value.IsInt64() { encodeAppend(tag,
// TypeBigInteger, 8, func(b) { AppendUint64(b, uint64(value.Int64())) }) }`: declared length 8, the eight bytes are the
// conversion of Int64() itself, and the emission is dominated by the true edge of IsInt64() on the same value.
func int64FastPath(fn *ssa.Function) bool {
	ok := false
	allInstrs(fn, func(in ssa.Instruction) {
		call, isCall := in.(*ssa.Call)
		if !isCall || !callID(&call.Call).is(ttlvPath, "ttlvWriter", "encodeAppend") || len(call.Call.Args) < 5 {
			return
		}
		if l, isK := constIntVal(call.Call.Args[3]); !isK || l != 8 {
			return
		}
		guarded := false
		for _, dc := range dominatingConds(call.Block()) {
			if c, isC := dc.cond.(*ssa.Call); isC && dc.outcome && callID(&c.Call).is("math/big", "Int", "IsInt64") && c.Call.Args[0] == ssa.Value(fn.Params[2]) {
				guarded = true
			}
		}
		mc, isMC := call.Call.Args[4].(*ssa.MakeClosure)
		if !guarded || !isMC {
			return
		}
		cl := mc.Fn.(*ssa.Function)
		writes := 0
		good := false
		allInstrs(cl, func(i2 ssa.Instruction) {
			c2, isC := i2.(*ssa.Call)
			if !isC {
				return
			}
			id := callID(&c2.Call)
			if isBuiltinCall(&c2.Call) || id.pkg == "encoding/binary" {
				writes++
			}
			if id.pkg == "encoding/binary" && id.name == "AppendUint64" {
				v := c2.Call.Args[len(c2.Call.Args)-1]
				if cv, isCv := v.(*ssa.Convert); isCv {
					v = cv.X
				}
				v = unspill(v)
				// the captured Int64() result, or the call itself on the captured value
				src := v
				if fv, isFV := v.(*ssa.FreeVar); isFV {
					for i, f2 := range cl.FreeVars {
						if f2 == fv {
							src = mc.Bindings[i]
						}
					}
				}
				if ld, isLd := src.(*ssa.UnOp); isLd && ld.Op == token.MUL {
					if fv, isFV := ld.X.(*ssa.FreeVar); isFV {
						for i, f2 := range cl.FreeVars {
							if f2 == fv {
								if al, isAl := mc.Bindings[i].(*ssa.Alloc); isAl {
									for _, ref := range *al.Referrers() {
										if st, isSt := ref.(*ssa.Store); isSt && st.Addr == ssa.Value(al) {
											src = st.Val
										}
									}
								}
							}
						}
					}
				}
				if c3, isC3 := src.(*ssa.Call); isC3 && callID(&c3.Call).is("math/big", "Int", "Int64") {
					good = true
				}
			}
		})
		if good && writes == 1 {
			ok = true
		}
	})
	return ok
}

// c03T11: a value the binary writer rejects leaves no trace. Every panic of a ttlvWriter method happens before the
// method has emitted anything: not inside a value callback (the item header is already in the buffer when it runs)
// and not after an emission call. A caller that recovers and goes on writing would otherwise leave an orphan header,
// which an independent parser reads as the start of an item whose value is the next item's header.
func c03T11(r *Run) {
	r.Rule("C03.T11", "a ttlvWriter method panics only before it has emitted anything (no panic in a value callback or after an emission)", 1)
	n := 0
	emits := func(c *ssa.CallCommon) bool {
		id := callID(c)
		if id.pkg == ttlvPath && id.recv == "ttlvWriter" && strings.HasPrefix(id.name, "encodeAppend") {
			return true
		}
		return false
	}
	for _, fn := range pkgFuncs(r.P, "ttlv") {
		top := fn
		for top.Parent() != nil {
			top = top.Parent()
		}
		if id := idOf(top); id.recv != "ttlvWriter" {
			continue
		}
		allInstrs(fn, func(in ssa.Instruction) {
			pn, ok := in.(*ssa.Panic)
			if !ok {
				return
			}
			n++
			key := fmt.Sprintf("%s/panic#%d", fnKey(top), n)
			if fn != top {
				r.Bad("C03.T11", key, pn.Pos(), "%s panics inside a callback that runs after the item header was appended: the rejected item leaves its 8-byte header in the buffer, and whatever is written next is read as that item's value", fnKey(fn))
				return
			}
			after := false
			allInstrs(fn, func(i2 ssa.Instruction) {
				if c := callOf(i2); c != nil && emits(c) && i2.Block() != pn.Block() && i2.Block().Dominates(pn.Block()) {
					after = true
				}
				if c := callOf(i2); c != nil && emits(c) && i2.Block() == pn.Block() {
					for _, x := range i2.Block().Instrs {
						if x == i2 {
							after = true
							break
						}
						if x == ssa.Instruction(pn) {
							break
						}
					}
				}
			})
			if after {
				r.Bad("C03.T11", key, pn.Pos(), "%s panics after it has started to emit the item", fnKey(fn))
			} else {
				r.OK("C03.T11", key, pn.Pos(), "the value is rejected before anything is emitted")
			}
		})
	}
	if n == 0 {
		r.OK("C03.T11", "ttlv.ttlvWriter/panics", token.NoPos, "no ttlvWriter method panics")
	}
}
