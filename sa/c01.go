package main

// C01 — binary TTLV round trip preserves every message: encoder/decoder
// agreement for every struct type that can occur in a message.

import (
	"fmt"
	"go/token"
	"go/types"
	"sort"
	"strings"

	"golang.org/x/tools/go/ssa"
)

type reachInfo struct {
	refl     [2]map[*types.Named]string // reflectively coded struct types per direction (0=enc,1=dec) -> how reached
	custom   [2]map[*types.Named]string
	nonAddr  []string // custom(*T) reached at a non-addressable position
	unsup    []string
	visiting map[string]bool
}

type c01ctx struct {
	r        *Run
	p        *Program
	reg      *Registry
	m        *Model
	reach    *reachInfo
	opIface  *types.Interface
	objIface *types.Interface
	payloads []types.Type // pointers
	objects  []types.Type // pointers
	attrs    []types.Type // values
}

func newC01ctx(r *Run) *c01ctx {
	p := r.P
	c := &c01ctx{r: r, p: p}
	c.reg = BuildRegistry(p)
	c.m = NewModel(p, c.reg)
	root := p.Pkg("")
	if o := root.Types.Scope().Lookup("OperationPayload"); o != nil {
		c.opIface, _ = o.Type().Underlying().(*types.Interface)
	}
	if o := root.Types.Scope().Lookup("Object"); o != nil {
		c.objIface, _ = o.Type().Underlying().(*types.Interface)
	}
	seen := map[string]bool{}
	add := func(list *[]types.Type, t types.Type) {
		k := qualName(t)
		if !seen[k] {
			seen[k] = true
			*list = append(*list, t)
		}
	}
	for _, o := range c.reg.Ops {
		add(&c.payloads, types.NewPointer(o.Req))
		add(&c.payloads, types.NewPointer(o.Resp))
	}
	if o := root.Types.Scope().Lookup("UnknownPayload"); o != nil {
		add(&c.payloads, types.NewPointer(o.Type()))
	}
	for _, e := range c.reg.Objects {
		add(&c.objects, types.NewPointer(e.Type))
	}
	seenA := map[string]bool{}
	for _, e := range c.reg.Attrs {
		if !seenA[qualName(e.Type)] {
			seenA[qualName(e.Type)] = true
			c.attrs = append(c.attrs, e.Type)
		}
	}
	if tt := p.Pkg("ttlv"); tt != nil {
		if o := tt.Types.Scope().Lookup("Value"); o != nil {
			c.attrs = append(c.attrs, o.Type())
		}
	}
	return c
}

// implementers: the concrete types an interface-typed message field can hold.
func (c *c01ctx) implementers(it types.Type, dec bool) []types.Type {
	iface, ok := it.Underlying().(*types.Interface)
	if !ok {
		return nil
	}
	switch {
	case c.opIface != nil && types.Identical(iface, c.opIface):
		return c.payloads
	case c.objIface != nil && types.Identical(iface, c.objIface):
		return c.objects
	case iface.NumMethods() == 0:
		if dec {
			var out []types.Type
			for _, t := range c.attrs {
				out = append(out, types.NewPointer(t))
			}
			return out
		}
		return c.attrs
	}
	return nil
}

func (c *c01ctx) computeReach() {
	ri := &reachInfo{visiting: map[string]bool{}}
	for d := 0; d < 2; d++ {
		ri.refl[d] = map[*types.Named]string{}
		ri.custom[d] = map[*types.Named]string{}
	}
	c.reach = ri
	root := c.p.Pkg("")
	for _, n := range []string{"RequestMessage", "ResponseMessage"} {
		if o := root.Types.Scope().Lookup(n); o != nil {
			c.visit(o.Type(), 0, false, "Marshal("+n+" value)")
			c.visit(types.NewPointer(o.Type()), 0, true, "Marshal(*"+n+")")
			c.visit(types.NewPointer(o.Type()), 1, true, "Unmarshal(*"+n+")")
		}
	}
	for _, t := range c.payloads {
		c.visit(t, 0, true, "payload")
		c.visit(t, 1, true, "payload")
	}
	for _, t := range c.objects {
		c.visit(t, 0, true, "object")
		c.visit(t, 1, true, "object")
	}
	for _, t := range c.attrs {
		c.visit(t, 0, false, "attribute value (boxed in any)")
		c.visit(types.NewPointer(t), 1, true, "attribute value")
	}
}

func (c *c01ctx) visit(t types.Type, dir int, addressable bool, via string) {
	t = types.Unalias(t)
	key := fmt.Sprintf("%d|%v|%s", dir, addressable, qualName(t))
	if c.reach.visiting[key] {
		return
	}
	c.reach.visiting[key] = true
	enc := dir == 0
	k := c.m.KindOf(t, enc)
	switch k {
	case KCustomVal, KCustomPtr:
		n := namedOf(t)
		if n == nil {
			return
		}
		if _, ok := c.reach.custom[dir][n]; !ok {
			c.reach.custom[dir][n] = via
		}
		if k == KCustomPtr && !addressable {
			c.reach.nonAddr = append(c.reach.nonAddr, fmt.Sprintf("%s|%s|%s", []string{"encode", "decode"}[dir], qualName(n), via))
		}
		c.visitCoder(n, dir, qualName(n))
	case KPointer:
		c.visit(t.Underlying().(*types.Pointer).Elem(), dir, true, via)
	case KSlice:
		c.visit(t.Underlying().(*types.Slice).Elem(), dir, true, via)
	case KStruct:
		n := namedOf(t)
		if n == nil {
			c.reach.unsup = append(c.reach.unsup, fmt.Sprintf("anonymous struct reached via %s", via))
			return
		}
		if _, ok := c.reach.refl[dir][n]; !ok {
			c.reach.refl[dir][n] = via
		}
		sp := c.m.Plan(n)
		for i := range sp.Fields {
			fp := &sp.Fields[i]
			fvia := qualName(n) + "." + fp.Name
			if _, isI := fp.Type.Underlying().(*types.Interface); isI {
				for _, it := range c.implementers(fp.Type, !enc) {
					c.visit(it, dir, enc && false || !enc, fvia)
				}
				continue
			}
			c.visit(fp.Type, dir, addressable, fvia)
		}
	case KInterface:
		for _, it := range c.implementers(t, !enc) {
			c.visit(it, dir, !enc, via)
		}
	case KUnsupported:
		c.reach.unsup = append(c.reach.unsup, fmt.Sprintf("%s|%s|%s", []string{"encode", "decode"}[dir], qualName(t), via))
	}
}

// coderFuncs returns the hand-written coder functions of a type for a direction,
// including nested repository methods that receive the coder.
func (c *c01ctx) coderFuncs(n *types.Named, dir int) []*ssa.Function {
	rel := relPkg(n.Obj().Pkg().Path())
	name := []string{"TagEncodeTTLV", "TagDecodeTTLV"}[dir]
	fn := c.p.Func(rel, n.Obj().Name(), name)
	if fn == nil {
		return nil
	}
	var out []*ssa.Function
	seen := map[*ssa.Function]bool{}
	var add func(f *ssa.Function)
	coderT := []string{"Encoder", "Decoder"}[dir]
	add = func(f *ssa.Function) {
		if f == nil || seen[f] || f.Blocks == nil {
			return
		}
		seen[f] = true
		out = append(out, f)
		for _, a := range f.AnonFuncs {
			add(a)
		}
		allInstrs(f, func(in ssa.Instruction) {
			call, ok := in.(*ssa.Call)
			if !ok {
				return
			}
			callee := call.Call.StaticCallee()
			if callee == nil || callee.Pkg == nil || !strings.HasPrefix(callee.Pkg.Pkg.Path(), modPath) || callee.Pkg.Pkg.Path() == ttlvPath {
				return
			}
			for _, a := range call.Call.Args {
				if typeName(a.Type()) == coderT && typePkgPath(a.Type()) == ttlvPath {
					add(callee)
				}
			}
		})
	}
	add(fn)
	return out
}

// visitCoder follows what a hand-written coder hands to the reflective layer.
func (c *c01ctx) visitCoder(n *types.Named, dir int, via string) {
	coderT := []string{"Encoder", "Decoder"}[dir]
	for _, f := range c.coderFuncs(n, dir) {
		allInstrs(f, func(in ssa.Instruction) {
			call, ok := in.(*ssa.Call)
			if !ok {
				return
			}
			id := callID(&call.Call)
			if id.pkg != ttlvPath || id.recv != coderT {
				return
			}
			var arg ssa.Value
			switch id.name {
			case "Any":
				arg = call.Call.Args[1]
			case "TagAny", "Opt":
				arg = call.Call.Args[2]
			default:
				return
			}
			fvia := via + " (hand-written " + id.name + ")"
			if mi, ok := arg.(*ssa.MakeInterface); ok {
				t := mi.X.Type()
				if dir == 1 {
					// decode: argument is a pointer to the destination
					if pt, ok := t.Underlying().(*types.Pointer); ok {
						// Decoder.TagAny fast-paths *T for builtin kinds; everything else is decodeValue(elem)
						c.visit(pt.Elem(), dir, true, fvia)
					}
					return
				}
				_, isPtr := t.Underlying().(*types.Pointer)
				c.visit(t, dir, isPtr, fvia)
				return
			}
			// an interface value passed through
			for _, it := range c.implementers(arg.Type(), dir == 1) {
				c.visit(it, dir, true, fvia)
			}
			if cl, ok := arg.(*ssa.Call); ok && callID(&cl.Call).is("reflect", "Value", "Interface") {
				for _, it := range c.implementers(types.NewInterfaceType(nil, nil), dir == 1) {
					c.visit(it, dir, true, fvia)
				}
			}
		})
	}
}

func sortedNamed(m map[*types.Named]string) []*types.Named {
	var out []*types.Named
	for n := range m {
		out = append(out, n)
	}
	sort.Slice(out, func(i, j int) bool { return qualName(out[i]) < qualName(out[j]) })
	return out
}

func runC01(r *Run, verifDir string) {
	c := newC01ctx(r)
	reg, m := c.reg, c.m
	r.Explain = append(r.Explain,
		"C01 is decided as encoder/decoder agreement for every struct type that can occur in a message (a necessary condition of the round trip: if the two sides disagree on the sequence of (tag, field) for some struct, some message of that shape does not round-trip).",
		"P1: every struct reachable from the root messages, payloads, objects and attribute values (following the real dispatch per direction) has a total reflective plan — tags resolve, kinds are supported on both sides, no interface-typed field is decoded reflectively, pointer-receiver coders are only reached at addressable positions. P2: no optional/repeated field can steal a same-tag successor's items. P3: every named uint32 field type is a registered enumeration. P4: each hand-written decoder is compared, on every acyclic success path, position by position with the encoder of the same struct: same tag, destination field = source field, optional elements decoded optionally, nothing after an optional element dropped; choice types emit and accept the same alternatives. P5: ttlv.Value produces and accepts the same ten dynamic types with matching reader/writer methods.")
	r.Assume = append(r.Assume, "M1/M2 mirror the registry and the reflective coder (probed on every run)", "source order of calls in a loop-free hand-written encoder is its emission order", "SSA path enumeration bound 4096 simple paths per coder (exceeding it fails the check)")
	r.NotCov = append(r.NotCov, "value-level equality: two's-complement conversion, padding arithmetic, time.Time/big.Int equality, byte-identity of re-encoding", "integers over their full range, big integers of any size")

	r.Rule("C01.M", "model conformance probes (M1, M2)", 1)
	probs := append(append([]string{}, reg.Problems...), m.Problems...)
	if len(probs) == 0 {
		r.OK("C01.M", "probes", token.NoPos, "all model probes hold")
	}
	for i, s := range probs {
		r.Unk("C01.M", fmt.Sprintf("probe#%d", i), token.NoPos, "%s", s)
	}
	c.computeReach()

	// ---------------- P1 plan totality
	r.Rule("C01.P1", "every reflectively coded struct field resolves to a tag and a kind supported in that direction; addressability of pointer-receiver coders", 400)
	for dir := 0; dir < 2; dir++ {
		dname := []string{"encode", "decode"}[dir]
		for _, n := range sortedNamed(c.reach.refl[dir]) {
			sp := m.Plan(n)
			for i := range sp.Fields {
				fp := &sp.Fields[i]
				key := fmt.Sprintf("plan/%s/%s.%s", dname, qualName(n), fp.Name)
				k := m.KindOf(fp.Type, dir == 0)
				_, isIface := fp.Type.Underlying().(*types.Interface)
				switch {
				case fp.Err != "":
					r.Bad("C01.P1", key, fp.Var.Pos(), "the library panics when this type is first %sd: %s", dname, fp.Err)
				case k == KUnsupported:
					r.Bad("C01.P1", key, fp.Var.Pos(), "field type %s is not supported by the %sr (panic \"Unsupported type\" on first use; reached via %s)", qualName(fp.Type), dname, c.reach.refl[dir][n])
				case dir == 1 && isIface && k != KCustomVal:
					r.Bad("C01.P1", key, fp.Var.Pos(), "interface-typed field is decoded reflectively: decodeValue on a nil interface panics (\"value must be a pointer\"); such structs need a hand-written decoder that pre-populates the value (reached via %s)", c.reach.refl[dir][n])
				case fp.Dynamic:
					// every implementer must have a default tag
					missing := []string{}
					for _, it := range c.implementers(fp.Type, dir == 1) {
						if _, ok := reg.TagForType(it); !ok {
							missing = append(missing, qualName(it))
						}
					}
					if len(missing) > 0 {
						r.Bad("C01.P1", key, fp.Var.Pos(), "dynamic-tag interface field: %v have no default tag, encoding them panics", missing)
					} else {
						r.OK("C01.P1", key, fp.Var.Pos(), "dynamic tag: all %d implementers resolve to a tag", len(c.implementers(fp.Type, dir == 1)))
					}
				default:
					r.OK("C01.P1", key, fp.Var.Pos(), "tag %s (%s), kind %s", reg.TagName(fp.Tag), fp.TagSource, k)
				}
			}
		}
	}
	for _, s := range c.reach.unsup {
		parts := strings.Split(s, "|")
		r.Bad("C01.P1", "unsupported/"+strings.Join(parts[:min(2, len(parts))], "/"), token.NoPos, "type not supported by the reflective coder: %s", s)
	}
	for _, s := range c.reach.nonAddr {
		parts := strings.Split(s, "|")
		r.Bad("C01.P1", "addressable/"+parts[0]+"/"+parts[1], token.NoPos, "%s has a pointer-receiver coder but is reached by value at a non-addressable position (%s): the library panics with \"cannot be addressed\"", parts[1], parts[2])
	}
	r.Extra["reflective_structs_encode"] = len(c.reach.refl[0])
	r.Extra["reflective_structs_decode"] = len(c.reach.refl[1])
	r.Extra["custom_coded_types_encode"] = len(c.reach.custom[0])
	r.Extra["custom_coded_types_decode"] = len(c.reach.custom[1])

	// ---------------- P2 unambiguous sequence
	r.Rule("C01.P2", "no optional or repeated field is followed (through optional fields only) by a field with the same tag", 80)
	for _, n := range sortedNamed(c.reach.refl[1]) {
		sp := m.Plan(n)
		bad := false
		for i := range sp.Fields {
			fi := &sp.Fields[i]
			if fi.Dynamic || fi.Tag == 0 {
				continue
			}
			ki := m.KindOf(fi.Type, false)
			greedy := ki == KSlice || m.OptionalOnDecode(fi) || fi.VRange != nil
			if !greedy {
				continue
			}
			for j := i + 1; j < len(sp.Fields); j++ {
				fj := &sp.Fields[j]
				if fj.Tag == fi.Tag && !fj.Dynamic {
					bad = true
					r.Bad("C01.P2", fmt.Sprintf("seq/%s.%s", qualName(n), fi.Name), fi.Var.Pos(), "field %s (optional or repeated, tag %s) is followed by field %s with the same tag: on decode the first consumes the items of the second", fi.Name, reg.TagName(fi.Tag), fj.Name)
					break
				}
				if !(m.OptionalOnDecode(fj) || m.KindOf(fj.Type, false) == KSlice || fj.VRange != nil) {
					break // a required field with another tag separates them
				}
			}
		}
		if !bad {
			r.OK("C01.P2", "seq/"+qualName(n), n.Obj().Pos(), "%d fields, no same-tag ambiguity", len(sp.Fields))
		}
	}

	// ---------------- P3 enum registration
	r.Rule("C01.P3", "every named uint32 type used as a message field is a registered enumeration (else it is coded as Long Integer)", 40)
	seenT := map[string]bool{}
	var checkT func(t types.Type, pos token.Pos, via string)
	checkT = func(t types.Type, pos token.Pos, via string) {
		t = types.Unalias(t)
		switch u := t.(type) {
		case *types.Pointer:
			checkT(u.Elem(), pos, via)
			return
		case *types.Slice:
			checkT(u.Elem(), pos, via)
			return
		}
		n, ok := t.(*types.Named)
		if !ok || n.Obj().Pkg() == nil || !strings.HasPrefix(n.Obj().Pkg().Path(), modPath) {
			return
		}
		b, ok := n.Underlying().(*types.Basic)
		if !ok || seenT[qualName(n)] {
			return
		}
		seenT[qualName(n)] = true
		switch b.Kind() {
		case types.Uint32:
			if reg.EnumForType(n) == nil {
				r.Bad("C01.P3", "enum/"+qualName(n), n.Obj().Pos(), "type %s (uint32) is used in %s but never registered with RegisterEnum: it is coded as a Long Integer, not an Enumeration", qualName(n), via)
			} else {
				r.OK("C01.P3", "enum/"+qualName(n), n.Obj().Pos(), "registered under %s", reg.TagName(reg.EnumForType(n).Tag))
			}
		case types.Int32:
			if reg.MaskForType(n) == nil {
				r.Bad("C01.P3", "mask/"+qualName(n), n.Obj().Pos(), "type %s (int32) is used in %s but not registered with RegisterBitmask", qualName(n), via)
			} else {
				r.OK("C01.P3", "mask/"+qualName(n), n.Obj().Pos(), "registered under %s", reg.TagName(reg.MaskForType(n).Tag))
			}
		}
	}
	for dir := 0; dir < 2; dir++ {
		for _, n := range sortedNamed(c.reach.refl[dir]) {
			for _, fp := range m.Plan(n).Fields {
				checkT(fp.Type, fp.Var.Pos(), qualName(n)+"."+fp.Name)
			}
		}
		for _, n := range sortedNamed(c.reach.custom[dir]) {
			if st, ok := n.Underlying().(*types.Struct); ok {
				for i := 0; i < st.NumFields(); i++ {
					checkT(st.Field(i).Type(), st.Field(i).Pos(), qualName(n)+"."+fname(st.Field(i)))
				}
			}
		}
	}
	for _, t := range c.attrs {
		checkT(t, token.NoPos, "attrTypes")
	}

	// ---------------- P4 hand-written codec agreement
	r.Rule("C01.P4", "each hand-written decoder agrees with the encoder of the same struct on every success path (tag, destination = source, optionality, nothing dropped)", 10)
	c.checkHandWritten()

	// ---------------- P5 ttlv.Value
	r.Rule("C01.P5", "ttlv.Value decodes to and encodes from the same ten dynamic types with matching reader/writer methods", 10)
	c.checkValue()
	valueStorageFresh(r, "C01.P6")
	valueTagRecorded(r, "C01.P5")
	(&lexCtx{r: r, p: r.P, ord: map[string]int{}}).x4BinaryReaderTotalAs("C01.P7")
	r.Import("C01.P8", "the binary writer emits a Big Integer only as the sign-extended two's complement of bigIntToBytes (a value of any magnitude and sign decodes to itself)", 2, "C03", "C03.T3", func(k string) bool { return strings.Contains(k, "BigInteger") })
	r.Import("C01.P9", "bigIntToBytes tests the top bit of the first byte on every non-zero path (both signs): a number whose leading bit disagrees with its sign gets its sign word", 1, "C03", "C03.T6", nil)
}

// valueTagRecorded: ttlv.Value.TagDecodeTTLV records the tag it was asked to decode on every path that can return
// a nil error. The generic value is what unknown attributes, vendor extensions and opaque payloads are kept in; its
// callers (Decoder.TagAny, the attribute decoder) do not go through Value.DecodeTTLV, so a tag recorded only there
// leaves them with tag 0 and the preserved item re-encodes under tag 000000.
func valueTagRecorded(r *Run, rule string) {
	p := r.P
	fn := p.Func("ttlv", "Value", "TagDecodeTTLV")
	key := "ttlv.Value.TagDecodeTTLV/tag-recorded"
	if fn == nil || len(fn.Params) < 3 {
		r.Unk(rule, key, token.NoPos, "anchor missing")
		return
	}
	tagParam := fn.Params[2]
	var stores []ssa.Instruction
	allInstrs(fn, func(in ssa.Instruction) {
		st, ok := in.(*ssa.Store)
		if !ok {
			return
		}
		fa, ok := st.Addr.(*ssa.FieldAddr)
		if !ok || fa.X != ssa.Value(fn.Params[0]) {
			return
		}
		if fname(derefStruct(fa.X.Type()).Field(fa.Field)) == "Tag" && unspill(st.Val) == ssa.Value(tagParam) {
			stores = append(stores, in)
		}
	})
	paths, okP := enumeratePaths(fn, 4096)
	if !okP {
		r.Unk(rule, key, fn.Pos(), "too many paths")
		return
	}
	bad := token.NoPos
	for _, path := range paths {
		last := path[len(path)-1]
		ret := last.Instrs[len(last.Instrs)-1].(*ssa.Return)
		if len(ret.Results) != 1 {
			continue
		}
		v := ret.Results[0]
		if ph, ok := v.(*ssa.Phi); ok && ph.Block() == last && len(path) > 1 {
			if pi := predIndex(last, path[len(path)-2]); pi >= 0 {
				v = ph.Edges[pi]
			}
		}
		errPath, inf, stored := false, false, false
		switch x := v.(type) {
		case *ssa.Call:
			id := callID(&x.Call)
			if id.pkg == "fmt" || id.pkg == "errors" || id.is(ttlvPath, "", "Errorf") {
				errPath = true
			}
		case *ssa.MakeInterface:
			errPath = true
		}
		for i, b := range path {
			for _, in := range b.Instrs {
				for _, st := range stores {
					if in == st {
						stored = true
					}
				}
			}
			cond, isTrue, ok, infeasible := edgeOnPath(path, i)
			if infeasible {
				inf = true
			}
			if !ok {
				continue
			}
			// `err != nil` taken: an error path (the value tested is an error-typed value)
			if bo, isB := cond.(*ssa.BinOp); isB && isNilConst(bo.Y) && (bo.Op == token.NEQ) == isTrue && (bo.Op == token.NEQ || bo.Op == token.EQL) {
				if types.Identical(bo.X.Type(), types.Universe.Lookup("error").Type()) {
					errPath = true
				}
			}
		}
		if inf || errPath || stored {
			continue
		}
		bad = ret.Pos()
		if !bad.IsValid() {
			bad = fn.Pos()
		}
	}
	if bad.IsValid() {
		r.Bad(rule, key, bad, "Value.TagDecodeTTLV can return without an error and without having recorded the tag it decoded (v.Tag = tag): callers that decode a generic value under a given tag (Decoder.TagAny for unknown attribute values, server information, vendor extensions) keep an item whose tag is 0, which re-encodes under tag 000000 instead of its own")
	} else {
		r.OK(rule, key, fn.Pos(), "%d path(s): every return that can carry a nil error follows v.Tag = tag", len(paths))
	}
}

// valueStorageFresh: the generic tree decoders (methods of ttlv.Value and ttlv.Struct) never truncate-and-reuse a
// slice (`s[:0]`) they did not just create: a container decoded into the storage of an earlier one shares its backing
// array with it, so decoding the next sibling structure overwrites the children of the previous one — the decoded tree
// differs from the message and re-encoding produces other bytes.
func valueStorageFresh(r *Run, rule string) {
	p := r.P
	r.Rule(rule, "the generic tree decoder never reuses the storage of a previously decoded container (no s[:0] of an existing slice)", 1)
	n, nFn := 0, 0
	for _, fn := range pkgFuncs(p, "ttlv") {
		id := idOf(fn)
		top := fn
		for top.Parent() != nil {
			top = top.Parent()
		}
		tid := idOf(top)
		if tid.recv != "Value" && tid.recv != "Struct" {
			continue
		}
		if !strings.Contains(tid.name, "Decode") {
			continue
		}
		_ = id
		nFn++
		allInstrs(fn, func(in ssa.Instruction) {
			sl, ok := in.(*ssa.Slice)
			if !ok || sl.Low != nil || sl.High == nil {
				return
			}
			if _, isSlice := sl.X.Type().Underlying().(*types.Slice); !isSlice {
				return
			}
			if k, isK := constIntVal(sl.High); !isK || k != 0 {
				return
			}
			switch unspill(sl.X).(type) {
			case *ssa.MakeSlice, *ssa.Alloc:
				return
			}
			n++
			r.Bad(rule, fmt.Sprintf("%s/reuse#%d", fnKey(fn), n), sl.Pos(), "%s truncates an existing slice to length 0 and decodes into it: the container decoded next shares its backing array with the one decoded before (two adjacent sibling structures: the children of the first are overwritten by those of the second), so the decoded tree is not the message", fnKey(fn))
		})
	}
	switch {
	case nFn == 0:
		r.Unk(rule, "ttlv.Value/decoders", token.NoPos, "no decoder method of ttlv.Value / ttlv.Struct found")
	case n == 0:
		r.OK(rule, "ttlv.Value/fresh-storage", token.NoPos, "%d decoder function(s) of ttlv.Value/ttlv.Struct: none decodes into truncated existing storage", nFn)
	}
}

// handDecoders lists (type, decoder function) for every struct type with a hand-written decoder.
func (c *c01ctx) handDecoders() []*ssa.Function {
	var out []*ssa.Function
	seen := map[*ssa.Function]bool{}
	for _, fn := range c.p.OwnFuncs() {
		if fn.Parent() != nil || fn.Signature.Recv() == nil || fn.Synthetic != "" {
			continue
		}
		if fn.Origin() != nil {
			continue
		}
		n := namedOf(fn.Signature.Recv().Type())
		if n == nil {
			continue
		}
		if _, isStruct := n.Underlying().(*types.Struct); !isStruct {
			continue
		}
		takesDecoder := false
		for _, prm := range fn.Params[1:] {
			if typeName(prm.Type()) == "Decoder" && typePkgPath(prm.Type()) == ttlvPath {
				takesDecoder = true
			}
		}
		if !takesDecoder || seen[fn] {
			continue
		}
		pk := fn.Pkg.Pkg.Path()
		if pk != modPath && pk != modPath+"/payloads" && pk != ttlvPath {
			continue // server/client/test helpers decode messages, not message structs
		}
		seen[fn] = true
		out = append(out, fn)
	}
	sort.Slice(out, func(i, j int) bool { return fnKey(out[i]) < fnKey(out[j]) })
	return out
}

func (c *c01ctx) encoderElems(n *types.Named) (elems []EncElem, hand bool, problems []string) {
	rel := relPkg(n.Obj().Pkg().Path())
	if fn := c.p.Func(rel, n.Obj().Name(), "TagEncodeTTLV"); fn != nil {
		cf := findCodec(c.p, fn, "Encoder")
		if cf == nil {
			return nil, true, []string{"hand-written encoder shape not recognised"}
		}
		e, pr := cf.encodeElems(c.reg, c.m)
		return e, true, pr
	}
	return planElems(c.m, n), false, nil
}

func sameTag(e EncElem, d DecEvent) bool {
	if e.TagParam || d.TagParam {
		return e.TagParam == d.TagParam
	}
	if e.Dynamic || d.Dynamic {
		return e.Dynamic == d.Dynamic
	}
	return e.Tag == d.Tag
}

func (c *c01ctx) checkHandWritten() {
	r, reg, m := c.r, c.reg, c.m
	for _, fn := range c.handDecoders() {
		n := namedOf(fn.Signature.Recv().Type())
		key := fnKey(fn)
		if n.Obj().Pkg().Path() == ttlvPath {
			continue // ttlv.Value / ttlv.Struct: P5
		}
		cf := findCodec(c.p, fn, "Decoder")
		if cf == nil {
			r.Unk("C01.P4", key, fn.Pos(), "hand-written decoder shape not recognised (receiver/decoder parameter)")
			continue
		}
		enc, hand, eprobs := c.encoderElems(n)
		for _, s := range eprobs {
			r.Unk("C01.P4", key+"/encoder", fn.Pos(), "%s", s)
		}
		paths, nAll, probs := cf.decodePaths(c.p, reg, m)
		for _, s := range probs {
			r.Unk("C01.P4", key+"/paths", fn.Pos(), "%s", s)
		}
		if len(paths) == 0 {
			r.Unk("C01.P4", key, fn.Pos(), "no success path found among %d paths", nAll)
			continue
		}
		// delegating decoders (UnknownPayload): the body is a single nested decode of one field
		isChoice := len(enc) > 0
		for _, e := range enc {
			if !e.TagParam {
				isChoice = false
			}
		}
		encDesc := []string{}
		for _, e := range enc {
			encDesc = append(encDesc, e.String())
		}
		r.Samples = append(r.Samples, map[string]any{"decoder": key, "encoder_hand_written": hand, "encoder_elements": encDesc, "success_paths": len(paths), "all_paths": nAll, "first_path": fmt.Sprint(paths[0].events)})
		if isChoice {
			c.checkChoice(fn, cf, n, enc, paths)
			continue
		}
		type finding struct {
			elem, msg string
			pos       token.Pos
		}
		found := map[string]finding{}
		helper := ""
		report := func(elem string, pos token.Pos, f string, a ...any) {
			k := elem + "|" + fmt.Sprintf(f, a...)
			if _, ok := found[k]; !ok {
				found[k] = finding{elem, fmt.Sprintf(f, a...), pos}
			}
		}
		for _, dp := range paths {
			i := 0
			guardF := map[int64]bool{}
			guardT := map[int64]bool{}
			decoded := map[string]bool{}
			justify := func(e EncElem, pos token.Pos, atEnd bool) {
				switch {
				case !e.MayOmit:
					report(e.Src, pos, "required element %s (source field %s) is not decoded on a success path", e.String(), e.Src)
				case e.Tag > 0 && guardF[e.Tag]:
				default:
					if atEnd {
						report(e.Src, pos, "element %s may follow on the wire but a success path returns without decoding it and without testing its absence: it is silently dropped", e.String())
					} else {
						report(e.Src, pos, "element %s is skipped on a success path that did not establish its absence (no Opt, no Tag() test): when present it is dropped or misread", e.String())
					}
				}
			}
			for _, ev := range dp.events {
				switch ev.Kind {
				case DGuard:
					if ev.Outcome {
						guardT[ev.Tag] = true
					} else {
						guardF[ev.Tag] = true
					}
					continue
				case DTGuard, DPrealloc:
					if ev.Kind == DPrealloc && ev.Disc != "" && !decoded[ev.Disc] {
						report(ev.Disc, ev.Pos, "%s is chosen from field %s before that field is decoded on this path", ev.Method, ev.Disc)
					}
					continue
				case DNext:
					report("Next", ev.Pos, "a success path skips an element with d.Next() without storing it")
					continue
				case DHelper:
					helper = ev.Method
					continue
				}
				if ev.Tag == -1 {
					report(ev.Dest, ev.Pos, "tag of %s is not a constant the analysis can read", ev.String())
					continue
				}
				if ev.Dest == "?" {
					report("?", ev.Pos, "destination of %s is not a field of the receiver", ev.String())
					continue
				}
				// locate the encoder element this event consumes
				j := -1
				for k := i; k < len(enc); k++ {
					if sameTag(enc[k], ev) {
						j = k
						break
					}
				}
				if j < 0 {
					report(ev.Dest, ev.Pos, "decoder reads %s, which the encoder of %s never writes at or after this position (encoder order: %s)", ev.String(), qualName(n), strings.Join(encDesc, " "))
					continue
				}
				for k := i; k < j; k++ {
					justify(enc[k], ev.Pos, false)
				}
				e := enc[j]
				if e.Src != ev.Dest {
					report(e.Src, ev.Pos, "element %s is written from field %s but decoded into field %s", reg.TagName(e.Tag), e.Src, ev.Dest)
				} else if e.MayOmit && !e.Iface && !ev.Optional && !(e.Tag > 0 && guardT[e.Tag]) {
					report(e.Src, ev.Pos, "element %s may be omitted by the encoder but the decoder requires it (no Opt, no Tag() test, destination not a pointer/slice)", e.String())
				}
				if ev.Kind == DNested && ev.Disc != "" && !strings.HasPrefix(ev.Disc, "param:") && !decoded[ev.Disc] {
					report(ev.Dest, ev.Pos, "nested decode of %s is driven by field %s, which is not decoded earlier on this path", ev.Dest, ev.Disc)
				}
				decoded[ev.Dest] = true
				i = j + 1
				guardF, guardT = map[int64]bool{}, map[int64]bool{}
			}
			for k := i; k < len(enc); k++ {
				last := dp.blocks[len(dp.blocks)-1]
				justify(enc[k], last.Instrs[len(last.Instrs)-1].Pos(), true)
			}
		}
		if helper != "" {
			r.Unk("C01.P4", key, fn.Pos(), "the decoder hands its *ttlv.Decoder to the helper %s, whose reads this rule does not follow: the element sequence cannot be compared (inline the helper's reads or extend the rule)", helper)
			continue
		}
		// one obligation per encoder element (+ extras)
		byElem := map[string][]finding{}
		for _, f := range found {
			byElem[f.elem] = append(byElem[f.elem], f)
		}
		names := map[string]bool{}
		for _, e := range enc {
			names[e.Src] = true
			k := key + "/" + e.Src
			if fs := byElem[e.Src]; len(fs) > 0 {
				sort.Slice(fs, func(a, b int) bool { return fs[a].msg < fs[b].msg })
				for _, f := range fs {
					r.Bad("C01.P4", k, f.pos, "%s", f.msg)
				}
			} else {
				r.OK("C01.P4", k, e.Pos, "%s decoded into the same field on all %d success paths", e.String(), len(paths))
			}
		}
		for el, fs := range byElem {
			if names[el] {
				continue
			}
			for _, f := range fs {
				r.Bad("C01.P4", key+"/"+el, f.pos, "%s", f.msg)
			}
		}
	}
}

// checkChoice: a type whose encoder writes alternatives under the caller's tag.
func (c *c01ctx) checkChoice(fn *ssa.Function, cf *codecFn, n *types.Named, enc []EncElem, paths []decPath) {
	r := c.r
	key := fnKey(fn)
	encAlt := map[string]bool{}
	for _, e := range enc {
		encAlt[e.Src] = true
	}
	decAlt := map[string]token.Pos{}
	for _, dp := range paths {
		nConsume := 0
		for _, ev := range dp.events {
			switch ev.Kind {
			case DAny, DTagAny, DOpt, DTyped, DNested:
				nConsume++
				if ev.Kind == DNested && ev.Dest == "?" {
					continue
				}
				decAlt[ev.Dest] = ev.Pos
				if !ev.TagParam && ev.Kind != DNested {
					r.Bad("C01.P4", key+"/"+ev.Dest+"/tag", ev.Pos, "alternative %s is decoded under a fixed tag although the encoder writes it under the caller's tag", ev.Dest)
				}
			}
		}
		if nConsume != 1 {
			last := dp.blocks[len(dp.blocks)-1]
			r.Bad("C01.P4", key+"/paths", last.Instrs[len(last.Instrs)-1].Pos(), "a success path of the choice decoder consumes %d elements instead of exactly one", nConsume)
		}
	}
	var all []string
	for a := range encAlt {
		all = append(all, a)
	}
	for a := range decAlt {
		if !encAlt[a] {
			all = append(all, a)
		}
	}
	sort.Strings(all)
	for _, a := range all {
		k := key + "/" + a
		_, d := decAlt[a]
		switch {
		case encAlt[a] && d:
			r.OK("C01.P4", k, decAlt[a], "alternative %s is written by the encoder and filled by the decoder", a)
		case encAlt[a]:
			r.Bad("C01.P4", k, fn.Pos(), "alternative %s can be written by the encoder but no decoder branch fills it: such a value does not survive a round trip", a)
		default:
			r.Bad("C01.P4", k, decAlt[a], "the decoder fills %s, which the encoder never writes", a)
		}
	}
}

func (c *c01ctx) checkValue() {
	r, p := c.r, c.p
	dec := p.Func("ttlv", "Value", "TagDecodeTTLV")
	enc := p.Func("ttlv", "Value", "TagEncodeTTLV")
	if dec == nil || enc == nil {
		r.Unk("C01.P5", "ttlv.Value", token.NoPos, "anchor missing: ttlv.Value.TagDecodeTTLV/TagEncodeTTLV")
		return
	}
	// decode: MakeInterface stored into v.Value; source call method
	decT := map[string]string{}
	allInstrs(dec, func(in ssa.Instruction) {
		st, ok := in.(*ssa.Store)
		if !ok {
			return
		}
		_, fld, ok := fieldAddrOf(st.Addr)
		if !ok || fname(fld) != "Value" {
			return
		}
		mi, ok := st.Val.(*ssa.MakeInterface)
		if !ok {
			return
		}
		tn := qualName(mi.X.Type())
		meth := ""
		v := mi.X
		for depth := 0; depth < 6 && meth == ""; depth++ {
			switch x := v.(type) {
			case *ssa.Extract:
				v = x.Tuple
			case *ssa.ChangeType:
				v = x.X
			case *ssa.Convert:
				v = x.X
			case *ssa.UnOp:
				v = x.X
			case *ssa.Call:
				id := callID(&x.Call)
				if id.pkg == ttlvPath && (id.recv == "Decoder" || id.recv == "Struct") {
					meth = id.name
				}
				depth = 99
			case *ssa.Alloc:
				// val := Struct{}; err = val.TagDecodeTTLV(d, tag); v.Value = val
				for _, ref := range *x.Referrers() {
					if cl, ok := ref.(*ssa.Call); ok {
						id := callID(&cl.Call)
						if id.pkg == ttlvPath && id.recv == "Struct" {
							meth = "Struct"
						}
					}
				}
				depth = 99
			default:
				depth = 99
			}
		}
		decT[tn] = meth
	})
	encT := map[string]string{}
	allInstrs(enc, func(in ssa.Instruction) {
		ta, ok := in.(*ssa.TypeAssert)
		if !ok || !ta.CommaOk {
			return
		}
		tn := qualName(ta.AssertedType)
		// the call made in the block taken when ok
		meth := ""
		for _, ref := range *ta.Referrers() {
			ex, ok := ref.(*ssa.Extract)
			if !ok || ex.Index != 0 {
				continue
			}
			for _, r2 := range *ex.Referrers() {
				if cl, ok := r2.(*ssa.Call); ok {
					id := callID(&cl.Call)
					if id.pkg == ttlvPath && (id.recv == "Encoder" || id.recv == "Struct") {
						meth = id.name
						if id.recv == "Struct" {
							meth = "Struct"
						}
					}
				}
				if cv, ok := r2.(*ssa.Convert); ok {
					for _, r3 := range *cv.Referrers() {
						if cl, ok := r3.(*ssa.Call); ok && callID(&cl.Call).pkg == ttlvPath {
							meth = callID(&cl.Call).name
						}
					}
				}
				if cv, ok := r2.(*ssa.ChangeType); ok {
					for _, r3 := range *cv.Referrers() {
						if cl, ok := r3.(*ssa.Call); ok && callID(&cl.Call).pkg == ttlvPath {
							meth = callID(&cl.Call).name
						}
					}
				}
			}
		}
		encT[tn] = meth
	})
	all := map[string]bool{}
	for t := range decT {
		all[t] = true
	}
	for t := range encT {
		all[t] = true
	}
	var names []string
	for t := range all {
		names = append(names, t)
	}
	sort.Strings(names)
	for _, t := range names {
		dm, d := decT[t]
		em, e := encT[t]
		key := "ttlv.Value/" + t
		switch {
		case d && !e:
			r.Bad("C01.P5", key, enc.Pos(), "the generic decoder produces %s but the generic encoder does not accept it: re-encoding an unknown payload or attribute panics", t)
		case e && !d:
			r.Trivial("C01.P5", key, enc.Pos(), "%s accepted by the encoder only (never produced by the decoder)", t)
		case dm == "" || em == "":
			r.Unk("C01.P5", key, dec.Pos(), "reader/writer method for %s not identified (dec=%q enc=%q)", t, dm, em)
		case dm != em && !(dm == "Struct" && em == "TagEncodeTTLV") && !(dm == "TagDecodeTTLV" && em == "TagEncodeTTLV") && !(dm == "Struct" && em == "Struct"):
			r.Bad("C01.P5", key, dec.Pos(), "%s is read with %s but written with %s", t, dm, em)
		default:
			r.OK("C01.P5", key, dec.Pos(), "%s: read with %s, written with %s", t, dm, em)
		}
	}
}
