package main

import (
	"go/ast"
	"go/token"
	"sort"
	"strconv"

	"golang.org/x/tools/go/packages"
)

// inspectStrings collects the values of all string literals in fd.
func inspectStrings(pk *packages.Package, fd *ast.FuncDecl, have map[string]bool) {
	ast.Inspect(fd, func(n ast.Node) bool {
		if bl, ok := n.(*ast.BasicLit); ok && bl.Kind == token.STRING {
			if s, err := strconv.Unquote(bl.Value); err == nil {
				have[s] = true
			}
		}
		return true
	})
}

// callOrder lists, in source order, the names (identifier or selector) of the
// calls in fd that are among names.
func callOrder(pk *packages.Package, fd *ast.FuncDecl, names []string) []string {
	want := map[string]bool{}
	for _, n := range names {
		want[n] = true
	}
	type hit struct {
		pos  token.Pos
		name string
	}
	var hits []hit
	ast.Inspect(fd, func(n ast.Node) bool {
		call, ok := n.(*ast.CallExpr)
		if !ok {
			return true
		}
		var name string
		var pos token.Pos
		switch f := call.Fun.(type) {
		case *ast.Ident:
			name, pos = f.Name, f.Pos()
		case *ast.SelectorExpr:
			name, pos = f.Sel.Name, f.Sel.Pos()
		case *ast.IndexExpr:
			if id, ok := f.X.(*ast.Ident); ok {
				name, pos = id.Name, id.Pos()
			}
		}
		if want[name] {
			hits = append(hits, hit{pos, name})
		}
		return true
	})
	sort.Slice(hits, func(i, j int) bool { return hits[i].pos < hits[j].pos })
	var out []string
	for _, h := range hits {
		out = append(out, h.name)
	}
	return out
}
