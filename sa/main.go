package main

import (
	"encoding/json"
	"flag"
	"fmt"
	"os"
	"path/filepath"
	"runtime/debug"
	"sort"
	"strconv"
	"strings"
)

type propFunc func(r *Run, verifDir string)

var props map[string]propFunc

func init() {
	props = map[string]propFunc{
		"C01": runC01, "C02": runC02, "C03": runC03, "C04": runC04, "C05": runC05,
		"C06": runC06, "C07": runC07, "C08": runC08, "C09": runC09, "C10": runC10,
		"C11": runC11, "C12": runC12, "C13": runC13, "C14": runC14, "C15": runC15,
		"C16": runC16, "C17": runC17, "C18": runC18, "C19": runC19, "C20": runC20,
	}
}

func main() {
	repo := flag.String("repo", "/repo", "repository root")
	prop := flag.String("prop", "", "property id (C01..C20)")
	tier := flag.String("tier", "quick", "quick|thorough")
	evidence := flag.String("evidence", "", "evidence file to write")
	verif := flag.String("verif", "/verif", "verification directory (ref/, known_findings.txt, out/)")
	replay := flag.String("replay", "", "violation report to re-evaluate")
	gen := flag.String("gen", "", "generate a reference file: registry")
	goarch := flag.String("goarch", "", "GOARCH for the load (thorough)")
	tests := flag.Bool("tests", false, "load test variants too")
	outdir := flag.String("outdir", "", "directory for violation reports (default <verif>/out)")
	mutants := flag.String("mutants", "", "mutant-corpus result file to include in the evidence (thorough)")
	benign := flag.String("benign", "", "JSON produced by benign.sh, copied into the evidence")
	flag.Parse()
	defer func() {
		// a rule that panics has met code outside what it understands: the property is undecided, not held
		if rec := recover(); rec != nil {
			fmt.Printf("-: %s: kind=undecided construct=analyser: internal error while analysing the tree: %v\n%s\n", *prop, rec, debug.Stack())
			if *prop != "" {
				od := filepath.Join(*verif, "out")
				if *outdir != "" {
					od = *outdir
				}
				_ = os.MkdirAll(od, 0o755)
				rp := filepath.Join(od, *prop+".violations.json")
				_ = os.WriteFile(rp, []byte(fmt.Sprintf("{\"property\":%q,\"internal_error\":%q}\n", *prop, fmt.Sprint(rec))), 0o644)
				fmt.Printf("VIOLATION property=%s replay=%s\n", *prop, rp)
			}
			os.Exit(1)
		}
	}()

	seed := 0
	if s := os.Getenv("VERIF_SEED"); s != "" {
		seed, _ = strconv.Atoi(s)
	}
	var env []string
	if *goarch != "" {
		env = append(env, "GOARCH="+*goarch)
	}
	p, err := Load(*repo, *tests, env)
	if err != nil {
		// the tree does not load: nothing can be decided
		fmt.Printf("-: load: kind=undecided: %v\n", err)
		if *prop != "" {
			_ = os.MkdirAll(filepath.Join(*verif, "out"), 0o755)
			rp := filepath.Join(*verif, "out", *prop+".violations.json")
			_ = os.WriteFile(rp, []byte(fmt.Sprintf("{\"property\":%q,\"load_error\":%q}\n", *prop, err.Error())), 0o644)
			fmt.Printf("VIOLATION property=%s replay=%s\n", *prop, rp)
		}
		os.Exit(1)
	}
	if *gen == "functions" {
		if err := writeInventory(p, filepath.Join(*verif, "ref", "functions.tsv")); err != nil {
			fmt.Fprintln(os.Stderr, err)
			os.Exit(2)
		}
		return
	}
	if err := resolveRenames(p, *verif); err != nil {
		fmt.Printf("-: load: kind=undecided: reference inventory: %v\n", err)
		os.Exit(1)
	}
	if refInv, err := readInventory(filepath.Join(*verif, "ref", "functions.tsv")); err == nil && *gen == "" {
		// up to three rounds: a helper called from another helper, or used as a method value, needs a second pass
		total := map[string][]byte{}
		for round := 0; round < 3; round++ {
			ov := normalizeNewHelpers(p, refInv, total)
			if len(ov) == 0 {
				break
			}
			merged := map[string][]byte{}
			for k, v := range total {
				merged[k] = v
			}
			for k, v := range ov {
				merged[k] = v
			}
			if os.Getenv("KMIPSA_DUMP_OVERLAY") != "" {
				for fn, b := range merged {
					_ = os.WriteFile(filepath.Join(os.Getenv("KMIPSA_DUMP_OVERLAY"), fmt.Sprintf("r%d.%s", round, filepath.Base(fn))), b, 0o644)
				}
			}
			p2, err := LoadOverlay(*repo, *tests, env, merged)
			if err != nil {
				normalizeNotes = append(normalizeNotes, fmt.Sprintf("helper normalisation round %d dropped: the overlay does not load (%v)", round+1, err))
				break
			}
			p, total = p2, merged
		}
		if len(total) > 0 {
			normalizeNotes = append(normalizeNotes, fmt.Sprintf("the analysis ran on an overlay of %d file(s) with the new helpers inlined; reported line numbers refer to the overlay", len(total)))
		}
	}
	if *gen == "registry" {
		reg := BuildRegistry(p)
		for _, pr := range reg.Problems {
			fmt.Fprintln(os.Stderr, "problem:", pr)
		}
		fmt.Println("# scope\tnumber\tname — KMIP 1.0-1.4 registry of record (tags §9.1.3.1, enumerations §9.1.3.2, masks §9.1.3.3; names normalised per the XML/JSON profile)")
		for _, row := range registryRows(reg) {
			fmt.Printf("%s\t0x%X\t%s\n", row.scope, row.num, row.name)
		}
		return
	}
	if *gen == "debug-c02" {
		debugC02(p)
		return
	}
	if *gen == "versions" {
		reg := BuildRegistry(p)
		m := NewModel(p, reg)
		fmt.Println("# pkg.Struct.Field\tversions (first..last) the KMIP specification defines the element for")
		for _, a := range versionAnnotations(p, m) {
			fmt.Printf("%s\t%s\n", a.key, canonRange(a.fp.VRange))
		}
		return
	}
	f, ok := props[*prop]
	if !ok {
		var ids []string
		for k := range props {
			ids = append(ids, k)
		}
		sort.Strings(ids)
		fmt.Fprintf(os.Stderr, "unknown property %q (have %s)\n", *prop, strings.Join(ids, " "))
		os.Exit(2)
	}
	r := NewRun(*prop, *tier, p)
	r.Extra["packages_loaded"] = len(p.ByPath)
	r.Extra["checker_cmd"] = strings.Join(os.Args, " ")
	r.Extra["trusted_base"] = []string{"go/types (type checking, constant evaluation)", "golang.org/x/tools go/packages, go/ssa, callgraph/vta", "reference tables under /verif/ref"}
	for _, n := range renameNotes {
		r.Infof("anchor resolution: %s", n)
	}
	r.Extra["renamed_anchors"] = len(renameNotes)
	for _, n := range normalizeNotes {
		r.Infof("helper normalisation: %s", n)
	}
	verifDirGlobal = *verif
	f(r, *verif)
	if *benign != "" {
		if b, err := os.ReadFile(*benign); err == nil {
			var bres map[string]any
			if json.Unmarshal(b, &bres) == nil {
				r.Extra["benign_corpus"] = bres
				r.Infof("behaviour-preserving corpus: %v of %v refactorings leave this check silent (evidence only)", bres["silent"], bres["total"])
			}
		}
	}
	if *mutants != "" {
		if b, err := os.ReadFile(*mutants); err == nil {
			var mres map[string]any
			if json.Unmarshal(b, &mres) == nil {
				r.Extra["mutant_corpus"] = mres
				r.Infof("mutant corpus: %v of %v one-instance breaks reported by the expected rule (evidence only)", mres["killed"], mres["total"])
			}
		}
	}
	if *replay != "" {
		r.Infof("replay of %s: the listed constructs are re-evaluated by the full rule set on the current tree", *replay)
	}
	od := filepath.Join(*verif, "out")
	if *outdir != "" {
		od = *outdir
	}
	os.Exit(r.Finish(*evidence, filepath.Join(*verif, "known_findings.txt"), od, seed))
}
