package main

// C10 — a client call only ever receives the response to its own request.
// C11 — the client survives connection faults at every point of an exchange.

import (
	"fmt"
	"go/ast"
	"go/token"
	"go/types"
	"strings"

	"golang.org/x/tools/go/ssa"
)

const cliPath = modPath + "/kmipclient"

func callersOf(p *Program, rel string, pred func(funcID) bool) map[string]int {
	out := map[string]int{}
	for _, fn := range pkgFuncs(p, rel) {
		allInstrs(fn, func(in ssa.Instruction) {
			if c := callOf(in); c != nil && pred(callID(c)) {
				out[fnKey(fn)]++
			}
		})
	}
	return out
}

func keysOf(m map[string]int) []string {
	var out []string
	for k := range m {
		out = append(out, k)
	}
	sortStrings(out)
	return out
}

func sortStrings(s []string) {
	for i := 1; i < len(s); i++ {
		for j := i; j > 0 && s[j] < s[j-1]; j-- {
			s[j], s[j-1] = s[j-1], s[j]
		}
	}
}

func runC10(r *Run, verifDir string) {

	r.Explain = append(r.Explain,
		"C10 is decided structurally on package kmipclient: L1 an exchange (send + receive) happens only inside Client.doRountrip, between Lock and the deferred Unlock of the client's own mutex, which every constructor creates afresh; L2 once a request has been handed to the connection, every exit of the exchange with an error tears the connection down, so a late response can never be waiting in a connection that a later call will use; L3 hand-off channels are created per connection, a connection is replaced only after being closed, and a torn-down connection refuses both send and recv; L4 the read loop hands over only the response it has just received (Recv, the successful assertion to *ResponseMessage and the assignment into the delivered value dominate the hand-off), so a server-originated message can never shift the responses of later calls.")
	r.Assume = append(r.Assume, "the server answers requests of one connection in order (KMIP over a stream carries no request identifier the client could check)")
	r.NotCov = append(r.NotCov, "the end-to-end statement under a real scheduler (interleavings are not enumerated)", "a server that answers out of order")
	c10L1(r)
	c10L1Unlocks(r)
	c10L2(r)
	c10L3(r)
	c10L4(r)
}

func c10L1(r *Run) {
	p := r.P
	r.Rule("C10.L1", "one exchange at a time per client: roundtrip only under the client's mutex, which is per client", 5)
	rt := callersOf(p, "kmipclient", func(id funcID) bool { return id.is(cliPath, "conn", "roundtrip") })
	if len(rt) == 1 && rt["kmipclient.Client.doRountrip"] > 0 {
		r.OK("C10.L1", "kmipclient/callers(conn.roundtrip)", token.NoPos, "conn.roundtrip is called only from Client.doRountrip")
	} else {
		r.Bad("C10.L1", "kmipclient/callers(conn.roundtrip)", token.NoPos, "conn.roundtrip is called from %v: an exchange can run outside the client's lock and interleave with another caller's", keysOf(rt))
	}
	for _, m := range []string{"send", "recv"} {
		cs := callersOf(p, "kmipclient", func(id funcID) bool { return id.is(cliPath, "conn", m) })
		if len(cs) == 1 && cs["kmipclient.conn.roundtrip"] > 0 {
			r.OK("C10.L1", "kmipclient/callers(conn."+m+")", token.NoPos, "conn.%s is called only from conn.roundtrip", m)
		} else {
			r.Bad("C10.L1", "kmipclient/callers(conn."+m+")", token.NoPos, "conn.%s is called from %v: a response can be consumed outside an exchange", m, keysOf(cs))
		}
	}
	dr := p.Func("kmipclient", "Client", "doRountrip")
	if dr == nil {
		r.Unk("C10.L1", "kmipclient.Client.doRountrip/lock", token.NoPos, "anchor missing")
		return
	}
	var lock *ssa.Call
	unlockDeferred, unlockPlain := 0, 0
	allInstrs(dr, func(in ssa.Instruction) {
		switch x := in.(type) {
		case *ssa.Call:
			if callID(&x.Call).is("sync", "Mutex", "Lock") {
				lock = x
			}
			if callID(&x.Call).is("sync", "Mutex", "Unlock") {
				unlockPlain++
			}
		case *ssa.Defer:
			if callID(&x.Call).is("sync", "Mutex", "Unlock") {
				unlockDeferred++
			}
		}
	})
	okLock := lock != nil && unlockDeferred == 1 && unlockPlain == 0
	if okLock {
		// the lock is the client's own field
		u, isU := lock.Call.Args[0].(*ssa.UnOp)
		if !isU {
			okLock = false
		} else if _, fld, ok := fieldAddrOf(u.X); !ok || fname(fld) != "lock" {
			okLock = false
		}
		allInstrs(dr, func(in ssa.Instruction) {
			if c, ok := in.(*ssa.Call); ok && callID(&c.Call).is(cliPath, "conn", "roundtrip") && !dominatesInstr(lock, c) {
				okLock = false
			}
		})
	}
	if okLock {
		r.OK("C10.L1", "kmipclient.Client.doRountrip/lock", dr.Pos(), "c.lock.Lock() dominates every roundtrip; the only Unlock is deferred")
	} else {
		r.Bad("C10.L1", "kmipclient.Client.doRountrip/lock", dr.Pos(), "the exchange in doRountrip is not bracketed by c.lock.Lock() ... defer Unlock(): two callers sharing the client can interleave send and receive and pick up each other's response")
	}
	// every Client literal creates its own mutex
	pk := p.Pkg("kmipclient")
	nLit, okAll := 0, true
	for _, file := range pk.Syntax {
		ast.Inspect(file, func(n ast.Node) bool {
			cl, ok := n.(*ast.CompositeLit)
			if !ok {
				return true
			}
			tv := pk.TypesInfo.Types[cl]
			if tv.Type == nil || typeName(tv.Type) != "Client" || typePkgPath(tv.Type) != cliPath {
				return true
			}
			nLit++
			fresh := false
			for _, el := range cl.Elts {
				kv, ok := el.(*ast.KeyValueExpr)
				if !ok {
					continue
				}
				if id, ok := kv.Key.(*ast.Ident); ok {
					// the mutex field, whatever its name: the field of type *sync.Mutex
					fv, _ := pk.TypesInfo.Uses[id].(*types.Var)
					if fv == nil {
						continue
					}
					if pt, isPtr := fv.Type().(*types.Pointer); !isPtr || !isNamed(pt.Elem(), "sync", "Mutex") {
						continue
					}
					switch v := kv.Value.(type) {
					case *ast.CallExpr:
						if f, ok := v.Fun.(*ast.Ident); ok && f.Name == "new" {
							fresh = true
						}
					case *ast.UnaryExpr:
						if _, isLit := v.X.(*ast.CompositeLit); isLit && v.Op == token.AND {
							fresh = true
						}
					}
				}
			}
			if !fresh {
				okAll = false
				r.Bad("C10.L1", fmt.Sprintf("kmipclient.%s/Client-literal", enclosingFuncName(file, cl.Pos())), cl.Pos(), "a Client is constructed without its own new(sync.Mutex): a nil lock panics, a shared one serialises (or fails to serialise) unrelated clients")
			}
			return true
		})
	}
	// ... and its own connection: the connection field of a Client only ever receives a connection made for it
	// (newConn(...)); a copy of another client's connection puts one connection under two mutexes
	nConn, sharedAt, sharedIn := 0, token.NoPos, ""
	for _, fn := range pkgFuncs(p, "kmipclient") {
		allInstrs(fn, func(in ssa.Instruction) {
			st, ok := in.(*ssa.Store)
			if !ok {
				return
			}
			fa, ok := st.Addr.(*ssa.FieldAddr)
			if !ok || typeName(derefType(fa.X.Type())) != "Client" {
				return
			}
			ft := derefStruct(fa.X.Type()).Field(fa.Field).Type()
			if pt, isPtr := ft.(*types.Pointer); !isPtr || typeName(pt.Elem()) != "conn" {
				return
			}
			nConn++
			v := st.Val
			if isNilConst(v) {
				return
			}
			if c, ok := v.(*ssa.Call); ok {
				if callee := c.Call.StaticCallee(); callee != nil && idOf(callee).is(cliPath, "", "newConn") {
					return
				}
			}
			sharedAt, sharedIn = st.Pos(), fnKey(fn)
		})
	}
	switch {
	case sharedAt.IsValid():
		r.Bad("C10.L1", "kmipclient/Client-conn-own", sharedAt, "%s gives a Client a connection that was not made for it (not newConn(...)): two Client values then drive one connection, each under its own mutex, so their exchanges interleave and one caller receives the other's response", sharedIn)
	case nConn == 0:
		r.Unk("C10.L1", "kmipclient/Client-conn-own", token.NoPos, "no assignment of a Client's connection found")
	default:
		r.OK("C10.L1", "kmipclient/Client-conn-own", token.NoPos, "%d assignment(s) of a Client's connection, each a connection made by newConn for that client", nConn)
	}
	if okAll && nLit >= 2 {
		r.OK("C10.L1", "kmipclient/Client-literals", token.NoPos, "all %d Client literals create a fresh mutex", nLit)
	} else if nLit < 2 {
		r.Unk("C10.L1", "kmipclient/Client-literals", token.NoPos, "only %d Client literals found", nLit)
	}
}

func isTeardownCall(c *ssa.CallCommon) bool {
	id := callID(c)
	return id.is(cliPath, "conn", "terminate") || id.is(cliPath, "conn", "Close")
}

func c10L2(r *Run) {
	p := r.P
	r.Rule("C10.L2", "an exchange abandoned after the request was handed over tears the connection down on every error exit", 2)
	rt := p.Func("kmipclient", "conn", "roundtrip")
	if rt == nil {
		r.Unk("C10.L2", "kmipclient.conn.roundtrip", token.NoPos, "anchor missing")
	} else {
		var send *ssa.Call
		allInstrs(rt, func(in ssa.Instruction) {
			if c, ok := in.(*ssa.Call); ok && callID(&c.Call).is(cliPath, "conn", "send") {
				send = c
			}
		})
		if send == nil {
			r.Unk("C10.L2", "kmipclient.conn.roundtrip", rt.Pos(), "call of conn.send not found")
		} else {
			var okBlock *ssa.BasicBlock
			for _, ref := range *send.Referrers() {
				if bo, ok := ref.(*ssa.BinOp); ok && isNilConst(bo.Y) {
					for _, r2 := range *bo.Referrers() {
						if iff, ok := r2.(*ssa.If); ok {
							if bo.Op == token.NEQ {
								okBlock = iff.Block().Succs[1]
							} else if bo.Op == token.EQL {
								okBlock = iff.Block().Succs[0]
							}
						}
					}
				}
			}
			if okBlock == nil {
				r.Unk("C10.L2", "kmipclient.conn.roundtrip", send.Pos(), "error check of send not recognised")
			} else {
				bad := token.NoPos
				n := 0
				allInstrs(rt, func(in ssa.Instruction) {
					ret, ok := in.(*ssa.Return)
					if !ok || !(okBlock == ret.Block() || okBlock.Dominates(ret.Block())) {
						return
					}
					errV := ret.Results[len(ret.Results)-1]
					if isNilConst(errV) {
						return
					}
					// established nil on this path?
					for _, dc := range dominatingConds(ret.Block()) {
						if bo, ok := dc.cond.(*ssa.BinOp); ok && bo.X == errV && isNilConst(bo.Y) {
							if (bo.Op == token.NEQ) != dc.outcome {
								return
							}
						}
					}
					n++
					torn := false
					allInstrs(rt, func(in2 ssa.Instruction) {
						if c := callOf(in2); c != nil && isTeardownCall(c) {
							if _, isDefer := in2.(*ssa.Defer); !isDefer && dominatesInstr(in2, ret) && (okBlock == in2.Block() || okBlock.Dominates(in2.Block())) {
								torn = true
							}
						}
					})
					if !torn {
						bad = ret.Pos()
					}
				})
				switch {
				case bad.IsValid():
					r.Bad("C10.L2", "kmipclient.conn.roundtrip", bad, "after the request has been sent, roundtrip can return an error without tearing the connection down (e.g. the caller's context ends between send and recv): the connection stays in use and the late response is delivered to the next caller's request")
				case n == 0:
					r.Unk("C10.L2", "kmipclient.conn.roundtrip", rt.Pos(), "no error exit found after send")
				default:
					r.OK("C10.L2", "kmipclient.conn.roundtrip", rt.Pos(), "%d error exit(s) after a successful send are dominated by terminate()", n)
				}
			}
		}
	}
	// inside send: once the message is handed to the write loop, leaving on the caller's context tears down
	sf := p.Func("kmipclient", "conn", "send")
	if sf == nil {
		r.Unk("C10.L2", "kmipclient.conn.send/after-handoff", token.NoPos, "anchor missing")
		return
	}
	var inner *ssa.Select
	allInstrs(sf, func(in ssa.Instruction) {
		sel, ok := in.(*ssa.Select)
		if !ok {
			return
		}
		hasSend := false
		for _, st := range sel.States {
			if st.Dir == types.SendOnly {
				hasSend = true
			}
		}
		if !hasSend {
			inner = sel
		}
	})
	if inner == nil {
		r.Unk("C10.L2", "kmipclient.conn.send/after-handoff", sf.Pos(), "the wait-for-outcome select not found")
		return
	}
	// after the hand-off, send reports what the write loop reported, nothing else: a return dominated by the inner
	// select yields the received outcome, nil, the connection's own cause (teardown already happened), or follows terminate
	{
		badRet := token.NoPos
		allInstrs(sf, func(in ssa.Instruction) {
			ret, ok := in.(*ssa.Return)
			if !ok || len(ret.Results) != 1 || !dominatesInstr(inner, ret) {
				return
			}
			var okVal func(v ssa.Value, d int) bool
			okVal = func(v ssa.Value, d int) bool {
				if d > 5 {
					return false
				}
				switch x := v.(type) {
				case *ssa.Const:
					return x.IsNil()
				case *ssa.Extract:
					return x.Tuple == ssa.Value(inner) // the value received from the outcome channel
				case *ssa.Phi:
					for _, e := range x.Edges {
						if !okVal(e, d+1) {
							return false
						}
					}
					return true
				case *ssa.Call:
					id := callID(&x.Call)
					// context.Cause(c.ctx): the connection's own context, i.e. it has already been torn down
					if id.is("context", "", "Cause") {
						if ld, ok := x.Call.Args[0].(*ssa.UnOp); ok {
							if fa, ok := ld.X.(*ssa.FieldAddr); ok && typeName(fa.X.Type()) == "conn" {
								return true
							}
						}
					}
				}
				return false
			}
			if okVal(ret.Results[0], 0) {
				return
			}
			torn := false
			allInstrs(sf, func(in2 ssa.Instruction) {
				if c := callOf(in2); c != nil && isTeardownCall(c) && dominatesInstr(in2, ret) && dominatesInstr(inner, in2) {
					torn = true
				}
			})
			if !torn {
				badRet = ret.Pos()
			}
		})
		if badRet.IsValid() {
			r.Bad("C10.L2", "kmipclient.conn.send/outcome-only", badRet, "after the request has been handed to the write loop, send can return an error of its own (not the write loop's outcome) without tearing the connection down: the request is on the wire, the exchange is abandoned with the connection still in use, and the late response goes to the next call")
		} else {
			r.OK("C10.L2", "kmipclient.conn.send/outcome-only", inner.Pos(), "after the hand-off send returns only the write loop's outcome, nil, or an error that follows a teardown")
		}
	}
	okAll, n := true, 0
	for i, st := range inner.States {
		c, ok := st.Chan.(*ssa.Call)
		if !ok || !isCtxDone(st.Chan) {
			continue
		}
		if _, isParam := c.Call.Value.(*ssa.Parameter); !isParam {
			continue
		}
		n++
		// returns under select index == i must be dominated by terminate
		allInstrs(sf, func(in ssa.Instruction) {
			ret, ok := in.(*ssa.Return)
			if !ok {
				return
			}
			under := false
			for _, dc := range dominatingConds(ret.Block()) {
				if bo, ok := dc.cond.(*ssa.BinOp); ok && dc.outcome && bo.Op == token.EQL {
					if ex, ok := bo.X.(*ssa.Extract); ok && ex.Tuple == ssa.Value(inner) && ex.Index == 0 {
						if k, ok := constIntVal(bo.Y); ok && int(k) == i {
							under = true
						}
					}
				}
			}
			if !under {
				return
			}
			torn := false
			allInstrs(sf, func(in2 ssa.Instruction) {
				if cc := callOf(in2); cc != nil && isTeardownCall(cc) && dominatesInstr(in2, ret) {
					torn = true
				}
			})
			if !torn {
				okAll = false
			}
		})
	}
	switch {
	case n == 0:
		r.Unk("C10.L2", "kmipclient.conn.send/after-handoff", sf.Pos(), "no caller-context case in the wait-for-outcome select")
	case okAll:
		r.OK("C10.L2", "kmipclient.conn.send/after-handoff", inner.Pos(), "leaving on the caller's context after the hand-off tears the connection down")
	default:
		r.Bad("C10.L2", "kmipclient.conn.send/after-handoff", inner.Pos(), "send can return on the caller's context after the request was handed to the write loop without tearing the connection down")
	}
}

func c10L3(r *Run) {
	p := r.P
	r.Rule("C10.L3", "hand-off channels are per connection; a connection is replaced only after Close; a torn-down connection refuses send and recv", 4)
	// no package-level channel, no channel field in Client
	pk := p.Pkg("kmipclient")
	bad := ""
	sc := pk.Types.Scope()
	for _, n := range sc.Names() {
		if v, ok := sc.Lookup(n).(*types.Var); ok {
			if _, isCh := v.Type().Underlying().(*types.Chan); isCh {
				bad = "package-level channel " + n
			}
		}
	}
	if o := sc.Lookup("Client"); o != nil {
		if st, ok := o.Type().Underlying().(*types.Struct); ok {
			for i := 0; i < st.NumFields(); i++ {
				if _, isCh := st.Field(i).Type().Underlying().(*types.Chan); isCh {
					bad = "channel field Client." + fname(st.Field(i))
				}
			}
		}
	}
	nc := p.Func("kmipclient", "", "newConn")
	nMake := 0
	if nc != nil {
		allInstrs(nc, func(in ssa.Instruction) {
			if _, ok := in.(*ssa.MakeChan); ok {
				nMake++
			}
		})
	}
	if bad == "" && nMake >= 2 {
		r.OK("C10.L3", "kmipclient/channels-per-connection", token.NoPos, "rx and tx are created in newConn (%d make(chan)); no channel outlives its connection", nMake)
	} else {
		r.Bad("C10.L3", "kmipclient/channels-per-connection", token.NoPos, "hand-off channels are not private to one connection (%s; %d make(chan) in newConn): a response read on an abandoned connection can reach a later exchange", bad, nMake)
	}
	// reconnect: Close old before newConn
	rc := p.Func("kmipclient", "Client", "reconnect")
	if rc == nil {
		r.Unk("C10.L3", "kmipclient.Client.reconnect", token.NoPos, "anchor missing")
	} else {
		var closeCall, newCall ssa.Instruction
		allInstrs(rc, func(in ssa.Instruction) {
			if c, ok := in.(*ssa.Call); ok {
				if callID(&c.Call).is(cliPath, "conn", "Close") {
					closeCall = c
				}
				if callID(&c.Call).is(cliPath, "", "newConn") {
					newCall = c
				}
			}
		})
		okClose := false
		if closeCall != nil && newCall != nil {
			// Close under c.conn != nil, and every path to newConn passes the nil test
			for _, dc := range dominatingConds(closeCall.Block()) {
				if bo, ok := dc.cond.(*ssa.BinOp); ok && isNilConst(bo.Y) && (bo.Op == token.NEQ) == dc.outcome {
					okClose = true
				}
			}
			if !closeCall.Block().Idom().Dominates(newCall.Block()) {
				okClose = false
			}
		}
		if okClose {
			r.OK("C10.L3", "kmipclient.Client.reconnect", rc.Pos(), "a non-nil old connection is closed before the new one is created")
		} else {
			r.Bad("C10.L3", "kmipclient.Client.reconnect", rc.Pos(), "reconnect replaces the connection without closing the previous one first")
		}
	}
	for _, m := range []string{"send", "recv"} {
		fn := p.Func("kmipclient", "conn", m)
		key := "kmipclient.conn." + m + "/checkAvailable"
		if fn == nil {
			r.Unk("C10.L3", key, token.NoPos, "anchor missing")
			continue
		}
		first := false
		for _, in := range fn.Blocks[0].Instrs {
			if c, ok := in.(*ssa.Call); ok {
				first = callID(&c.Call).is(cliPath, "conn", "checkAvailable")
				break
			}
		}
		// ... or every caller establishes it: each call of the method is dominated by a checkAvailable of the same
		// connection whose error was found nil (the precondition moved to the callers, for every caller)
		callersCheck := func() bool {
			n := 0
			for _, f := range pkgFuncs(p, "kmipclient") {
				okAll := true
				allInstrs(f, func(in ssa.Instruction) {
					c, ok := in.(*ssa.Call)
					if !ok || c.Call.StaticCallee() != fn {
						return
					}
					n++
					found := false
					allInstrs(f, func(i2 ssa.Instruction) {
						chk, ok := i2.(*ssa.Call)
						if !ok || !callID(&chk.Call).is(cliPath, "conn", "checkAvailable") || !dominatesInstr(chk, c) {
							return
						}
						if len(chk.Call.Args) == 0 || len(c.Call.Args) == 0 || chk.Call.Args[0] != c.Call.Args[0] {
							return
						}
						for _, dc := range dominatingConds(c.Block()) {
							if bo, ok := dc.cond.(*ssa.BinOp); ok && bo.X == ssa.Value(chk) && isNilConst(bo.Y) && (bo.Op == token.EQL) == dc.outcome {
								found = true
							}
						}
					})
					if !found {
						okAll = false
					}
				})
				if !okAll {
					return false
				}
			}
			return n > 0
		}
		if first {
			r.OK("C10.L3", key, fn.Pos(), "%s starts with checkAvailable", m)
		} else if callersCheck() {
			r.OK("C10.L3", key, fn.Pos(), "every call of %s follows a successful checkAvailable of the same connection", m)
		} else {
			r.Bad("C10.L3", key, fn.Pos(), "conn.%s does not start with checkAvailable: a closed or torn-down connection can still be used", m)
		}
	}
}

// ================================================================ C11

func runC11(r *Run, verifDir string) {
	p := r.P
	c := &concCtx{r: r, p: p, rel: "kmipclient", ops: chanOps(p, "kmipclient"), rule: func(k string) string { return "C11.M3" + strings.ToLower(k[1:]) }}
	r.Explain = append(r.Explain,
		"C11 is decided structurally on package kmipclient: M1 the retry loop of doRountrip has a constant-initialised counter <= 3 that is decremented on its only back edge and tested before continuing, and send hands a message to the write loop at most once (at most four transmissions); M2 the loop continues only when errors.Is(err, io.EOF) or errors.Is(err, io.ErrClosedPipe), reconnect closes the old connection first and returns a dial error; M3 the channel discipline rules of C08 (K1 close by sole sender, K2 buffered reply, K6 every blocking operation releasable, terminate cancels first) instantiated for the client connection — never panics, no goroutine left behind; M4 Close marks the connection closed before tearing it down and send/recv start with checkAvailable, whose closed error is not in the retry set; M5 a partial response is an error (C07.S2); M6 the only goroutines are the two loops started in newConn.")
	r.NotCov = append(r.NotCov, "`promptly` and recovery success against a reachable server", "behaviour for every I/O operation index (fault enumeration is runtime)")
	c11M1(r)
	c11M2(r)
	c.rule = func(k string) string { return "C11.M3" }
	c.k1SoleSenderCloses()
	c.k2ReplyBuffered()
	c.k6Releasable()
	r.Rule("C11.M10", "the read and write loops tear the connection down on every stream-error exit", 2)
	c.kLoopErrorExits("C11.M10")
	c11M4(r)
	c11M7(r)
	c11M8(r)
	c11M9(r)
	c11M11(r, "C11.M11")
	r.Rule("C11.M12", "terminate closes the stream on every path (early exits only through a sound idempotence test); the dialer is given a context that keeps the caller's cancellation", 2)
	terminateClosesStream(r, "C11.M12", "kmipclient")
	c11DialerContext(r)
	c11DialerClosures(r)
	c11WhoCloses(r)
	c11M6(r)
	r.Import("C11.M13", "the client's negotiated version is set only at construction (enforced version, clone's copy) or by a successful negotiation: a fault during an exchange can never leave it nil for the next call", 4, "C13", "C13.N4", nil)
}

func c11M1(r *Run) {
	p := r.P
	r.Rule("C11.M1", "bounded retransmission: constant counter <= 3, decremented on the single back edge, tested before retrying; one hand-off per send", 2)
	dr := p.Func("kmipclient", "Client", "doRountrip")
	if dr == nil {
		r.Unk("C11.M1", "kmipclient.Client.doRountrip/retry", token.NoPos, "anchor missing")
		return
	}
	var rt *ssa.Call
	allInstrs(dr, func(in ssa.Instruction) {
		if c, ok := in.(*ssa.Call); ok && callID(&c.Call).is(cliPath, "conn", "roundtrip") {
			rt = c
		}
	})
	if rt == nil {
		r.Unk("C11.M1", "kmipclient.Client.doRountrip/retry", dr.Pos(), "roundtrip call not found")
		return
	}
	hdr := rt.Block()
	var latches []*ssa.BasicBlock
	for _, pr := range hdr.Preds {
		if hdr.Dominates(pr) {
			latches = append(latches, pr)
		}
	}
	var counter *ssa.Phi
	for _, in := range hdr.Instrs {
		if ph, ok := in.(*ssa.Phi); ok {
			for _, e := range ph.Edges {
				if _, ok := constIntVal(e); ok {
					counter = ph
				}
			}
		}
	}
	switch {
	case len(latches) == 0:
		r.Trivial("C11.M1", "kmipclient.Client.doRountrip/retry", dr.Pos(), "no retry loop: a request is transmitted once")
	case len(latches) > 1 || counter == nil:
		r.Unk("C11.M1", "kmipclient.Client.doRountrip/retry", dr.Pos(), "retry loop shape not recognised (%d back edges, counter=%v)", len(latches), counter != nil)
	default:
		// counter: init c0, step on the only back edge (+s or -s), and a guard `counter <op> K` whose exit edge is the
		// only way not to take another turn. The number of retries is then bounded by ceil(|K' - c0| / s).
		init, step, haveInit := int64(0), int64(0), false
		for i, e := range counter.Edges {
			if k, ok := constIntVal(e); ok && hdr.Preds[i] != latches[0] {
				init, haveInit = k, true
			} else if b, ok := e.(*ssa.BinOp); ok && (b.Op == token.SUB || b.Op == token.ADD) && b.X == ssa.Value(counter) && hdr.Preds[i] == latches[0] {
				if k, ok := constIntVal(b.Y); ok && k >= 1 {
					step = k
					if b.Op == token.SUB {
						step = -k
					}
				}
			}
		}
		guard := false
		maxRetries := int64(-1)
		for _, b := range dr.Blocks {
			if len(b.Succs) != 2 || len(b.Instrs) == 0 {
				continue
			}
			iff, isIf := b.Instrs[len(b.Instrs)-1].(*ssa.If)
			if !isIf {
				continue
			}
			bo, ok := iff.Cond.(*ssa.BinOp)
			if !ok || bo.X != ssa.Value(counter) {
				continue
			}
			k, isK := constIntVal(bo.Y)
			if !isK {
				continue
			}
			// the edge on which the loop is left, and the strict bound the counter must stay on the other side of
			var exitSucc *ssa.BasicBlock
			var bound int64 // continuing requires counter > bound (down-counting) or counter < bound (up-counting)
			switch {
			case step < 0 && bo.Op == token.LEQ:
				exitSucc, bound = b.Succs[0], k
			case step < 0 && bo.Op == token.LSS:
				exitSucc, bound = b.Succs[0], k-1
			case step < 0 && bo.Op == token.GTR:
				exitSucc, bound = b.Succs[1], k
			case step < 0 && bo.Op == token.GEQ:
				exitSucc, bound = b.Succs[1], k-1
			case step > 0 && bo.Op == token.GEQ:
				exitSucc, bound = b.Succs[0], k
			case step > 0 && bo.Op == token.GTR:
				exitSucc, bound = b.Succs[0], k+1
			case step > 0 && bo.Op == token.LSS:
				exitSucc, bound = b.Succs[1], k
			case step > 0 && bo.Op == token.LEQ:
				exitSucc, bound = b.Succs[1], k+1
			}
			if exitSucc == nil {
				continue
			}
			// with that block's continuing edge removed, the latch must be unreachable from the roundtrip call
			cont := b.Succs[0]
			if cont == exitSucc {
				cont = b.Succs[1]
			}
			seen := map[*ssa.BasicBlock]bool{}
			var walk func(x *ssa.BasicBlock)
			walk = func(x *ssa.BasicBlock) {
				for _, s := range x.Succs {
					if (x == b && s == cont) || seen[s] || s == hdr {
						continue
					}
					seen[s] = true
					walk(s)
				}
			}
			walk(hdr)
			if !seen[latches[0]] && !reachableFrom(exitSucc)[latches[0]] {
				guard = true
				dist := bound - init
				if step < 0 {
					dist = init - bound
				}
				abs := step
				if abs < 0 {
					abs = -abs
				}
				if dist < 0 {
					dist = 0
				}
				maxRetries = (dist + abs - 1) / abs
			}
		}
		switch {
		case !haveInit || step == 0:
			r.Bad("C11.M1", "kmipclient.Client.doRountrip/retry", counter.Pos(), "the retry counter is not stepped by a constant on the back edge: a call can retransmit without bound")
		case !guard:
			r.Bad("C11.M1", "kmipclient.Client.doRountrip/retry", counter.Pos(), "the retry loop can continue without passing the test of the retry counter against its bound")
		case maxRetries > 3:
			r.Bad("C11.M1", "kmipclient.Client.doRountrip/retry", counter.Pos(), "the retry counter allows %d retries: a single call may transmit its request more than four times", maxRetries)
		default:
			r.OK("C11.M1", "kmipclient.Client.doRountrip/retry", counter.Pos(), "counter starts at %d, steps by %+d on the only back edge and is tested against its bound before every retry: at most %d transmissions", init, step, maxRetries+1)
		}
	}
	if sf := p.Func("kmipclient", "conn", "send"); sf != nil {
		n := 0
		allInstrs(sf, func(in ssa.Instruction) {
			if sel, ok := in.(*ssa.Select); ok {
				for _, st := range sel.States {
					if st.Dir == types.SendOnly && chanClass(st.Chan.Type()) == "txMsg" {
						n++
					}
				}
			}
			if s, ok := in.(*ssa.Send); ok && chanClass(s.Chan.Type()) == "txMsg" {
				n++
			}
		})
		loop := false
		for _, b := range sf.Blocks {
			for _, s := range b.Succs {
				if s.Dominates(b) {
					loop = true
				}
			}
		}
		if n == 1 && !loop {
			r.OK("C11.M1", "kmipclient.conn.send/once", sf.Pos(), "send hands the request to the write loop at most once per call")
		} else {
			r.Bad("C11.M1", "kmipclient.conn.send/once", sf.Pos(), "conn.send can hand the same request over %d times (loop=%v)", n, loop)
		}
	}
}

func c11M2(r *Run) {
	p := r.P
	r.Rule("C11.M2", "retry only on io.EOF / io.ErrClosedPipe, after closing the old connection; a dial error is returned", 2)
	dr := p.Func("kmipclient", "Client", "doRountrip")
	if dr == nil {
		r.Unk("C11.M2", "kmipclient.Client.doRountrip/retry-set", token.NoPos, "anchor missing")
		return
	}
	var rt *ssa.Call
	var reconnects []*ssa.Call
	allInstrs(dr, func(in ssa.Instruction) {
		if c, ok := in.(*ssa.Call); ok {
			if callID(&c.Call).is(cliPath, "conn", "roundtrip") {
				rt = c
			}
			if callID(&c.Call).is(cliPath, "Client", "reconnect") {
				reconnects = append(reconnects, c)
			}
		}
	})
	if rt == nil {
		r.Unk("C11.M2", "kmipclient.Client.doRountrip/retry-set", dr.Pos(), "roundtrip call not found")
		return
	}
	isRetryErr := func(v ssa.Value) bool {
		c, ok := v.(*ssa.Call)
		if !ok || !callID(&c.Call).is("errors", "", "Is") {
			return false
		}
		if u, ok := c.Call.Args[1].(*ssa.UnOp); ok {
			if g, ok := u.X.(*ssa.Global); ok && g.Pkg.Pkg.Path() == "io" && (g.Name() == "EOF" || g.Name() == "ErrClosedPipe") {
				return true
			}
		}
		return false
	}
	type edge struct{ a, b *ssa.BasicBlock }
	cut := map[edge]bool{}
	nIs := 0
	for _, b := range dr.Blocks {
		if len(b.Instrs) == 0 {
			continue
		}
		if iff, ok := b.Instrs[len(b.Instrs)-1].(*ssa.If); ok && isRetryErr(iff.Cond) {
			cut[edge{b, b.Succs[0]}] = true
			nIs++
		}
	}
	seen := map[*ssa.BasicBlock]bool{}
	var walk func(x *ssa.BasicBlock)
	walk = func(x *ssa.BasicBlock) {
		for _, s := range x.Succs {
			if cut[edge{x, s}] || seen[s] {
				continue
			}
			seen[s] = true
			walk(s)
		}
	}
	walk(rt.Block())
	bad := false
	nIn := 0
	for _, rc := range reconnects {
		if !rt.Block().Dominates(rc.Block()) {
			continue // the initial connect when c.conn == nil
		}
		nIn++
		if seen[rc.Block()] {
			bad = true
		}
	}
	switch {
	case nIn == 0:
		r.Trivial("C11.M2", "kmipclient.Client.doRountrip/retry-set", dr.Pos(), "no reconnect inside the exchange loop")
	case bad || nIs == 0:
		r.Bad("C11.M2", "kmipclient.Client.doRountrip/retry-set", dr.Pos(), "the request can be re-sent on an error other than io.EOF / io.ErrClosedPipe (e.g. a timeout or a protocol error): a non-idempotent operation may be executed twice")
	default:
		r.OK("C11.M2", "kmipclient.Client.doRountrip/retry-set", dr.Pos(), "reconnect-and-retry is reachable only through errors.Is(err, io.EOF) or errors.Is(err, io.ErrClosedPipe) (%d tests)", nIs)
	}
	// reconnect returns the dial error
	rc := p.Func("kmipclient", "Client", "reconnect")
	if rc == nil {
		r.Unk("C11.M2", "kmipclient.Client.reconnect/dial-error", token.NoPos, "anchor missing")
		return
	}
	okDial := false
	allInstrs(rc, func(in ssa.Instruction) {
		ret, ok := in.(*ssa.Return)
		if !ok {
			return
		}
		if ex, ok := ret.Results[0].(*ssa.Extract); ok && ex.Index == 1 {
			for _, dc := range dominatingConds(ret.Block()) {
				if bo, ok := dc.cond.(*ssa.BinOp); ok && dc.outcome && bo.Op == token.NEQ && bo.X == ssa.Value(ex) {
					okDial = true
				}
			}
		}
	})
	if okDial {
		r.OK("C11.M2", "kmipclient.Client.reconnect/dial-error", rc.Pos(), "a failed dial is returned to the caller")
	} else {
		r.Bad("C11.M2", "kmipclient.Client.reconnect/dial-error", rc.Pos(), "reconnect does not return the dialer's error")
	}
}

func c11M4(r *Run) {
	p := r.P
	r.Rule("C11.M4", "closed means failed: Close marks closed before teardown; checkAvailable reports a closed connection with an error outside the retry set", 2)
	cl := p.Func("kmipclient", "conn", "Close")
	if cl == nil {
		r.Unk("C11.M4", "kmipclient.conn.Close", token.NoPos, "anchor missing")
	} else {
		var swap, term ssa.Instruction
		allInstrs(cl, func(in ssa.Instruction) {
			if c, ok := in.(*ssa.Call); ok {
				id := callID(&c.Call)
				if id.pkg == "sync/atomic" && id.recv == "Bool" && (id.name == "Swap" || id.name == "Store" || id.name == "CompareAndSwap") {
					swap = c
				}
				if id.is(cliPath, "conn", "terminate") {
					term = c
				}
			}
		})
		// the flag is set on every path through Close: the marking dominates every return
		allPaths := swap != nil
		if swap != nil {
			for _, b := range cl.Blocks {
				if ret, ok := b.Instrs[len(b.Instrs)-1].(*ssa.Return); ok && !dominatesInstr(swap, ret) {
					allPaths = false
				}
			}
		}
		switch {
		case swap != nil && term != nil && dominatesInstr(swap, term) && allPaths:
			r.OK("C11.M4", "kmipclient.conn.Close", cl.Pos(), "closed flag set on every path through Close, before terminate")
		case swap != nil && term != nil && dominatesInstr(swap, term):
			r.Bad("C11.M4", "kmipclient.conn.Close", cl.Pos(), "a path through Close returns without marking the connection closed (e.g. when it was already torn down by a fault): the next call sees a transient error, re-dials and revives a client its user has closed")
		default:
			r.Bad("C11.M4", "kmipclient.conn.Close", cl.Pos(), "Close does not mark the connection closed before tearing it down: a concurrent call can still pass checkAvailable")
		}
	}
	ca := p.Func("kmipclient", "conn", "checkAvailable")
	if ca == nil {
		r.Unk("C11.M4", "kmipclient.conn.checkAvailable", token.NoPos, "anchor missing")
		return
	}
	ok := false
	allInstrs(ca, func(in ssa.Instruction) {
		ret, isRet := in.(*ssa.Return)
		if !isRet {
			return
		}
		u, isU := ret.Results[0].(*ssa.UnOp)
		if !isU {
			return
		}
		g, isG := u.X.(*ssa.Global)
		if !isG || g.Name() != "ErrClosed" || g.Pkg.Pkg.Path() != "net" {
			return
		}
		for _, dc := range dominatingConds(ret.Block()) {
			if c, isC := dc.cond.(*ssa.Call); isC && dc.outcome && callID(&c.Call).pkg == "sync/atomic" && callID(&c.Call).name == "Load" {
				ok = true
			}
		}
	})
	if ok {
		r.OK("C11.M4", "kmipclient.conn.checkAvailable", ca.Pos(), "a closed connection yields net.ErrClosed, which is neither io.EOF nor io.ErrClosedPipe: calls on a closed client fail instead of reconnecting")
	} else {
		r.Bad("C11.M4", "kmipclient.conn.checkAvailable", ca.Pos(), "checkAvailable does not fail with net.ErrClosed when the connection is closed")
	}
}

// c10L1Unlocks: the exchange mutex is released only by the deferred Unlock of doRountrip: any other Unlock in the
// package (on a *sync.Mutex or through a sync.Locker handed down the call chain) opens the critical section in the
// middle of an exchange, so two callers can be between "request written" and "response read" at once and the
// response queue no longer pairs each caller with its own response.
func c10L1Unlocks(r *Run) {
	p := r.P
	n := 0
	for _, fn := range pkgFuncs(p, "kmipclient") {
		allInstrs(fn, func(in ssa.Instruction) {
			c := callOf(in)
			if c == nil {
				return
			}
			isUnlock := false
			if c.IsInvoke() {
				isUnlock = c.Method.Name() == "Unlock" && typeName(c.Value.Type()) == "Locker"
			} else if id := callID(c); id.pkg == "sync" && (id.recv == "Mutex" || id.recv == "RWMutex") && id.name == "Unlock" {
				isUnlock = true
			}
			if !isUnlock {
				return
			}
			n++
			key := fmt.Sprintf("%s/unlock#%d", fnKey(fn), n)
			_, deferred := in.(*ssa.Defer)
			if deferred && fnKey(fn) == "kmipclient.Client.doRountrip" {
				r.OK("C10.L1", key, in.Pos(), "the deferred Unlock that closes the exchange")
			} else {
				r.Bad("C10.L1", key, in.Pos(), "%s releases a mutex in the middle of the exchange path (not the deferred Unlock of doRountrip): another caller can write its request and start waiting before this one has read its response, so responses can be handed to the wrong caller", fnKey(fn))
			}
		})
	}
	if n == 0 {
		r.Unk("C10.L1", "kmipclient/unlocks", token.NoPos, "no Unlock found in the client")
	}
}

func c11M6(r *Run) {
	p := r.P
	r.Rule("C11.M6", "goroutine inventory: the only goroutines of the client are the read and write loops started in newConn", 2)
	gs := goSites(p, "kmipclient")
	for _, g := range gs {
		key := fnKey(g.fn) + "/go#" + strings.TrimPrefix(g.target, "kmipclient.")
		loop := g.target
		if g.inner != "" {
			loop = g.inner // a thin wrapper closure around the loop (deferred close of the loop's channel, a WaitGroup Done)
		}
		if fnKey(g.fn) == "kmipclient.newConn" && (loop == "kmipclient.conn.readloop" || loop == "kmipclient.conn.writeloop") {
			r.OK("C11.M6", key, g.in.Pos(), "per-connection loop; leaves on ctx.Done(), a closed channel or a stream error (M3), and terminate closes the stream so a blocked Read/Write returns")
		} else {
			r.Bad("C11.M6", key, g.in.Pos(), "goroutine %s started in %s is not one of the two per-connection loops: nothing shows it ends when the client is closed", g.target, fnKey(g.fn))
		}
	}
	if len(gs) < 2 {
		r.Unk("C11.M6", "kmipclient/go-statements", token.NoPos, "%d go statements found, 2 expected", len(gs))
	}
	// terminate closes the stream
	if tf := p.Func("kmipclient", "conn", "terminate"); tf != nil {
		closes := false
		allInstrs(tf, func(in ssa.Instruction) {
			if c, ok := in.(*ssa.Call); ok && callID(&c.Call).is(ttlvPath, "Stream", "Close") {
				closes = true
			}
		})
		if !closes {
			r.Bad("C11.M6", "kmipclient.conn.terminate/close-stream", tf.Pos(), "terminate does not close the stream: a loop blocked in Read/Write is never released")
		}
	}
}

// ---------------------------------------------------------------- L4

// c10L4: the read loop hands a response to the waiting caller only when it has just received it: on every path to the
// hand-off the message field of the value sent was assigned, in this iteration, the *ResponseMessage asserted from the
// message that Stream.Recv filled in this iteration.
func c10L4(r *Run) {
	p := r.P
	r.Rule("C10.L4", "the read loop delivers only the response it has just received: Recv -> assertion to *ResponseMessage -> store into the delivered value dominate the hand-off", 1)
	rl := p.Func("kmipclient", "conn", "readloop")
	if rl == nil {
		r.Unk("C10.L4", "kmipclient.conn.readloop/fresh", token.NoPos, "anchor missing")
		return
	}
	var recv *ssa.Call
	type sendSite struct {
		in  ssa.Instruction
		val ssa.Value
	}
	var sends []sendSite
	isRx := func(ch ssa.Value) bool {
		c, ok := ch.Type().Underlying().(*types.Chan)
		return ok && typeName(c.Elem()) == "rxMsg"
	}
	allInstrs(rl, func(in ssa.Instruction) {
		switch x := in.(type) {
		case *ssa.Call:
			if id := callID(&x.Call); id.pkg == ttlvPath && id.recv == "Stream" && id.name == "Recv" {
				recv = x
			}
		case *ssa.Send:
			if isRx(x.Chan) {
				sends = append(sends, sendSite{x, x.X})
			}
		case *ssa.Select:
			for _, st := range x.States {
				if st.Dir == types.SendOnly && isRx(st.Chan) {
					sends = append(sends, sendSite{x, st.Send})
				}
			}
		}
	})
	if recv == nil || len(sends) == 0 {
		r.Unk("C10.L4", "kmipclient.conn.readloop/fresh", rl.Pos(), "Stream.Recv call or hand-off on the rx channel not found (recv=%v, sends=%d)", recv != nil, len(sends))
		return
	}
	// the cell Recv decodes into
	var msgCell ssa.Value
	if len(recv.Call.Args) >= 2 {
		a := recv.Call.Args[len(recv.Call.Args)-1]
		if mi, ok := a.(*ssa.MakeInterface); ok {
			a = mi.X
		}
		msgCell = a
	}
	fromRecv := func(v ssa.Value) (*ssa.TypeAssert, bool) {
		// v = extract #0 of / or direct typeassert(*load of a field of msgCell*)
		if ex, ok := v.(*ssa.Extract); ok {
			v = ex.Tuple
		}
		ta, ok := v.(*ssa.TypeAssert)
		if !ok || typeName(ta.AssertedType) != "ResponseMessage" {
			return nil, false
		}
		ld, ok := ta.X.(*ssa.UnOp)
		if !ok {
			return nil, false
		}
		switch a := ld.X.(type) {
		case *ssa.FieldAddr:
			return ta, a.X == msgCell
		default:
			return ta, ld.X == msgCell
		}
	}
	for i, s := range sends {
		key := fmt.Sprintf("kmipclient.conn.readloop/fresh#%d", i+1)
		ld, ok := s.val.(*ssa.UnOp)
		var cell ssa.Value
		if ok && ld.Op == token.MUL {
			cell = ld.X
		}
		if cell == nil {
			r.Unk("C10.L4", key, s.in.Pos(), "the delivered value is not a load of a local rxMsg variable")
			continue
		}
		good := false
		why := "no assignment of the just-received response to the delivered value dominates the hand-off"
		for _, ref := range *cell.Referrers() {
			fa, ok := ref.(*ssa.FieldAddr)
			if !ok {
				continue
			}
			if typeName(derefStruct(cell.Type()).Field(fa.Field).Type()) != "ResponseMessage" {
				continue
			}
			for _, r2 := range *fa.Referrers() {
				st, ok := r2.(*ssa.Store)
				if !ok || st.Addr != ssa.Value(fa) {
					continue
				}
				ta, fresh := fromRecv(st.Val)
				if ta == nil || !fresh {
					why = "the response stored into the delivered value is not the one asserted from the message Recv just filled"
					continue
				}
				if !dominatesInstr(recv, ta) || !dominatesInstr(ta, st) || !dominatesInstr(st, s.in) {
					why = "a path reaches the hand-off without passing Recv, the assertion to *ResponseMessage and the assignment (e.g. a server-originated message falls through): the previous response is delivered again and every later call receives its predecessor's response"
					continue
				}
				if ta.CommaOk {
					okEdge := false
					for _, dc := range dominatingConds(st.Block()) {
						if ex, isEx := dc.cond.(*ssa.Extract); isEx && ex.Tuple == ssa.Value(ta) && ex.Index == 1 && dc.outcome {
							okEdge = true
						}
					}
					if !okEdge {
						why = "the assignment is not on the ok edge of the assertion"
						continue
					}
				}
				good = true
			}
		}
		if good {
			r.OK("C10.L4", key, s.in.Pos(), "Recv, the successful assertion to *ResponseMessage and the assignment into the delivered value all dominate the hand-off")
		} else {
			r.Bad("C10.L4", key, s.in.Pos(), "readloop: %s", why)
		}
	}
}

// ---------------------------------------------------------------- M7

// c11M7: the error the transport reports is the error the client's retry test sees: Stream.Recv returns the Read
// error itself (or wraps it with %w), and the read loop hands it to terminate unchanged except for the documented
// net.ErrClosed -> io.ErrClosedPipe mapping. (The retry set of M2 is {io.EOF, io.ErrClosedPipe}: a peer that closes
// the stream, at a message boundary or inside a response, must surface as io.EOF.)
func c11M7(r *Run) {
	p := r.P
	r.Rule("C11.M7", "a transport end-of-stream reaches the retry test as io.EOF: Stream.Recv passes the Read error through unchanged", 1)
	fn := p.Func("ttlv", "Stream", "Recv")
	key := "ttlv.Stream.Recv/read-error-passthrough"
	if fn == nil {
		r.Unk("C11.M7", key, token.NoPos, "anchor missing")
		return
	}
	var read *ssa.Call
	allInstrs(fn, func(in ssa.Instruction) {
		if c, ok := in.(*ssa.Call); ok && c.Call.IsInvoke() && c.Call.Method.Name() == "Read" {
			read = c
		}
	})
	if read == nil {
		r.Unk("C11.M7", key, fn.Pos(), "Read call not found")
		return
	}
	var rerr ssa.Value
	for _, ref := range *read.Referrers() {
		if ex, ok := ref.(*ssa.Extract); ok && ex.Index == 1 {
			rerr = ex
		}
	}
	if rerr == nil {
		r.Bad("C11.M7", key, read.Pos(), "the error of Read is dropped")
		return
	}
	// returns on the err != nil edge
	n, bad := 0, token.NoPos
	for _, b := range fn.Blocks {
		ret, ok := b.Instrs[len(b.Instrs)-1].(*ssa.Return)
		if !ok {
			continue
		}
		onErr := false
		for _, dc := range dominatingConds(b) {
			if bo, ok := dc.cond.(*ssa.BinOp); ok && bo.X == rerr && isNilConst(bo.Y) && (bo.Op == token.NEQ) == dc.outcome {
				onErr = true
			}
		}
		if !onErr {
			continue
		}
		n++
		v := ret.Results[0]
		okV := v == rerr
		if c, isCall := v.(*ssa.Call); isCall && callID(&c.Call).is("fmt", "", "Errorf") {
			// wrapping with %w keeps errors.Is
			if k, ok := c.Call.Args[0].(*ssa.Const); ok && isStringConst(k) && strings.Contains(k.Value.ExactString(), "%w") {
				okV = true
			}
		}
		if !okV {
			bad = ret.Pos()
		}
	}
	switch {
	case n == 0:
		r.Unk("C11.M7", key, fn.Pos(), "no return on the Read error edge found")
	case bad.IsValid():
		r.Bad("C11.M7", key, bad, "Stream.Recv replaces the error reported by the transport (e.g. io.EOF inside a message becomes another error): the client's reconnect logic only recognises io.EOF / io.ErrClosedPipe, so a connection that ends inside a response is never replaced and every later call fails")
	default:
		r.OK("C11.M7", key, read.Pos(), "%d return(s) on the Read error edge, each returning the transport's error itself", n)
	}
}

// ---------------------------------------------------------------- M8 / M9

// c11M8: a connection torn down by a fault is never reused. Every path from the entry of Client.doRountrip to the
// first exchange either re-dials or has seen a liveness test of the current connection (a test that reads the
// connection's own context) come out negative.
func c11M8(r *Run) {
	p := r.P
	r.Rule("C11.M8", "a failed connection is never reused: doRountrip re-dials before the exchange unless the connection's own context is still live", 1)
	fn := p.Func("kmipclient", "Client", "doRountrip")
	key := "kmipclient.Client.doRountrip/fresh-connection"
	if fn == nil {
		r.Unk("C11.M8", key, token.NoPos, "anchor missing")
		return
	}
	// does fn2 (a conn method) read the connection's ctx field?
	readsCtx := func(fn2 *ssa.Function) bool {
		if fn2 == nil || fn2.Blocks == nil {
			return false
		}
		found := false
		allInstrs(fn2, func(in ssa.Instruction) {
			if fa, ok := in.(*ssa.FieldAddr); ok && typeName(fa.X.Type()) == "conn" {
				if _, isCtx := derefStruct(fa.X.Type()).Field(fa.Field).Type().Underlying().(*types.Interface); isCtx && typeName(derefStruct(fa.X.Type()).Field(fa.Field).Type()) == "Context" {
					found = true
				}
			}
		})
		return found
	}
	var isLive func(v ssa.Value, d int) bool
	isLive = func(v ssa.Value, d int) bool {
		if d > 5 || v == nil {
			return false
		}
		switch x := v.(type) {
		case *ssa.Call:
			if sc := x.Call.StaticCallee(); sc != nil && idOf(sc).pkg == cliPath && idOf(sc).recv == "conn" && readsCtx(sc) {
				return true
			}
			if x.Call.IsInvoke() && (x.Call.Method.Name() == "Err" || x.Call.Method.Name() == "Done") && typeName(x.Call.Value.Type()) == "Context" {
				if ld, ok := x.Call.Value.(*ssa.UnOp); ok {
					if fa, ok := ld.X.(*ssa.FieldAddr); ok && typeName(fa.X.Type()) == "conn" {
						return true
					}
				}
			}
		case *ssa.BinOp:
			return isLive(x.X, d+1) || isLive(x.Y, d+1)
		case *ssa.UnOp:
			return isLive(x.X, d+1)
		case *ssa.Phi:
			for _, e := range x.Edges {
				if isLive(e, d+1) {
					return true
				}
			}
		}
		return false
	}
	isClosedTest := func(v ssa.Value) bool {
		c, ok := v.(*ssa.Call)
		if !ok {
			return false
		}
		id := callID(&c.Call)
		if id.pkg != "sync/atomic" || id.name != "Load" || len(c.Call.Args) == 0 {
			return false
		}
		fa, ok := c.Call.Args[0].(*ssa.FieldAddr)
		return ok && typeName(fa.X.Type()) == "conn"
	}
	hasCall := func(b *ssa.BasicBlock, name string) bool {
		for _, in := range b.Instrs {
			if c, ok := in.(*ssa.Call); ok && callID(&c.Call).is(cliPath, map[string]string{"roundtrip": "conn", "reconnect": "Client"}[name], name) {
				return true
			}
		}
		return false
	}
	// depth-first over acyclic paths from the entry, stopping at the first exchange
	okAll, nPaths := true, 0
	var bad *ssa.BasicBlock
	var walk func(b *ssa.BasicBlock, seen map[*ssa.BasicBlock]bool, safe bool)
	walk = func(b *ssa.BasicBlock, seen map[*ssa.BasicBlock]bool, safe bool) {
		if nPaths > 4096 {
			return
		}
		if hasCall(b, "reconnect") {
			safe = true
		}
		if hasCall(b, "roundtrip") {
			nPaths++
			if !safe {
				okAll, bad = false, b
			}
			return
		}
		for i, s := range b.Succs {
			if seen[s] {
				continue
			}
			s2 := safe
			if iff, ok := b.Instrs[len(b.Instrs)-1].(*ssa.If); ok && isClosedTest(iff.Cond) && i == 0 {
				// the connection was closed by its owner: the exchange refuses it with net.ErrClosed (M4), nothing is reused
				s2 = true
			}
			if iff, ok := b.Instrs[len(b.Instrs)-1].(*ssa.If); ok && isLive(iff.Cond, 0) {
				// the liveness test was evaluated on this path; either outcome is an informed decision: the
				// positive edge must lead to reconnect (checked by `safe` staying false until reconnect is met)
				if i == 1 {
					s2 = true
				}
			}
			seen[s] = true
			walk(s, seen, s2)
			delete(seen, s)
		}
	}
	walk(fn.Blocks[0], map[*ssa.BasicBlock]bool{fn.Blocks[0]: true}, false)
	switch {
	case nPaths == 0:
		r.Unk("C11.M8", key, fn.Pos(), "no path to an exchange found")
	case !okAll:
		r.Bad("C11.M8", key, bad.Instrs[0].Pos(), "a path reaches the exchange without re-dialling and without having found the current connection's context live: after a failure that is not in the retry set (connection reset, broken pipe, TLS alert) the torn-down connection stays installed and every later call returns its stale error, although the server is reachable")
	default:
		r.OK("C11.M8", key, fn.Pos(), "%d path(s) to the first exchange: each re-dials or has tested the connection's own context", nPaths)
	}
}

// c11M9: the client's connection pointer is never nil once the client exists: Client.Close (also called by DialContext
// on a failed negotiation) dereferences it without a test.
func c11M9(r *Run) {
	p := r.P
	r.Rule("C11.M9", "Client.conn is never reset to nil (Close dereferences it): a failed re-dial keeps the old connection object", 1)
	n, bad := 0, token.NoPos
	for _, fn := range pkgFuncs(p, "kmipclient") {
		allInstrs(fn, func(in ssa.Instruction) {
			st, ok := in.(*ssa.Store)
			if !ok {
				return
			}
			fa, ok := st.Addr.(*ssa.FieldAddr)
			if !ok || typeName(fa.X.Type()) != "Client" {
				return
			}
			if pt, ok := derefStruct(fa.X.Type()).Field(fa.Field).Type().(*types.Pointer); !ok || typeName(pt.Elem()) != "conn" {
				return
			}
			n++
			if isNilConst(st.Val) {
				bad = st.Pos()
			}
		})
	}
	// is Close guarded? then nil is fine
	guarded := false
	if cl := p.Func("kmipclient", "Client", "Close"); cl != nil {
		allInstrs(cl, func(in ssa.Instruction) {
			if bo, ok := in.(*ssa.BinOp); ok && isNilConst(bo.Y) {
				if ld, ok := bo.X.(*ssa.UnOp); ok {
					if fa, ok := ld.X.(*ssa.FieldAddr); ok && typeName(fa.X.Type()) == "Client" {
						guarded = true
					}
				}
			}
		})
	}
	key := "kmipclient.Client.conn/never-nil"
	switch {
	case bad.IsValid() && !guarded:
		r.Bad("C11.M9", key, bad, "Client.conn is set to nil while Client.Close dereferences it without a test: when the re-dial that follows fails (server gone), Close - and DialContext's own cleanup - panics")
	case n == 0:
		r.Unk("C11.M9", key, token.NoPos, "no assignment of Client.conn found")
	default:
		r.OK("C11.M9", key, token.NoPos, "%d assignment(s) of Client.conn, none of nil (or Close tests it)", n)
	}
}

// c11M11: Close, Recv and Send of ttlv.Stream run concurrently by design (terminate closes the stream from another
// goroutine to unblock the loop that sits in Recv or Send; the read and the write loop run side by side), so none of
// the three may write a field of the stream that another of them accesses: a `s.inner = nil` in Close makes a Recv
// that issues its next Read afterwards dereference nil and crash the process.
func c11M11(r *Run, rule string) {
	p := r.P
	r.Rule(rule, "Stream.Close/Recv/Send do not write a field another of them accesses (they run concurrently)", 1)
	type acc struct {
		write bool
		pos   token.Pos
	}
	methods := map[string]map[string][]acc{}
	for _, name := range []string{"Close", "Recv", "Send"} {
		fn := p.Func("ttlv", "Stream", name)
		if fn == nil || fn.Blocks == nil || len(fn.Params) == 0 {
			r.Unk(rule, "ttlv.Stream."+name, token.NoPos, "anchor missing")
			return
		}
		m := map[string][]acc{}
		seen := map[*ssa.Function]bool{}
		var scan func(f *ssa.Function, recv ssa.Value, d int)
		scan = func(f *ssa.Function, recv ssa.Value, d int) {
			if f == nil || f.Blocks == nil || seen[f] || d > 3 {
				return
			}
			seen[f] = true
			allInstrs(f, func(in ssa.Instruction) {
				switch x := in.(type) {
				case *ssa.FieldAddr:
					if typeName(x.X.Type()) != "Stream" || typePkgPath(x.X.Type()) != ttlvPath {
						return
					}
					fld := fname(derefStruct(x.X.Type()).Field(x.Field))
					w := false
					for _, ref := range *x.Referrers() {
						if st, ok := ref.(*ssa.Store); ok && st.Addr == ssa.Value(x) {
							w = true
						}
					}
					m[fld] = append(m[fld], acc{w, x.Pos()})
				case *ssa.Call:
					// helper methods on the same stream
					if sc := x.Call.StaticCallee(); sc != nil && idOf(sc).pkg == ttlvPath && idOf(sc).recv == "Stream" {
						scan(sc, nil, d+1)
					}
				}
			})
		}
		scan(fn, fn.Params[0], 0)
		methods[name] = m
	}
	bad := false
	for a, ma := range methods {
		for fld, accs := range ma {
			for _, x := range accs {
				if !x.write {
					continue
				}
				for b, mb := range methods {
					if a == b || len(mb[fld]) == 0 {
						continue
					}
					bad = true
					r.Bad(rule, "ttlv.Stream."+a+"/writes-"+fld+"/vs-"+b, x.pos, "Stream.%s writes the field %s that Stream.%s accesses: the two run concurrently (the connection is closed from another goroutine to unblock the loop sitting in %s), so this is a data race and, for a reset to nil, a nil dereference that crashes the process in a library goroutine", a, fld, b, b)
				}
			}
		}
	}
	if !bad {
		r.OK(rule, "ttlv.Stream/no-shared-write", token.NoPos, "no field written by one of Close/Recv/Send is accessed by another")
	}
}

// c11DialerContext: every call of the client's dialer passes the caller's context itself or one derived from it
// that keeps its cancellation (WithTimeout/WithDeadline/WithCancel/WithValue); context.WithoutCancel, Background()
// or TODO() make a stalled re-dial ignore the caller's deadline while the client lock is held.
func c11DialerContext(r *Run) {
	p := r.P
	n := 0
	for _, fn := range pkgFuncs(p, "kmipclient") {
		allInstrs(fn, func(in ssa.Instruction) {
			call, ok := in.(*ssa.Call)
			if !ok || call.Call.IsInvoke() || call.Call.StaticCallee() != nil || len(call.Call.Args) != 1 {
				return
			}
			if typeName(call.Call.Args[0].Type()) != "Context" {
				return
			}
			// callee value: a field named dialer (of Client or opts)
			ld, ok := call.Call.Value.(*ssa.UnOp)
			if !ok {
				return
			}
			fa, ok := ld.X.(*ssa.FieldAddr)
			if !ok || fname(derefStruct(fa.X.Type()).Field(fa.Field)) != "dialer" {
				return
			}
			n++
			key := fmt.Sprintf("%s/dialer-ctx#%d", fnKey(fn), n)
			var derive func(v ssa.Value, d int) string
			derive = func(v ssa.Value, d int) string {
				if d > 5 {
					return "?"
				}
				switch x := unspill(v).(type) {
				case *ssa.Parameter:
					return ""
				case *ssa.FreeVar:
					return ""
				case *ssa.Extract:
					return derive(x.Tuple, d+1)
				case *ssa.Call:
					id := callID(&x.Call)
					if id.pkg == "context" {
						switch id.name {
						case "WithTimeout", "WithDeadline", "WithCancel", "WithCancelCause", "WithValue", "WithTimeoutCause", "WithDeadlineCause":
							return derive(x.Call.Args[0], d+1)
						default:
							return "context." + id.name
						}
					}
					return id.String()
				}
				return "?"
			}
			switch why := derive(call.Call.Args[0], 0); why {
			case "":
				r.OK("C11.M12", key, call.Pos(), "the dialer receives the caller's context (or a context derived from it that keeps its cancellation)")
			case "?":
				r.Unk("C11.M12", key, call.Pos(), "origin of the context handed to the dialer not understood")
			default:
				r.Bad("C11.M12", key, call.Pos(), "the dialer is called with a context obtained from %s, which does not carry the caller's cancellation or deadline: a re-dial that stalls (black-holed peer) blocks the call past its deadline while the client lock is held, so every concurrent caller hangs too", why)
			}
		})
	}
	if n == 0 {
		r.Unk("C11.M12", "kmipclient/dialer-calls", token.NoPos, "no call of the dialer found")
	}
}

// c11DialerClosures: a dialer — a function of the client package taking just a context and returning a connection —
// connects with the context it is given, not with one captured when it was created: the dialer is kept for the life
// of the client and called again for every re-dial, when the context of the original Dial call is long over.
func c11DialerClosures(r *Run) {
	p := r.P
	n := 0
	for _, fn := range pkgFuncs(p, "kmipclient") {
		if fn.Parent() == nil || len(fn.Params) != 1 || typeName(fn.Params[0].Type()) != "Context" {
			continue
		}
		res := fn.Signature.Results()
		if res.Len() != 2 || typeName(res.At(0).Type()) != "Conn" {
			continue
		}
		n++
		key := fnKey(fn) + "/own-context"
		bad := token.NoPos
		allInstrs(fn, func(in ssa.Instruction) {
			c := callOf(in)
			if c == nil {
				return
			}
			for _, a := range c.Args {
				if typeName(a.Type()) != "Context" {
					continue
				}
				v := unspill(a)
				if ld, ok := v.(*ssa.UnOp); ok && ld.Op == token.MUL {
					v = ld.X
				}
				if _, isFV := v.(*ssa.FreeVar); isFV {
					bad = in.Pos()
				}
			}
		})
		if bad.IsValid() {
			r.Bad("C11.M12", key, bad, "the dialer %s connects with a context captured when it was created instead of the one it is called with: once the context of the original Dial call is cancelled or expired (the usual defer cancel()), every re-dial fails at once although the server is reachable, so the client never recovers from a connection fault", fnKey(fn))
		} else {
			r.OK("C11.M12", key, fn.Pos(), "connects with its own context parameter")
		}
	}
	if n == 0 {
		r.Unk("C11.M12", "kmipclient/dialers", token.NoPos, "no dialer function found")
	}
}

// c11WhoCloses: conn.Close records "closed by its owner", which reconnect and failed() read as "the client must not
// come back to life". It may therefore be called only by Client.Close, or on a connection that is replaced right away
// (reconnect: Close, then c.conn = newConn(...)). Any other call (a clean-up on a give-up path, ...) turns a client
// its user never closed into one that answers net.ErrClosed for ever, although the server is reachable again.
func c11WhoCloses(r *Run) {
	p := r.P
	n := 0
	for _, fn := range pkgFuncs(p, "kmipclient") {
		allInstrs(fn, func(in ssa.Instruction) {
			c := callOf(in)
			if c == nil || !callID(c).is(cliPath, "conn", "Close") {
				return
			}
			n++
			key := fmt.Sprintf("%s/conn.Close#%d", fnKey(fn), n)
			if fnKey(fn) == "kmipclient.Client.Close" {
				r.OK("C11.M4", key, in.Pos(), "the client's own Close")
				return
			}
			// replaced right away: a store of a newConn result into Client.conn that this call dominates
			replaced := false
			allInstrs(fn, func(i2 ssa.Instruction) {
				st, ok := i2.(*ssa.Store)
				if !ok {
					return
				}
				fa, ok := st.Addr.(*ssa.FieldAddr)
				if !ok || typeName(fa.X.Type()) != "Client" {
					return
				}
				if nc, ok := st.Val.(*ssa.Call); ok && callID(&nc.Call).is(cliPath, "", "newConn") {
					// the close is on the way to the replacement (it need not dominate it: `if c.conn != nil { Close }`)
					if in.Block().Dominates(st.Block()) || reachableFrom(in.Block())[st.Block()] {
						replaced = true
					}
				}
			})
			if replaced {
				r.OK("C11.M4", key, in.Pos(), "the closed connection is replaced by a new one right away")
			} else {
				r.Bad("C11.M4", key, in.Pos(), "%s calls conn.Close on the client's connection without replacing it: Close marks the connection as closed by its owner, so the client — which its user never closed — refuses every later call with net.ErrClosed instead of re-dialling once the server is reachable again", fnKey(fn))
			}
		})
	}
}
