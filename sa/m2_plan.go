package main

// M2 — the codec plan model: a static mirror of ttlv/reflect.go and
// encodeFunc/decodeFunc/buildStruct*Func, computed from go/types and struct tags.

import (
	"fmt"
	"go/token"
	"go/types"
	"reflect"
	"sort"
	"strconv"
	"strings"

	"golang.org/x/tools/go/ssa"
)

type Kind int

const (
	KUnsupported Kind = iota
	KCustomVal        // the type itself implements TagEncodable/TagDecodable
	KCustomPtr        // only *T implements it: the value must be addressable
	KEnum
	KBitmask
	KInterval
	KDateTime
	KBigInt
	KPointer
	KInteger     // int8/16/32 -> Integer
	KUInteger    // uint8/16 -> Integer (non-negative on decode)
	KLongInteger // int64 -> Long Integer
	KULong       // uint32 (enc+dec), uint64 (dec only) -> Long Integer
	KBool
	KText
	KBytes
	KSlice
	KStruct
	KInterface
)

var kindNames = map[Kind]string{KUnsupported: "UNSUPPORTED", KCustomVal: "custom", KCustomPtr: "custom(*T)", KEnum: "Enumeration", KBitmask: "Integer(mask)", KInterval: "Interval", KDateTime: "DateTime", KBigInt: "BigInteger", KPointer: "pointer", KInteger: "Integer", KUInteger: "Integer(unsigned)", KLongInteger: "LongInteger", KULong: "LongInteger(unsigned)", KBool: "Boolean", KText: "TextString", KBytes: "ByteString", KSlice: "slice", KStruct: "Structure", KInterface: "interface"}

func (k Kind) String() string { return kindNames[k] }

type vrange struct {
	startSet, endSet       bool
	sMaj, sMin, eMaj, eMin int
	raw                    string
}

func (v vrange) contains(maj, min int) bool {
	if v.startSet && (v.sMaj > maj || (v.sMaj == maj && v.sMin > min)) {
		return false
	}
	if v.endSet && (v.eMaj < maj || (v.eMaj == maj && v.eMin < min)) {
		return false
	}
	return true
}

func parseVer(s string) (int, int, error) {
	maj, min, ok := strings.Cut(s, ".")
	if !ok {
		return 0, 0, fmt.Errorf("cannot parse protocol version %q", s)
	}
	maj = strings.TrimPrefix(maj, "v")
	a, err := strconv.Atoi(maj)
	if err != nil {
		return 0, 0, err
	}
	b, err := strconv.Atoi(min)
	if err != nil {
		return 0, 0, err
	}
	return a, b, nil
}

// parseVRange mirrors ttlv.parseVersionRange.
func parseVRange(s string) (vrange, error) {
	v := vrange{raw: s}
	start, end, found := strings.Cut(s, "..")
	if !found {
		a, b, err := parseVer(s)
		if err != nil {
			return v, err
		}
		return vrange{true, true, a, b, a, b, s}, nil
	}
	if start != "" {
		a, b, err := parseVer(start)
		if err != nil {
			return v, err
		}
		v.startSet, v.sMaj, v.sMin = true, a, b
	}
	if end != "" {
		a, b, err := parseVer(end)
		if err != nil {
			return v, err
		}
		v.endSet, v.eMaj, v.eMin = true, a, b
	}
	if v.startSet && v.endSet && (v.sMaj > v.eMaj || (v.sMaj == v.eMaj && v.sMin > v.eMin)) {
		return v, fmt.Errorf("invalid range: start is greater than end")
	}
	return v, nil
}

type FieldPlan struct {
	Index      int
	Var        *types.Var
	Name       string
	Type       types.Type
	Tag        int64
	TagSource  string // explicit-hex | explicit-name | field-name | type
	Dynamic    bool   // interface field without static tag: tag taken from the dynamic type
	Omit       bool
	VRange     *vrange
	SetVersion bool
	Err        string // non-empty: the library panics while building the plan
}

type StructPlan struct {
	Named  *types.Named
	Fields []FieldPlan
}

type Model struct {
	P        *Program
	Reg      *Registry
	encIface *types.Interface // ttlv.TagEncodable
	decIface *types.Interface // ttlv.TagDecodable
	verIface *types.Interface // ttlv.Version
	plans    map[*types.Named]*StructPlan
	Problems []string
}

func NewModel(p *Program, reg *Registry) *Model {
	m := &Model{P: p, Reg: reg, plans: map[*types.Named]*StructPlan{}}
	tt := p.Pkg("ttlv")
	if tt == nil {
		m.Problems = append(m.Problems, "package ttlv not loaded")
		return m
	}
	get := func(n string) *types.Interface {
		o := tt.Types.Scope().Lookup(curTypeName(tt.PkgPath, n))
		if o == nil {
			m.Problems = append(m.Problems, "anchor missing: ttlv."+n)
			return nil
		}
		i, _ := o.Type().Underlying().(*types.Interface)
		if i == nil {
			m.Problems = append(m.Problems, "ttlv."+n+" is not an interface")
		}
		return i
	}
	m.encIface, m.decIface, m.verIface = get("TagEncodable"), get("TagDecodable"), get("Version")
	m.probe()
	return m
}

// probe: the constants the model mirrors are the ones the library compares.
func (m *Model) probe() {
	p := m.P
	// parseFieldInfo: option strings
	tt := p.Pkg("ttlv")
	wantStrs := map[string][]string{
		"parseFieldInfo": {"omitempty", "set-version", "version", ",", "="},
		"getFieldInfo":   {"ttlv"},
		"getFieldTag":    {"0x"},
	}
	for fn, want := range wantStrs {
		fd := p.FuncDecl("ttlv", "", fn)
		if fd == nil {
			m.Problems = append(m.Problems, "anchor missing: ttlv."+fn)
			continue
		}
		have := map[string]bool{}
		inspectStrings(tt, fd, have)
		for _, w := range want {
			if !have[w] {
				m.Problems = append(m.Problems, fmt.Sprintf("model probe failed: ttlv.%s no longer uses the string constant %q", fn, w))
			}
		}
	}
	// order of the dispatch in encodeFunc/decodeFunc: custom -> enum -> bitmask
	for _, fn := range []string{"encodeFunc", "decodeFunc"} {
		fd := p.FuncDecl("ttlv", "", fn)
		if fd == nil {
			m.Problems = append(m.Problems, "anchor missing: ttlv."+fn)
			continue
		}
		order := callOrder(tt, fd, []string{"Implements", "isEnum", "isBitmask"})
		if strings.Join(order, ",") != "Implements,Implements,isEnum,isBitmask" {
			m.Problems = append(m.Problems, fmt.Sprintf("model probe failed: ttlv.%s dispatch order is %v, expected custom(T), custom(*T), enum, bitmask", fn, order))
		}
	}
	// getFieldTag: name before type
	if fd := p.FuncDecl("ttlv", "", "getFieldTag"); fd != nil {
		order := callOrder(tt, fd, []string{"getTagByName", "getTagForType"})
		if len(order) < 2 || order[0] != "getTagByName" || order[1] != "getTagForType" {
			m.Problems = append(m.Problems, fmt.Sprintf("model probe failed: ttlv.getFieldTag consults %v, expected field name before type", order))
		}
	}
	// struct builders apply wrappers omitempty -> version range -> set-version on both sides, each under its own
	// flag only (a field may carry several options: `omitempty,version=1.2..`), chained on one variable
	for _, fn := range []string{"buildStructEncodeFunc", "buidStructDecodeFunc"} {
		sf := p.Func("ttlv", "", fn)
		if sf == nil {
			m.Problems = append(m.Problems, "anchor missing: ttlv."+fn)
			continue
		}
		suffix := "Encode"
		if strings.Contains(fn, "Decode") {
			suffix = "Decode"
		}
		m.Problems = append(m.Problems, wrapperProbe(sf, suffix)...)
	}
}

// wrapperProbe: in a struct plan builder, applyOmitEmptyX / applyVersionRangeX / applySetVersionX are each called once,
// in that order, each guarded by exactly its own fieldInfo flag (and by no other fieldInfo flag), each taking the current
// field function and storing its result back into the variable the plan closure captures.
func wrapperProbe(sf *ssa.Function, suffix string) []string {
	var problems []string
	want := []struct{ callee, flag string }{{"applyOmitEmpty" + suffix, "omitempty"}, {"applyVersionRange" + suffix, "vrange"}, {"applySetVersion" + suffix, "setVersion"}}
	calls := map[string][]*ssa.Call{}
	allInstrs(sf, func(in ssa.Instruction) {
		if c, ok := in.(*ssa.Call); ok {
			if sc := c.Call.StaticCallee(); sc != nil {
				id := idOf(sc)
				if id.pkg == ttlvPath && id.recv == "" {
					calls[id.name] = append(calls[id.name], c)
				}
			}
		}
	})
	// flags of fieldInfo a condition reads
	var flagsOf func(v ssa.Value, d int, out map[string]bool)
	flagsOf = func(v ssa.Value, d int, out map[string]bool) {
		if d > 6 || v == nil {
			return
		}
		switch x := v.(type) {
		case *ssa.BinOp:
			flagsOf(x.X, d+1, out)
			flagsOf(x.Y, d+1, out)
		case *ssa.UnOp:
			flagsOf(x.X, d+1, out)
		case *ssa.Field:
			if typeName(x.X.Type()) == "fieldInfo" {
				out[fname(derefStruct(x.X.Type()).Field(x.Field))] = true
			}
		case *ssa.FieldAddr:
			if typeName(x.X.Type()) == "fieldInfo" {
				out[fname(derefStruct(x.X.Type()).Field(x.Field))] = true
			}
		case *ssa.Phi:
			for _, e := range x.Edges {
				flagsOf(e, d+1, out)
			}
		}
	}
	// value flow inside the builder: forward through phis, stores into local cells and loads of them, wrapper calls
	isWrapper := func(c *ssa.Call) bool {
		if sc := c.Call.StaticCallee(); sc != nil {
			n := idOf(sc).name
			for _, w := range want {
				if n == w.callee {
					return true
				}
			}
		}
		return false
	}
	var forward func(v ssa.Value, seen map[ssa.Value]bool) bool // reaches the per-field plan (closure binding, struct field, append)
	forward = func(v ssa.Value, seen map[ssa.Value]bool) bool {
		if seen[v] {
			return false
		}
		seen[v] = true
		refs := v.Referrers()
		if refs == nil {
			return false
		}
		for _, ref := range *refs {
			switch x := ref.(type) {
			case *ssa.Phi:
				if forward(x, seen) {
					return true
				}
			case *ssa.Store:
				if x.Val != v {
					continue
				}
				switch a := x.Addr.(type) {
				case *ssa.Alloc:
					// a local cell: captured by a closure, or loaded again
					for _, r2 := range *a.Referrers() {
						switch y := r2.(type) {
						case *ssa.MakeClosure:
							return true
						case *ssa.UnOp:
							if forward(y, seen) {
								return true
							}
						}
					}
				case *ssa.FieldAddr, *ssa.IndexAddr:
					return true // stored into the plan step (struct literal / slice element)
				}
			case *ssa.MakeClosure:
				return true
			case *ssa.Call:
				if isWrapper(x) {
					if forward(x, seen) {
						return true
					}
				}
			case *ssa.MakeInterface, *ssa.ChangeType:
				if forward(x.(ssa.Value), seen) {
					return true
				}
			}
		}
		return false
	}
	reachesPlan := func(c *ssa.Call) bool { return forward(c, map[ssa.Value]bool{}) }
	var fromPlan func(v ssa.Value) bool // derives from the plan looked up for the field type (or from an earlier wrapper)
	seenBack := map[ssa.Value]bool{}
	fromPlan = func(v ssa.Value) bool {
		if seenBack[v] {
			return false
		}
		seenBack[v] = true
		defer delete(seenBack, v)
		switch x := v.(type) {
		case *ssa.Call:
			if isWrapper(x) {
				return true
			}
			if sc := x.Call.StaticCallee(); sc != nil {
				n := idOf(sc).name
				return n == "encodeFuncFor" || n == "decodeFuncFor"
			}
		case *ssa.Phi:
			for _, e := range x.Edges {
				if fromPlan(e) {
					return true
				}
			}
		case *ssa.UnOp:
			if a, ok := x.X.(*ssa.Alloc); ok {
				for _, r2 := range *a.Referrers() {
					if st, ok := r2.(*ssa.Store); ok && st.Addr == ssa.Value(a) && fromPlan(st.Val) {
						return true
					}
				}
			}
		}
		return false
	}
	var prev *ssa.Call
	for _, w := range want {
		cs := calls[w.callee]
		if len(cs) != 1 {
			problems = append(problems, fmt.Sprintf("model probe failed: %s calls %s %d times, expected once", fnKey(sf), w.callee, len(cs)))
			continue
		}
		c := cs[0]
		own, other := false, []string{}
		for _, dc := range dominatingConds(c.Block()) {
			fl := map[string]bool{}
			flagsOf(dc.cond, 0, fl)
			for f := range fl {
				if f == w.flag {
					// polarity: `flag` true, or `flag != nil` true, or `flag == nil` false
					pol := dc.outcome
					if bo, ok := dc.cond.(*ssa.BinOp); ok && bo.Op == token.EQL {
						pol = !pol
					}
					if uo, ok := dc.cond.(*ssa.UnOp); ok && uo.Op == token.NOT {
						pol = !pol
					}
					if pol {
						own = true
					} else {
						other = append(other, "!"+f)
					}
				} else if f != "tag" {
					other = append(other, f)
				}
			}
		}
		if !own || len(other) > 0 {
			sort.Strings(other)
			problems = append(problems, fmt.Sprintf("model probe failed: in %s the wrapper %s is not applied exactly when fieldInfo.%s is set (own flag tested: %v; also conditioned on: %v): a field carrying several options loses one of them", fnKey(sf), w.callee, w.flag, own, other))
		}
		// chaining: the wrapper takes the current field function and its result is the one that goes on (to the
		// next wrapper and finally into the per-field plan), whatever carries it (captured cell, local, struct field)
		argOK := false
		for _, a := range c.Call.Args {
			if _, isF := a.Type().Underlying().(*types.Signature); isF && fromPlan(a) {
				argOK = true
			}
		}
		if !argOK || !reachesPlan(c) {
			problems = append(problems, fmt.Sprintf("model probe failed: in %s the wrapper %s does not wrap the current field function and replace it (the wrappers must chain on one variable)", fnKey(sf), w.callee))
		}
		if prev != nil && !(prev.Pos() < c.Pos()) {
			problems = append(problems, fmt.Sprintf("model probe failed: in %s the wrappers are not applied in the order omitempty, version range, set-version", fnKey(sf)))
		}
		prev = c
	}
	return problems
}

func (m *Model) implements(t types.Type, iface *types.Interface) bool {
	if iface == nil {
		return false
	}
	return types.Implements(t, iface)
}

func isNamed(t types.Type, pkg, name string) bool {
	n, ok := types.Unalias(t).(*types.Named)
	return ok && n.Obj().Pkg() != nil && n.Obj().Pkg().Path() == pkg && n.Obj().Name() == name
}

// KindOf mirrors encodeFunc (enc=true) / decodeFunc (enc=false) for type t.
func (m *Model) KindOf(t types.Type, enc bool) Kind {
	t = types.Unalias(t)
	iface := m.decIface
	if enc {
		iface = m.encIface
	}
	_, isIface := t.Underlying().(*types.Interface)
	if enc || !isIface {
		if m.implements(t, iface) {
			return KCustomVal
		}
	}
	if !isIface {
		if _, isPtr := t.Underlying().(*types.Pointer); !isPtr || true {
			if m.implements(types.NewPointer(t), iface) {
				return KCustomPtr
			}
		}
	}
	if m.Reg.EnumForType(t) != nil {
		return KEnum
	}
	if m.Reg.MaskForType(t) != nil {
		return KBitmask
	}
	switch {
	case isNamed(t, "time", "Duration"):
		return KInterval
	case isNamed(t, "time", "Time"):
		return KDateTime
	case isNamed(t, "math/big", "Int"):
		return KBigInt
	}
	switch u := t.Underlying().(type) {
	case *types.Pointer:
		return KPointer
	case *types.Basic:
		switch u.Kind() {
		case types.Uint8, types.Uint16:
			return KUInteger
		case types.Uint32:
			return KULong
		case types.Uint64:
			if enc {
				return KUnsupported
			}
			return KULong
		case types.Int8, types.Int16, types.Int32:
			return KInteger
		case types.Int64:
			return KLongInteger
		case types.Bool:
			return KBool
		case types.String:
			return KText
		}
		return KUnsupported
	case *types.Slice:
		if b, ok := u.Elem().Underlying().(*types.Basic); ok && b.Kind() == types.Uint8 {
			return KBytes
		}
		return KSlice
	case *types.Struct:
		return KStruct
	case *types.Interface:
		return KInterface
	}
	return KUnsupported
}

// Plan returns the struct plan of a named struct type (same for both
// directions: getFieldInfo/getFieldTag are shared).
func (m *Model) Plan(n *types.Named) *StructPlan {
	if sp, ok := m.plans[n]; ok {
		return sp
	}
	st, ok := n.Underlying().(*types.Struct)
	if !ok {
		return nil
	}
	sp := &StructPlan{Named: n}
	m.plans[n] = sp
	for i := 0; i < st.NumFields(); i++ {
		f := st.Field(i)
		if !f.Exported() {
			continue
		}
		tagVal, _ := reflect.StructTag(st.Tag(i)).Lookup("ttlv")
		parts := strings.Split(tagVal, ",")
		fp := FieldPlan{Index: i, Var: f, Name: f.Name(), Type: f.Type()}
		tagStr := parts[0]
		for _, part := range parts[1:] {
			switch {
			case part == "omitempty":
				fp.Omit = true
			case part == "set-version":
				fp.SetVersion = true
			default:
				kv := strings.Split(part, "=")
				if len(kv) != 2 || kv[0] != "version" {
					fp.Err = "invalid sub-tag " + part
					continue
				}
				vr, err := parseVRange(kv[1])
				if err != nil {
					fp.Err = "invalid sub-tag version range: " + err.Error()
					continue
				}
				fp.VRange = &vr
			}
		}
		if tagStr == "-" {
			continue
		}
		switch {
		case tagStr == "":
			if tg, ok := m.Reg.TagByName[f.Name()]; ok {
				fp.Tag, fp.TagSource = tg, "field-name"
			} else if tg, ok := m.Reg.TagForType(f.Type()); ok {
				fp.Tag, fp.TagSource = tg, "type"
			}
		case strings.HasPrefix(tagStr, "0x"):
			n, err := strconv.ParseInt(tagStr[2:], 16, 0)
			switch {
			case err != nil:
				fp.Err = err.Error()
			case n <= 0:
				fp.Err = "the tag must be strictly positive"
			case n > 0xFFFFFF:
				fp.Err = "the tag cannot be bigger than 3 bytes"
			default:
				fp.Tag, fp.TagSource = n, "explicit-hex"
			}
		default:
			if tg, ok := m.Reg.TagByName[tagStr]; ok {
				fp.Tag, fp.TagSource = tg, "explicit-name"
			} else {
				fp.Err = fmt.Sprintf("Unknown tag %q", tagStr)
			}
		}
		if fp.Tag == 0 && fp.Err == "" {
			if _, ok := f.Type().Underlying().(*types.Interface); ok {
				fp.Dynamic = true
			} else {
				fp.Err = fmt.Sprintf("Missing tag for field %s of type %s", f.Name(), n.Obj().Name())
			}
		}
		if fp.SetVersion && fp.Err == "" && !m.implements(f.Type(), m.verIface) {
			fp.Err = fmt.Sprintf("Type %s does not implement ttlv.Version", f.Type())
		}
		sp.Fields = append(sp.Fields, fp)
	}
	return sp
}

// OptionalOnEncode: the element may be absent from the encoding of a populated struct.
func (m *Model) OptionalOnEncode(fp *FieldPlan) bool {
	if fp.Omit || fp.VRange != nil {
		return true
	}
	switch m.KindOf(fp.Type, true) {
	case KPointer, KSlice, KInterface:
		return true
	case KBytes:
		return false
	case KCustomVal:
		// pointer or interface typed custom values are skipped when nil
		switch fp.Type.Underlying().(type) {
		case *types.Pointer, *types.Interface:
			return true
		}
	}
	return false
}

// OptionalOnDecode: decoding tolerates the element being absent.
func (m *Model) OptionalOnDecode(fp *FieldPlan) bool {
	if fp.Omit {
		return true
	}
	switch m.KindOf(fp.Type, false) {
	case KPointer, KSlice:
		return true
	case KCustomVal:
		if _, ok := fp.Type.Underlying().(*types.Pointer); ok {
			return true
		}
	}
	return false
}

func namedOf(t types.Type) *types.Named {
	t = types.Unalias(t)
	for {
		switch u := t.(type) {
		case *types.Pointer:
			t = types.Unalias(u.Elem())
			continue
		}
		break
	}
	n, _ := t.(*types.Named)
	return n
}

func qualName(t types.Type) string {
	return types.TypeString(t, func(p *types.Package) string {
		r := relPkg(p.Path())
		if r == "" && p.Path() == modPath {
			return "kmip"
		}
		if strings.HasPrefix(p.Path(), modPath) {
			return r
		}
		return p.Name()
	})
}
