package main

import (
	"fmt"
	"sort"

	"golang.org/x/tools/go/ssa"
)

func debugC02(p *Program) {
	D := repoReach(p, decodeRoots(p))
	var fs []*ssa.Function
	for f := range D {
		fs = append(fs, f)
	}
	sort.Slice(fs, func(i, j int) bool { return fnKey(fs[i]) < fnKey(fs[j]) })
	fmt.Println("D size", len(fs))
	for _, f := range fs {
		fmt.Println("FUNC", fnKey(f))
		allInstrs(f, func(in ssa.Instruction) {
			switch x := in.(type) {
			case *ssa.Panic:
				fmt.Println("   PANIC", p.pos(x.Pos()))
			case *ssa.TypeAssert:
				if !x.CommaOk {
					fmt.Println("   ASSERT", p.pos(x.Pos()), x.AssertedType)
				}
			case *ssa.IndexAddr:
				fmt.Println("   INDEXADDR", p.pos(x.Pos()), x.X.Type(), x.Index)
			case *ssa.Index:
				fmt.Println("   INDEX", p.pos(x.Pos()), x.X.Type(), x.Index)
			case *ssa.Slice:
				fmt.Println("   SLICE", p.pos(x.Pos()), x.X.Type(), x.Low, x.High)
			}
		})
		for _, b := range f.Blocks {
			for _, s := range b.Succs {
				if s.Dominates(b) {
					fmt.Println("   LOOP header", s.Index, "latch", b.Index, p.pos(s.Instrs[0].Pos()))
				}
			}
		}
	}
}
