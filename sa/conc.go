package main

// Channel / goroutine discipline rules shared by C08 (server), C10/C11 (client) and C16.

import (
	"fmt"
	"go/token"
	"go/types"
	"sort"
	"strings"

	"golang.org/x/tools/go/ssa"
)

// chanClass names a channel by its element type (rxMsg, txMsg, error, ...): within one
// package the hand-off channels have distinct element types.
func chanClass(t types.Type) string {
	ch, ok := t.Underlying().(*types.Chan)
	if !ok {
		return ""
	}
	return typeName(ch.Elem())
}

type chanOp struct {
	kind   string // send | recv | close | make
	fn     *ssa.Function
	in     ssa.Instruction
	sel    *ssa.Select // enclosing select for send/recv states
	state  int
	class  string
	ch     ssa.Value
	bufCap int64 // for make
}

func pkgFuncs(p *Program, rel string) []*ssa.Function {
	var out []*ssa.Function
	for _, fn := range p.OwnFuncs() {
		if idOf(fn).pkg == modPath+"/"+rel && (fn.Synthetic == "" || strings.HasPrefix(fn.Synthetic, "instance of")) {
			out = append(out, fn)
		}
	}
	sort.Slice(out, func(i, j int) bool {
		if fnKey(out[i]) != fnKey(out[j]) {
			return fnKey(out[i]) < fnKey(out[j])
		}
		return out[i].Pos() < out[j].Pos()
	})
	return out
}

// chanOps inventories every channel operation of a package.
func chanOps(p *Program, rel string) []chanOp {
	var ops []chanOp
	for _, fn := range pkgFuncs(p, rel) {
		allInstrs(fn, func(in ssa.Instruction) {
			switch x := in.(type) {
			case *ssa.Send:
				ops = append(ops, chanOp{kind: "send", fn: fn, in: in, class: chanClass(x.Chan.Type()), ch: x.Chan})
			case *ssa.UnOp:
				if x.Op == token.ARROW {
					ops = append(ops, chanOp{kind: "recv", fn: fn, in: in, class: chanClass(x.X.Type()), ch: x.X})
				}
			case *ssa.Select:
				for i, st := range x.States {
					k := "recv"
					if st.Dir == types.SendOnly {
						k = "send"
					}
					ops = append(ops, chanOp{kind: k, fn: fn, in: in, sel: x, state: i, class: chanClass(st.Chan.Type()), ch: st.Chan})
				}
			case *ssa.MakeChan:
				c, _ := constIntVal(x.Size)
				ops = append(ops, chanOp{kind: "make", fn: fn, in: in, class: chanClass(x.Type()), ch: x, bufCap: c})
			case *ssa.Call:
				if b, ok := x.Call.Value.(*ssa.Builtin); ok && b.Name() == "close" {
					ops = append(ops, chanOp{kind: "close", fn: fn, in: in, class: chanClass(x.Call.Args[0].Type()), ch: x.Call.Args[0]})
				}
			case *ssa.Defer:
				if b, ok := x.Call.Value.(*ssa.Builtin); ok && b.Name() == "close" {
					ops = append(ops, chanOp{kind: "close", fn: fn, in: in, class: chanClass(x.Call.Args[0].Type()), ch: x.Call.Args[0]})
				}
			}
		})
	}
	return ops
}

// isCtxDone: v is <x>.Done() on a context.
func isCtxDone(v ssa.Value) bool {
	c, ok := v.(*ssa.Call)
	if !ok || !c.Call.IsInvoke() {
		return false
	}
	return c.Call.Method.Name() == "Done" && typeName(c.Call.Value.Type()) == "Context"
}

// connCtxDone: v is c.ctx.Done() where ctx is a field of the package's conn type.
func connCtxDone(v ssa.Value) bool {
	c, ok := v.(*ssa.Call)
	if !ok || !isCtxDone(v) {
		return false
	}
	u, ok := c.Call.Value.(*ssa.UnOp)
	if !ok {
		return false
	}
	_, fld, ok := fieldAddrOf(u.X)
	return ok && fname(fld) == "ctx"
}

type concCtx struct {
	r    *Run
	p    *Program
	rel  string // kmipserver | kmipclient
	ops  []chanOp
	rule func(string) string // maps K1.. to the property's rule id
}

// ---------------------------------------------------------------- K1

// k1SoleSenderCloses: a connection-level channel is closed only in the function that contains all of its send sites.
func (c *concCtx) k1SoleSenderCloses() {
	r := c.r
	rule := c.rule("K1")
	r.Rule(rule, "a channel is closed only by its sole sender (close in the function holding every send site); per-message reply channels are closed by the write loop or on the never-delivered path", 2)
	byClass := map[string][]chanOp{}
	for _, op := range c.ops {
		byClass[op.class] = append(byClass[op.class], op)
	}
	var classes []string
	for k := range byClass {
		classes = append(classes, k)
	}
	sort.Strings(classes)
	for _, cl := range classes {
		var closes, sends []chanOp
		for _, op := range byClass[cl] {
			switch op.kind {
			case "close":
				closes = append(closes, op)
			case "send":
				sends = append(sends, op)
			}
		}
		if len(closes) == 0 {
			if len(sends) > 0 {
				r.Trivial(rule, c.rel+"/chan "+cl+"/never-closed", sends[0].in.Pos(), "channel of %s is never closed: no send can hit a closed channel", cl)
			}
			continue
		}
		if cl == "error" {
			// reply channel: closes must be by the sender of errors (write loop) or in the creator on a path where
			// the message carrying it was not handed over (a select case other than the hand-off send)
			for i, cz := range closes {
				key := fmt.Sprintf("%s.%s/close(chan error)#%d", c.rel, strings.TrimPrefix(fnKey(cz.fn), c.rel+"."), i+1)
				isSender := false
				for _, s := range sends {
					if s.fn == cz.fn {
						isSender = true
					}
				}
				if isSender {
					r.OK(rule, key, cz.in.Pos(), "reply channel closed by the function that sends on it")
					continue
				}
				// creator-side close: must sit in a select branch that is not the hand-off send state
				if _, isMake := cz.ch.(*ssa.MakeChan); isMake && c.inNonHandoffBranch(cz) {
					r.OK(rule, key, cz.in.Pos(), "reply channel closed by its creator only on a select branch where the message was not handed to the write loop")
					continue
				}
				r.Bad(rule, key, cz.in.Pos(), "reply channel closed in %s, which neither sends on it nor is on a never-delivered path: the write loop may send on a closed channel", fnKey(cz.fn))
			}
			continue
		}
		sendFns := map[*ssa.Function]bool{}
		for _, s := range sends {
			sendFns[s.fn] = true
		}
		for i, cz := range closes {
			key := fmt.Sprintf("%s.%s/close(chan %s)#%d", c.rel, strings.TrimPrefix(fnKey(cz.fn), c.rel+"."), cl, i+1)
			others := []string{}
			for f := range sendFns {
				if f != cz.fn && !c.runsOnlyInside(f, cz) {
					others = append(others, fnKey(f))
				}
			}
			sort.Strings(others)
			if len(others) > 0 {
				r.Bad(rule, key, cz.in.Pos(), "%s closes the %s channel while %s sends on it from another goroutine: a send racing with the close is `panic: send on closed channel`, which no recover catches in the connection goroutines (process exit)", fnKey(cz.fn), cl, strings.Join(others, ", "))
			} else {
				r.OK(rule, key, cz.in.Pos(), "closed by %s, which holds every send site of the %s channel", fnKey(cz.fn), cl)
			}
		}
	}
}

// runsOnlyInside: the sending function f runs only as a synchronous call made by the closing function, and the
// close happens after that call returned (it is deferred, or dominated by the call): the close and the sends are then
// sequential in one goroutine (`go func() { defer close(ch); c.readloop() }()`).
func (c *concCtx) runsOnlyInside(f *ssa.Function, cz chanOp) bool {
	var callIn ssa.Instruction
	ok := true
	for _, fn := range pkgFuncs(c.p, c.rel) {
		allInstrs(fn, func(in ssa.Instruction) {
			switch x := in.(type) {
			case *ssa.Call:
				if x.Call.StaticCallee() == f {
					if fn != cz.fn || callIn != nil {
						ok = false
					}
					callIn = in
				}
			case *ssa.Go:
				if x.Call.StaticCallee() == f {
					ok = false
				}
			case *ssa.Defer:
				if x.Call.StaticCallee() == f {
					ok = false
				}
			}
			for _, op := range in.Operands(nil) {
				if op != nil && *op == ssa.Value(f) {
					if cc := callOf(in); cc == nil || cc.Value != ssa.Value(f) {
						ok = false // used as a value
					}
				}
				if op != nil && *op != nil {
					if mc, isMC := (*op).(*ssa.MakeClosure); isMC && mc.Fn == ssa.Value(f) {
						ok = false
					}
				}
			}
		})
	}
	if !ok || callIn == nil {
		return false
	}
	if _, deferred := cz.in.(*ssa.Defer); deferred {
		return true
	}
	return dominatesInstr(callIn, cz.in)
}

// inNonHandoffBranch: the close sits in a block dominated by a select-index test selecting a state that is not a send.
func (c *concCtx) inNonHandoffBranch(cz chanOp) bool {
	for _, dc := range dominatingConds(cz.in.Block()) {
		bo, ok := dc.cond.(*ssa.BinOp)
		if !ok || bo.Op != token.EQL || !dc.outcome {
			continue
		}
		ex, ok := bo.X.(*ssa.Extract)
		if !ok || ex.Index != 0 {
			continue
		}
		sel, ok := ex.Tuple.(*ssa.Select)
		if !ok {
			continue
		}
		if k, ok := constIntVal(bo.Y); ok && int(k) < len(sel.States) && sel.States[k].Dir != types.SendOnly {
			// and the select does contain a hand-off send state
			for _, st := range sel.States {
				if st.Dir == types.SendOnly {
					return true
				}
			}
		}
	}
	return false
}

// ---------------------------------------------------------------- K2

func (c *concCtx) k2ReplyBuffered() {
	r := c.r
	rule := c.rule("K2")
	r.Rule(rule, "a reply channel whose receiver may give up (receive inside a multi-way select) is buffered or sent to under a select: the replier never blocks forever", 1)
	var recvInSelect, bareSends, makes []chanOp
	for _, op := range c.ops {
		if op.class != "error" {
			continue
		}
		switch {
		case op.kind == "recv" && op.sel != nil && len(op.sel.States) > 1:
			recvInSelect = append(recvInSelect, op)
		case op.kind == "send" && op.sel == nil:
			bareSends = append(bareSends, op)
		case op.kind == "make":
			makes = append(makes, op)
		}
	}
	if len(recvInSelect) == 0 {
		r.Trivial(rule, c.rel+"/chan error", token.NoPos, "no receiver of a reply channel can give up")
		return
	}
	for i, mk := range makes {
		key := fmt.Sprintf("%s.%s/make(chan error)#%d", c.rel, strings.TrimPrefix(fnKey(mk.fn), c.rel+"."), i+1)
		if mk.bufCap >= 1 {
			r.OK(rule, key, mk.in.Pos(), "reply channel has capacity %d: the write loop's report never blocks even if the requester has left", mk.bufCap)
		} else if len(bareSends) > 0 {
			r.Bad(rule, key, mk.in.Pos(), "unbuffered reply channel: the requester can leave through <-ctx.Done() (%s) while the write loop does a bare `req.err <- err` (%s) — the write loop goroutine then blocks forever and is leaked", c.p.pos(recvInSelect[0].in.Pos()), c.p.pos(bareSends[0].in.Pos()))
		} else {
			r.OK(rule, key, mk.in.Pos(), "unbuffered, but every send on it is a select case")
		}
	}
	if len(makes) == 0 {
		r.Unk(rule, c.rel+"/chan error/make", token.NoPos, "creation of the reply channel not found")
	}
}

// ---------------------------------------------------------------- K6

func (c *concCtx) k6Releasable() {
	r := c.r
	rule := c.rule("K6")
	r.Rule(rule, "every blocking channel operation of a connection can be released by teardown (select with <-c.ctx.Done(), or a buffered/closed channel); terminate cancels the context first", 5)
	// selects
	seen := map[*ssa.Select]bool{}
	ord := map[string]int{}
	for _, op := range c.ops {
		if op.sel == nil || seen[op.sel] {
			continue
		}
		seen[op.sel] = true
		if !op.sel.Blocking {
			continue
		}
		k := fnKey(op.fn) + "/select"
		ord[k]++
		key := fmt.Sprintf("%s#%d", k, ord[k])
		has := false
		for _, st := range op.sel.States {
			if st.Dir == types.RecvOnly && connCtxDone(st.Chan) {
				has = true
			}
		}
		if has {
			r.OK(rule, key, op.sel.Pos(), "blocking select has a <-c.ctx.Done() case")
		} else {
			r.Bad(rule, key, op.sel.Pos(), "blocking select in %s has no <-c.ctx.Done() case: teardown of the connection cannot release the goroutine parked here", fnKey(op.fn))
		}
	}
	// bare sends / receives
	for _, op := range c.ops {
		if op.sel != nil || (op.kind != "send" && op.kind != "recv") {
			continue
		}
		k := fnKey(op.fn) + "/bare-" + op.kind
		ord[k]++
		key := fmt.Sprintf("%s#%d", k, ord[k])
		if op.kind == "send" && op.class == "error" {
			buffered := false
			for _, mk := range c.ops {
				if mk.kind == "make" && mk.class == "error" && mk.bufCap >= 1 {
					buffered = true
				}
			}
			if buffered {
				r.OK(rule, key, op.in.Pos(), "send on the buffered reply channel cannot block")
			} else {
				r.Bad(rule, key, op.in.Pos(), "bare send on an unbuffered reply channel: blocks forever once the requester has given up")
			}
			continue
		}
		if op.kind == "recv" && isCtxDone(op.ch) {
			r.OK(rule, key, op.in.Pos(), "waits for a context")
			continue
		}
		r.Bad(rule, key, op.in.Pos(), "blocking %s on a %s channel outside a select in %s: nothing releases it on teardown", op.kind, op.class, fnKey(op.fn))
	}
	// terminate: cancel before close/Close
	term := c.p.Func(c.rel, "conn", "terminate")
	if term == nil {
		r.Unk(rule, c.rel+".conn.terminate/order", token.NoPos, "anchor missing")
		return
	}
	var cancel ssa.Instruction
	var later []ssa.Instruction
	allInstrs(term, func(in ssa.Instruction) {
		call, ok := in.(*ssa.Call)
		if !ok {
			return
		}
		if u, ok := call.Call.Value.(*ssa.UnOp); ok {
			if _, fld, ok := fieldAddrOf(u.X); ok && fname(fld) == "cancel" && cancel == nil {
				cancel = call
				return
			}
		}
		id := callID(&call.Call)
		if b, ok := call.Call.Value.(*ssa.Builtin); ok && b.Name() == "close" || id.name == "Close" {
			later = append(later, call)
		}
	})
	okOrder := cancel != nil
	for _, l := range later {
		if cancel == nil || !dominatesInstr(cancel, l) {
			okOrder = false
		}
	}
	if okOrder {
		r.OK(rule, c.rel+".conn.terminate/order", term.Pos(), "terminate cancels the connection context before closing anything: every parked select wakes up")
	} else {
		r.Bad(rule, c.rel+".conn.terminate/order", term.Pos(), "terminate does not cancel the connection context before closing the stream/channels")
	}
}

// ---------------------------------------------------------------- goroutine inventory

type goSite struct {
	fn     *ssa.Function
	in     *ssa.Go
	target string
	// when the goroutine is a thin closure `go func() { defer ...; F(args) }()`: the function it runs
	inner   string
	wrapper *ssa.Function
}

// thinWrapper: cl only defers calls and calls one library function; returns that function.
func thinWrapper(cl *ssa.Function) *ssa.Function {
	var inner *ssa.Function
	n := 0
	ok := true
	allInstrs(cl, func(in ssa.Instruction) {
		switch x := in.(type) {
		case *ssa.Call:
			n++
			inner = x.Call.StaticCallee()
		case *ssa.Go, *ssa.Send, *ssa.Select, *ssa.Store, *ssa.MapUpdate:
			ok = false
		}
	})
	if !ok || n != 1 || inner == nil || !strings.HasPrefix(idOf(inner).pkg, modPath) {
		return nil
	}
	return inner
}

func goSites(p *Program, rel string) []goSite {
	var out []goSite
	for _, fn := range pkgFuncs(p, rel) {
		allInstrs(fn, func(in ssa.Instruction) {
			g, ok := in.(*ssa.Go)
			if !ok {
				return
			}
			t := "?"
			if mc, ok := g.Call.Value.(*ssa.MakeClosure); ok {
				cl := mc.Fn.(*ssa.Function)
				t = fnKey(cl)
				if in := thinWrapper(cl); in != nil {
					out = append(out, goSite{fn, g, t, fnKey(in), cl})
					return
				}
			} else if sc := g.Call.StaticCallee(); sc != nil {
				t = fnKey(sc)
			}
			out = append(out, goSite{fn: fn, in: g, target: t})
		})
	}
	return out
}

// ---------------------------------------------------------------- loop error exits

// kLoopErrorExits: in the connection's read and write loops, every return taken because the stream reported an error is
// preceded by the teardown of the connection (terminate): otherwise the connection stays installed with one of its loops
// gone — later senders block forever (nobody drains tx) or wait for a response that is never read.
func (c *concCtx) kLoopErrorExits(rule string) {
	r, p := c.r, c.p
	for _, loop := range []string{"readloop", "writeloop"} {
		fn := p.Func(c.rel, "conn", loop)
		key := c.rel + ".conn." + loop + "/error-exit-teardown"
		if fn == nil {
			r.Unk(rule, key, token.NoPos, "anchor missing")
			continue
		}
		n, bad := 0, token.NoPos
		allInstrs(fn, func(in ssa.Instruction) {
			call, ok := in.(*ssa.Call)
			if !ok {
				return
			}
			id := callID(&call.Call)
			if id.pkg != ttlvPath || id.recv != "Stream" || (id.name != "Send" && id.name != "Recv") {
				return
			}
			// returns dominated by `err != nil` of this call
			for _, b := range fn.Blocks {
				ret, isRet := b.Instrs[len(b.Instrs)-1].(*ssa.Return)
				if !isRet {
					continue
				}
				onErr := false
				for _, dc := range dominatingConds(b) {
					if bo, ok := dc.cond.(*ssa.BinOp); ok && errFromCall(bo.X, call, 0) && isNilConst(bo.Y) && (bo.Op == token.NEQ) == dc.outcome {
						onErr = true
					}
				}
				if !onErr {
					continue
				}
				n++
				torn := false
				allInstrs(fn, func(in2 ssa.Instruction) {
					if c2, ok := in2.(*ssa.Call); ok && callID(&c2.Call).name == "terminate" && dominatesInstr(c2, ret) && dominatesInstr(call, c2) {
						torn = true
					}
				})
				if !torn {
					bad = ret.Pos()
				}
			}
		})
		switch {
		case bad.IsValid():
			r.Bad(rule, key, bad, "%s returns on a stream error without tearing the connection down: the connection stays installed with this loop gone, so the next exchange blocks forever on the hand-off channel (holding the client's lock) or waits for a response nobody reads", loop)
		case n == 0:
			r.Unk(rule, key, fn.Pos(), "no return on a stream error found in %s", loop)
		default:
			r.OK(rule, key, fn.Pos(), "%d return(s) on a stream error, each after terminate", n)
		}
	}
}

// terminateClosesStream: conn.terminate closes the stream on every path, except on paths that leave through an
// idempotence test proving an earlier terminate already did: the result edge of an atomic Swap/CompareAndSwap on a
// flag of the connection (the test and the marking are one operation), or `c.ctx.Err() != nil` / <-c.ctx.Done() on the
// connection's own context provided the connection's cancel function is invoked nowhere but in terminate itself
// (otherwise "already cancelled" does not imply "already closed": the stream, and the loop blocked in Read, leak).
func terminateClosesStream(r *Run, rule, rel string) {
	p := r.P
	fn := p.Func(rel, "conn", "terminate")
	key := rel + ".conn.terminate/closes-stream-on-every-path"
	if fn == nil {
		r.Unk(rule, key, token.NoPos, "anchor missing")
		return
	}
	var closes []ssa.Instruction
	allInstrs(fn, func(in ssa.Instruction) {
		if c := callOf(in); c != nil && callID(c).is(ttlvPath, "Stream", "Close") {
			if _, isDefer := in.(*ssa.Defer); isDefer {
				closes = append(closes, in)
			} else if _, isCall := in.(*ssa.Call); isCall {
				closes = append(closes, in)
			}
		}
	})
	if len(closes) == 0 {
		r.Bad(rule, key, fn.Pos(), "terminate does not close the stream: a loop blocked in Read/Write is never released")
		return
	}
	// who calls the connection's cancel function
	cancelOutside := token.NoPos
	for _, f := range pkgFuncs(p, rel) {
		if f == fn {
			continue
		}
		allInstrs(f, func(in ssa.Instruction) {
			c := callOf(in)
			if c == nil || c.IsInvoke() || c.StaticCallee() != nil {
				return
			}
			ld, ok := c.Value.(*ssa.UnOp)
			if !ok {
				return
			}
			if fa, ok := ld.X.(*ssa.FieldAddr); ok && typeName(fa.X.Type()) == "conn" {
				fld := derefStruct(fa.X.Type()).Field(fa.Field)
				tn := typeName(fld.Type())
				_, isFunc := fld.Type().Underlying().(*types.Signature)
				if tn == "CancelCauseFunc" || tn == "CancelFunc" || (isFunc && strings.Contains(strings.ToLower(fname(fld)), "cancel")) {
					cancelOutside = in.Pos()
				}
			}
		})
	}
	paths, okP := enumeratePaths(fn, 512)
	if !okP {
		r.Unk(rule, key, fn.Pos(), "too many paths")
		return
	}
	for _, path := range paths {
		closed, excused, why := false, false, ""
		for i, b := range path {
			for _, in := range b.Instrs {
				for _, c := range closes {
					if in == c {
						closed = true
					}
				}
			}
			cond, isTrue, ok, inf := edgeOnPath(path, i)
			if inf {
				excused = true
			}
			if !ok || closed {
				continue
			}
			// atomic flag: Swap(true) returned true / CompareAndSwap(false,true) returned false
			v := cond
			neg := false
			if u, isU := v.(*ssa.UnOp); isU && u.Op == token.NOT {
				v, neg = u.X, true
			}
			if call, isC := v.(*ssa.Call); isC {
				id := callID(&call.Call)
				if id.pkg == "sync/atomic" && id.name == "Swap" && isTrue != neg {
					excused = true
				}
				if id.pkg == "sync/atomic" && id.name == "CompareAndSwap" && isTrue == neg {
					excused = true
				}
			}
			// the connection's own context already cancelled
			if bo, isB := v.(*ssa.BinOp); isB && isNilConst(bo.Y) {
				if call, isC := bo.X.(*ssa.Call); isC && call.Call.IsInvoke() && call.Call.Method.Name() == "Err" && (bo.Op == token.NEQ) == isTrue {
					if cancelOutside.IsValid() {
						why = "it leaves early when the connection's context is already cancelled, but the connection's cancel function is also invoked outside terminate (" + p.pos(cancelOutside) + "), so an already cancelled context does not mean the stream was closed"
					} else {
						excused = true
					}
				}
			}
		}
		if closed || excused {
			continue
		}
		last := path[len(path)-1]
		pos := last.Instrs[len(last.Instrs)-1].Pos()
		if !pos.IsValid() {
			pos = fn.Pos()
		}
		if why == "" {
			why = "a path returns without closing the stream and without an idempotence test proving an earlier terminate closed it"
		}
		r.Bad(rule, key, pos, "terminate: %s: the connection is abandoned with its stream open, the loop blocked in Read never returns (goroutine and socket leak, even after Close)", why)
		return
	}
	r.OK(rule, key, fn.Pos(), "%d path(s): each closes the stream or leaves through an idempotence test that implies an earlier close", len(paths))
}

// errFromCall: v is the error result of call, possibly merged with replacements of it (`if errors.Is(err, X) { err = Y }`).
func errFromCall(v ssa.Value, call *ssa.Call, d int) bool {
	if v == ssa.Value(call) {
		return true
	}
	if ex, ok := v.(*ssa.Extract); ok && ex.Tuple == ssa.Value(call) {
		return true
	}
	if ph, ok := v.(*ssa.Phi); ok && d < 3 {
		for _, e := range ph.Edges {
			if errFromCall(e, call, d+1) {
				return true
			}
		}
	}
	return false
}
