package main

// C20 — codec results do not depend on concurrency or call history (effect analysis).

import (
	"fmt"
	"go/token"
	"go/types"
	"os"
	"sort"
	"strings"

	"golang.org/x/tools/go/ssa"
)

func takesEncoder(fn *ssa.Function) bool {
	for _, prm := range fn.Params {
		if typeName(prm.Type()) == "Encoder" && typePkgPath(prm.Type()) == ttlvPath {
			return true
		}
	}
	return false
}

func encodeRoots(p *Program) []*ssa.Function {
	var roots []*ssa.Function
	for _, fn := range p.OwnFuncs() {
		if fn.Synthetic != "" {
			continue
		}
		k := fnKey(fn)
		id := idOf(fn)
		switch {
		case id.pkg == ttlvPath && id.recv == "" && (strings.HasPrefix(id.name, "Marshal") || strings.HasPrefix(id.name, "New") && strings.HasSuffix(id.name, "Encoder")):
			roots = append(roots, fn)
		case id.pkg == ttlvPath && (id.recv == "Encoder" || id.recv == "ttlvWriter" || id.recv == "xmlWriter" || id.recv == "jsonWriter" || id.recv == "textWriter") && fn.Parent() == nil:
			roots = append(roots, fn)
		case id.pkg == ttlvPath && id.recv == "Stream":
			roots = append(roots, fn)
		case id.pkg == ttlvPath && (id.name == "encodeFuncFor" || id.name == "encodeFunc"):
			roots = append(roots, fn)
		case fn.Parent() == nil && fn.Signature.Recv() != nil && takesEncoder(fn):
			roots = append(roots, fn)
		case (strings.HasPrefix(k, "ttlv.build") || strings.HasPrefix(k, "ttlv.apply")) && strings.Contains(k, "Encode") && fn.Parent() != nil:
			roots = append(roots, fn)
		case strings.HasPrefix(k, "ttlv.encodeFunc$"):
			roots = append(roots, fn)
		}
	}
	return roots
}

// globalRoot: the package-level variable an address/value is derived from, if any.
func globalRoot(v ssa.Value, depth int) *ssa.Global {
	if depth > 8 {
		return nil
	}
	switch x := v.(type) {
	case *ssa.Global:
		return x
	case *ssa.UnOp:
		return globalRoot(x.X, depth+1)
	case *ssa.FieldAddr:
		return globalRoot(x.X, depth+1)
	case *ssa.IndexAddr:
		return globalRoot(x.X, depth+1)
	case *ssa.Lookup:
		return globalRoot(x.X, depth+1)
	case *ssa.Slice:
		return globalRoot(x.X, depth+1)
	case *ssa.Extract:
		return globalRoot(x.Tuple, depth+1)
	case *ssa.ChangeType:
		return globalRoot(x.X, depth+1)
	}
	return nil
}

type globalWrite struct {
	g    *ssa.Global
	fn   *ssa.Function
	in   ssa.Instruction
	kind string
}

// globalWrites lists every instruction in the repository that writes a package-level variable or memory reached from one.
func globalWrites(p *Program) []globalWrite {
	var out []globalWrite
	for _, fn := range p.OwnFuncs() {
		allInstrs(fn, func(in ssa.Instruction) {
			switch x := in.(type) {
			case *ssa.Store:
				if g := globalRoot(x.Addr, 0); g != nil {
					out = append(out, globalWrite{g, fn, in, "store"})
				}
			case *ssa.MapUpdate:
				if g := globalRoot(x.Map, 0); g != nil {
					out = append(out, globalWrite{g, fn, in, "map update"})
				}
			case *ssa.Call:
				if b, ok := x.Call.Value.(*ssa.Builtin); ok && (b.Name() == "delete" || b.Name() == "clear") && len(x.Call.Args) > 0 {
					if g := globalRoot(x.Call.Args[0], 0); g != nil {
						out = append(out, globalWrite{g, fn, in, b.Name()})
					}
				}
				// in-place mutators of a slice held in a global
				id := callID(&x.Call)
				if id.pkg == "slices" && (strings.HasPrefix(id.name, "Sort") || id.name == "Reverse") || id.pkg == "sort" {
					if len(x.Call.Args) > 0 {
						if g := globalRoot(x.Call.Args[0], 0); g != nil {
							out = append(out, globalWrite{g, fn, in, id.name + " in place"})
						}
					}
				}
			}
		})
	}
	return out
}

func isInitFunc(fn *ssa.Function) bool {
	top := fn
	for top.Parent() != nil {
		top = top.Parent()
	}
	n := top.Name()
	return n == "init" || strings.HasPrefix(n, "init#")
}

func runC20(r *Run, verifDir string) {
	p := r.P
	reg := BuildRegistry(p)
	r.Explain = append(r.Explain,
		"C20 is decided as a non-interference argument (effect analysis): E1 every package-level variable of the codec packages (ttlv, kmip, payloads) is init-frozen (written only by init functions, Register* functions or its own initialiser) or synchronised (the two plan caches, used only through sync.Map methods); E2 the Register* functions are called only from init functions; E3 no function reachable from an encode or decode entry point writes a package-level variable or memory reached from one, other than the two cache stores; E4 the cached per-type plans are closures over immutable data: they capture no encoder, decoder, version state, writer or reader and never store to a captured variable; E5 codec state is per call: no package-level or Stream-level coder, the version state is created per top-level coder, Clear resets the version and every writer field a later message could observe, and the binary writer never exposes stale buffer content.")
	r.Assume = append(r.Assume, "Go memory model: without a shared written location there is no data race and no history dependence", "sync.Map is safe for concurrent use", "racing builders of the same plan store equivalent closures because the plan is a function of the reflect.Type key and init-frozen registries only")
	r.NotCov = append(r.NotCov, "equality of bytes across processes as an observation (implied, not measured)", "user code registering tags or payloads after start-up")
	for _, s := range reg.Problems {
		r.Unk("C20.E2", "registry", token.NoPos, "%s", s)
	}

	codecPkgs := map[string]bool{ttlvPath: true, modPath: true, modPath + "/payloads": true}
	writes := globalWrites(p)
	registerFns := map[string]bool{"ttlv.RegisterTag": true, "ttlv.RegisterEnum": true, "ttlv.RegisterBitmask": true, "ttlv.RegisterHideTag": true, "kmip.RegisterOperationPayload": true, "kmip.RegisterObject": true}

	// ---------------- E1
	r.Rule("C20.E1", "every package-level variable of the codec packages is init-frozen or synchronised", 20)
	var globals []*ssa.Global
	for path := range codecPkgs {
		sp := p.ssaPkg[path]
		if sp == nil {
			continue
		}
		for _, m := range sp.Members {
			if g, ok := m.(*ssa.Global); ok && !strings.HasPrefix(g.Name(), "init$") {
				globals = append(globals, g)
			}
		}
	}
	sort.Slice(globals, func(i, j int) bool { return globals[i].String() < globals[j].String() })
	for _, g := range globals {
		key := "global/" + relPkgName(g.Pkg.Pkg.Path()) + "." + g.Name()
		elem := g.Type().(*types.Pointer).Elem()
		isSyncMap := false
		if pt, ok := elem.(*types.Pointer); ok && isNamed(pt.Elem(), "sync", "Map") {
			isSyncMap = true
		}
		var offenders []string
		n := 0
		for _, w := range writes {
			if w.g != g {
				continue
			}
			n++
			fk := fnKey(w.fn)
			base := fk
			if o := w.fn.Origin(); o != nil {
				base = fnKey(o)
			}
			if isInitFunc(w.fn) || registerFns[base] {
				continue
			}
			offenders = append(offenders, fmt.Sprintf("%s (%s at %s)", fk, w.kind, p.pos(w.in.Pos())))
		}
		if isSyncMap {
			// only Load/Store/LoadOrStore
			bad := ""
			for _, fn := range p.OwnFuncs() {
				allInstrs(fn, func(in ssa.Instruction) {
					c := callOf(in)
					if c == nil || len(c.Args) == 0 || globalRoot(c.Args[0], 0) != g {
						return
					}
					id := callID(c)
					if id.pkg == "sync" && id.recv == "Map" && (id.name == "Load" || id.name == "Store" || id.name == "LoadOrStore") {
						return
					}
					bad = id.String()
				})
			}
			if len(offenders) > 0 || bad != "" {
				r.Bad("C20.E1", key, g.Pos(), "plan cache %s is used other than through sync.Map Load/Store (%s %v)", g.Name(), bad, offenders)
			} else {
				r.OK("C20.E1", key, g.Pos(), "synchronised: a *sync.Map assigned once and used only through Load/Store")
			}
			continue
		}
		if len(offenders) > 0 {
			sort.Strings(offenders)
			r.Bad("C20.E1", key, g.Pos(), "package-level variable %s is written after start-up by %s: concurrent codec calls share a written location (data race) and a result can depend on earlier calls", g.Name(), strings.Join(offenders, "; "))
		} else {
			r.OK("C20.E1", key, g.Pos(), "init-frozen: %d write(s), all in init or Register* functions", n)
		}
	}

	// ---------------- E2
	r.Rule("C20.E2", "Register* functions are called only from init functions", 78)
	c20RegisterOnlyInInit(r, reg, "C20.E2")

	// ---------------- E3
	r.Rule("C20.E3", "no function reachable from an encode/decode entry writes shared state other than the plan caches", 1)
	roots := append(decodeRoots(p), encodeRoots(p)...)
	reach := repoReach(p, roots)
	r.Extra["codec_reachable_functions"] = len(reach)
	nBad := 0
	for _, w := range writes {
		if !reach[w.fn] {
			continue
		}
		base := fnKey(w.fn)
		if registerFns[base] || isInitFunc(w.fn) {
			// reachable only through over-approximated edges? report: registration must not be reachable from codec entries
			continue
		}
		nBad++
		r.Bad("C20.E3", fmt.Sprintf("%s/write:%s", fnKey(w.fn), w.g.Name()), w.in.Pos(), "%s, which runs during encoding/decoding, performs a %s on package-level variable %s: the result of a codec call can depend on (or race with) other calls", fnKey(w.fn), w.kind, w.g.Name())
	}
	// stores through sync.Map other than the two caches
	nCache := 0
	for fn := range reach {
		allInstrs(fn, func(in ssa.Instruction) {
			c := callOf(in)
			if c == nil {
				return
			}
			id := callID(c)
			if id.pkg == "sync" && id.recv == "Map" && (id.name == "Store" || id.name == "LoadOrStore" || id.name == "Swap" || id.name == "CompareAndSwap") {
				g := globalRoot(c.Args[0], 0)
				if g != nil && g.Pkg != nil && g.Pkg.Pkg.Path() == ttlvPath && strings.Contains(g.Type().String(), "sync.Map") {
					nCache++
				} else {
					nBad++
					r.Bad("C20.E3", fnKey(fn)+"/sync.Map.Store", in.Pos(), "a codec function stores into a shared map that is not one of the two plan caches")
				}
			}
		})
	}
	if nBad == 0 {
		r.OK("C20.E3", "codec/no-shared-writes", token.NoPos, "%d functions reachable from the codec entry points: no write to package-level state; %d plan-cache stores", len(reach), nCache)
	}
	if nCache < 2 {
		r.Unk("C20.E3", "codec/cache-stores", token.NoPos, "%d plan-cache stores found, 2 expected", nCache)
	}

	// ---------------- E4
	r.Rule("C20.E4", "cached plans are closures over immutable data: no captured coder/version/writer/reader, no store to a captured variable", 30)
	forbidden := map[string]bool{"Encoder": true, "Decoder": true, "extension": true, "writer": true, "reader": true, "ttlvWriter": true, "xmlWriter": true, "jsonWriter": true, "textWriter": true, "ttlvReader": true, "xmlReader": true, "jsonReader": true, "Stream": true}
	for _, fn := range p.OwnFuncs() {
		if fn.Parent() == nil || idOf(fn).pkg != ttlvPath {
			continue
		}
		top := fn
		for top.Parent() != nil {
			top = top.Parent()
		}
		tk := fnKey(top)
		if !(strings.HasPrefix(tk, "ttlv.build") || strings.HasPrefix(tk, "ttlv.apply") || tk == "ttlv.encodeFunc" || tk == "ttlv.decodeFunc" || tk == "ttlv.buidStructDecodeFunc") {
			continue
		}
		key := "plan/" + fnKey(fn)
		bad := ""
		for _, fv := range fn.FreeVars {
			t := fv.Type()
			for {
				if pt, ok := t.Underlying().(*types.Pointer); ok {
					t = pt.Elem()
					continue
				}
				break
			}
			if forbidden[typeName(t)] && typePkgPath(t) == ttlvPath {
				bad = fmt.Sprintf("captures %s of type %s: per-message state would be shared by every message of that type", fv.Name(), qualName(fv.Type()))
			}
		}
		allInstrs(fn, func(in ssa.Instruction) {
			if st, ok := in.(*ssa.Store); ok {
				if fv, ok := st.Addr.(*ssa.FreeVar); ok {
					bad = fmt.Sprintf("stores to the captured variable %s: the plan carries state from one call to the next", fv.Name())
				}
			}
		})
		if bad != "" {
			r.Bad("C20.E4", key, fn.Pos(), "cached plan closure %s %s", fnKey(fn), bad)
		} else {
			r.OK("C20.E4", key, fn.Pos(), "%d captured variable(s), none of them codec state; no store to a captured variable", len(fn.FreeVars))
		}
	}

	// ---------------- E6
	r.Rule("C20.E6", "a plan is published in a cache only when complete: nothing the stored value refers to is written after the Store/LoadOrStore", 2)
	for _, fn := range p.OwnFuncs() {
		if idOf(fn).pkg != ttlvPath {
			continue
		}
		ord := 0
		allInstrs(fn, func(in ssa.Instruction) {
			c := callOf(in)
			if c == nil {
				return
			}
			id := callID(c)
			if id.pkg != "sync" || id.recv != "Map" || !(id.name == "Store" || id.name == "LoadOrStore" || id.name == "Swap" || id.name == "CompareAndSwap") {
				return
			}
			if g := globalRoot(c.Args[0], 0); g == nil {
				return
			}
			ord++
			key := fmt.Sprintf("%s/publish#%d", fnKey(fn), ord)
			val := c.Args[len(c.Args)-1]
			// instructions that can execute after the publication
			after := map[ssa.Instruction]bool{}
			seenB := map[*ssa.BasicBlock]bool{}
			var walk func(b *ssa.BasicBlock)
			walk = func(b *ssa.BasicBlock) {
				if seenB[b] {
					return
				}
				seenB[b] = true
				for _, i2 := range b.Instrs {
					after[i2] = true
				}
				for _, s2 := range b.Succs {
					walk(s2)
				}
			}
			past := false
			for _, i2 := range in.Block().Instrs {
				if past {
					after[i2] = true
				}
				if i2 == in {
					past = true
				}
			}
			for _, s2 := range in.Block().Succs {
				walk(s2)
			}
			// cells the stored value refers to
			var cells []ssa.Value
			complete := ""
			var visit func(v ssa.Value, d int)
			seenV := map[ssa.Value]bool{}
			visit = func(v ssa.Value, d int) {
				if d > 8 || seenV[v] {
					return
				}
				seenV[v] = true
				switch x := v.(type) {
				case *ssa.MakeInterface:
					visit(x.X, d+1)
				case *ssa.ChangeType:
					visit(x.X, d+1)
				case *ssa.MakeClosure:
					for _, b := range x.Bindings {
						visit(b, d+1)
					}
				case *ssa.Alloc:
					cells = append(cells, x)
				case *ssa.Phi:
					for _, e := range x.Edges {
						visit(e, d+1)
					}
				case *ssa.Call:
					complete = "the result of " + callID(&x.Call).String() + ", built before the publication"
				case *ssa.Extract:
					visit(x.Tuple, d+1)
				case *ssa.UnOp:
					visit(x.X, d+1)
				}
			}
			visit(val, 0)
			bad := ""
			for _, cell := range cells {
				for _, ref := range *cell.Referrers() {
					if !after[ref] {
						continue
					}
					switch y := ref.(type) {
					case *ssa.Store:
						if y.Addr == cell {
							bad = fmt.Sprintf("the variable %s captured by the published plan is assigned after the publication", cell.(*ssa.Alloc).Comment)
						}
					case *ssa.FieldAddr, *ssa.IndexAddr:
						for _, r2 := range *y.(ssa.Value).Referrers() {
							if st, ok := r2.(*ssa.Store); ok && after[st] {
								bad = fmt.Sprintf("a part of %s, reachable from the published plan, is written after the publication", cell.(*ssa.Alloc).Comment)
							}
						}
					}
				}
			}
			switch {
			case bad != "":
				r.Bad("C20.E6", key, in.Pos(), "%s publishes a plan in the shared cache before it is complete: %s; a goroutine that finds the entry while the builder is still running encodes/decodes with the partial plan and silently drops fields", fnKey(fn), bad)
			case len(cells) == 0 && complete != "":
				r.OK("C20.E6", key, in.Pos(), "published value is %s", complete)
			case len(cells) == 0:
				r.Unk("C20.E6", key, in.Pos(), "the published value is neither a builder result nor a local closure/allocation: its completeness at the publication point is not decided")
			default:
				r.OK("C20.E6", key, in.Pos(), "published closure/allocation: %d captured cell(s), none written after the publication", len(cells))
			}
		})
	}

	// published plans are immutable: nothing is written through a pointer obtained from a plan cache — directly, or
	// through a function of the package that hands out such a pointer (one it loaded from, or has just stored in, a cache)
	retCached := map[*ssa.Function]int{} // 0 unknown, 1 computing, 2 no, 3 yes
	var fromCacheVal func(v ssa.Value, d int) bool
	var returnsCached func(f *ssa.Function) bool
	returnsCached = func(f *ssa.Function) bool {
		if f == nil || f.Blocks == nil || idOf(f).pkg != ttlvPath {
			return false
		}
		switch retCached[f] {
		case 1, 2:
			return false
		case 3:
			return true
		}
		retCached[f] = 1
		// pointers this function publishes itself
		published := map[ssa.Value]bool{}
		allInstrs(f, func(in ssa.Instruction) {
			c, ok := in.(*ssa.Call)
			if !ok {
				return
			}
			id := callID(&c.Call)
			if id.pkg == "sync" && id.recv == "Map" && (id.name == "Store" || id.name == "LoadOrStore" || id.name == "Swap") && len(c.Call.Args) >= 3 {
				if g := globalRoot(c.Call.Args[0], 0); g != nil {
					if mi, ok := c.Call.Args[2].(*ssa.MakeInterface); ok {
						if _, isPtr := mi.X.Type().Underlying().(*types.Pointer); isPtr {
							published[mi.X] = true
						}
					}
				}
			}
		})
		res := false
		allInstrs(f, func(in ssa.Instruction) {
			ret, ok := in.(*ssa.Return)
			if !ok {
				return
			}
			for _, v := range ret.Results {
				if _, isPtr := v.Type().Underlying().(*types.Pointer); !isPtr {
					continue
				}
				if published[v] || fromCacheVal(v, 0) {
					res = true
				}
				if ph, ok := v.(*ssa.Phi); ok {
					for _, e := range ph.Edges {
						if published[e] {
							res = true
						}
					}
				}
			}
		})
		if res {
			retCached[f] = 3
		} else {
			retCached[f] = 2
		}
		return res
	}
	fromCacheVal = func(v ssa.Value, d int) bool {
		if d > 6 {
			return false
		}
		switch x := v.(type) {
		case *ssa.TypeAssert:
			return fromCacheVal(x.X, d+1)
		case *ssa.Extract:
			return fromCacheVal(x.Tuple, d+1)
		case *ssa.Phi:
			for _, e := range x.Edges {
				if fromCacheVal(e, d+1) {
					return true
				}
			}
		case *ssa.Call:
			id := callID(&x.Call)
			if id.pkg == "sync" && id.recv == "Map" && (id.name == "Load" || id.name == "LoadOrStore" || id.name == "Swap" || id.name == "LoadAndDelete") {
				if g := globalRoot(x.Call.Args[0], 0); g != nil {
					return true
				}
			}
			if sc := x.Call.StaticCallee(); sc != nil && returnsCached(sc) {
				return true
			}
		}
		return false
	}
	for _, fn := range p.OwnFuncs() {
		if idOf(fn).pkg != ttlvPath {
			continue
		}
		ord := 0
		allInstrs(fn, func(in ssa.Instruction) {
			st, ok := in.(*ssa.Store)
			if !ok {
				return
			}
			var base ssa.Value
			switch a := st.Addr.(type) {
			case *ssa.FieldAddr:
				base = a.X
			case *ssa.IndexAddr:
				base = a.X
			default:
				return
			}
			if fromCacheVal(base, 0) {
				ord++
				r.Bad("C20.E6", fmt.Sprintf("%s/write-to-published#%d", fnKey(fn), ord), st.Pos(), "%s writes through a pointer obtained from a plan cache: the entry is visible to every goroutine as soon as it is in the cache, so another goroutine can use the plan before (or while) it is filled in — a nil function, a truncated plan, and a data race", fnKey(fn))
			}
		})
	}

	// ---------------- E5
	r.Rule("C20.E5", "codec state is per call: no shared coder, fresh version state per top-level coder, Clear resets everything observable", 8)
	// no package-level or Stream-level coder
	for _, g := range globals {
		t := g.Type().(*types.Pointer).Elem()
		for {
			if pt, ok := t.Underlying().(*types.Pointer); ok {
				t = pt.Elem()
				continue
			}
			break
		}
		if forbidden[typeName(t)] && typePkgPath(t) == ttlvPath {
			r.Bad("C20.E5", "global-coder/"+g.Name(), g.Pos(), "package-level variable %s holds a %s shared by all calls", g.Name(), typeName(t))
		}
	}
	if tt := p.Pkg("ttlv"); tt != nil {
		if o := tt.Types.Scope().Lookup("Stream"); o != nil {
			st := o.Type().Underlying().(*types.Struct)
			okS := true
			for i := 0; i < st.NumFields(); i++ {
				ft := st.Field(i).Type()
				if pt, ok := ft.Underlying().(*types.Pointer); ok {
					ft = pt.Elem()
				}
				if forbidden[typeName(ft)] && typePkgPath(ft) == ttlvPath {
					okS = false
					r.Bad("C20.E5", "ttlv.Stream."+fname(st.Field(i)), st.Field(i).Pos(), "Stream keeps a %s across messages", typeName(ft))
				}
			}
			if okS {
				r.OK("C20.E5", "ttlv.Stream/fields", o.Pos(), "a Stream holds only its transport and size limit: each Send/Recv builds its own coder")
			}
		}
	}
	// Marshal*/Unmarshal* construct their coder
	for _, name := range []string{"MarshalTTLV", "MarshalXML", "MarshalJSON", "UnmarshalTTLV", "UnmarshalXML", "UnmarshalJSON"} {
		fn := p.Func("ttlv", "", name)
		key := "ttlv." + name + "/per-call-coder"
		if fn == nil {
			r.Unk("C20.E5", key, token.NoPos, "anchor missing")
			continue
		}
		makes := false
		allInstrs(fn, func(in ssa.Instruction) {
			if c, ok := in.(*ssa.Call); ok {
				id := callID(&c.Call)
				if id.pkg == ttlvPath && strings.HasPrefix(id.name, "New") && (strings.HasSuffix(id.name, "Encoder") || strings.HasSuffix(id.name, "Decoder")) {
					makes = true
				}
			}
		})
		if !makes && c20PooledCoderCleared(fn) {
			r.OK("C20.E5", key, fn.Pos(), "borrows its coder from a sync.Pool and every coder it hands back is cleared first: no state of an earlier call is left in it")
			continue
		}
		r.Check(makes, "C20.E5", key, fn.Pos(), "creates its own coder", "does not create its own coder for the call")
	}
	// Clear of each writer resets every field that is ever written after construction
	for _, wt := range []string{"ttlvWriter", "xmlWriter", "jsonWriter", "textWriter"} {
		key := "ttlv." + wt + ".Clear"
		clr := p.Func("ttlv", wt, "Clear")
		if clr == nil {
			r.Unk("C20.E5", key, token.NoPos, "anchor missing")
			continue
		}
		// fields stored outside composite-literal construction, in methods of wt
		mutated := map[string]bool{}
		for _, fn := range p.OwnFuncs() {
			if idOf(fn).pkg != ttlvPath || idOf(fn).recv != wt || fnKey(fn) == key {
				continue
			}
			allInstrs(fn, func(in ssa.Instruction) {
				if st, ok := in.(*ssa.Store); ok {
					if base, fld, ok := fieldAddrOf(st.Addr); ok && typeName(base.Type()) == wt {
						if _, isAlloc := base.(*ssa.Alloc); !isAlloc {
							mutated[fname(fld)] = true
						}
					}
				}
			})
		}
		reset := map[string]bool{}
		allInstrs(clr, func(in ssa.Instruction) {
			switch x := in.(type) {
			case *ssa.Store:
				if _, fld, ok := fieldAddrOf(x.Addr); ok {
					reset[fname(fld)] = true
				}
			case *ssa.Call:
				id := callID(&x.Call)
				if id.pkg == "bytes" && id.recv == "Buffer" && id.name == "Reset" {
					if u, ok := x.Call.Args[0].(*ssa.UnOp); ok {
						if _, fld, ok := fieldAddrOf(u.X); ok {
							reset[fname(fld)] = true
						}
					}
				}
			}
		})
		// bytes.Buffer fields are mutated through method calls, not stores: treat every *bytes.Buffer field as mutated
		if o := p.Pkg("ttlv").Types.Scope().Lookup(curTypeName(ttlvPath, wt)); o != nil {
			st := o.Type().Underlying().(*types.Struct)
			for i := 0; i < st.NumFields(); i++ {
				if pt, ok := st.Field(i).Type().(*types.Pointer); ok && isNamed(pt.Elem(), "bytes", "Buffer") {
					mutated[fname(st.Field(i))] = true
				}
			}
		}
		var missing []string
		for f := range mutated {
			if !reset[f] {
				missing = append(missing, f)
			}
		}
		sort.Strings(missing)
		// an object Clear re-creates is configured exactly as the constructor configures it
		confDiff := ""
		config := func(fn *ssa.Function) map[string][]string {
			out := map[string][]string{}
			allInstrs(fn, func(in ssa.Instruction) {
				mk, ok := in.(*ssa.Call)
				if !ok || mk.Call.StaticCallee() == nil || mk.Call.IsInvoke() {
					return
				}
				mid := callID(&mk.Call)
				if strings.HasPrefix(mid.pkg, modPath) || mid.recv != "" || !strings.HasPrefix(mid.name, "New") {
					return
				}
				k := mid.pkg + "." + mid.name
				if _, seen := out[k]; !seen {
					out[k] = []string{}
				}
				// method calls on the new object: directly on the result, or on loads of the field it was stored into
				isObj := map[ssa.Value]bool{mk: true}
				for _, ref := range *mk.Referrers() {
					if st, ok := ref.(*ssa.Store); ok && st.Val == ssa.Value(mk) {
						if fa, ok := st.Addr.(*ssa.FieldAddr); ok {
							allInstrs(fn, func(in2 ssa.Instruction) {
								if ld, ok := in2.(*ssa.UnOp); ok && ld.Op == token.MUL {
									if fa2, ok := ld.X.(*ssa.FieldAddr); ok && fa2.Field == fa.Field && fa2.X == fa.X && dominatesInstr(st, ld) {
										isObj[ld] = true
									}
								}
							})
						}
					}
				}
				allInstrs(fn, func(in2 ssa.Instruction) {
					c2, ok := in2.(*ssa.Call)
					if !ok || len(c2.Call.Args) == 0 || !isObj[c2.Call.Args[0]] || c2 == mk {
						return
					}
					desc := callID(&c2.Call).name + "("
					for _, a := range c2.Call.Args[1:] {
						if k, ok := a.(*ssa.Const); ok && k.Value != nil {
							desc += k.Value.ExactString() + ","
						} else {
							desc += "?,"
						}
					}
					out[k] = append(out[k], desc+")")
				})
				sort.Strings(out[k])
			})
			return out
		}
		var ctor *ssa.Function
		for _, fn := range p.OwnFuncs() {
			if idOf(fn).pkg != ttlvPath || fn.Parent() != nil || fn.Signature.Recv() != nil || fn.Signature.Results().Len() != 1 {
				continue
			}
			if typeName(fn.Signature.Results().At(0).Type()) == wt {
				ctor = fn
			}
		}
		if ctor != nil {
			cNew, cClr := config(ctor), config(clr)
			for k, want := range cNew {
				if got, ok := cClr[k]; ok && strings.Join(got, ";") != strings.Join(want, ";") {
					confDiff = fmt.Sprintf("%s is configured with [%s] by %s but with [%s] by Clear", k, strings.Join(want, "; "), fnKey(ctor), strings.Join(got, "; "))
				}
			}
		}
		if confDiff != "" {
			r.Bad("C20.E5", key+"/same-configuration", clr.Pos(), "%s.Clear re-creates an object with another configuration than the constructor (%s): the output of a cleared, reused encoder differs from the output of a fresh one for the same value", wt, confDiff)
		} else if ctor != nil {
			r.OK("C20.E5", key+"/same-configuration", clr.Pos(), "objects re-created by Clear are configured as in %s", fnKey(ctor))
		}
		if len(missing) > 0 {
			r.Bad("C20.E5", key, clr.Pos(), "%s.Clear does not reset %v, which encoding modifies: the next message on the cleared encoder starts from the previous message's state", wt, missing)
		} else {
			r.OK("C20.E5", key, clr.Pos(), "Clear resets every field encoding modifies (%d)", len(mutated))
		}
	}
	// Encoder.Clear resets the version (shared with C05.V3) and the binary writer never exposes unwritten bytes (C03.T8)
	if cf := p.Func("ttlv", "Encoder", "Clear"); cf != nil {
		resets := false
		allInstrs(cf, func(in ssa.Instruction) {
			if st, ok := in.(*ssa.Store); ok && zeroExtensionStore(st) {
				resets = true
			}
			if st, ok := in.(*ssa.Store); ok && isNilConst(st.Val) {
				if _, fld, ok := fieldAddrOf(st.Addr); ok && fname(fld) == "version" {
					resets = true
				}
			}
		})
		r.Check(resets, "C20.E5", "ttlv.Encoder.Clear/version", cf.Pos(), "Clear forgets the protocol version of the previous message", "Encoder.Clear keeps the protocol version: the first fields of the next message are gated by the previous message's version")
	}
	c03AppendOnlyAs(r, "C20.E5")
	// new(extension) only in the constructors
	nNew := 0
	for _, fn := range p.OwnFuncs() {
		if idOf(fn).pkg != ttlvPath {
			continue
		}
		allInstrs(fn, func(in ssa.Instruction) {
			if al, ok := in.(*ssa.Alloc); ok && al.Heap && typeName(al.Type()) == "extension" {
				nNew++
				k := fnKey(fn)
				r.Check(k == "ttlv.newEncoder" || k == "ttlv.newDecoder", "C20.E5", k+"/new-extension", al.Pos(), "fresh version state in a top-level constructor", "version state is allocated outside newEncoder/newDecoder")
			}
		})
	}
	if nNew < 2 {
		r.Unk("C20.E5", "ttlv/new-extension", token.NoPos, "%d allocations of the version state found, 2 expected", nNew)
	}
	c20E7(r)
	// information: server configuration state (not codec)
	for _, w := range writes {
		if idOf(w.fn).pkg == srvPath && !isInitFunc(w.fn) {
			r.Infof("outside this property (server configuration, not codec): %s performs a %s on package-level %s at %s", fnKey(w.fn), w.kind, w.g.Name(), p.pos(w.in.Pos()))
		}
	}
}

func relPkgName(path string) string {
	rp := relPkg(path)
	if rp == "" {
		return "kmip"
	}
	return rp
}

// c03AppendOnlyAs re-runs the binary writer append-only rule under another rule id (history independence of a reused buffer).
func c03AppendOnlyAs(r *Run, rule string) {
	sub := NewRun(r.Prop, r.Tier, r.P)
	sub.Rule("C03.T8", "", 0)
	c03AppendOnly(sub)
	bad := 0
	for _, o := range sub.Obls {
		if o.status != Discharged {
			bad++
			r.Bad(rule, "ttlvWriter/append-only/"+o.Key, token.NoPos, "%s (a reused, cleared encoder would expose stale bytes of an earlier message)", o.Why)
		}
	}
	if bad == 0 {
		r.OK(rule, "ttlvWriter/append-only", token.NoPos, "the binary writer's buffer grows only by appending (%d sites): a cleared, reused buffer cannot leak earlier content", len(sub.Obls))
	}
}

// c20E7: storage handed back to a sync.Pool is not used any more. A function that puts an object into a pool (directly
// or by defer) must not return, store or send anything that still points into that object — the bytes of a pooled
// encoder's buffer, say: the next borrower overwrites them while the first caller is still writing them out, so what
// one stream sends depends on what another one encodes at the same time.
func c20E7(r *Run) {
	r.Rule("C20.E7", "nothing derived from an object outlives its return to a sync.Pool (no result, store or send still pointing into it)", 0)
	nPut := 0
	for _, fn := range r.P.OwnFuncs() {
		if !strings.HasPrefix(idOf(fn).pkg, modPath) {
			continue
		}
		var pooled []ssa.Value
		allInstrs(fn, func(in ssa.Instruction) {
			if c := callOf(in); c != nil && callID(c).is("sync", "Pool", "Put") && len(c.Args) == 2 {
				pooled = append(pooled, c.Args[1])
			}
		})
		if len(pooled) == 0 {
			continue
		}
		// the pooled object and its aliases
		obj := map[ssa.Value]bool{}
		var addObj func(v ssa.Value, d int)
		addObj = func(v ssa.Value, d int) {
			if d > 5 || obj[v] {
				return
			}
			obj[v] = true
			switch x := v.(type) {
			case *ssa.MakeInterface:
				addObj(x.X, d+1)
			case *ssa.TypeAssert:
				addObj(x.X, d+1)
			case *ssa.ChangeInterface:
				addObj(x.X, d+1)
			case *ssa.Phi:
				for _, e := range x.Edges {
					addObj(e, d+1)
				}
			case *ssa.Extract:
				addObj(x.Tuple, d+1)
			}
		}
		for _, v := range pooled {
			addObj(v, 0)
		}
		// forward: everything obtained from the object
		changed := true
		for changed {
			changed = false
			allInstrs(fn, func(in ssa.Instruction) {
				// a local cell (a named result spilled around a defer, a variable) holding such a value
				if st, isSt := in.(*ssa.Store); isSt && obj[st.Val] && pointerLike(st.Val.Type()) {
					if al, isLocal := st.Addr.(*ssa.Alloc); isLocal && !obj[al] {
						obj[al], changed = true, true
					}
				}
				v, ok := in.(ssa.Value)
				if !ok || obj[v] {
					return
				}
				for _, op := range in.Operands(nil) {
					if *op == nil || !obj[*op] {
						continue
					}
					switch x := in.(type) {
					case *ssa.TypeAssert, *ssa.Extract, *ssa.MakeInterface, *ssa.ChangeInterface, *ssa.ChangeType, *ssa.Slice, *ssa.FieldAddr, *ssa.IndexAddr, *ssa.Phi:
						obj[v], changed = true, true
					case *ssa.UnOp:
						if x.Op == token.MUL && pointerLike(v.Type()) {
							obj[v], changed = true, true
						}
					case *ssa.Call:
						id := callID(&x.Call)
						if (id.pkg == "slices" || id.pkg == "bytes") && id.name == "Clone" {
							continue
						}
						if b, isB := x.Call.Value.(*ssa.Builtin); isB && b.Name() != "append" {
							continue
						}
						if pointerLike(v.Type()) {
							obj[v], changed = true, true
						}
					}
				}
			})
		}
		for _, in0 := range pooled {
			_ = in0
		}
		nPut++
		if os.Getenv("KMIPSA_DEBUG_E7") != "" {
			for v := range obj {
				fmt.Fprintf(os.Stderr, "E7 obj %s = %s\n", v.Name(), v.String())
			}
		}
		key := fnKey(fn) + "/pool-put"
		bad, what := token.NoPos, ""
		allInstrs(fn, func(in ssa.Instruction) {
			switch x := in.(type) {
			case *ssa.Return:
				for _, res := range x.Results {
					if obj[res] && pointerLike(res.Type()) {
						bad, what = posOr(x.Pos(), fn.Pos()), "returns"
					}
				}
			case *ssa.Store:
				if obj[x.Val] && pointerLike(x.Val.Type()) && !obj[x.Addr] {
					if _, local := x.Addr.(*ssa.Alloc); !local {
						bad, what = posOr(x.Pos(), fn.Pos()), "stores"
					}
				}
			case *ssa.Send:
				if obj[x.X] {
					bad, what = posOr(x.Pos(), fn.Pos()), "sends"
				}
			}
		})
		if bad.IsValid() {
			r.Bad("C20.E7", key, bad, "%s %s something that still points into an object it hands back to a sync.Pool: the next borrower reuses that storage while it is still in use — two concurrent encodings (or sends) then overwrite each other's bytes", fnKey(fn), what)
		} else {
			r.OK("C20.E7", key, fn.Pos(), "nothing obtained from the pooled object is returned, stored or sent")
		}
	}
	if nPut == 0 {
		r.OK("C20.E7", "module/pool-put", token.NoPos, "no sync.Pool is used by the module")
	}
}

func pointerLike(t types.Type) bool {
	switch t.Underlying().(type) {
	case *types.Pointer, *types.Slice, *types.Map, *types.Chan, *types.Interface, *types.Signature:
		return true
	}
	return false
}

// c20PooledCoderCleared: fn takes its coder out of a sync.Pool (Get asserted to a ttlv Encoder/Decoder) and, in fn and
// its closures, every Put of such a coder is preceded in its block by a Clear() of the same object — the state the
// previous borrower left (buffer, version) is gone before the next one sees it, which is what "its own coder" is for.
func c20PooledCoderCleared(fn *ssa.Function) bool {
	isCoder := func(t types.Type) bool {
		if pt, ok := t.Underlying().(*types.Pointer); ok {
			t = pt.Elem()
		}
		n := typeName(t)
		return (n == "Encoder" || n == "Decoder") && typePkgPath(t) == ttlvPath
	}
	root := func(v ssa.Value) ssa.Value {
		for i := 0; i < 6; i++ {
			switch x := v.(type) {
			case *ssa.MakeInterface:
				v = x.X
			case *ssa.ChangeType:
				v = x.X
			case *ssa.UnOp:
				if x.Op == token.MUL {
					return x.X // a load: identified by the cell it reads
				}
				return v
			default:
				return v
			}
		}
		return v
	}
	gets, puts, ok := 0, 0, true
	withClosures(fn, func(f *ssa.Function) {
		for _, b := range f.Blocks {
			cleared := map[ssa.Value]bool{}
			for _, in := range b.Instrs {
				if ta, isTA := in.(*ssa.TypeAssert); isTA && isCoder(ta.AssertedType) {
					if c, isCall := ta.X.(*ssa.Call); isCall && callID(&c.Call).is("sync", "Pool", "Get") {
						gets++
					}
				}
				c := callOf(in)
				if c == nil {
					continue
				}
				id := callID(c)
				if id.pkg == ttlvPath && id.name == "Clear" && len(c.Args) > 0 && isCoder(c.Args[0].Type()) {
					cleared[root(c.Args[0])] = true
				}
				if id.is("sync", "Pool", "Put") && len(c.Args) == 2 {
					if mi, isMI := c.Args[1].(*ssa.MakeInterface); isMI && isCoder(mi.X.Type()) {
						puts++
						if !cleared[root(c.Args[1])] {
							ok = false
						}
					}
				}
			}
		}
	})
	return gets > 0 && puts > 0 && ok
}
