package main

// Helper normalisation.
//
// Most rules read one function at a time. "Extract helper" — moving part of an anchored function into a new
// unexported function — is behaviour preserving but hides that part from an intra-procedural rule. Before the
// rules run, every function that is NEW with respect to the reference inventory (ref/functions.tsv; a renamed
// function is not new) and is only ever called (never used as a value) is inlined back into its callers, as
// source text, in an overlay that is then loaded instead of the files on disk:
//
//	x, y := helper(a, b)        var _inlN_r0 T0; var _inlN_r1 T1
//	                            {
//	                                var _inlN_p0 P0 = a; var _inlN_p1 P1 = b
//	                                {
//	                                    p0, p1 := _inlN_p0, _inlN_p1; _, _ = p0, p1
//	                                _inlN_L:
//	                                    for {
//	                                        <body, each `return e0, e1` replaced by `{ _inlN_r0, _inlN_r1 = e0, e1; break _inlN_L }`>
//	                                        break _inlN_L
//	                                    }
//	                                }
//	                            }
//	                            x, y := _inlN_r0, _inlN_r1
//
// The transformation is the textbook one (arguments evaluated once, left to right, into fresh typed temporaries;
// the body in its own scope; results through typed temporaries). It is refused — and the tree analysed as it is —
// whenever one of its preconditions is not met: callee with defer/recover/goto/labels, variadic or generic callee,
// recursion, a name of the callee's package-level environment shadowed at the call site, a type that cannot be
// spelled in the caller's file, a call that is not the whole right-hand side / returned expression / statement /
// if-or-switch initialiser. If the overlay does not type-check it is dropped. Every inlining is listed in the evidence.

import (
	"bytes"
	"fmt"
	"go/ast"
	"go/parser"
	"go/printer"
	"go/token"
	"go/types"
	"os"
	"sort"
	"strings"

	"golang.org/x/tools/go/ast/astutil"
	"golang.org/x/tools/go/packages"
)

var normalizeNotes []string

type textEdit struct {
	start, end int
	text       string
}

func nodeText(fset *token.FileSet, n ast.Node) string {
	var b bytes.Buffer
	_ = printer.Fprint(&b, fset, n)
	return b.String()
}

// refKeySet: the (pkg, recv, name) of every function of the reference inventory.
func refKeySet(ref []invEntry) map[funcID]bool {
	m := map[funcID]bool{}
	for _, e := range ref {
		if e.kind == "F" {
			m[funcID{e.pkg, e.recv, e.name}] = true
		}
	}
	return m
}

func recvTypeNameOf(fd *ast.FuncDecl) string {
	if fd.Recv == nil || len(fd.Recv.List) == 0 {
		return ""
	}
	return recvName(fd.Recv.List[0].Type)
}

// calleeInlinable checks the shape preconditions on the callee.
func calleeInlinable(pk *packages.Package, fd *ast.FuncDecl) string {
	if fd.Body == nil {
		return "no body"
	}
	// a generic function is inlined with its type parameters replaced by the type arguments of the call
	if fd.Recv != nil {
		if _, isIdx := fd.Recv.List[0].Type.(*ast.IndexExpr); isIdx {
			return "generic receiver"
		}
		if st, ok := fd.Recv.List[0].Type.(*ast.StarExpr); ok {
			if _, isIdx := st.X.(*ast.IndexExpr); isIdx {
				return "generic receiver"
			}
		}
	}
	if fd.Type.Params != nil {
		for _, f := range fd.Type.Params.List {
			if _, ok := f.Type.(*ast.Ellipsis); ok {
				return "variadic"
			}
		}
	}
	self := pk.TypesInfo.Defs[fd.Name]
	why := ""
	ast.Inspect(fd.Body, func(n ast.Node) bool {
		switch x := n.(type) {
		case *ast.DeferStmt:
			why = "defer"
		case *ast.LabeledStmt:
			why = "label"
		case *ast.BranchStmt:
			if x.Tok == token.GOTO {
				why = "goto"
			}
		case *ast.CallExpr:
			if id, ok := x.Fun.(*ast.Ident); ok && id.Name == "recover" {
				if _, isB := pk.TypesInfo.Uses[id].(*types.Builtin); isB {
					why = "recover"
				}
			}
		case *ast.Ident:
			if self != nil && pk.TypesInfo.Uses[x] == self {
				why = "recursive"
			}
		}
		return why == ""
	})
	return why
}

// normalizeNewHelpers computes the overlay (absolute file name -> new content) inlining the new helpers.
// normalizePrev: the overlay of the previous round (file name -> content); sources are read through it.
var normalizePrev map[string][]byte

func readSource(name string) ([]byte, error) {
	if b, ok := normalizePrev[name]; ok {
		return b, nil
	}
	return os.ReadFile(name)
}

func normalizeNewHelpers(p *Program, ref []invEntry, prev map[string][]byte) map[string][]byte {
	normalizePrev = prev
	refKeys := refKeySet(ref)
	refSigs := map[funcID]string{}
	for _, e := range ref {
		if e.kind == "F" {
			refSigs[funcID{e.pkg, e.recv, e.name}] = e.sig
		}
	}
	counter := 0
	editsByFile := map[string][]textEdit{}
	srcByFile := map[string][]byte{}
	for _, pk := range p.RepoPkgs() {
		// candidates
		type cand struct {
			fd  *ast.FuncDecl
			obj *types.Func
		}
		var cands []cand
		for _, f := range pk.Syntax {
			for _, d := range f.Decls {
				fd, ok := d.(*ast.FuncDecl)
				if !ok || fd.Body == nil || fd.Name.Name == "init" || fd.Name.Name == "main" {
					continue
				}
				obj, _ := pk.TypesInfo.Defs[fd.Name].(*types.Func)
				if obj == nil {
					continue
				}
				id := funcID{pk.PkgPath, canonTypeName(pk.PkgPath, recvTypeNameOf(fd)), fd.Name.Name}
				if refKeys[id] {
					// an unexported helper of the inventory whose signature changed is treated like a new helper: its
					// callers are compared with the reference through its body, not through an interface that moved
					cur := anonSigString(obj)
					if len(renameType) > 0 {
						// types renamed with respect to the reference are spelled with their reference names
						cur = identRe.ReplaceAllStringFunc(cur, func(w string) string {
							for k, v := range renameType {
								if k[1] == w {
									return v
								}
							}
							return w
						})
					}
					if refSigs[id] == "" || refSigs[id] == cur || ast.IsExported(fd.Name.Name) {
						continue
					}
					normalizeNotes = append(normalizeNotes, fmt.Sprintf("helper %s.%s changed its signature with respect to the reference inventory (%s -> %s): inlined into its callers for the analysis", relOrRoot(pk.PkgPath), fd.Name.Name, refSigs[id], cur))
				}
				if _, renamed := renameFn[id]; renamed {
					continue
				}
				if obj.Exported() && fd.Recv == nil {
					continue // new API, not an extracted helper
				}
				if fd.Recv != nil && ast.IsExported(fd.Name.Name) {
					continue // may implement an interface
				}
				if why := calleeInlinable(pk, fd); why != "" {
					normalizeNotes = append(normalizeNotes, fmt.Sprintf("new function %s.%s is not inlined (%s)", relOrRoot(pk.PkgPath), fd.Name.Name, why))
					continue
				}
				cands = append(cands, cand{fd, obj})
			}
		}
		if len(cands) == 0 {
			continue
		}
		candByObj := map[types.Object]cand{}
		for _, c := range cands {
			candByObj[c.obj] = c
		}
		// a candidate used as a value anywhere is dropped
		for id, obj := range pk.TypesInfo.Uses {
			c, ok := candByObj[obj]
			if !ok {
				continue
			}
			_ = c
			// find whether this ident is the Fun of a call
			isCall := false
			for _, f := range pk.Syntax {
				if f.Pos() <= id.Pos() && id.End() <= f.End() {
					path, _ := astutil.PathEnclosingInterval(f, id.Pos(), id.End())
					for i, n := range path {
						if call, ok := n.(*ast.CallExpr); ok {
							fun := ast.Unparen(call.Fun)
							if fun == ast.Expr(id) {
								isCall = true
							}
							if se, ok := fun.(*ast.SelectorExpr); ok && se.Sel == id {
								isCall = true
							}
							_ = i
							break
						}
					}
				}
			}
			if !isCall {
				delete(candByObj, obj)
				// a method value / function value of a new helper (d.Struct(tag, att.decodeFields)) is rewritten into
				// a function literal that calls it; the next round inlines that call
				if ed, fname, ok := wrapFuncValue(p, pk, id, obj.(*types.Func)); ok {
					editsByFile[fname] = append(editsByFile[fname], ed)
					normalizeNotes = append(normalizeNotes, fmt.Sprintf("new function %s.%s is used as a value at %s: wrapped in a function literal for the analysis", relOrRoot(pk.PkgPath), obj.Name(), p.pos(id.Pos())))
					continue
				}
				normalizeNotes = append(normalizeNotes, fmt.Sprintf("new function %s.%s is not inlined (used as a value)", relOrRoot(pk.PkgPath), obj.Name()))
			}
		}
		// call sites
		nSites, nInlined := map[types.Object]int{}, map[types.Object]int{}
		for _, f := range pk.Syntax {
			fname := p.Fset.Position(f.Pos()).Filename
			var sites []*ast.CallExpr
			ast.Inspect(f, func(n ast.Node) bool {
				call, ok := n.(*ast.CallExpr)
				if !ok {
					return true
				}
				var id *ast.Ident
				switch fun := ast.Unparen(call.Fun).(type) {
				case *ast.Ident:
					id = fun
				case *ast.SelectorExpr:
					id = fun.Sel
				}
				if id != nil {
					if _, ok := candByObj[pk.TypesInfo.Uses[id]]; ok {
						sites = append(sites, call)
					}
				}
				return true
			})
			for _, call := range sites {
				var id *ast.Ident
				switch fun := ast.Unparen(call.Fun).(type) {
				case *ast.Ident:
					id = fun
				case *ast.SelectorExpr:
					id = fun.Sel
				}
				c := candByObj[pk.TypesInfo.Uses[id]]
				nSites[c.obj]++
				// do not inline inside another candidate's body (it is inlined where that candidate is called, next round)
				inCand := false
				for _, oc := range candByObj {
					if oc.fd.Pos() <= call.Pos() && call.End() <= oc.fd.End() {
						inCand = true
					}
				}
				if inCand {
					continue
				}
				counter++
				ed, why := inlineSite(p, pk, f, call, c.fd, c.obj, counter)
				if why != "" {
					normalizeNotes = append(normalizeNotes, fmt.Sprintf("call of new function %s at %s is not inlined (%s)", c.obj.Name(), p.pos(call.Pos()), why))
					continue
				}
				// overlapping edits (two helper calls in one statement): keep the first
				overlap := false
				for _, e := range editsByFile[fname] {
					if ed.start < e.end && e.start < ed.end {
						overlap = true
					}
				}
				if overlap {
					continue
				}
				editsByFile[fname] = append(editsByFile[fname], ed)
				nInlined[c.obj]++
				normalizeNotes = append(normalizeNotes, fmt.Sprintf("new function %s.%s (not in the reference inventory) inlined at its call site %s for the analysis", relOrRoot(pk.PkgPath), c.obj.Name(), p.pos(call.Pos())))
			}
		}
		// a helper whose every call was inlined no longer exists for the analysis: its declaration is removed from
		// the overlay (it would otherwise be analysed as a free-standing function)
		for obj, c := range candByObj {
			if nSites[obj] == 0 || nSites[obj] != nInlined[obj] {
				continue
			}
			tf := p.Fset.File(c.fd.Pos())
			start := c.fd.Pos()
			if c.fd.Doc != nil {
				start = c.fd.Doc.Pos()
			}
			fname := tf.Name()
			editsByFile[fname] = append(editsByFile[fname], textEdit{start: tf.Offset(start), end: tf.Offset(c.fd.End()), text: ""})
		}
	}
	if len(editsByFile) == 0 {
		return nil
	}
	overlay := map[string][]byte{}
	for fname, eds := range editsByFile {
		src, ok := srcByFile[fname]
		if !ok {
			if b, have := prev[fname]; have {
				src = b
			} else {
				b, err := os.ReadFile(fname)
				if err != nil {
					continue
				}
				src = b
			}
		}
		sort.Slice(eds, func(i, j int) bool { return eds[i].start > eds[j].start })
		out := append([]byte{}, src...)
		for _, e := range eds {
			out = append(out[:e.start], append([]byte(e.text), out[e.end:]...)...)
		}
		overlay[fname] = out
	}
	return overlay
}

// typeExprFor spells t in file f of package pk ("" when impossible).
func typeExprFor(pk *packages.Package, f *ast.File, t types.Type, scope *types.Scope, pos token.Pos) string {
	okAll := !typeNamesShadowed(pk, t, scope, pos, 0)
	imports := map[string]string{} // path -> local name
	for _, is := range f.Imports {
		path := strings.Trim(is.Path.Value, `"`)
		name := ""
		if is.Name != nil {
			name = is.Name.Name
		} else if ip := pk.Imports[path]; ip != nil {
			name = ip.Name
		} else {
			name = path[strings.LastIndex(path, "/")+1:]
		}
		imports[path] = name
	}
	s := types.TypeString(t, func(o *types.Package) string {
		if o.Path() == pk.PkgPath {
			return ""
		}
		if n, ok := imports[o.Path()]; ok && n != "_" && n != "." {
			return n
		}
		okAll = false
		return o.Name()
	})
	if !okAll || strings.Contains(s, "invalid type") {
		return ""
	}
	return s
}

// inlineSite builds the text edit replacing the statement that contains call.
func inlineSite(p *Program, pk *packages.Package, f *ast.File, call *ast.CallExpr, fd *ast.FuncDecl, obj *types.Func, n int) (textEdit, string) {
	fset := p.Fset
	src, err := readSource(fset.Position(f.Pos()).Filename)
	if err != nil {
		return textEdit{}, "source not readable"
	}
	tfile := fset.File(f.Pos())
	txt := func(n ast.Node) string { return string(src[tfile.Offset(n.Pos()):tfile.Offset(n.End())]) }
	sig := obj.Type().(*types.Signature)
	var tparamSubst map[*types.TypeName]string // type parameter -> spelling of its argument at this call
	if sig.TypeParams().Len() > 0 {
		var fid *ast.Ident
		switch fun := ast.Unparen(call.Fun).(type) {
		case *ast.Ident:
			fid = fun
		case *ast.IndexExpr:
			fid, _ = fun.X.(*ast.Ident)
		case *ast.IndexListExpr:
			fid, _ = fun.X.(*ast.Ident)
		}
		inst, ok := pk.TypesInfo.Instances[fid]
		if fid == nil || !ok || inst.TypeArgs.Len() != sig.TypeParams().Len() {
			return textEdit{}, "generic call whose type arguments are not recorded"
		}
		isig, ok := inst.Type.(*types.Signature)
		if !ok {
			return textEdit{}, "generic instance is not a function"
		}
		tparamSubst = map[*types.TypeName]string{}
		sc0 := pk.Types.Scope().Innermost(call.Pos())
		for i := 0; i < sig.TypeParams().Len(); i++ {
			ts := typeExprFor(pk, f, inst.TypeArgs.At(i), sc0, call.Pos())
			if ts == "" {
				return textEdit{}, "type argument cannot be spelled in the caller's file"
			}
			tparamSubst[sig.TypeParams().At(i).Obj()] = "(" + ts + ")"
		}
		sig = isig
	}
	if len(call.Args) != sig.Params().Len() || call.Ellipsis.IsValid() {
		return textEdit{}, "argument count / spread call"
	}
	if ed, ok := inlineExpr(p, pk, f, call, fd, obj, tparamSubst, txt, tfile); ok {
		return ed, ""
	}
	path, _ := astutil.PathEnclosingInterval(f, call.Pos(), call.End())
	// enclosing statement
	var stmt ast.Stmt
	var stmtIdx int
	for i, nd := range path {
		if s, ok := nd.(ast.Stmt); ok {
			stmt, stmtIdx = s, i
			break
		}
		if _, ok := nd.(*ast.FuncLit); ok {
			break
		}
	}
	if stmt == nil {
		return textEdit{}, "not inside a statement"
	}
	// the statement must be an element of a statement list
	inList := false
	if stmtIdx+1 < len(path) {
		switch par := path[stmtIdx+1].(type) {
		case *ast.BlockStmt:
			inList = true
		case *ast.CaseClause:
			for _, s := range par.Body {
				if s == stmt {
					inList = true
				}
			}
		case *ast.CommClause:
			for _, s := range par.Body {
				if s == stmt {
					inList = true
				}
			}
		case *ast.IfStmt:
			if par.Init == stmt {
				// handled below through the if statement
				stmt = par
				stmtIdx++
				if stmtIdx+1 < len(path) {
					switch pp := path[stmtIdx+1].(type) {
					case *ast.BlockStmt:
						inList = true
					case *ast.CaseClause, *ast.CommClause:
						inList = true
						_ = pp
					}
				}
			}
		}
	}
	if !inList {
		return textEdit{}, "statement is not in a statement list"
	}
	pre := fmt.Sprintf("_inl%d_", n)
	callScope := pk.Types.Scope().Innermost(call.Pos())
	// result temporaries
	var resNames, resTypes []string
	for i := 0; i < sig.Results().Len(); i++ {
		ts := typeExprFor(pk, f, sig.Results().At(i).Type(), callScope, call.Pos())
		if ts == "" {
			return textEdit{}, "result type cannot be spelled in the caller's file"
		}
		resNames = append(resNames, fmt.Sprintf("%sr%d", pre, i))
		resTypes = append(resTypes, ts)
	}
	// how is the call used?
	isWhole := func(e ast.Expr) bool { return ast.Unparen(e) == ast.Expr(call) }
	mode, errName, thenText := "general", "", ""
	var after string // statement(s) to emit after the inlined block, using the result temporaries
	resList := strings.Join(resNames, ", ")
	// the call as a direct argument of the statement's own call — outer(a, b, helper(x), c) — with only pure
	// expressions evaluated before it: hoisted into a temporary, the statement keeps its shape
	asDirectArg := func(top ast.Expr) bool {
		outer, ok := ast.Unparen(top).(*ast.CallExpr)
		if !ok || outer == call || len(resNames) != 1 {
			return false
		}
		if !pureExpr(outer.Fun) {
			return false
		}
		for _, a := range outer.Args {
			if ast.Unparen(a) == ast.Expr(call) {
				return true
			}
			if !pureExpr(a) {
				return false
			}
		}
		return false
	}
	spliced := func() string {
		return string(src[tfile.Offset(stmt.Pos()):tfile.Offset(call.Pos())]) + resNames[0] + string(src[tfile.Offset(call.End()):tfile.Offset(stmt.End())])
	}
	switch s := stmt.(type) {
	case *ast.ExprStmt:
		if asDirectArg(s.X) {
			after = spliced()
			break
		}
		if !isWhole(s.X) {
			return textEdit{}, "call nested in an expression statement"
		}
		after = ""
	case *ast.AssignStmt:
		if len(s.Rhs) == 1 && asDirectArg(s.Rhs[0]) {
			allPure := true
			for _, l := range s.Lhs {
				if !pureExpr(l) {
					allPure = false
				}
			}
			if allPure {
				after = spliced()
				break
			}
		}
		if len(s.Rhs) != 1 || !isWhole(s.Rhs[0]) {
			return textEdit{}, "call is not the whole right-hand side"
		}
		if len(s.Lhs) != len(resNames) {
			return textEdit{}, "assignment arity"
		}
		// the left-hand sides must not have side effects that would now be evaluated after the call: identifiers, selectors and index expressions of pure operands only
		var lhs []string
		for _, l := range s.Lhs {
			if !pureExpr(l) {
				return textEdit{}, "left-hand side with side effects"
			}
			lhs = append(lhs, txt(l))
		}
		after = strings.Join(lhs, ", ") + " " + s.Tok.String() + " " + resList
	case *ast.ReturnStmt:
		if len(s.Results) == 1 && asDirectArg(s.Results[0]) {
			after = spliced()
			break
		}
		if len(s.Results) != 1 || !isWhole(s.Results[0]) {
			return textEdit{}, "call is not the whole returned expression"
		}
		after = "return " + resList
		if !hasNamedResults(fd) {
			mode = "tailreturn" // `return helper(...)`: the helper's own returns become the caller's
		}
	case *ast.IfStmt:
		as, ok := s.Init.(*ast.AssignStmt)
		if !ok || len(as.Rhs) != 1 || !isWhole(as.Rhs[0]) || len(as.Lhs) != len(resNames) {
			return textEdit{}, "if initialiser form"
		}
		var lhs []string
		for _, l := range as.Lhs {
			if !pureExpr(l) {
				return textEdit{}, "left-hand side with side effects"
			}
			lhs = append(lhs, txt(l))
		}
		// { <inlined>; if lhs := temps; cond {...} else {...} }
		rest := string(src[tfile.Offset(s.Cond.Pos()):tfile.Offset(s.End())])
		after = "if " + strings.Join(lhs, ", ") + " " + as.Tok.String() + " " + resList + "; " + rest
		// `if err := helper(...); err != nil { S }`: keep the idiom, one test per return of the helper
		if id, ok := as.Lhs[0].(*ast.Ident); ok && len(as.Lhs) == 1 && as.Tok == token.DEFINE && s.Else == nil && !hasNamedResults(fd) {
			if be, ok := s.Cond.(*ast.BinaryExpr); ok && be.Op == token.NEQ {
				if x, ok := be.X.(*ast.Ident); ok && x.Name == id.Name {
					if y, ok := be.Y.(*ast.Ident); ok && y.Name == "nil" && !thenBodyShadowed(pk, s.Body, fd, id.Name) {
						mode = "iferr"
						errName = id.Name
						thenText = txt(s.Body)
					}
				}
			}
		}
	default:
		return textEdit{}, fmt.Sprintf("statement form %T", stmt)
	}
	// parameters (and receiver)
	type bind struct{ name, typ, arg string }
	var binds []bind
	if fd.Recv != nil && len(fd.Recv.List) == 1 {
		se, ok := ast.Unparen(call.Fun).(*ast.SelectorExpr)
		if !ok {
			return textEdit{}, "method call form"
		}
		rt := sig.Recv().Type()
		ts := typeExprFor(pk, f, rt, callScope, call.Pos())
		recvUntyped := false
		if ts == "" {
			recvUntyped = true
		}
		arg := txt(se.X)
		at := pk.TypesInfo.TypeOf(se.X)
		_, wantPtr := rt.Underlying().(*types.Pointer)
		_, havePtr := at.Underlying().(*types.Pointer)
		switch {
		case wantPtr && !havePtr:
			arg = "&(" + arg + ")"
		case !wantPtr && havePtr:
			arg = "*(" + arg + ")"
		}
		if recvUntyped {
			// after the address-of / dereference adjustment the expression has exactly the receiver type
			ts = ""
		}
		name := "_"
		if len(fd.Recv.List[0].Names) == 1 {
			name = fd.Recv.List[0].Names[0].Name
		}
		binds = append(binds, bind{name, ts, arg})
	}
	ai := 0
	if fd.Type.Params != nil {
		for _, fld := range fd.Type.Params.List {
			names := fld.Names
			if len(names) == 0 {
				names = []*ast.Ident{{Name: "_"}}
			}
			for _, nm := range names {
				ts := typeExprFor(pk, f, sig.Params().At(ai).Type(), callScope, call.Pos())
				if ts == "" {
					at := pk.TypesInfo.TypeOf(call.Args[ai])
					if at == nil || !types.Identical(at, sig.Params().At(ai).Type()) {
						return textEdit{}, "parameter type cannot be spelled in the caller's file"
					}
					// the argument already has exactly the parameter's type: `tmp := arg` needs no type expression
				}
				binds = append(binds, bind{nm.Name, ts, txt(call.Args[ai])})
				ai++
			}
		}
	}
	// environment of the body: every free identifier must mean the same thing at the call site
	scope := pk.Types.Scope().Innermost(call.Pos())
	bad := ""
	ast.Inspect(fd.Body, func(nd ast.Node) bool {
		id, ok := nd.(*ast.Ident)
		if !ok || bad != "" {
			return bad == ""
		}
		o := pk.TypesInfo.Uses[id]
		if o == nil {
			return true
		}
		switch o.(type) {
		case *types.PkgName:
			// the caller's file must import the same package under the same name
			_, at := scope.LookupParent(id.Name, call.Pos())
			pn, ok := at.(*types.PkgName)
			if !ok || pn.Imported() != o.(*types.PkgName).Imported() {
				bad = "package name " + id.Name + " means something else (or is not imported) in the caller's file"
			}
		default:
			if o.Parent() == pk.Types.Scope() || o.Parent() == types.Universe {
				_, at := scope.LookupParent(id.Name, call.Pos())
				if at != o {
					bad = "identifier " + id.Name + " is shadowed at the call site"
				}
			}
		}
		return true
	})
	if bad != "" {
		return textEdit{}, bad
	}
	// body with returns rewritten
	label := pre + "L"
	thenMarker := pre + "THEN"
	bodySrc := calleeBodyText(fset, fd)
	if len(tparamSubst) > 0 {
		// replace every use of a type parameter inside the body by the spelled type argument
		tfb := fset.File(fd.Pos())
		base := tfb.Offset(fd.Body.Pos())
		type rep struct {
			a, b int
			s    string
		}
		var reps []rep
		ast.Inspect(fd.Body, func(nd ast.Node) bool {
			if id, ok := nd.(*ast.Ident); ok {
				if tn, ok := pk.TypesInfo.Uses[id].(*types.TypeName); ok {
					if sp, ok := tparamSubst[tn]; ok {
						reps = append(reps, rep{tfb.Offset(id.Pos()) - base, tfb.Offset(id.End()) - base, sp})
					}
				}
			}
			return true
		})
		sort.Slice(reps, func(i, j int) bool { return reps[i].a > reps[j].a })
		for _, rp := range reps {
			if rp.a >= 0 && rp.b <= len(bodySrc) {
				bodySrc = bodySrc[:rp.a] + rp.s + bodySrc[rp.b:]
			}
		}
	}
	nf, err := parser.ParseFile(token.NewFileSet(), "inl.go", "package p\nfunc _() "+bodySrc+"\n", parser.SkipObjectResolution)
	if err != nil {
		return textEdit{}, "callee body does not re-parse"
	}
	nfd := nf.Decls[0].(*ast.FuncDecl)
	// named results of the callee
	var named []string
	if fd.Type.Results != nil {
		for _, fld := range fd.Type.Results.List {
			for _, nm := range fld.Names {
				named = append(named, nm.Name)
			}
		}
	}
	if len(named) > 0 && len(named) != len(resNames) {
		return textEdit{}, "partly named results"
	}
	failed := ""
	var errTypeExpr ast.Expr
	if mode == "iferr" {
		errTypeExpr, err = parser.ParseExpr(resTypes[0])
		if err != nil {
			mode = "general"
		}
	}
	// returns of the form `if e != nil { ...; return e }`
	guardedReturns := map[*ast.ReturnStmt]bool{}
	ast.Inspect(nfd.Body, func(n ast.Node) bool {
		iff, ok := n.(*ast.IfStmt)
		if !ok {
			return true
		}
		be, ok := iff.Cond.(*ast.BinaryExpr)
		if !ok || be.Op != token.NEQ {
			return true
		}
		x, ok1 := be.X.(*ast.Ident)
		y, ok2 := be.Y.(*ast.Ident)
		if !ok1 || !ok2 || y.Name != "nil" || len(iff.Body.List) == 0 {
			return true
		}
		// the guarded variable must not be reassigned before the return: only accept a body made of that return alone
		if ret, ok := iff.Body.List[len(iff.Body.List)-1].(*ast.ReturnStmt); ok && len(iff.Body.List) == 1 && len(ret.Results) == 1 {
			if rid, ok := ret.Results[0].(*ast.Ident); ok && rid.Name == x.Name {
				guardedReturns[ret] = true
			}
		}
		return true
	})
	astutil.Apply(nfd.Body, func(c *astutil.Cursor) bool {
		switch x := c.Node().(type) {
		case *ast.FuncLit:
			return false
		case *ast.ReturnStmt:
			if mode == "tailreturn" {
				return false
			}
			if mode == "iferr" {
				if len(x.Results) != 1 {
					failed = "return arity"
					return false
				}
				brk := &ast.BranchStmt{Tok: token.BREAK, Label: ast.NewIdent(label)}
				if id, ok := x.Results[0].(*ast.Ident); ok && id.Name == "nil" {
					// `return nil`: the caller's error branch is not taken
					c.Replace(&ast.BlockStmt{List: []ast.Stmt{brk}})
					return false
				}
				if guardedReturns[x] {
					// `if e != nil { return e }`: the caller's error branch is taken, no second test
					c.Replace(&ast.BlockStmt{List: []ast.Stmt{
						&ast.DeclStmt{Decl: &ast.GenDecl{Tok: token.VAR, Specs: []ast.Spec{&ast.ValueSpec{Names: []*ast.Ident{ast.NewIdent(errName)}, Type: errTypeExpr, Values: x.Results}}}},
						&ast.ExprStmt{X: ast.NewIdent(thenMarker + "U")},
						brk,
					}})
					return false
				}
				c.Replace(&ast.BlockStmt{List: []ast.Stmt{
					&ast.DeclStmt{Decl: &ast.GenDecl{Tok: token.VAR, Specs: []ast.Spec{&ast.ValueSpec{Names: []*ast.Ident{ast.NewIdent(errName)}, Type: errTypeExpr, Values: x.Results}}}},
					&ast.ExprStmt{X: ast.NewIdent(thenMarker)},
					&ast.BranchStmt{Tok: token.BREAK, Label: ast.NewIdent(label)},
				}})
				return false
			}
			var stmts []ast.Stmt
			switch {
			case len(resNames) == 0:
			case len(x.Results) == 0:
				if len(named) == 0 {
					failed = "bare return without named results"
					return false
				}
				stmts = append(stmts, &ast.AssignStmt{Lhs: idents(resNames), Tok: token.ASSIGN, Rhs: idents(named)})
			default:
				stmts = append(stmts, &ast.AssignStmt{Lhs: idents(resNames), Tok: token.ASSIGN, Rhs: x.Results})
			}
			stmts = append(stmts, &ast.BranchStmt{Tok: token.BREAK, Label: ast.NewIdent(label)})
			c.Replace(&ast.BlockStmt{List: stmts})
			return false
		}
		return true
	}, nil)
	if failed != "" {
		return textEdit{}, failed
	}
	var body bytes.Buffer
	for _, s := range nfd.Body.List {
		var b bytes.Buffer
		_ = printer.Fprint(&b, token.NewFileSet(), s)
		body.WriteString(b.String())
		body.WriteString("\n")
	}
	// assemble
	var out strings.Builder
	bodyText := body.String()
	if mode == "iferr" {
		bodyText = strings.ReplaceAll(bodyText, thenMarker+"U", thenText)
		bodyText = strings.ReplaceAll(bodyText, thenMarker, "if "+errName+" != nil "+thenText)
	}
	if mode == "general" {
		for i := range resNames {
			fmt.Fprintf(&out, "var %s %s\n", resNames[i], resTypes[i])
		}
	}
	out.WriteString("{\n")
	var tmpNames, prmNames []string
	for i, b := range binds {
		tn := fmt.Sprintf("%sp%d", pre, i)
		if b.typ == "" {
			fmt.Fprintf(&out, "%s := %s\n", tn, b.arg)
		} else {
			fmt.Fprintf(&out, "var %s %s = %s\n", tn, b.typ, b.arg)
		}
		fmt.Fprintf(&out, "_ = %s\n", tn)
		if b.name != "_" {
			tmpNames = append(tmpNames, tn)
			prmNames = append(prmNames, b.name)
		}
	}
	out.WriteString("{\n")
	if len(prmNames) > 0 {
		fmt.Fprintf(&out, "%s := %s\n", strings.Join(prmNames, ", "), strings.Join(tmpNames, ", "))
		for _, pn := range prmNames {
			fmt.Fprintf(&out, "_ = %s\n", pn)
		}
	}
	if len(named) > 0 {
		for i, nm := range named {
			fmt.Fprintf(&out, "var %s %s\n_ = %s\n", nm, resTypes[i], nm)
		}
	}
	switch mode {
	case "tailreturn":
		fmt.Fprintf(&out, "%s\n}\n}\n", bodyText)
	case "iferr":
		fmt.Fprintf(&out, "%s:\nfor {\n%s\nbreak %s\n}\n}\n}\n", label, bodyText, label)
	default:
		fmt.Fprintf(&out, "%s:\nfor {\n%s\n", label, bodyText)
		if len(named) > 0 {
			fmt.Fprintf(&out, "%s = %s\n", strings.Join(resNames, ", "), strings.Join(named, ", "))
		}
		fmt.Fprintf(&out, "break %s\n}\n}\n}\n", label)
		for _, rn := range resNames {
			fmt.Fprintf(&out, "_ = %s\n", rn)
		}
		out.WriteString(after)
		out.WriteString("\n")
	}
	tf := fset.File(stmt.Pos())
	return textEdit{start: tf.Offset(stmt.Pos()), end: tf.Offset(stmt.End()), text: out.String()}, ""
}

func idents(names []string) []ast.Expr {
	var out []ast.Expr
	for _, n := range names {
		out = append(out, ast.NewIdent(n))
	}
	return out
}

// pureExpr: evaluating e has no side effect and cannot be affected by the inlined body in a way that matters for the
// order of evaluation (identifiers, field selections, index expressions and dereferences of such, constants).
func pureExpr(e ast.Expr) bool {
	switch x := e.(type) {
	case *ast.Ident, *ast.BasicLit:
		return true
	case *ast.SelectorExpr:
		return pureExpr(x.X)
	case *ast.IndexExpr:
		return pureExpr(x.X) && pureExpr(x.Index)
	case *ast.StarExpr:
		return pureExpr(x.X)
	case *ast.ParenExpr:
		return pureExpr(x.X)
	}
	return false
}

// calleeBodyText: the source text of the callee's body (from the file it is declared in).
func calleeBodyText(fset *token.FileSet, fd *ast.FuncDecl) string {
	tf := fset.File(fd.Pos())
	b, err := readSource(tf.Name())
	if err != nil {
		return nodeText(fset, fd.Body)
	}
	return string(b[tf.Offset(fd.Body.Pos()):tf.Offset(fd.Body.End())])
}

func hasNamedResults(fd *ast.FuncDecl) bool {
	if fd.Type.Results == nil {
		return false
	}
	for _, f := range fd.Type.Results.List {
		if len(f.Names) > 0 {
			return true
		}
	}
	return false
}

// thenBodyShadowed: the then-block of the caller's `if err := helper(); err != nil { ... }` mentions a local of the
// caller whose name the helper also declares (parameter, receiver or local): copying the block into the helper's
// body would rebind it.
func thenBodyShadowed(pk *packages.Package, then *ast.BlockStmt, fd *ast.FuncDecl, errName string) bool {
	declared := map[string]bool{}
	ast.Inspect(fd, func(n ast.Node) bool {
		if id, ok := n.(*ast.Ident); ok {
			if pk.TypesInfo.Defs[id] != nil {
				declared[id.Name] = true
			}
		}
		return true
	})
	bad := false
	ast.Inspect(then, func(n ast.Node) bool {
		id, ok := n.(*ast.Ident)
		if !ok || id.Name == errName {
			return true
		}
		o := pk.TypesInfo.Uses[id]
		if o == nil {
			return true
		}
		if o.Parent() != pk.Types.Scope() && o.Parent() != types.Universe && o.Pkg() == pk.Types {
			if _, isPkgName := o.(*types.PkgName); !isPkgName && declared[id.Name] {
				// a local of the caller (or a field/method, which have no parent scope issue)
				if _, isVar := o.(*types.Var); isVar && !o.(*types.Var).IsField() {
					bad = true
				}
			}
		}
		return true
	})
	// a label or goto in the then-block cannot be duplicated
	ast.Inspect(then, func(n ast.Node) bool {
		switch x := n.(type) {
		case *ast.LabeledStmt:
			bad = true
		case *ast.BranchStmt:
			if x.Tok == token.GOTO {
				bad = true
			}
		}
		return true
	})
	return bad
}

// typeNamesShadowed: some type name (or package qualifier) needed to spell t means something else at pos.
func typeNamesShadowed(pk *packages.Package, t types.Type, scope *types.Scope, pos token.Pos, depth int) bool {
	if scope == nil || depth > 8 {
		return false
	}
	switch x := types.Unalias(t).(type) {
	case *types.Named:
		o := x.Obj()
		if o.Pkg() == nil {
			return false
		}
		if o.Pkg() == pk.Types {
			_, at := scope.LookupParent(o.Name(), pos)
			if at != types.Object(o) {
				return true
			}
		} else {
			_, at := scope.LookupParent(o.Pkg().Name(), pos)
			if pn, ok := at.(*types.PkgName); !ok || pn.Imported() != o.Pkg() {
				// may still be imported under another name: typeExprFor deals with names; a non-package object of that name shadows it
				if at != nil {
					if _, isPkg := at.(*types.PkgName); !isPkg {
						return true
					}
				}
			}
		}
		if ta := x.TypeArgs(); ta != nil {
			for i := 0; i < ta.Len(); i++ {
				if typeNamesShadowed(pk, ta.At(i), scope, pos, depth+1) {
					return true
				}
			}
		}
	case *types.Pointer:
		return typeNamesShadowed(pk, x.Elem(), scope, pos, depth+1)
	case *types.Slice:
		return typeNamesShadowed(pk, x.Elem(), scope, pos, depth+1)
	case *types.Array:
		return typeNamesShadowed(pk, x.Elem(), scope, pos, depth+1)
	case *types.Map:
		return typeNamesShadowed(pk, x.Key(), scope, pos, depth+1) || typeNamesShadowed(pk, x.Elem(), scope, pos, depth+1)
	case *types.Chan:
		return typeNamesShadowed(pk, x.Elem(), scope, pos, depth+1)
	case *types.Signature:
		for i := 0; i < x.Params().Len(); i++ {
			if typeNamesShadowed(pk, x.Params().At(i).Type(), scope, pos, depth+1) {
				return true
			}
		}
		for i := 0; i < x.Results().Len(); i++ {
			if typeNamesShadowed(pk, x.Results().At(i).Type(), scope, pos, depth+1) {
				return true
			}
		}
	}
	return false
}

// wrapFuncValue: the identifier id denotes the new helper fn used as a value (`x.m` or `f`, not called). It is
// replaced by `func(a0 T0, ...) (R...) { return x.m(a0, ...) }` when the receiver expression is a plain identifier
// (binding it now or at call time is the same for the analysis' purposes) and every type can be spelled in the file.
func wrapFuncValue(p *Program, pk *packages.Package, id *ast.Ident, fn *types.Func) (textEdit, string, bool) {
	var file *ast.File
	for _, f := range pk.Syntax {
		if f.Pos() <= id.Pos() && id.End() <= f.End() {
			file = f
		}
	}
	if file == nil {
		return textEdit{}, "", false
	}
	path, _ := astutil.PathEnclosingInterval(file, id.Pos(), id.End())
	var expr ast.Expr = id
	if len(path) > 1 {
		if se, ok := path[1].(*ast.SelectorExpr); ok && se.Sel == id {
			if _, isIdent := ast.Unparen(se.X).(*ast.Ident); !isIdent {
				return textEdit{}, "", false
			}
			expr = se
		}
	}
	sig, ok := fn.Type().(*types.Signature)
	if !ok || sig.Variadic() || sig.TypeParams() != nil {
		return textEdit{}, "", false
	}
	scope := pk.Types.Scope().Innermost(id.Pos())
	var params, args, results []string
	for i := 0; i < sig.Params().Len(); i++ {
		ts := typeExprFor(pk, file, sig.Params().At(i).Type(), scope, id.Pos())
		if ts == "" {
			return textEdit{}, "", false
		}
		params = append(params, fmt.Sprintf("kmipsaArg%d %s", i, ts))
		args = append(args, fmt.Sprintf("kmipsaArg%d", i))
	}
	for i := 0; i < sig.Results().Len(); i++ {
		ts := typeExprFor(pk, file, sig.Results().At(i).Type(), scope, id.Pos())
		if ts == "" {
			return textEdit{}, "", false
		}
		results = append(results, ts)
	}
	call := nodeText(p.Fset, expr) + "(" + strings.Join(args, ", ") + ")"
	body := call
	if len(results) > 0 {
		body = "return " + call
	}
	res := ""
	if len(results) > 0 {
		res = " (" + strings.Join(results, ", ") + ")"
	}
	text := "func(" + strings.Join(params, ", ") + ")" + res + " { " + body + " }"
	tf := p.Fset.File(expr.Pos())
	return textEdit{start: tf.Offset(expr.Pos()), end: tf.Offset(expr.End()), text: text}, tf.Name(), true
}

// inlineExpr: expression-level inlining of a one-line helper. The callee's body is a single `return EXPR`, it is not
// generic, every argument is a pure expression (no side effect, so evaluating it where and as often as the
// parameter occurs is the same), no parameter is assigned or has its address taken in EXPR, and every free name of
// EXPR means the same thing at the call site (package-level names not shadowed there, imported packages imported
// under the same name by the caller's file). The call is replaced by (EXPR) with the parameters substituted.
func inlineExpr(p *Program, pk *packages.Package, f *ast.File, call *ast.CallExpr, fd *ast.FuncDecl, obj *types.Func, tparamSubst map[*types.TypeName]string, txt func(ast.Node) string, tfile *token.File) (textEdit, bool) {
	if tparamSubst != nil || fd.Body == nil || len(fd.Body.List) != 1 {
		return textEdit{}, false
	}
	// a method: the receiver is one more parameter, given by the operand of the call's selector; it may only be
	// used to select a field or method (so that pointer/value receivers make no difference)
	var recvObj types.Object
	recvText := ""
	if fd.Recv != nil {
		sel, isSel := call.Fun.(*ast.SelectorExpr)
		if !isSel || len(fd.Recv.List) != 1 || len(fd.Recv.List[0].Names) != 1 || !pureExpr(sel.X) {
			return textEdit{}, false
		}
		recvObj = pk.TypesInfo.Defs[fd.Recv.List[0].Names[0]]
		if recvObj == nil {
			return textEdit{}, false
		}
		recvText = "(" + txt(sel.X) + ")"
	}
	ret, ok := fd.Body.List[0].(*ast.ReturnStmt)
	if !ok || len(ret.Results) != 1 {
		return textEdit{}, false
	}
	for _, a := range call.Args {
		if !pureExpr(a) {
			if bl, isLit := a.(*ast.BasicLit); !isLit || bl == nil {
				return textEdit{}, false
			}
		}
	}
	// parameters by object
	params := map[types.Object]int{}
	i := 0
	for _, fl := range fd.Type.Params.List {
		for _, nm := range fl.Names {
			if o := pk.TypesInfo.Defs[nm]; o != nil {
				params[o] = i
			}
			i++
		}
		if len(fl.Names) == 0 {
			i++
		}
	}
	callScope := pk.Types.Scope().Innermost(call.Pos())
	srcCallee, err := readSource(p.Fset.Position(fd.Pos()).Filename)
	if err != nil {
		return textEdit{}, false
	}
	cfile := p.Fset.File(fd.Pos())
	okAll := true
	type sub struct {
		start, end int
		text       string
	}
	var subs []sub
	imports := map[string]string{}
	for _, is := range f.Imports {
		path := strings.Trim(is.Path.Value, `"`)
		name := path[strings.LastIndex(path, "/")+1:]
		if is.Name != nil {
			name = is.Name.Name
		} else if ip := pk.Imports[path]; ip != nil {
			name = ip.Name
		}
		imports[path] = name
	}
	recvSelected := map[*ast.Ident]bool{}
	ast.Inspect(ret.Results[0], func(n ast.Node) bool {
		if se, ok := n.(*ast.SelectorExpr); ok {
			if id, ok := se.X.(*ast.Ident); ok {
				recvSelected[id] = true
			}
		}
		return true
	})
	ast.Inspect(ret.Results[0], func(n ast.Node) bool {
		switch x := n.(type) {
		case *ast.FuncLit:
			okAll = false
			return false
		case *ast.UnaryExpr:
			if x.Op == token.AND {
				okAll = false
			}
		case *ast.SelectorExpr:
			// qualified identifier: the package must be imported under the same name at the call site
			if id, ok := x.X.(*ast.Ident); ok {
				if pn, ok := pk.TypesInfo.Uses[id].(*types.PkgName); ok {
					if imports[pn.Imported().Path()] != id.Name {
						okAll = false
					}
					if _, o := callScope.LookupParent(id.Name, call.Pos()); o != nil {
						if _, isPkg := o.(*types.PkgName); !isPkg {
							okAll = false
						}
					}
					return false
				}
			}
		case *ast.Ident:
			o := pk.TypesInfo.Uses[x]
			if o == nil {
				return true
			}
			if recvObj != nil && o == recvObj {
				if !recvSelected[x] {
					okAll = false
					return true
				}
				subs = append(subs, sub{cfile.Offset(x.Pos()), cfile.Offset(x.End()), recvText})
				return true
			}
			if idx, isParam := params[o]; isParam {
				subs = append(subs, sub{cfile.Offset(x.Pos()), cfile.Offset(x.End()), "(" + txt(call.Args[idx]) + ")"})
				return true
			}
			// a package-level name (or a universe name) must denote the same object at the call site
			if o.Parent() == pk.Types.Scope() || o.Parent() == types.Universe {
				if _, o2 := callScope.LookupParent(x.Name, call.Pos()); o2 != o {
					okAll = false
				}
				return true
			}
			if _, isField := o.(*types.Var); isField && o.(*types.Var).IsField() {
				return true
			}
			okAll = false // a local of the callee other than a parameter: not a single-expression helper after all
		}
		return true
	})
	if !okAll {
		return textEdit{}, false
	}
	es, ee := cfile.Offset(ret.Results[0].Pos()), cfile.Offset(ret.Results[0].End())
	body := append([]byte{}, srcCallee[es:ee]...)
	sort.Slice(subs, func(a, b int) bool { return subs[a].start > subs[b].start })
	for _, sb := range subs {
		body = append(body[:sb.start-es], append([]byte(sb.text), body[sb.end-es:]...)...)
	}
	return textEdit{start: tfile.Offset(call.Pos()), end: tfile.Offset(call.End()), text: "(" + string(body) + ")"}, true
}

// anonSigString: the signature of obj spelled like the inventory does (parameter and result names dropped, packages
// by name, no receiver).
func anonSigString(obj *types.Func) string {
	sig, ok := obj.Type().(*types.Signature)
	if !ok {
		return ""
	}
	anon := func(t *types.Tuple) *types.Tuple {
		var vs []*types.Var
		for i := 0; i < t.Len(); i++ {
			vs = append(vs, types.NewVar(0, nil, "", t.At(i).Type()))
		}
		return types.NewTuple(vs...)
	}
	return types.TypeString(types.NewSignatureType(nil, nil, nil, anon(sig.Params()), anon(sig.Results()), sig.Variadic()), func(pk *types.Package) string { return pk.Name() })
}
