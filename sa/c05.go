package main

// C05 — message elements are gated by the protocol version in the header.

import (
	"bufio"
	"fmt"
	"go/ast"
	"go/token"
	"go/types"
	"os"
	"path/filepath"
	"sort"
	"strings"

	"golang.org/x/tools/go/ssa"
)

type verRow struct {
	field string // pkg.Struct.Field
	rng   string // canonical "1.2.." form
}

func canonRange(v *vrange) string {
	s, e := "", ""
	if v.startSet {
		s = fmt.Sprintf("%d.%d", v.sMaj, v.sMin)
	}
	if v.endSet {
		e = fmt.Sprintf("%d.%d", v.eMaj, v.eMin)
	}
	return s + ".." + e
}

func readVersionRef(path string) (map[string]string, error) {
	f, err := os.Open(path)
	if err != nil {
		return nil, err
	}
	defer f.Close()
	out := map[string]string{}
	sc := bufio.NewScanner(f)
	for sc.Scan() {
		ln := strings.TrimSpace(sc.Text())
		if ln == "" || strings.HasPrefix(ln, "#") {
			continue
		}
		parts := strings.Split(ln, "\t")
		if len(parts) < 2 {
			return nil, fmt.Errorf("%s: bad row %q", path, ln)
		}
		out[parts[0]] = parts[1]
	}
	return out, sc.Err()
}

// allNamedStructs lists every named struct type declared in the library packages.
func allNamedStructs(p *Program) []*types.Named {
	var out []*types.Named
	for _, pk := range p.RepoPkgs() {
		sc := pk.Types.Scope()
		for _, n := range sc.Names() {
			tn, ok := sc.Lookup(n).(*types.TypeName)
			if !ok || tn.IsAlias() {
				continue
			}
			nm, ok := tn.Type().(*types.Named)
			if !ok || nm.TypeParams().Len() > 0 {
				continue
			}
			if _, ok := nm.Underlying().(*types.Struct); ok {
				out = append(out, nm)
			}
		}
	}
	sort.Slice(out, func(i, j int) bool { return qualName(out[i]) < qualName(out[j]) })
	return out
}

func versionAnnotations(p *Program, m *Model) []struct {
	key string
	fp  FieldPlan
	n   *types.Named
} {
	var out []struct {
		key string
		fp  FieldPlan
		n   *types.Named
	}
	for _, n := range allNamedStructs(p) {
		sp := m.Plan(n)
		if sp == nil {
			continue
		}
		for _, fp := range sp.Fields {
			if fp.VRange != nil {
				out = append(out, struct {
					key string
					fp  FieldPlan
					n   *types.Named
				}{qualName(n) + "." + fp.Name, fp, n})
			}
		}
	}
	return out
}

func runC05(r *Run, verifDir string) {
	p := r.P
	reg := BuildRegistry(p)
	m := NewModel(p, reg)
	r.Explain = append(r.Explain,
		"C05 is decided structurally: V1 compares the set of version-gated fields and their ranges with the reviewed table ref/version_intro.tsv (Struct.Field -> first KMIP version); V2 checks on the SSA of the two gating wrappers that an element is emitted exactly when the header version is in range and that the decoder's only skip is under (!inRange && tag mismatch); V3 that the version state is shared parent->nested and written only by the set-version wrapper and Clear; V4 that the version-setting header field is coded first; V5 that no gated struct has a hand-written codec bypassing the annotations.")
	r.Assume = append(r.Assume,
		"ref/version_intro.tsv states the version each field was introduced in (written from the KMIP 1.1-1.4 specifications as known to the author, no copy offline; read against the 61 annotations of the pinned tree)",
		"M2 mirrors parseFieldInfo/getFieldTag/buildStruct*Func (probed on every run)",
		"the arithmetic of parseVersionRange/versionRange.contains is covered by the repository's own version_test.go and is not decided here")
	r.NotCov = append(r.NotCov, "value-level arithmetic of version comparison", "that the populated element value is emitted unaltered (C01)", "protocol versions outside 1.0-1.4")

	r.Rule("C05.M", "model conformance probes (M1, M2)", 1)
	probs := append(append([]string{}, reg.Problems...), m.Problems...)
	if len(probs) == 0 {
		r.OK("C05.M", "probes", token.NoPos, "all model probes hold")
	}
	for i, s := range probs {
		r.Unk("C05.M", fmt.Sprintf("probe#%d", i), token.NoPos, "%s", s)
	}

	// ---------------- V1
	r.Rule("C05.V1", "the set of version-gated fields and their ranges equals the reviewed table ref/version_intro.tsv", 61)
	ref, err := readVersionRef(filepath.Join(verifDir, "ref", "version_intro.tsv"))
	if err != nil {
		r.Unk("C05.V1", "ref", token.NoPos, "cannot read reference: %v", err)
	}
	anns := versionAnnotations(p, m)
	seen := map[string]bool{}
	for _, a := range anns {
		seen[a.key] = true
		if a.fp.Err != "" {
			r.Bad("C05.V1", a.key, a.fp.Var.Pos(), "annotation does not parse: %s (the library panics when the type is first used)", a.fp.Err)
			continue
		}
		want, ok := ref[a.key]
		got := canonRange(a.fp.VRange)
		switch {
		case ref == nil:
		case !ok:
			r.Bad("C05.V1", a.key, a.fp.Var.Pos(), "field is gated to %s but the specification table does not list it as version-dependent: a populated element valid at every version would be dropped", got)
		case want != got:
			r.Bad("C05.V1", a.key, a.fp.Var.Pos(), "field is gated to versions %s but the specification introduces it at %s", got, want)
		default:
			r.OK("C05.V1", a.key, a.fp.Var.Pos(), "gated to %s as in the specification table", got)
		}
	}
	var refKeys []string
	for k := range ref {
		refKeys = append(refKeys, k)
	}
	sort.Strings(refKeys)
	for _, k := range refKeys {
		if !seen[k] {
			r.Bad("C05.V1", k, token.NoPos, "the specification introduces %s at %s but the field carries no version annotation (or no longer exists): it would be emitted at earlier versions", k, ref[k])
		}
	}

	// ---------------- V2 gate wiring (SSA of the wrappers)
	r.Rule("C05.V2", "encoder wrapper emits iff versionIn; decoder wrapper skips only under !versionIn && tag mismatch", 2)
	c05Wrapper(r, "applyVersionRangeEncode", true)
	c05Wrapper(r, "applyVersionRangeDecode", false)

	// ---------------- V3 version propagation
	r.Rule("C05.V3", "version state is shared parent->nested coder, created only in newEncoder/newDecoder, written only by setVersion/Clear", 6)
	c05Propagation(r)
	r.Import("C05.V6", "a typed decode that failed is never retried into the generic container (a raw Value carries no version ranges and is written ungated)", 54, "C02", "C02.R8", func(k string) bool { return strings.HasPrefix(k, "kmip.") || strings.HasPrefix(k, "payloads.") })

	// ---------------- V4 header first
	r.Rule("C05.V4", "the set-version field is the first coded field of its header, and the header is the first field of each root message", 4)
	var setVerStructs []*types.Named
	for _, n := range allNamedStructs(p) {
		sp := m.Plan(n)
		for i, fp := range sp.Fields {
			if !fp.SetVersion {
				continue
			}
			setVerStructs = append(setVerStructs, n)
			key := qualName(n) + "." + fp.Name
			if fp.Err != "" {
				r.Bad("C05.V4", key, fp.Var.Pos(), "%s", fp.Err)
			} else if i != 0 {
				r.Bad("C05.V4", key, fp.Var.Pos(), "set-version field is coded at position %d: the %d field(s) before it are gated against the previous/no version", i, i)
			} else if fp.Omit || fp.VRange != nil {
				r.Bad("C05.V4", key, fp.Var.Pos(), "set-version field is optional: when absent the version of the previous message on a reused coder would stay in force")
			} else {
				r.OK("C05.V4", key, fp.Var.Pos(), "first coded field, required, type implements ttlv.Version")
			}
		}
	}
	for _, rootName := range []string{"RequestMessage", "ResponseMessage"} {
		obj := p.Pkg("").Types.Scope().Lookup(rootName)
		if obj == nil {
			r.Unk("C05.V4", "kmip."+rootName, token.NoPos, "anchor missing")
			continue
		}
		n := obj.Type().(*types.Named)
		sp := m.Plan(n)
		ok := false
		if sp != nil && len(sp.Fields) > 0 {
			if fn := namedOf(sp.Fields[0].Type); fn != nil {
				for _, s := range setVerStructs {
					if s == fn && !m.OptionalOnEncode(&sp.Fields[0]) {
						ok = true
					}
				}
			}
		}
		if m.KindOf(n, true) != KStruct || m.KindOf(n, false) != KStruct {
			r.Bad("C05.V4", "kmip."+rootName, obj.Pos(), "root message has a hand-written codec: header-first ordering is not guaranteed by the plan")
		} else if ok {
			r.OK("C05.V4", "kmip."+rootName, obj.Pos(), "first coded field %s carries the set-version field", sp.Fields[0].Name)
		} else {
			r.Bad("C05.V4", "kmip."+rootName, obj.Pos(), "the first coded field of the root message is not the version-setting header: gated fields would be coded before the version is known")
		}
	}

	// ---------------- V5 no bypass
	r.Rule("C05.V5", "no struct carrying version annotations has a hand-written encoder/decoder that would ignore them", 20)
	done := map[*types.Named]bool{}
	for _, a := range anns {
		if done[a.n] {
			continue
		}
		done[a.n] = true
		key := qualName(a.n)
		ke, kd := m.KindOf(a.n, true), m.KindOf(a.n, false)
		kpe, kpd := m.KindOf(types.NewPointer(a.n), true), m.KindOf(types.NewPointer(a.n), false)
		if ke != KStruct || kd != KStruct || kpe == KCustomVal || kpd == KCustomVal {
			r.Bad("C05.V5", key, a.n.Obj().Pos(), "struct has version-gated fields but a hand-written TagEncodeTTLV/TagDecodeTTLV (enc=%s dec=%s): the annotations are bypassed", ke, kd)
		} else {
			r.OK("C05.V5", key, a.n.Obj().Pos(), "coded reflectively in both directions, annotations honoured")
		}
	}
}

// c05Wrapper analyses the closure returned by applyVersionRange{Encode,Decode}.
func c05Wrapper(r *Run, name string, enc bool) {
	p := r.P
	fn := p.Func("ttlv", "", name)
	key := "ttlv." + name
	if fn == nil || len(fn.AnonFuncs) != 1 {
		r.Unk("C05.V2", key, token.NoPos, "anchor missing or not a single-closure wrapper")
		return
	}
	cl := fn.AnonFuncs[0]
	// identify: the free variable holding the wrapped function, the versionIn call, the Tag() call
	var inner *ssa.FreeVar
	for _, fv := range cl.FreeVars {
		t := fv.Type()
		if pt, ok := t.Underlying().(*types.Pointer); ok {
			t = pt.Elem()
		}
		if _, ok := t.Underlying().(*types.Signature); ok {
			inner = fv
		}
	}
	if inner == nil {
		r.Unk("C05.V2", key, cl.Pos(), "wrapped function not found among captured variables")
		return
	}
	paths, ok := enumeratePaths(cl, 64)
	if !ok || len(paths) == 0 {
		r.Unk("C05.V2", key, cl.Pos(), "too many paths")
		return
	}
	isVersionIn := func(v ssa.Value) bool {
		c, ok := v.(*ssa.Call)
		return ok && callID(&c.Call).is(modPath+"/ttlv", "extension", "versionIn")
	}
	isTagNeq := func(v ssa.Value) (neq bool, ok bool) {
		b, isB := v.(*ssa.BinOp)
		if !isB || (b.Op != token.NEQ && b.Op != token.EQL) {
			return false, false
		}
		for _, side := range []ssa.Value{b.X, b.Y} {
			if c, isC := side.(*ssa.Call); isC {
				id := callID(&c.Call)
				if id.name == "Tag" && id.pkg == modPath+"/ttlv" {
					return b.Op == token.NEQ, true
				}
			}
		}
		return false, false
	}
	bad := ""
	nCall, nSkip := 0, 0
	for _, path := range paths {
		callsInner := false
		inRange, outRange, tagMismatch := false, false, false
		for i, b := range path {
			for _, in := range b.Instrs {
				if c := callOf(in); c != nil {
					v := c.Value
					if u, ok := v.(*ssa.UnOp); ok && u.Op == token.MUL {
						v = u.X
					}
					if v == ssa.Value(inner) {
						callsInner = true
					}
				}
			}
			if i+1 < len(path) {
				if cond, isTrue, ok := edgeTaken(b, path[i+1]); ok {
					if isVersionIn(cond) {
						if isTrue {
							inRange = true
						} else {
							outRange = true
						}
					} else if neq, ok := isTagNeq(cond); ok {
						if neq == isTrue {
							tagMismatch = true
						}
					}
				}
			}
		}
		if callsInner {
			nCall++
			if enc && !inRange {
				bad = "a path calls the wrapped encoder without the versionIn test having succeeded: an element would be emitted outside its version range"
			}
		} else {
			nSkip++
			if enc && !outRange {
				bad = "a path skips the wrapped encoder although versionIn did not fail: a populated element valid at this version would be dropped"
			}
			if !enc && !(outRange && tagMismatch) {
				bad = "a path skips decoding without (!versionIn && tag mismatch): a later-version element present on the wire would be suppressed, or a required in-range element treated as optional"
			}
		}
	}
	if bad == "" && (nCall == 0 || nSkip == 0) {
		bad = fmt.Sprintf("wrapper has %d calling and %d skipping paths: no gating", nCall, nSkip)
	}
	if bad != "" {
		r.Bad("C05.V2", key, cl.Pos(), "%s", bad)
	} else {
		r.OK("C05.V2", key, cl.Pos(), "%d paths: wrapped coder runs iff versionIn%s", len(paths), map[bool]string{true: "", false: " (or the element is present)"}[enc])
	}
}

func c05Propagation(r *Run) {
	p := r.P
	tt := p.Pkg("ttlv")
	if tt == nil {
		r.Unk("C05.V3", "ttlv", token.NoPos, "package missing")
		return
	}
	extObj := tt.Types.Scope().Lookup(curTypeName(ttlvPath, "extension"))
	if extObj == nil {
		r.Unk("C05.V3", "ttlv.extension", token.NoPos, "anchor missing")
		return
	}
	// (1) composite literals of Encoder/Decoder: the extension comes from a parent coder,
	//     or is new(extension) inside newEncoder/newDecoder only.
	nLit := 0
	for _, file := range tt.Syntax {
		ast.Inspect(file, func(n ast.Node) bool {
			cl, ok := n.(*ast.CompositeLit)
			if !ok {
				return true
			}
			tv := tt.TypesInfo.Types[cl]
			tn := typeName(tv.Type)
			if (tn != "Encoder" && tn != "Decoder") || typePkgPath(tv.Type) != tt.PkgPath {
				return true
			}
			nLit++
			in := enclosingFuncName(file, cl.Pos())
			key := fmt.Sprintf("ttlv.%s/%s-literal", in, tn)
			if len(cl.Elts) == 0 {
				// zero value: only legitimate as the error-path return of the New*Decoder constructors
				r.Trivial("C05.V3", key, cl.Pos(), "zero %s literal (error return)", tn)
				return true
			}
			var ext ast.Expr
			for i, el := range cl.Elts {
				if kv, ok := el.(*ast.KeyValueExpr); ok {
					if id, ok := kv.Key.(*ast.Ident); ok && id.Name == "extension" {
						ext = kv.Value
					}
				} else if i == 0 {
					ext = el
				}
			}
			if ext == nil {
				r.Bad("C05.V3", key, cl.Pos(), "%s literal without an extension: nested coder loses the protocol version", tn)
				return true
			}
			switch e := ext.(type) {
			case *ast.Ident:
				// a local that holds the parent's pointer: `ext := enc.extension` (assigned once)
				if obj := tt.TypesInfo.Uses[e]; obj != nil {
					nDef, fromParent := 0, false
					ast.Inspect(file, func(n2 ast.Node) bool {
						as, ok := n2.(*ast.AssignStmt)
						if !ok {
							return true
						}
						for i, lhs := range as.Lhs {
							id, ok := lhs.(*ast.Ident)
							if !ok || (tt.TypesInfo.Defs[id] != obj && tt.TypesInfo.Uses[id] != obj) {
								continue
							}
							nDef++
							if i < len(as.Rhs) {
								if se, ok := as.Rhs[i].(*ast.SelectorExpr); ok && se.Sel.Name == "extension" {
									fromParent = true
								}
							}
						}
						return true
					})
					if nDef == 1 && fromParent {
						r.OK("C05.V3", key, cl.Pos(), "nested %s shares its parent's version state (through the local %s)", tn, e.Name)
						return true
					}
				}
			case *ast.SelectorExpr:
				if e.Sel.Name == "extension" {
					r.OK("C05.V3", key, cl.Pos(), "nested %s shares its parent's version state (%s)", tn, types.ExprString(e))
					return true
				}
			case *ast.CallExpr:
				if id, ok := e.Fun.(*ast.Ident); ok && id.Name == "new" && (in == "newEncoder" || in == "newDecoder") {
					r.OK("C05.V3", key, cl.Pos(), "fresh version state in constructor %s", in)
					return true
				}
			}
			r.Bad("C05.V3", key, cl.Pos(), "%s literal takes its version state from %s: a nested coder must share the parent's, and fresh state is created only in newEncoder/newDecoder", tn, types.ExprString(ext))
			return true
		})
	}
	if nLit < 4 {
		r.Unk("C05.V3", "ttlv/literals", token.NoPos, "only %d Encoder/Decoder literals found (expected newEncoder, newDecoder, Encoder.Struct, Decoder.Struct)", nLit)
	}
	// (1b) on the value level: the coder handed to the callback of Encoder.Struct / Decoder.Struct carries the very
	// pointer the parent holds (a copy of the pointed-to state keeps what was known when the structure was opened, but
	// the version recorded by the header's first field is then invisible to the header's siblings: the batch items)
	for _, tn := range []string{"Encoder", "Decoder"} {
		fn := p.Func("ttlv", tn, "Struct")
		key := "ttlv." + tn + ".Struct/callback-shares-state"
		if fn == nil {
			r.Unk("C05.V3", key, token.NoPos, "anchor missing")
			continue
		}
		nCalls, bad := 0, ""
		var badPos token.Pos
		withClosures(fn, func(f *ssa.Function) {
			allInstrs(f, func(in ssa.Instruction) {
				call, ok := in.(*ssa.Call)
				if !ok || call.Call.IsInvoke() || call.Call.StaticCallee() != nil || len(call.Call.Args) != 1 {
					return
				}
				// a dynamic call with a *Encoder / *Decoder argument: the callback
				if typeName(call.Call.Args[0].Type()) != tn {
					return
				}
				nCalls++
				al, ok := call.Call.Args[0].(*ssa.Alloc)
				if !ok {
					bad, badPos = "the callback's coder is not a literal built in place", call.Pos()
					return
				}
				shared := false
				for _, ref := range *al.Referrers() {
					switch x := ref.(type) {
					case *ssa.FieldAddr:
						if x.Field != 0 {
							continue
						}
						for _, r2 := range *x.Referrers() {
							st, ok := r2.(*ssa.Store)
							if !ok || st.Addr != ssa.Value(x) {
								continue
							}
							// value: load of FieldAddr(parent coder, field 0), directly or captured by the callback closure
							val := st.Val
							if ld, isLd := val.(*ssa.UnOp); isLd && ld.Op == token.MUL {
								if fv, isFV := ld.X.(*ssa.FreeVar); isFV {
									// captured by reference: the cell in the enclosing function, assigned once
									if par := f.Parent(); par != nil {
										allInstrs(par, func(i3 ssa.Instruction) {
											mc, ok := i3.(*ssa.MakeClosure)
											if !ok || mc.Fn != ssa.Value(f) {
												return
											}
											for bi, fv2 := range f.FreeVars {
												if fv2 != fv {
													continue
												}
												if cell, ok := mc.Bindings[bi].(*ssa.Alloc); ok {
													n := 0
													for _, ref := range *cell.Referrers() {
														if s2, ok := ref.(*ssa.Store); ok && s2.Addr == ssa.Value(cell) {
															val = s2.Val
															n++
														}
													}
													if n != 1 {
														val = st.Val
													}
												}
											}
										})
									}
								}
							}
							if fv, isFV := val.(*ssa.FreeVar); isFV {
								if par := f.Parent(); par != nil {
									allInstrs(par, func(i3 ssa.Instruction) {
										if mc, ok := i3.(*ssa.MakeClosure); ok && mc.Fn == ssa.Value(f) {
											for bi, fv2 := range f.FreeVars {
												if fv2 == fv {
													val = mc.Bindings[bi]
												}
											}
										}
									})
								}
							}
							if ld, ok := val.(*ssa.UnOp); ok && ld.Op == token.MUL {
								if pf, ok := ld.X.(*ssa.FieldAddr); ok && pf.Field == 0 && typeName(pf.X.Type()) == tn {
									shared = true
								}
							}
						}
					case *ssa.Store:
						// the whole struct stored at once (sub := newEncoder(w); ...): not the parent's pointer
						if x.Addr == ssa.Value(al) {
							if ld, ok := x.Val.(*ssa.UnOp); ok && ld.Op == token.MUL && typeName(ld.X.Type()) == tn {
								if _, isPtr := ld.X.Type().Underlying().(*types.Pointer); isPtr {
									shared = true // sub := *parent copies the pointer field
									continue
								}
							}
							bad, badPos = "the callback's coder is a separately constructed "+tn+" (its version state is a copy, not the parent's)", x.Pos()
						}
					}
				}
				if !shared && bad == "" {
					bad, badPos = "the callback's coder does not take its version state pointer from the parent coder", call.Pos()
				}
			})
		})
		switch {
		case nCalls == 0:
			r.Unk("C05.V3", key, fn.Pos(), "no call of the structure callback found")
		case bad != "":
			r.Bad("C05.V3", key, badPos, "%s.Struct: %s: the version recorded while the header's Protocol Version field is coded stays on the header's coder, so the batch items that follow are coded with no version and elements of later KMIP versions appear in (or are accepted from) messages framed at an earlier one", tn, bad)
		default:
			r.OK("C05.V3", key, fn.Pos(), "the callback receives a coder holding the parent's own version-state pointer")
		}
	}
	// (2) stores to extension.version: only setVersion and Encoder.Clear; setVersion called only from the set-version wrappers
	for _, fn := range p.OwnFuncs() {
		allInstrs(fn, func(in ssa.Instruction) {
			switch x := in.(type) {
			case *ssa.Store:
				if _, fld, ok := fieldAddrOf(x.Addr); ok && fname(fld) == "version" && fld.Pkg() != nil && fld.Pkg().Path() == tt.PkgPath {
					if st := derefStruct(x.Addr.(*ssa.FieldAddr).X.Type()); st != nil && typeName(x.Addr.(*ssa.FieldAddr).X.Type()) == "extension" {
						k := fnKey(fn)
						key := k + "/store-version"
						switch k {
						case "ttlv.extension.setVersion":
							r.OK("C05.V3", key, x.Pos(), "version written by setVersion")
						case "ttlv.Encoder.Clear":
							if isNilConst(x.Val) {
								r.OK("C05.V3", key, x.Pos(), "Clear resets the version to nil")
							} else {
								r.Bad("C05.V3", key, x.Pos(), "Clear stores a non-nil version")
							}
						default:
							r.Bad("C05.V3", key, x.Pos(), "extension.version is written outside setVersion/Clear")
						}
					}
				}
			case *ssa.Call:
				if callID(&x.Call).is(tt.PkgPath, "extension", "setVersion") {
					k := fnKey(fn)
					key := k + "/call-setVersion"
					if strings.HasPrefix(k, "ttlv.applySetVersionEncode$") || strings.HasPrefix(k, "ttlv.applySetVersionDecode$") {
						r.OK("C05.V3", key, x.Pos(), "setVersion called from the set-version wrapper")
					} else {
						r.Bad("C05.V3", key, x.Pos(), "setVersion is called from %s, outside the set-version field wrappers", k)
					}
				}
			}
		})
	}
	// (2b) the set-version wrappers record the version unconditionally: in the encoder every path to the wrapped
	// coder passes setVersion first; in the decoder every return that is not the wrapped decoder's error follows it
	for _, w := range []string{"applySetVersionEncode", "applySetVersionDecode"} {
		bf := p.Func("ttlv", "", w)
		key := "ttlv." + w + "/records-always"
		if bf == nil {
			r.Unk("C05.V3", key, token.NoPos, "anchor missing")
			continue
		}
		var cl *ssa.Function
		for _, af := range bf.AnonFuncs {
			cl = af
		}
		if cl == nil {
			r.Unk("C05.V3", key, bf.Pos(), "wrapper closure not found")
			continue
		}
		var setCalls []ssa.Instruction
		var inner *ssa.Call
		allInstrs(cl, func(in ssa.Instruction) {
			c, ok := in.(*ssa.Call)
			if !ok {
				return
			}
			if callID(&c.Call).is(tt.PkgPath, "extension", "setVersion") {
				setCalls = append(setCalls, in)
			} else if c.Call.StaticCallee() == nil && !c.Call.IsInvoke() && len(c.Call.Args) == 3 {
				inner = c
			}
		})
		paths, okP := enumeratePaths(cl, 256)
		bad := token.NoPos
		for _, path := range paths {
			set, errPath, inf := false, false, false
			setBeforeInner := false
			for i, b := range path {
				for _, in := range b.Instrs {
					for _, sc := range setCalls {
						if in == sc {
							set = true
						}
					}
					if inner != nil && in == ssa.Instruction(inner) && set {
						setBeforeInner = true
					}
				}
				cond, isTrue, ok, infeasible := edgeOnPath(path, i)
				if infeasible {
					inf = true
				}
				if ok {
					if bo, isB := cond.(*ssa.BinOp); isB && isNilConst(bo.Y) && (bo.Op == token.NEQ) == isTrue && types.Identical(bo.X.Type(), types.Universe.Lookup("error").Type()) {
						errPath = true
					}
				}
			}
			if inf || errPath {
				continue
			}
			okPath := set
			if w == "applySetVersionEncode" {
				okPath = setBeforeInner || (set && inner == nil)
			}
			if !okPath {
				last := path[len(path)-1]
				bad = last.Instrs[len(last.Instrs)-1].Pos()
				if !bad.IsValid() {
					bad = cl.Pos()
				}
			}
		}
		switch {
		case !okP || len(setCalls) == 0:
			r.Unk("C05.V3", key, cl.Pos(), "setVersion call / paths of the wrapper not recognised")
		case bad.IsValid():
			r.Bad("C05.V3", key, bad, "%s records the protocol version only under a condition: for the versions that fail it (e.g. minor 0: KMIP 1.0) the coder stays version-less and every element of a later KMIP version is emitted into, or accepted from, a message framed at that version", w)
		default:
			r.OK("C05.V3", key, cl.Pos(), "%d path(s): the version is recorded on every path (before the wrapped encoder / after a successful decode)", len(paths))
		}
	}
	// (3) Clear exists and resets the version
	if cf := p.Func("ttlv", "Encoder", "Clear"); cf == nil {
		r.Unk("C05.V3", "ttlv.Encoder.Clear", token.NoPos, "anchor missing")
	} else {
		resets := false
		allInstrs(cf, func(in ssa.Instruction) {
			if st, ok := in.(*ssa.Store); ok && isNilConst(st.Val) {
				if _, fld, ok := fieldAddrOf(st.Addr); ok && fname(fld) == "version" {
					resets = true
				}
			}
			if st, ok := in.(*ssa.Store); ok && zeroExtensionStore(st) {
				resets = true
			}
		})
		if resets {
			r.OK("C05.V3", "ttlv.Encoder.Clear/resets-version", cf.Pos(), "a cleared encoder carries no version into the next message")
		} else {
			r.Bad("C05.V3", "ttlv.Encoder.Clear/resets-version", cf.Pos(), "Encoder.Clear does not reset the protocol version: the next message on the reused encoder is gated by the previous message's version until its own header is written")
		}
	}
}

// zeroExtensionStore: `*enc.extension = extension{}` — the whole version state overwritten with its zero value.
func zeroExtensionStore(st *ssa.Store) bool {
	pt, ok := st.Addr.Type().Underlying().(*types.Pointer)
	if !ok || typeName(pt.Elem()) != "extension" {
		return false
	}
	if _, isStruct := pt.Elem().Underlying().(*types.Struct); !isStruct {
		return false // a store of nil into the *pointer* field drops the shared state instead of resetting it
	}
	if k, ok := st.Val.(*ssa.Const); ok && k.Value == nil {
		return true
	}
	// a composite literal with no field set: load of a local that nothing stores into
	if ld, ok := st.Val.(*ssa.UnOp); ok && ld.Op == token.MUL {
		if al, ok := ld.X.(*ssa.Alloc); ok {
			for _, ref := range *al.Referrers() {
				switch ref.(type) {
				case *ssa.FieldAddr, *ssa.Store:
					return false
				}
			}
			return true
		}
	}
	return false
}
